(* C13 -- Sample addresses map to the right link-time address in ELF binaries.
   Property theorems only: each is closed by [exact] of a lemma from L_Elf / L_ElfNm and followed by
   Print Assumptions.  Model: M_Elf (elfexec GetBase/kernelBase/ProgramHeadersForMapping/
   HeaderForFileOffset, binutils findProgramHeader/computeBase/ObjAddr, nm addrInfo).
   Specification: S_Elf (loader model [image]/[load]/[pieceb], "address - bias", symbol lookup). *)
From PV Require Import M_Elf S_Elf L_Elf L_ElfNm L_ElfSess L_ElfConv M_ElfGlue S_ElfGlue L_ElfGlue.
Open Scope Z_scope.

(* [loaded_at ef bias m a p]: ef is ET_DYN/ET_EXEC, p is a linker-made PT_LOAD segment (file bytes,
   offset = vaddr mod page), bias is page aligned and the image lies in the user half of the address
   space, m is a non-empty page-aligned piece of the mapping the kernel creates for p at that bias,
   a lies in m and is one of p's own bytes [bias+Vaddr, bias+Vaddr+Memsz), m.start > 0. *)

(* -- every address is translated to runtime address - load bias (or an error) -- *)
Theorem user_base_is_bias : forall ef bias m a p v,
  In p (e_progs ef) -> loaded_at ef bias m a p = true -> in_F23 ef p bias m = false ->
  obj_addr (Some m) true ef a = Ok v -> v = a - bias.
Proof. exact user_base_is_bias_lemma. Qed.
Print Assumptions user_base_is_bias.

(* F23: without the hypothesis the statement is false on the unchanged tree *)
Theorem user_base_is_bias_refuted :
  exists ef bias m a p v,
    In p (e_progs ef) /\ loaded_at ef bias m a p = true /\ in_F23 ef p bias m = true /\
    obj_addr (Some m) true ef a = Ok v /\ v <> a - bias.
Proof. exact user_base_is_bias_refuted_lemma. Qed.
Print Assumptions user_base_is_bias_refuted.

(* the own-bytes hypothesis is forced by the arithmetic: an address in the page padding a mapping
   shares with the neighbouring segment's file bytes selects the neighbour's header *)
Theorem own_bytes_hypothesis_needed :
  exists ef bias m a p v,
    In p (e_progs ef) /\ user_elfb ef = true /\ seg_okb p = true /\ load_okb p bias = true /\
    pieceb m (image p bias) = true /\ in_map m a = true /\ ownb p bias a = false /\
    in_F23 ef p bias m = false /\
    obj_addr (Some m) true ef a = Ok v /\ v <> a - bias.
Proof. exact own_bytes_hypothesis_needed_lemma. Qed.
Print Assumptions own_bytes_hypothesis_needed.

(* -- the owning segment is among the candidates, for every split of its image -- *)
Theorem owner_in_headers : forall ef bias m a p,
  loaded_at ef bias m a p = true -> In p (e_progs ef) ->
  In p (program_headers_for_mapping (load_headers ef) (em_offset m) (usub (em_limit m) (em_start m))).
Proof. exact owner_in_headers_lemma. Qed.
Print Assumptions owner_in_headers.

(* whether a header is a candidate depends on that header and the mapping only, not on its position
   in the table or on the other entries (ELF orders PT_LOAD by vaddr; file offsets need not ascend) *)
Theorem headers_for_mapping_membership : forall phdrs mapOff mapSz p,
  In p (program_headers_for_mapping phdrs mapOff mapSz) <-> In p phdrs /\ phm_keep mapOff mapSz p = true.
Proof. exact phm_membership_lemma. Qed.
Print Assumptions headers_for_mapping_membership.

Theorem headers_for_mapping_permutation : forall phdrs phdrs' mapOff mapSz,
  Permutation.Permutation phdrs phdrs' ->
  Permutation.Permutation (program_headers_for_mapping phdrs mapOff mapSz) (program_headers_for_mapping phdrs' mapOff mapSz).
Proof. exact phm_permutation_lemma. Qed.
Print Assumptions headers_for_mapping_permutation.

(* -- HeaderForFileOffset returns the owner or an error, never another header -- *)
Theorem unique_or_error : forall hs fo h p,
  In p hs -> off_in_header fo p = true -> header_for_file_offset hs fo = Ok h -> h = p.
Proof. exact hffo_unique. Qed.
Print Assumptions unique_or_error.

Theorem header_for_file_offset_matches : forall hs fo h,
  header_for_file_offset hs fo = Ok h -> In h hs /\ off_in_header fo h = true.
Proof. exact hffo_result_matches. Qed.
Print Assumptions header_for_file_offset_matches.

Theorem owner_or_error : forall ef bias m a p,
  loaded_at ef bias m a p = true -> In p (e_progs ef) ->
  find_program_header m ef a = Ok (Some p) \/ exists e, find_program_header m ef a = Err e.
Proof. exact find_program_header_owner. Qed.
Print Assumptions owner_or_error.

(* -- an error only when the owner is not identifiable: if p is the only PT_LOAD header whose file
      range contains the file offset of the address, the translation succeeds -- *)
Theorem identified_owner_succeeds : forall ef bias m a p,
  In p (e_progs ef) -> loaded_at ef bias m a p = true -> in_F23 ef p bias m = false ->
  sole_owner ef p bias a = true ->
  obj_addr (Some m) true ef a = Ok (a - bias).
Proof. exact identified_owner_succeeds_lemma. Qed.
Print Assumptions identified_owner_succeeds.

(* -- the evaluated checkers (the ones bin/check applies to the implementation's answers) accept
      the model on every input outside F23 -- *)
Theorem obj_addr_meets_spec : forall ef bias m a,
  any_F23 ef bias m a = false ->
  spec_obj_addr ef bias m a (obj_addr (Some m) true ef a) = true /\
  spec_obj_addr_live ef bias m a (obj_addr (Some m) true ef a) = true.
Proof. exact obj_addr_meets_spec_lemma. Qed.
Print Assumptions obj_addr_meets_spec.

(* base is computed once, from the first address: every later address gets the same bias *)
Theorem obj_addr_seq_meets_spec : forall ef bias m addrs,
  match addrs with a0 :: _ => any_F23 ef bias m a0 = false | [] => True end ->
  spec_obj_addr_seq ef bias m addrs (obj_addr_seq (Some m) true ef addrs) = true.
Proof. exact obj_addr_seq_meets_spec_lemma. Qed.
Print Assumptions obj_addr_seq_meets_spec.

(* -- the loader model: an own file byte is inside the image and is mapped from its file offset -- *)
Theorem image_maps_file_offsets : forall p bias a,
  seg_okb p = true -> load_okb p bias = true ->
  bias + ph_vaddr p <= a < bias + ph_vaddr p + ph_filesz p ->
  in_map (image p bias) a = true /\
  em_offset (image p bias) + (a - em_start (image p bias)) = ph_off p + (a - (bias + ph_vaddr p)).
Proof. exact image_maps_file_offsets_lemma. Qed.
Print Assumptions image_maps_file_offsets.

(* a [loaded_at] mapping is a piece of one of the mappings the loader model produces *)
Theorem mapping_is_piece_of_load : forall ef bias m a p,
  In p (e_progs ef) -> loaded_at ef bias m a p = true ->
  exists img, In img (load ef bias) /\ pieceb m img = true.
Proof. exact mapping_is_piece_of_load_lemma. Qed.
Print Assumptions mapping_is_piece_of_load.

(* -- symbol lookup -- *)
Theorem addr_info_greatest_le : forall m a n, sortedb m = true -> addr_info m a = Some n ->
  exists s, In s m /\ sy_name s = n /\ sy_addr s <= a /\
            (forall s', In s' m -> sy_addr s' <= a -> sy_addr s' <= sy_addr s) /\
            (sym_is_data s = true -> a < sym_end s).
Proof. exact addr_info_greatest_le_lemma. Qed.
Print Assumptions addr_info_greatest_le.

Theorem addr_info_none_reason : forall m a, sortedb m = true -> addr_info m a = None ->
  m = [] \/ (forall s, In s m -> a < sy_addr s) \/
  sym_end (sym_at m (List.length m - 1)) <= a \/
  exists s, In s m /\ sy_addr s <= a /\
            (forall s', In s' m -> sy_addr s' <= a -> sy_addr s' <= sy_addr s) /\
            sym_is_data s = true /\ sym_end s <= a.
Proof. exact addr_info_none_lemma. Qed.
Print Assumptions addr_info_none_reason.

Theorem addr_info_meets_spec : forall m a, spec_addr_info m a (addr_info m a) = true.
Proof. exact addr_info_meets_spec_lemma. Qed.
Print Assumptions addr_info_meets_spec.

Theorem binary_search_terminates : forall m a k,
  bsearch (List.length m + k) m a 0 (List.length m) = bsearch (List.length m) m a 0 (List.length m).
Proof. exact binary_search_terminates_lemma. Qed.
Print Assumptions binary_search_terminates.

(* -- addr2line names repaired from nm: the table attached to an addr2Liner is keyed by runtime
      addresses (link address + base) and is asked about the runtime address itself; the frames
      returned are the replacement rule applied to an answer the lookup specification accepts for
      that runtime address -- *)
Theorem a2l_fixup_meets_spec : forall base raw addr stack,
  spec_a2l_fixup (shift_syms base raw) addr stack
                 (a2l_addr_info base (Some (shift_syms base raw)) addr stack) = true.
Proof. exact a2l_fixup_meets_spec_lemma. Qed.
Print Assumptions a2l_fixup_meets_spec.

Theorem a2l_without_nm_unchanged : forall base addr stack, a2l_addr_info base None addr stack = stack.
Proof. exact a2l_no_nm_lemma. Qed.
Print Assumptions a2l_without_nm_unchanged.

(* -- sessions: one Binutils object, many Open / ObjAddr calls.  [session_from files hs evs] runs
      the events from a state [hs] (one entry per Open so far) -- *)
(* Open appends a fresh, independent object behind the existing ones *)
Theorem session_open_fresh : forall files hs fi s l o,
  match open_elf (nth fi files elf0) s l o with
  | Ok m => session_step files hs (SOpen fi s l o) = ((hs ++ [HOpen fi m None])%list, OOpen None) /\
            nth_error (hs ++ [HOpen fi m None]) (List.length hs) = Some (HOpen fi m None) /\
            m = {| em_start := s; em_limit := l; em_offset := o; em_koff := None |}
  | Err c => session_step files hs (SOpen fi s l o) = ((hs ++ [HFail])%list, OOpen (Some c))
  end.
Proof. exact session_open_fresh_lemma. Qed.
Print Assumptions session_open_fresh.

(* whatever the session does afterwards (other Opens of the same or of other files, questions to
   other objects, configuration changes), a fresh object answers exactly as a stand-alone file *)
Theorem session_handle_independent : forall files evs hs h fi m,
  nth_error hs h = Some (HOpen fi m None) ->
  answers_of h evs (session_from files hs evs) = obj_addr_seq (Some m) true (nth fi files elf0) (addrs_of h evs).
Proof. exact session_handle_independent_lemma. Qed.
Print Assumptions session_handle_independent.

(* hence "address - bias" per object holds along every history (outside F23) *)
Theorem session_handle_meets_spec : forall files evs hs h fi m bias,
  nth_error hs h = Some (HOpen fi m None) ->
  match addrs_of h evs with a0 :: _ => any_F23 (nth fi files elf0) bias m a0 = false | [] => True end ->
  spec_handle (nth fi files elf0) bias m (addrs_of h evs) (answers_of h evs (session_from files hs evs)) = true.
Proof. exact session_handle_meets_spec_lemma. Qed.
Print Assumptions session_handle_meets_spec.

(* a loader-made mapping of a user-space object can always be opened *)
Theorem open_elf_user_ok : forall ef s l o,
  user_elfb ef = true -> 0 < s < two63 -> exists m, open_elf ef s l o = Ok m.
Proof. exact open_elf_user_ok_lemma. Qed.
Print Assumptions open_elf_user_ok.

(* -- conversations with a symbolizer tool over one pipe.  [a2l_tool_ok]: the tool prints nothing
      for the sentinel but "??" / "??:0" and no function line that looks like an address echo -- *)
(* after every request the pipe is drained, so the k-th answer is the tool's answer for the k-th
   address minus base, whatever was asked before (unknown addresses, inlined frames, repeats) *)
Theorem conversation_paired : forall tool base nm addrs, a2l_tool_ok tool ->
  a2l_conversation tool base nm [] addrs = (map (conv_answer tool base nm) addrs, []).
Proof. exact conversation_paired_lemma. Qed.
Print Assumptions conversation_paired.

Theorem conversation_meets_spec : forall tool base raw hasnm addrs, a2l_tool_ok tool ->
  let nm := if hasnm : bool then Some (shift_syms base raw) else None in
  spec_conv tool base nm addrs (fst (a2l_conversation tool base nm [] addrs)) = true /\
  snd (a2l_conversation tool base nm [] addrs) = [].
Proof. exact conversation_meets_spec_lemma. Qed.
Print Assumptions conversation_meets_spec.

Theorem llvm_conversation_paired : forall tool base addrs,
  llvm_conversation tool base [] addrs = (map (fun a => Ok (llvm_answer tool (tool_addr base a))) addrs, []) /\
  spec_conv_llvm tool base addrs (fst (llvm_conversation tool base [] addrs)) = true.
Proof. exact llvm_conversation_paired_lemma. Qed.
Print Assumptions llvm_conversation_paired.

(* -- the glue around the core (M_ElfGlue): which file, which mapping, which bias reach it -- *)
(* locateBinaries: when the profile records a build id, a file of the search path replaces the
   recorded file only if it carries that build id *)
Theorem locate_build_id : forall files m,
  gm_buildid m <> ""%string ->
  locate_file files m = gm_rec m \/ gf_buildid (file_at files (locate_file files m)) = gm_buildid m.
Proof. exact locate_build_id_lemma. Qed.
Print Assumptions locate_build_id.

(* profile.Merge: a source mapping lands in a merged mapping with the same key (size rounded to
   4K, offset, build id or file) and its addresses are rebased by the difference of the starts *)
Theorem merge_mapping_same_key : forall ms src ms' i d,
  map_mapping ms src = (ms', i, d) ->
  exists g, nth_error ms' i = Some g /\ key_eqb (mm_key g) (mm_key src) = true /\ d = mm_start g - mm_start src.
Proof. exact map_mapping_spec. Qed.
Print Assumptions merge_mapping_same_key.

(* two runs of one object at biases bs and bg, mappings of the same segment with the same file
   offset: the rebased address is the same link-time address in the merged mapping's address space *)
Theorem rebase_preserves_link : forall p bg bs g src a,
  pieceb (emap_of_mm g) (image p bg) = true -> pieceb (emap_of_mm src) (image p bs) = true ->
  mm_offset g = mm_offset src ->
  (a + (mm_start g - mm_start src)) - bg = a - bs.
Proof. exact rebase_preserves_link_lemma. Qed.
Print Assumptions rebase_preserves_link.

(* symbolization of one (merged) mapping in fast mode: asked first about an own byte of its
   identifiable owner segment, every location is looked up in the nm table shifted by the load bias *)
Theorem symbolize_mapping_bias : forall files m f bias p a0 rest,
  0 <= mm_file m -> f = file_at files (mm_file m) ->
  (mm_buildid m = ""%string \/ gf_buildid f = ""%string \/ gf_buildid f = mm_buildid m) ->
  In p (e_progs (gf_elf f)) -> loaded_at (gf_elf f) bias (emap_of_mm m) a0 p = true ->
  in_F23 (gf_elf f) p bias (emap_of_mm m) = false -> sole_owner (gf_elf f) p bias a0 = true ->
  symbolize_mapping files m (a0 :: rest) =
  map (fun a => (a, addr_info (shift_syms bias (gf_syms f)) a)) (a0 :: rest).
Proof. exact symbolize_mapping_bias_lemma. Qed.
Print Assumptions symbolize_mapping_bias.

(* ... and the name found there is a symbol with the greatest start not above the LINK-TIME
   address a - bias (data symbols: within their size) *)
Theorem fast_lookup_link_address : forall bias syms a n,
  0 <= bias -> syms_fit bias syms -> sortedb syms = true ->
  addr_info (shift_syms bias syms) a = Some n ->
  exists s, In s syms /\ sy_name s = n /\ sy_addr s <= a - bias /\
            (forall s', In s' syms -> sy_addr s' <= a - bias -> sy_addr s' <= sy_addr s) /\
            (sym_is_data s = true -> a - bias < sy_addr s + sy_size s).
Proof. exact fast_lookup_link_address_lemma. Qed.
Print Assumptions fast_lookup_link_address.

(* -- legacy profiles: massageMappings merges adjacent memory-map entries -- *)
(* two adjacent entries that are pieces of one segment image are accepted as adjacent ... *)
Theorem pieces_adjacent : forall lm m img,
  pieceb (emap_of_gm lm) img = true -> pieceb (emap_of_gm m) img = true -> gm_limit lm = gm_start m ->
  gm_name lm = gm_name m -> gm_buildid lm = gm_buildid m ->
  0 <= gm_offset lm -> gm_offset lm + (gm_limit lm - gm_start lm) < two64 -> 0 <= gm_limit lm - gm_start lm < two64 ->
  adjacent lm m = true.
Proof. exact pieces_adjacent_lemma. Qed.
Print Assumptions pieces_adjacent.

(* ... and the merged entry is again a piece of that image, with the start - offset of both parts
   (the quantity the base is computed from) *)
Theorem merge_adjacent_piece : forall lm m img,
  pieceb (emap_of_gm lm) img = true -> pieceb (emap_of_gm m) img = true -> gm_limit lm = gm_start m ->
  pieceb (emap_of_gm (merge_adjacent lm m)) img = true /\
  gm_start (merge_adjacent lm m) - gm_offset (merge_adjacent lm m) = gm_start lm - gm_offset lm /\
  gm_start (merge_adjacent lm m) - gm_offset (merge_adjacent lm m) = gm_start m - gm_offset m.
Proof. exact merge_adjacent_piece_lemma. Qed.
Print Assumptions merge_adjacent_piece.

(* -- the hypotheses are satisfiable -- *)
(* exe_linux_64 of binutils_test.go (LOAD off 0 vaddr 0x400000 filesz 0x6fc R E; LOAD off 0xe10 vaddr
   0x600e10 filesz 0x230 memsz 0x238 RW) as a PIE image at bias 0x555555554000 *)
Definition ex_text : phdr := {| ph_type := 1; ph_flags := 5; ph_off := 0; ph_vaddr := 4194304; ph_filesz := 1788; ph_memsz := 1788 |}.
Definition ex_data : phdr := {| ph_type := 1; ph_flags := 6; ph_off := 3600; ph_vaddr := 6295056; ph_filesz := 560; ph_memsz := 568 |}.
Definition ex_elf : elf := {| e_type := ET_DYN; e_progs := [ex_text; ex_data]; e_sections := [(".text", 4195328)]%string |}.
Definition ex_bias : Z := 93824992231424.
Example ex_loaded_at :
  loaded_at ex_elf ex_bias (image ex_text ex_bias) (ex_bias + 4195328) ex_text = true /\
  in_F23 ex_elf ex_text ex_bias (image ex_text ex_bias) = false /\
  sole_owner ex_elf ex_text ex_bias (ex_bias + 4195328) = true /\
  obj_addr (Some (image ex_text ex_bias)) true ex_elf (ex_bias + 4195328) = Ok 4195328.
Proof. vm_compute. repeat split; reflexivity. Qed.

Example ex_sorted :
  let tab := [ {| sy_addr := 4096; sy_size := 16; sy_name := "f"; sy_type := "T" |};
               {| sy_addr := 4128; sy_size := 8; sy_name := "d"; sy_type := "D" |} ]%string in
  sortedb tab = true /\ addr_info tab 4100 = Some "f"%string /\ addr_info tab 4136 = None.
Proof. vm_compute. repeat split; reflexivity. Qed.

(* base 0x100: the runtime address 0x1250 lies in "_ZN3foo3barEv" (link 0x1100 + base); a table lookup
   at address - base would have found "_ZN3foo3bazEv" *)
Example ex_a2l_fixup :
  let raw := [ {| sy_addr := 4096; sy_size := 256; sy_name := "_ZN3foo3bazEv"; sy_type := "T" |};
               {| sy_addr := 4352; sy_size := 256; sy_name := "_ZN3foo3barEv"; sy_type := "T" |} ]%string in
  sortedb (shift_syms 256 raw) = true /\
  a2l_addr_info 256 (Some (shift_syms 256 raw)) 4688 ["inl"; "_ZN3foo"]%string = ["inl"; "_ZN3foo3barEv"]%string.
Proof. vm_compute. split; reflexivity. Qed.

(* tiny object (text and data share file page 0, both mapped from offset 0 for one page): the data
   mapping is opened and asked first, then the text mapping -- each gets its own answer *)
Example ex_session_data_then_text :
  let ef := {| e_type := ET_DYN;
               e_progs := [{| ph_type := 1; ph_flags := 5; ph_off := 0; ph_vaddr := 0; ph_filesz := 3200; ph_memsz := 3200 |};
                           {| ph_type := 1; ph_flags := 6; ph_off := 3200; ph_vaddr := 2100352; ph_filesz := 496; ph_memsz := 496 |}];
               e_sections := [] |} in
  let b := 139887348482048 in
  session_run [ef] [SOpen 0 (b + 2097152) (b + 2101248) 0; SAddr 0 (b + 2100480);
                    SOpen 0 b (b + 4096) 0; SAddr 1 (b + 1024); SAddr 0 (b + 2100352)]
  = [OOpen None; OAddr (Ok 2100480); OOpen None; OAddr (Ok 1024); OAddr (Ok 2100352)].
Proof. vm_compute. reflexivity. Qed.

(* an unknown address (0x1010: the tool prints ?? / ??:0) in the middle of a conversation *)
Example ex_conversation :
  let tool : a2l_tool := fun x => if x =? 4416 then [("alpha", "a.c:10")] else if x =? 4480 then [("beta", "b.c:20")] else [] in
  let b := 93824992231424 in
  a2l_conversation tool b None [] [b + 4416; b + 4112; b + 4480; b + 4416]
  = ([Ok [{| fr_func := "alpha"; fr_file := "a.c"; fr_line := 10 |}]; Ok [];
      Ok [{| fr_func := "beta"; fr_file := "b.c"; fr_line := 20 |}];
      Ok [{| fr_func := "alpha"; fr_file := "a.c"; fr_line := 10 |}]], [])%string.
Proof. vm_compute. reflexivity. Qed.
