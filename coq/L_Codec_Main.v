(* C01 main theorem: parse_uncompressed (serialize p) = Ok (normalize p) for every valid,
   units-well-formed profile whose encoding fits the uint64 length prefixes. *)
From Coq Require Import Lia ZifyBool.
From PV Require Import M_Codec S_Codec L_Codec_Wire L_Codec_Msg L_Codec_Tab L_Codec_Assoc L_Codec_Regroup.
Open Scope string_scope.
Open Scope list_scope.
Open Scope Z_scope.

(* ---------- generic table-threading components ---------- *)
Definition comp_ok {A R} (pre : list string -> A -> list string * R) (post : list string -> R -> res A)
           (ixr : Z -> R -> Prop) (x : A) : Prop :=
  forall tab tab' r, tab_inv tab -> pre tab x = (tab', r) ->
    tab_inv tab' /\ prefix tab tab' /\ ixr (len tab') r /\ forall tabF, prefix tab' tabF -> post tabF r = Ok x.

Lemma pre_list_ok {A R} (pre : list string -> A -> list string * R) post (ixr : Z -> R -> Prop) :
  (forall n m r, ixr n r -> n <= m -> ixr m r) ->
  forall l, Forall (comp_ok pre post ixr) l ->
  forall tab tab' rs, tab_inv tab -> pre_list pre tab l = (tab', rs) ->
    tab_inv tab' /\ prefix tab tab' /\ Forall (ixr (len tab')) rs /\
    forall tabF, prefix tab' tabF -> map_res (post tabF) rs = Ok l.
Proof.
  intros MONO. induction l as [|x l IH]; intros HC tab tab' rs I H; cbn [pre_list] in H.
  - inversion H; subst. split; [exact I|]. split; [apply prefix_refl|]. split; [constructor|]. reflexivity.
  - inversion HC as [|? ? Hx Hl]; subst.
    destruct (pre tab x) as [t1 r1] eqn:E1. destruct (pre_list pre t1 l) as [t2 r2] eqn:E2.
    inversion H; subst tab' rs. clear H.
    destruct (Hx tab t1 r1 I E1) as (I1 & P1 & X1 & G1).
    destruct (IH Hl t1 t2 r2 I1 E2) as (I2 & P2 & X2 & G2).
    split; [exact I2|]. split; [eapply prefix_trans; eauto|].
    split; [constructor; [eapply MONO; [exact X1|apply prefix_len, P2]|exact X2]|].
    intros tabF PF. cbn [map_res]. rewrite (G1 tabF (prefix_trans _ _ _ P2 PF)). cbn [bind].
    rewrite (G2 tabF PF). reflexivity.
Qed.

(* instances *)
Definition ix_vt (n : Z) (v : rvaluetype) : Prop := ix n (rvt_type v) /\ ix n (rvt_unit v).
Lemma valuetype_comp v : comp_ok pre_valuetype post_valuetype ix_vt v.
Proof.
  intros tab tab' r I H. unfold pre_valuetype in H.
  destruct (add_string tab (vt_type v)) as [t1 a] eqn:E1. destruct (add_string t1 (vt_unit v)) as [t2 b] eqn:E2.
  inversion H; subst tab' r. clear H.
  destruct (add_string_spec _ _ _ _ I E1) as (I1 & P1 & R1 & N1 & _).
  destruct (add_string_spec _ _ _ _ I1 E2) as (I2 & P2 & R2 & N2 & _).
  split; [exact I2|]. split; [eapply prefix_trans; eauto|].
  split; [split; cbn; [eapply ix_mono; [exact R1|apply prefix_len, P2]|exact R2]|].
  intros tabF PF. unfold post_valuetype. cbn [rvt_type rvt_unit].
  rewrite (get_string_prefix t1 tabF a (vt_type v)) by (eauto using prefix_trans || (unfold ix in *; lia)).
  cbn [bind]. rewrite (get_string_prefix t2 tabF b (vt_unit v)) by (auto; unfold ix in *; lia).
  cbn [bind]. destruct v; reflexivity.
Qed.

Definition ix_mapping (n : Z) (m : rmapping) : Prop := ix n (rm_file m) /\ ix n (rm_buildid m).
Lemma mapping_comp m : comp_ok pre_mapping post_mapping ix_mapping m.
Proof.
  intros tab tab' r I H. unfold pre_mapping in H.
  destruct (add_string tab (m_file m)) as [t1 a] eqn:E1. destruct (add_string t1 (m_buildid m)) as [t2 b] eqn:E2.
  inversion H; subst tab' r. clear H.
  destruct (add_string_spec _ _ _ _ I E1) as (I1 & P1 & R1 & N1 & _).
  destruct (add_string_spec _ _ _ _ I1 E2) as (I2 & P2 & R2 & N2 & _).
  split; [exact I2|]. split; [eapply prefix_trans; eauto|].
  split; [split; cbn; [eapply ix_mono; [exact R1|apply prefix_len, P2]|exact R2]|].
  intros tabF PF. unfold post_mapping.
  cbn [rm_id rm_start rm_limit rm_offset rm_file rm_buildid rm_hasfn rm_hasfile rm_hasline rm_hasinline].
  rewrite (get_string_prefix t1 tabF a (m_file m)) by (eauto using prefix_trans || (unfold ix in *; lia)).
  cbn [bind]. rewrite (get_string_prefix t2 tabF b (m_buildid m)) by (auto; unfold ix in *; lia).
  cbn [bind]. destruct m; reflexivity.
Qed.

Definition ix_function (n : Z) (f : rfunction) : Prop := ix n (rf_name f) /\ ix n (rf_sysname f) /\ ix n (rf_file f).
Lemma function_comp f : comp_ok pre_function post_function ix_function f.
Proof.
  intros tab tab' r I H. unfold pre_function in H.
  destruct (add_string tab (f_name f)) as [t1 a] eqn:E1. destruct (add_string t1 (f_sysname f)) as [t2 b] eqn:E2.
  destruct (add_string t2 (f_file f)) as [t3 c] eqn:E3.
  inversion H; subst tab' r. clear H.
  destruct (add_string_spec _ _ _ _ I E1) as (I1 & P1 & R1 & N1 & _).
  destruct (add_string_spec _ _ _ _ I1 E2) as (I2 & P2 & R2 & N2 & _).
  destruct (add_string_spec _ _ _ _ I2 E3) as (I3 & P3 & R3 & N3 & _).
  pose proof (prefix_len _ _ P2). pose proof (prefix_len _ _ P3).
  split; [exact I3|]. split; [eapply prefix_trans; [exact P1|]; eapply prefix_trans; eauto|].
  split; [split; [|split]; cbn; unfold ix in *; lia|].
  intros tabF PF. unfold post_function. cbn [rf_id rf_name rf_sysname rf_file rf_startline].
  assert (PF2 : prefix t2 tabF) by (eapply prefix_trans; eauto).
  assert (PF1 : prefix t1 tabF) by (eapply prefix_trans; eauto).
  rewrite (get_string_prefix t1 tabF a (f_name f)) by (auto; unfold ix in *; lia). cbn [bind].
  rewrite (get_string_prefix t2 tabF b (f_sysname f)) by (auto; unfold ix in *; lia). cbn [bind].
  rewrite (get_string_prefix t3 tabF c (f_file f)) by (auto; unfold ix in *; lia). cbn [bind].
  destruct f; reflexivity.
Qed.

Lemma string_comp s : comp_ok add_string get_string ix s.
Proof.
  intros tab tab' i I H. destruct (add_string_spec _ _ _ _ I H) as (I1 & P1 & R1 & N1 & _).
  split; [exact I1|]. split; [exact P1|]. split; [exact R1|].
  intros tabF PF. eapply get_string_prefix; [exact PF|unfold ix in R1; lia|exact N1].
Qed.

Lemma ix_vt_mono n m r : ix_vt n r -> n <= m -> ix_vt m r.
Proof. intros [A B] H. split; eapply ix_mono; eauto. Qed.
Lemma ix_mapping_mono n m r : ix_mapping n r -> n <= m -> ix_mapping m r.
Proof. intros [A B] H. split; eapply ix_mono; eauto. Qed.
Lemma ix_function_mono n m r : ix_function n r -> n <= m -> ix_function m r.
Proof. intros (A & B & C) H. repeat split; eapply ix_mono; eauto. Qed.
Lemma ix_mono' n m (r : Z) : ix n r -> n <= m -> ix m r. Proof. apply ix_mono. Qed.

(* ids survive pre_list *)
Lemma pre_mapping_ids : forall l tab, map rm_id (snd (pre_list pre_mapping tab l)) = map m_id l.
Proof.
  induction l as [|m l IH]; intros tab; cbn [pre_list]; [reflexivity|].
  destruct (pre_mapping tab m) as [t1 r1] eqn:E1. specialize (IH t1). destruct (pre_list pre_mapping t1 l) as [t2 r2].
  cbn [snd map] in *. rewrite IH. f_equal. unfold pre_mapping in E1.
  destruct (add_string tab (m_file m)) as [? ?]. destruct (add_string _ (m_buildid m)) as [? ?]. inversion E1. reflexivity.
Qed.
Lemma pre_function_ids : forall l tab, map rf_id (snd (pre_list pre_function tab l)) = map f_id l.
Proof.
  induction l as [|m l IH]; intros tab; cbn [pre_list]; [reflexivity|].
  destruct (pre_function tab m) as [t1 r1] eqn:E1. specialize (IH t1). destruct (pre_list pre_function t1 l) as [t2 r2].
  cbn [snd map] in *. rewrite IH. f_equal. unfold pre_function in E1.
  destruct (add_string tab (f_name m)) as [? ?]. destruct (add_string _ (f_sysname m)) as [? ?].
  destruct (add_string _ (f_file m)) as [? ?]. inversion E1. reflexivity.
Qed.

(* ---------- numeric payloads of emitted labels are the sample's own values ---------- *)
Lemma is_i64_0 : is_i64 0. Proof. unfold is_i64, two63. lia. Qed.

Lemma pre_strlabels_nums k : forall vs tab, Forall (fun l => is_i64 (rl_num l)) (snd (pre_strlabels tab k vs)).
Proof.
  induction vs as [|v r IH]; intros tab; cbn [pre_strlabels]; [constructor|].
  destruct (add_string tab k) as [t1 kx]. destruct (add_string t1 v) as [t2 sx].
  specialize (IH t2). destruct (pre_strlabels t2 k r) as [t3 rest]. cbn [snd] in *.
  constructor; [apply is_i64_0|exact IH].
Qed.

Lemma pre_strkeys_nums : forall l tab, Forall (fun x => is_i64 (rl_num x)) (snd (pre_strkeys tab l)).
Proof.
  induction l as [|[k vs] r IH]; intros tab; cbn [pre_strkeys]; [constructor|].
  pose proof (pre_strlabels_nums k vs tab) as A. destruct (pre_strlabels tab k vs) as [t1 a].
  specialize (IH t1). destruct (pre_strkeys t1 r) as [t2 b]. cbn [snd] in *. apply Forall_app. split; assumption.
Qed.

Lemma pre_numlabels_nums kx : forall vs us i tab tab' ls,
  Forall is_i64 vs -> pre_numlabels tab kx vs us i = Ok (tab', ls) -> Forall (fun l => is_i64 (rl_num l)) ls.
Proof.
  induction vs as [|v r IH]; intros us i tab tab' ls HV H; cbn [pre_numlabels] in H.
  - inversion H. constructor.
  - inversion HV as [|? ? H1 H2]; subst.
    destruct (match us with [] => Ok (tab, 0) | _ :: _ => match nth_error us i with Some u => Ok (add_string tab u) | None => Panic 201 end end)
      as [[t1 ux]|c|c]; cbn [bind] in H; try discriminate.
    destruct (pre_numlabels t1 kx r us (S i)) as [[t2 rest]|c|c] eqn:E2; cbn [bind] in H; try discriminate.
    inversion H; subst. constructor; [exact H1|]. eapply IH; eauto.
Qed.

Lemma pre_numkeys_nums units : forall l tab tab' ls,
  Forall (fun e => Forall is_i64 (snd e)) l -> pre_numkeys tab l units = Ok (tab', ls) ->
  Forall (fun x => is_i64 (rl_num x)) ls.
Proof.
  induction l as [|[k vs] r IH]; intros tab tab' ls HV H; cbn [pre_numkeys] in H.
  - inversion H. constructor.
  - inversion HV as [|? ? H1 H2]; subst. cbn [snd] in H1.
    destruct (add_string tab k) as [t1 kx].
    destruct (pre_numlabels t1 kx vs _ 0) as [[t2 a]|c|c] eqn:E2; cbn [bind] in H; try discriminate.
    destruct (pre_numkeys t2 r units) as [[t3 b]|c|c] eqn:E3; cbn [bind] in H; try discriminate.
    inversion H; subst. apply Forall_app. split; [eapply pre_numlabels_nums; eauto|eapply IH; eauto].
Qed.

(* ---------- samples ---------- *)
Definition sample_ok (locids : list Z) (s : sample) : Prop :=
  keys_sorted (s_label s) = true /\ keys_sorted (s_numlabel s) = true /\
  Forall (units_wf_key (s_numunit s)) (s_numlabel s) /\
  (forall id, In id (s_loc s) -> existsb (Z.eqb id) locids = true) /\
  Forall (fun e => Forall is_i64 (snd e)) (s_numlabel s).

Definition raw_sample_ok (n : Z) (s : sample) (rs : rsample) : Prop :=
  rs_loc rs = s_loc s /\ rs_val rs = s_val s /\ Forall (ix_label n) (rs_label rs) /\
  Forall (fun x => is_i64 (rl_num x)) (rs_label rs).

Lemma pre_samples_ok locids : forall l tab tab' rs,
  tab_inv tab -> Forall (sample_ok locids) l -> pre_samples tab l = Ok (tab', rs) ->
  tab_inv tab' /\ prefix tab tab' /\ Forall2 (raw_sample_ok (len tab')) l rs /\
  forall tabF, prefix tab' tabF -> map_res (post_sample tabF locids) rs = Ok (map norm_sample l).
Proof.
  induction l as [|s l IH]; intros tab tab' rs I HS H; cbn [pre_samples] in H.
  - inversion H; subst. split; [exact I|]. split; [apply prefix_refl|]. split; [constructor|]. reflexivity.
  - inversion HS as [|? ? (K1 & K2 & UW & LOC & NV) Hl]; subst.
    destruct (pre_sample tab s) as [[t1 r1]|c|c] eqn:E1; cbn [bind] in H; try discriminate.
    destruct (pre_samples t1 l) as [[t2 r2]|c|c] eqn:E2; cbn [bind] in H; try discriminate.
    inversion H; subst tab' rs. clear H.
    destruct (pre_sample_ok s tab t1 r1 t1 locids I K1 K2 UW E1 (prefix_refl _) LOC) as (_ & I1 & P1 & L1 & V1 & X1).
    destruct (IH t1 t2 r2 I1 Hl E2) as (I2 & P2 & X2 & G2).
    assert (NUM : Forall (fun x => is_i64 (rl_num x)) (rs_label r1)).
    { unfold pre_sample in E1. pose proof (pre_strkeys_nums (s_label s) tab) as A.
      destruct (pre_strkeys tab (s_label s)) as [ta a]. cbn [snd] in A.
      destruct (pre_numkeys ta (s_numlabel s) (s_numunit s)) as [[tb b]|c|c] eqn:EB; cbn [bind] in E1; try discriminate.
      destruct (existsb (Z.eqb (-1)) (s_loc s)); [discriminate|]. inversion E1; subst. cbn [rs_label].
      apply Forall_app. split; [exact A|]. eapply pre_numkeys_nums; eauto. }
    split; [exact I2|]. split; [eapply prefix_trans; eauto|].
    split.
    + constructor; [|exact X2]. split; [exact L1|]. split; [exact V1|]. split; [|exact NUM].
      eapply Forall_impl; [|exact X1]. intros x Hx. eapply ix_label_mono; [exact Hx|apply prefix_len, P2].
    + intros tabF PF. cbn [map_res map].
      destruct (pre_sample_ok s tab t1 r1 tabF locids I K1 K2 UW E1 (prefix_trans _ _ _ P2 PF) LOC) as (F & _).
      rewrite F. cbn [bind]. rewrite (G2 tabF PF). reflexivity.
Qed.

(* ---------- from the boolean validity contract to the facts the proof uses ---------- *)
Lemma bi64 z : S_Codec.is_i64 z = true -> is_i64 z.
Proof. unfold S_Codec.is_i64, is_i64. lia. Qed.
Lemma bu64 z : S_Codec.is_u64 z = true -> is_u64 z.
Proof. unfold S_Codec.is_u64, is_u64. lia. Qed.

Lemma units_of_ulook s k : units_of s k = ulook (s_numunit s) k.
Proof. reflexivity. Qed.

Lemma sample_valid_ok nst locids s :
  sample_valid nst locids s = true ->
  forallb (fun e => let u := units_of s (fst e) in
                    Nat.eqb (List.length u) 0 || Nat.eqb (List.length u) (List.length (snd e))) (s_numlabel s) = true ->
  sample_ok locids s /\ Forall is_i64 (s_val s) /\ List.length (s_val s) = nst.
Proof.
  unfold sample_valid. intros H UW.
  repeat (apply andb_true_iff in H as [H ?]).
  match goal with H0 : keys_sorted (s_label s) = true |- _ => rename H0 into K1 end.
  match goal with H0 : keys_sorted (s_numlabel s) = true |- _ => rename H0 into K2 end.
  split; [split; [exact K1|split; [exact K2|split; [|split]]]|split].
  - rewrite forallb_forall in UW. apply Forall_forall. intros e He. specialize (UW e He). cbn zeta in UW.
    unfold units_wf_key. rewrite <- units_of_ulook.
    apply orb_true_iff in UW as [U|U]; [left|right].
    + apply Nat.eqb_eq in U. destruct (units_of s (fst e)); [reflexivity|discriminate].
    + apply Nat.eqb_eq in U. exact U.
  - match goal with H0 : forallb _ (s_loc s) = true |- _ => rename H0 into L end.
    rewrite forallb_forall in L. intros id Hid. specialize (L id Hid). apply andb_true_iff in L as [_ L]. exact L.
  - match goal with H0 : forallb (fun e => forallb S_Codec.is_i64 (snd e)) (s_numlabel s) = true |- _ => rename H0 into NV end.
    rewrite forallb_forall in NV. apply Forall_forall. intros e He. specialize (NV e He).
    rewrite forallb_forall in NV. apply Forall_forall. intros x Hx. apply bi64, NV, Hx.
  - match goal with H0 : forallb S_Codec.is_i64 (s_val s) = true |- _ => rename H0 into V end.
    rewrite forallb_forall in V. apply Forall_forall. intros x Hx. apply bi64, V, Hx.
  - apply Nat.eqb_eq. assumption.
Qed.

(* ---------- locations ---------- *)
Lemma defined_id_in ids id : existsb (Z.eqb id) ids = true -> defined_id ids id = id.
Proof. unfold defined_id. intros ->. reflexivity. Qed.

Lemma post_pre_location mapids fnids l :
  location_valid mapids fnids l = true -> post_location mapids fnids (pre_location l) = l.
Proof.
  unfold location_valid. intros H. repeat (apply andb_true_iff in H as [H ?]).
  destruct l as [id m a ls f]. unfold post_location, pre_location.
  cbn [rloc_id rloc_mapping rloc_addr rloc_lines rloc_folded l_id l_mapping l_addr l_lines l_folded] in *.
  f_equal.
  - match goal with H0 : (m =? 0) || mem_z m mapids = true |- _ => rename H0 into M end.
    unfold defined_id. destruct (existsb (Z.eqb m) mapids) eqn:E; [reflexivity|].
    apply orb_true_iff in M as [M|M]; [lia|]. unfold mem_z in M. congruence.
  - match goal with H0 : forallb _ ls = true |- _ => rename H0 into L end.
    rewrite map_map. induction ls as [|x ls IH]; [reflexivity|]. cbn [map forallb] in *.
    apply andb_true_iff in L as [L1 L2]. rewrite IH by exact L2. f_equal.
    repeat (apply andb_true_iff in L1 as [L1 ?]).
    destruct x as [fn ln col]. cbn [rln_fn rln_line rln_col ln_fn ln_line ln_col] in *.
    replace (fn =? 0) with false by lia. rewrite defined_id_in; [reflexivity|].
    match goal with H0 : mem_z fn fnids = true |- _ => exact H0 end.
Qed.

(* ---------- postDecode inverts preEncode up to normalize ---------- *)
Lemma post_pre_lemma p r :
  valid_b p = true -> units_wf_b p = true -> pre_encode p = Ok r -> post_decode r = Ok (normalize p).
Proof.
  intros V UW H. unfold valid_b in V. cbn zeta in V.
  repeat (apply andb_true_iff in V as [V ?]).
  match goal with H0 : forallb (sample_valid _ _) (p_sample p) = true |- _ => rename H0 into VS end.
  match goal with H0 : forallb (location_valid _ _) (p_location p) = true |- _ => rename H0 into VL end.
  assert (I0 : tab_inv [""]) by (split; [exists []; reflexivity|constructor; [intros []|constructor]]).
  unfold pre_encode in H.
  destruct (pre_list pre_valuetype [""] (p_sampletype p)) as [t1 sts] eqn:E1.
  destruct (pre_samples t1 (p_sample p)) as [[t2 ss]|c|c] eqn:E2; cbn [bind] in H; try discriminate.
  pose proof (pre_mapping_ids (p_mapping p) t2) as MID.
  destruct (pre_list pre_mapping t2 (p_mapping p)) as [t3 ms] eqn:E3. cbn [snd] in MID.
  pose proof (pre_function_ids (p_function p) t3) as FID.
  destruct (pre_list pre_function t3 (p_function p)) as [t4 fs] eqn:E4. cbn [snd] in FID.
  destruct (add_string t4 (p_dropframes p)) as [t5 df] eqn:E5.
  destruct (add_string t5 (p_keepframes p)) as [t6 kf] eqn:E6.
  destruct (match p_periodtype p with
            | Some v => let '(tab, x) := pre_valuetype t6 v in (tab, Some x)
            | None => (t6, None) end) as [t7 pt] eqn:E7.
  destruct (pre_list add_string t7 (p_comments p)) as [t8 cs] eqn:E8.
  destruct (add_string t8 (p_defaultsampletype p)) as [t9 dst] eqn:E9.
  destruct (add_string t9 (p_docurl p)) as [t10 du] eqn:E10.
  inversion H; subst r. clear H.
  (* table chain *)
  destruct (pre_list_ok pre_valuetype post_valuetype ix_vt ix_vt_mono (p_sampletype p)
              (proj2 (Forall_forall _ _) (fun x _ => valuetype_comp x)) _ _ _ I0 E1) as (I1 & P1 & _ & G1).
  assert (SOK : Forall (sample_ok (map l_id (p_location p))) (p_sample p)).
  { apply Forall_forall. intros s Hs. rewrite forallb_forall in VS. unfold units_wf_b in UW. rewrite forallb_forall in UW.
    exact (proj1 (sample_valid_ok _ _ s (VS s Hs) (UW s Hs))). }
  destruct (pre_samples_ok (map l_id (p_location p)) (p_sample p) t1 t2 ss I1 SOK E2) as (I2 & P2 & _ & G2).
  destruct (pre_list_ok pre_mapping post_mapping ix_mapping ix_mapping_mono (p_mapping p)
              (proj2 (Forall_forall _ _) (fun x _ => mapping_comp x)) _ _ _ I2 E3) as (I3 & P3 & _ & G3).
  destruct (pre_list_ok pre_function post_function ix_function ix_function_mono (p_function p)
              (proj2 (Forall_forall _ _) (fun x _ => function_comp x)) _ _ _ I3 E4) as (I4 & P4 & _ & G4).
  destruct (string_comp _ _ _ _ I4 E5) as (I5 & P5 & _ & G5).
  destruct (string_comp _ _ _ _ I5 E6) as (I6 & P6 & _ & G6).
  assert (S7 : tab_inv t7 /\ prefix t6 t7 /\
               forall tabF, prefix t7 tabF ->
                 post_valuetype tabF (match pt with Some v => v | None => rvt0 end)
                 = Ok (match p_periodtype p with Some v => v | None => {| vt_type := ""; vt_unit := "" |} end)).
  { destruct (p_periodtype p) as [v|].
    - destruct (pre_valuetype t6 v) as [tt x] eqn:EV. inversion E7; subst t7 pt.
      destruct (valuetype_comp v _ _ _ I6 EV) as (A & B & _ & D). auto.
    - inversion E7; subst t7 pt. split; [exact I6|]. split; [apply prefix_refl|].
      intros tabF PF. unfold post_valuetype, rvt0. cbn [rvt_type rvt_unit].
      destruct I6 as [[rr ->] _]. destruct PF as [ext ->]. reflexivity. }
  destruct S7 as (I7 & P7 & G7).
  destruct (pre_list_ok add_string get_string ix ix_mono' (p_comments p)
              (proj2 (Forall_forall _ _) (fun x _ => string_comp x)) _ _ _ I7 E8) as (I8 & P8 & _ & G8).
  destruct (string_comp _ _ _ _ I8 E9) as (I9 & P9 & _ & G9).
  destruct (string_comp _ _ _ _ I9 E10) as (I10 & P10 & _ & G10).
  assert (Q9 : prefix t9 t10) by exact P10.
  assert (Q8 : prefix t8 t10) by (eapply prefix_trans; eauto).
  assert (Q7 : prefix t7 t10) by (eapply prefix_trans; eauto).
  assert (Q6 : prefix t6 t10) by (eapply prefix_trans; eauto).
  assert (Q5 : prefix t5 t10) by (eapply prefix_trans; eauto).
  assert (Q4 : prefix t4 t10) by (eapply prefix_trans; eauto).
  assert (Q3 : prefix t3 t10) by (eapply prefix_trans; eauto).
  assert (Q2 : prefix t2 t10) by (eapply prefix_trans; eauto).
  assert (Q1 : prefix t1 t10) by (eapply prefix_trans; eauto).
  unfold post_decode.
  cbn [rp_sampletype rp_sample rp_mapping rp_location rp_function rp_strings rp_dropframes rp_keepframes rp_time
       rp_duration rp_periodtype rp_period rp_comment rp_defaultst rp_docurl].
  rewrite (G3 t10 Q3). cbn [bind]. rewrite (G4 t10 Q4). cbn [bind].
  rewrite (G1 t10 Q1). cbn [bind].
  rewrite MID, FID, map_map.
  assert (LID : map (fun x => rloc_id (pre_location x)) (p_location p) = map l_id (p_location p)) by reflexivity.
  rewrite LID. rewrite (G2 t10 Q2). cbn [bind].
  rewrite (G5 t10 Q5). cbn [bind]. rewrite (G6 t10 Q6). cbn [bind].
  rewrite (G7 t10 Q7). cbn [bind]. rewrite (G8 t10 Q8). cbn [bind].
  rewrite (G9 t10 Q9). cbn [bind]. rewrite (G10 t10 (prefix_refl _)). cbn [bind].
  unfold normalize. f_equal. f_equal.
  (* locations *)
  rewrite map_map. clear - VL. induction (p_location p) as [|l ls IH]; [reflexivity|].
  cbn [map forallb] in *. apply andb_true_iff in VL as [V1 V2].
  rewrite post_pre_location by exact V1. f_equal. apply IH, V2.
Qed.

(* ---------- the encoder's output is well-formed for the wire layer ---------- *)
Definition sizes_sample (s : rsample) : Prop :=
  len (flat_map encode_varint (rs_loc s)) < two64 /\ len (flat_map encode_varint (map u64 (rs_val s))) < two64 /\
  Forall (fun l => len (enc_label l) < two64) (rs_label s).
Definition sizes_location (l : rlocation) : Prop := Forall (fun x => len (enc_line x) < two64) (rloc_lines l).

(* every length prefix and table index fits: in Go these are ints, so this always holds there *)
Definition size_ok (r : rprofile) : Prop :=
  len (rp_strings r) < two63 /\ Forall sizes_sample (rp_sample r) /\ Forall sizes_location (rp_location r) /\
  sized enc_valuetype (rp_sampletype r) /\ sized enc_sample (rp_sample r) /\ sized enc_mapping (rp_mapping r) /\
  sized enc_location (rp_location r) /\ sized enc_function (rp_function r) /\ sized bytes_of_string (rp_strings r) /\
  match rp_periodtype r with Some pt => len (enc_valuetype pt) < two64 | None => True end /\
  len (flat_map encode_varint (map u64 (rp_comment r))) < two64.

Lemma ixi n i : ix n i -> n < two63 -> is_i64 i.
Proof. unfold ix, is_i64, two63. lia. Qed.

Lemma Forall2_Forall_r {A B} (R : A -> B -> Prop) (P : B -> Prop) l rs :
  Forall2 R l rs -> (forall a b, In a l -> R a b -> P b) -> Forall P rs.
Proof.
  induction 1 as [|a b l rs Hab _ IH]; intros H; constructor.
  - apply (H a b); [now left|exact Hab].
  - apply IH. intros a' b' Ha'. apply H. now right.
Qed.

Lemma Forall_and {A} (P Q : A -> Prop) l : Forall P l -> Forall Q l -> Forall (fun x => P x /\ Q x) l.
Proof. induction 1; intros H'; inversion H'; subst; constructor; auto. Qed.

Lemma pre_list_Forall2 {A R} (pre : list string -> A -> list string * R) (Q : A -> R -> Prop) :
  (forall tab a, Q a (snd (pre tab a))) ->
  forall l tab, Forall2 Q l (snd (pre_list pre tab l)).
Proof.
  intros HQ. induction l as [|a l IH]; intros tab; cbn [pre_list]; [constructor|].
  pose proof (HQ tab a) as Ha. destruct (pre tab a) as [t1 r1]. specialize (IH t1).
  destruct (pre_list pre t1 l) as [t2 r2]. cbn [snd] in *. constructor; assumption.
Qed.

Lemma Forall2_and_r {A B} (R : A -> B -> Prop) (P : B -> Prop) l rs :
  Forall2 R l rs -> Forall P rs -> Forall2 (fun a b => R a b /\ P b) l rs.
Proof.
  induction 1 as [|a b l rs Hab _ IH]; intros H; [constructor|].
  inversion H; subst. constructor; auto.
Qed.

Lemma pre_encode_wf p r :
  valid_b p = true -> units_wf_b p = true -> pre_encode p = Ok r -> size_ok r -> wf_rprofile r.
Proof.
  intros V UW H SZ. unfold valid_b in V. cbn zeta in V.
  repeat (apply andb_true_iff in V as [V ?]).
  match goal with H0 : forallb (sample_valid _ _) (p_sample p) = true |- _ => rename H0 into VS end.
  match goal with H0 : forallb (location_valid _ _) (p_location p) = true |- _ => rename H0 into VL end.
  match goal with H0 : forallb (fun m => S_Codec.is_u64 (m_start m) && _ && _) (p_mapping p) = true |- _ => rename H0 into VM end.
  match goal with H0 : forallb (fun f => S_Codec.is_i64 (f_startline f)) (p_function p) = true |- _ => rename H0 into VF end.
  match goal with H0 : forallb _ (map m_id (p_mapping p)) = true |- _ => rename H0 into VMI end.
  match goal with H0 : forallb _ (map f_id (p_function p)) = true |- _ => rename H0 into VFI end.
  match goal with H0 : S_Codec.is_i64 (p_timenanos p) = true |- _ => rename H0 into VT end.
  match goal with H0 : S_Codec.is_i64 (p_durationnanos p) = true |- _ => rename H0 into VD end.
  match goal with H0 : S_Codec.is_i64 (p_period p) = true |- _ => rename H0 into VP end.
  assert (I0 : tab_inv [""]) by (split; [exists []; reflexivity|constructor; [intros []|constructor]]).
  unfold pre_encode in H.
  destruct (pre_list pre_valuetype [""] (p_sampletype p)) as [t1 sts] eqn:E1.
  destruct (pre_samples t1 (p_sample p)) as [[t2 ss]|c|c] eqn:E2; cbn [bind] in H; try discriminate.
  pose proof (pre_list_Forall2 pre_mapping (fun m rm => rm_id rm = m_id m /\ rm_start rm = m_start m /\ rm_limit rm = m_limit m /\ rm_offset rm = m_offset m)) as MQ.
  specialize (MQ ltac:(intros tab a; unfold pre_mapping; destruct (add_string tab (m_file a)) as [? ?];
                       destruct (add_string _ (m_buildid a)) as [? ?]; cbn; auto) (p_mapping p) t2).
  destruct (pre_list pre_mapping t2 (p_mapping p)) as [t3 ms] eqn:E3. cbn [snd] in MQ.
  pose proof (pre_list_Forall2 pre_function (fun f rf => rf_id rf = f_id f /\ rf_startline rf = f_startline f)) as FQ.
  specialize (FQ ltac:(intros tab a; unfold pre_function; destruct (add_string tab (f_name a)) as [? ?];
                       destruct (add_string _ (f_sysname a)) as [? ?]; destruct (add_string _ (f_file a)) as [? ?]; cbn; auto)
                 (p_function p) t3).
  destruct (pre_list pre_function t3 (p_function p)) as [t4 fs] eqn:E4. cbn [snd] in FQ.
  destruct (add_string t4 (p_dropframes p)) as [t5 df] eqn:E5.
  destruct (add_string t5 (p_keepframes p)) as [t6 kf] eqn:E6.
  destruct (match p_periodtype p with
            | Some v => let '(tab, x) := pre_valuetype t6 v in (tab, Some x)
            | None => (t6, None) end) as [t7 pt] eqn:E7.
  destruct (pre_list add_string t7 (p_comments p)) as [t8 cs] eqn:E8.
  destruct (add_string t8 (p_defaultsampletype p)) as [t9 dst] eqn:E9.
  destruct (add_string t9 (p_docurl p)) as [t10 du] eqn:E10.
  inversion H; subst r. clear H.
  destruct SZ as (SL & SS & SLo & Z1 & Z2 & Z3 & Z4 & Z5 & Z6 & Z7 & Z8).
  cbn [rp_sampletype rp_sample rp_mapping rp_location rp_function rp_strings rp_dropframes rp_keepframes rp_time
       rp_duration rp_periodtype rp_period rp_comment rp_defaultst rp_docurl] in *.
  destruct (pre_list_ok pre_valuetype post_valuetype ix_vt ix_vt_mono (p_sampletype p)
              (proj2 (Forall_forall _ _) (fun x _ => valuetype_comp x)) _ _ _ I0 E1) as (I1 & P1 & X1 & _).
  assert (SOK : Forall (fun s => sample_ok (map l_id (p_location p)) s /\ Forall is_i64 (s_val s)) (p_sample p)).
  { apply Forall_forall. intros s Hs. rewrite forallb_forall in VS. unfold units_wf_b in UW. rewrite forallb_forall in UW.
    destruct (sample_valid_ok _ _ s (VS s Hs) (UW s Hs)) as (A & B & _). auto. }
  assert (SOK1 : Forall (sample_ok (map l_id (p_location p))) (p_sample p)) by (eapply Forall_impl; [|exact SOK]; intros ? [? _]; assumption).
  destruct (pre_samples_ok (map l_id (p_location p)) (p_sample p) t1 t2 ss I1 SOK1 E2) as (I2 & P2 & X2 & _).
  destruct (pre_list_ok pre_mapping post_mapping ix_mapping ix_mapping_mono (p_mapping p)
              (proj2 (Forall_forall _ _) (fun x _ => mapping_comp x)) _ _ _ I2 E3) as (I3 & P3 & X3 & _).
  destruct (pre_list_ok pre_function post_function ix_function ix_function_mono (p_function p)
              (proj2 (Forall_forall _ _) (fun x _ => function_comp x)) _ _ _ I3 E4) as (I4 & P4 & X4 & _).
  destruct (string_comp _ _ _ _ I4 E5) as (I5 & P5 & X5 & _).
  destruct (string_comp _ _ _ _ I5 E6) as (I6 & P6 & X6 & _).
  assert (S7 : tab_inv t7 /\ prefix t6 t7 /\ match pt with Some v => ix_vt (len t7) v | None => True end).
  { destruct (p_periodtype p) as [v|].
    - destruct (pre_valuetype t6 v) as [tt x] eqn:EV. inversion E7; subst t7 pt.
      destruct (valuetype_comp v _ _ _ I6 EV) as (A & B & C & _). auto.
    - inversion E7; subst t7 pt. split; [exact I6|]. split; [apply prefix_refl|exact I]. }
  destruct S7 as (I7 & P7 & X7).
  destruct (pre_list_ok add_string get_string ix ix_mono' (p_comments p)
              (proj2 (Forall_forall _ _) (fun x _ => string_comp x)) _ _ _ I7 E8) as (I8 & P8 & X8 & _).
  destruct (string_comp _ _ _ _ I8 E9) as (I9 & P9 & X9 & _).
  destruct (string_comp _ _ _ _ I9 E10) as (I10 & P10 & X10 & _).
  pose proof (prefix_len _ _ P2) as L2. pose proof (prefix_len _ _ P3) as L3. pose proof (prefix_len _ _ P4) as L4.
  pose proof (prefix_len _ _ P5) as L5. pose proof (prefix_len _ _ P6) as L6. pose proof (prefix_len _ _ P7) as L7.
  pose proof (prefix_len _ _ P8) as L8. pose proof (prefix_len _ _ P9) as L9. pose proof (prefix_len _ _ P10) as L10.
  assert (B : forall n i, ix n i -> n <= len t10 -> is_i64 i) by (intros n i Hi Hn; eapply ixi; [exact Hi|lia]).
  assert (LOCU : forall id, existsb (Z.eqb id) (map l_id (p_location p)) = true -> is_u64 id).
  { intros id Hid. apply existsb_exists in Hid as (x & Hx & E). apply Z.eqb_eq in E. subst x.
    apply in_map_iff in Hx as (l & <- & Hl). rewrite forallb_forall in VL. specialize (VL l Hl).
    unfold location_valid in VL. repeat (apply andb_true_iff in VL as [VL ?]).
    apply bu64. assumption. }
  assert (MAPU : forall id, mem_z id (map m_id (p_mapping p)) = true -> is_u64 id).
  { intros id Hid. apply existsb_exists in Hid as (x & Hx & E). apply Z.eqb_eq in E. subst x.
    rewrite forallb_forall in VMI. specialize (VMI id Hx). apply andb_true_iff in VMI as [_ U]. apply bu64, U. }
  assert (FNU : forall id, mem_z id (map f_id (p_function p)) = true -> is_u64 id).
  { intros id Hid. apply existsb_exists in Hid as (x & Hx & E). apply Z.eqb_eq in E. subst x.
    rewrite forallb_forall in VFI. specialize (VFI id Hx). apply andb_true_iff in VFI as [_ U]. apply bu64, U. }
  unfold wf_rprofile.
  cbn [rp_sampletype rp_sample rp_mapping rp_location rp_function rp_strings rp_dropframes rp_keepframes rp_time
       rp_duration rp_periodtype rp_period rp_comment rp_defaultst rp_docurl].
  split. { eapply Forall_impl; [|exact X1]. intros v [A C]. split; eapply B; eauto; lia. }
  split.
  { (* samples *)
    assert (VAL : Forall (fun rs => Forall is_u64 (rs_loc rs) /\ Forall is_i64 (rs_val rs) /\ Forall wf_label (rs_label rs)) ss).
    { eapply (Forall2_Forall_r _ _ _ _ X2).
      intros s rs Hs (A1 & A2 & A3 & A4).
      rewrite Forall_forall in SOK. destruct (SOK s Hs) as ((_ & _ & _ & LOC & _) & VV).
      split; [rewrite A1; apply Forall_forall; intros id Hid; apply LOCU, LOC, Hid|].
      split; [rewrite A2; exact VV|].
      apply Forall_forall. intros l Hl. rewrite Forall_forall in A3, A4.
      destruct (A3 l Hl) as (K1 & K2 & K3).
      split; [eapply B; eauto; lia|]. split; [eapply B; eauto; lia|]. split; [apply A4, Hl|eapply B; eauto; lia]. }
    pose proof (Forall_and _ _ _ VAL SS) as VS2.
    eapply Forall_impl; [|exact VS2]. intros rs ((A1 & A2 & A3) & (S1 & S2 & S3)). unfold wf_sample. auto 10. }
  split.
  { (* mappings *)
    eapply (Forall2_Forall_r _ _ _ _ (Forall2_and_r _ _ _ _ MQ X3)). intros m rm Hm ((A1 & A2 & A3 & A4) & (J1 & J2)).
    rewrite forallb_forall in VM. specialize (VM m Hm).
    apply andb_true_iff in VM as [VM VM3]. apply andb_true_iff in VM as [VM1 VM2].
    unfold wf_mapping. rewrite A1, A2, A3, A4.
    split; [apply MAPU; unfold mem_z; apply existsb_exists; exists (m_id m); split; [apply in_map, Hm|apply Z.eqb_refl]|].
    split; [apply bu64; assumption|]. split; [apply bu64; assumption|]. split; [apply bu64; assumption|].
    split; eapply B; eauto; lia. }
  split.
  { (* locations *)
    apply Forall_forall. intros rl Hrl. apply in_map_iff in Hrl as (l & <- & Hl).
    rewrite forallb_forall in VL. specialize (VL l Hl). unfold location_valid in VL.
    repeat (apply andb_true_iff in VL as [VL ?]).
    rewrite Forall_forall in SLo. specialize (SLo (pre_location l) (in_map _ _ _ Hl)).
    unfold wf_location, pre_location. cbn [rloc_id rloc_mapping rloc_addr rloc_lines rloc_folded].
    split; [apply bu64; assumption|].
    split.
    { match goal with H0 : (l_mapping l =? 0) || mem_z (l_mapping l) _ = true |- _ => apply orb_true_iff in H0 as [M|M] end.
      - apply Z.eqb_eq in M. rewrite M. unfold is_u64, two64. lia.
      - apply MAPU, M. }
    split; [apply bu64; assumption|].
    split; [|exact SLo].
    match goal with H0 : forallb _ (l_lines l) = true |- _ => rename H0 into LL end.
    apply Forall_forall. intros x Hx. apply in_map_iff in Hx as (y & <- & Hy).
    rewrite forallb_forall in LL. specialize (LL y Hy). repeat (apply andb_true_iff in LL as [LL ?]).
    unfold wf_line. cbn [rln_fn rln_line rln_col].
    split; [apply FNU; assumption|]. split; apply bi64; assumption. }
  split.
  { (* functions *)
    eapply (Forall2_Forall_r _ _ _ _ (Forall2_and_r _ _ _ _ FQ X4)). intros f rf Hf ((A1 & A2) & (J1 & J2 & J3)).
    rewrite forallb_forall in VF. specialize (VF f Hf).
    unfold wf_function. rewrite A1, A2.
    split; [apply FNU; unfold mem_z; apply existsb_exists; exists (f_id f); split; [apply in_map, Hf|apply Z.eqb_refl]|].
    split; [eapply B; eauto; lia|]. split; [eapply B; eauto; lia|]. split; [eapply B; eauto; lia|]. apply bi64, VF. }
  split. { destruct I10 as [[rr ->] _]. eauto. }
  split. { eapply B; eauto; lia. }
  split. { eapply B; eauto; lia. }
  split. { apply bi64, VT. }
  split. { apply bi64, VD. }
  split. { destruct pt as [v|]; [|exact I]. destruct X7 as [A C]. split; eapply B; eauto; lia. }
  split. { apply bi64, VP. }
  split. { eapply Forall_impl; [|exact X8]. intros i Hi. eapply B; eauto; lia. }
  split. { eapply B; eauto; lia. }
  split. { eapply B; eauto. lia. }
  auto 12.
Qed.

(* ---------- serialization never panics on valid, units-well-formed profiles ---------- *)
Lemma pre_numlabels_total kx : forall vs us i tab,
  (us = [] \/ List.length us = i + List.length vs)%nat ->
  exists t ls, pre_numlabels tab kx vs us i = Ok (t, ls).
Proof.
  induction vs as [|v r IH]; intros us i tab UW; cbn [pre_numlabels]; [eauto|].
  assert (UW' : (us = [] \/ List.length us = S i + List.length r)%nat)
    by (destruct UW as [UW|UW]; [left; exact UW|right; cbn [List.length] in UW; lia]).
  destruct us as [|u0 ur].
  - cbn [bind]. destruct (IH [] (S i) tab UW') as (t & ls & E). rewrite E. cbn [bind]. eauto.
  - destruct UW as [UW|UW]; [discriminate|].
    destruct (nth_error (u0 :: ur) i) as [x|] eqn:EN; [|apply nth_error_None in EN; cbn [List.length] in *; lia].
    destruct (add_string tab x) as [t1 ux]. cbn [bind].
    destruct (IH (u0 :: ur) (S i) t1 UW') as (t & ls & E). rewrite E. cbn [bind]. eauto.
Qed.

Lemma pre_numkeys_total units : forall l tab,
  Forall (units_wf_key units) l -> exists t ls, pre_numkeys tab l units = Ok (t, ls).
Proof.
  induction l as [|[k vs] r IH]; intros tab UW; cbn [pre_numkeys]; [eauto|].
  inversion UW as [|? ? U1 U2]; subst.
  destruct (add_string tab k) as [t1 kx].
  assert (UWk : (ulook units k = [] \/ List.length (ulook units k) = 0 + List.length vs)%nat).
  { destruct U1 as [W|W]; cbn [fst snd] in W; [left; exact W|right; cbn; exact W]. }
  destruct (pre_numlabels_total kx vs (ulook units k) 0%nat t1 UWk) as (t2 & a & E2).
  unfold ulook in E2. rewrite E2. cbn [bind].
  destruct (IH t2 U2) as (t3 & b & E3). rewrite E3. cbn [bind]. eauto.
Qed.

Lemma pre_samples_total locids : forall l tab,
  Forall (sample_ok locids) l -> (forall id, existsb (Z.eqb id) locids = true -> id <> -1) ->
  exists t rs, pre_samples tab l = Ok (t, rs).
Proof.
  induction l as [|s l IH]; intros tab HS NL; cbn [pre_samples]; [eauto|].
  inversion HS as [|? ? (K1 & K2 & UW & LOC & NV) Hl]; subst.
  unfold pre_sample. destruct (pre_strkeys tab (s_label s)) as [t1 a].
  destruct (pre_numkeys_total (s_numunit s) (s_numlabel s) t1 UW) as (t2 & b & E2). rewrite E2. cbn [bind].
  assert (NM : existsb (Z.eqb (-1)) (s_loc s) = false).
  { destruct (existsb (Z.eqb (-1)) (s_loc s)) eqn:E; [|reflexivity].
    apply existsb_exists in E as (x & Hx & Ex). apply Z.eqb_eq in Ex. subst x.
    exfalso. exact (NL (-1) (LOC (-1) Hx) eq_refl). }
  rewrite NM. cbn [bind]. destruct (IH t2 Hl NL) as (t3 & rs & E3). rewrite E3. cbn [bind]. eauto.
Qed.

Lemma serialize_ok_lemma p : valid_b p = true -> units_wf_b p = true -> exists r, pre_encode p = Ok r.
Proof.
  intros V UW. pose proof V as V0. unfold valid_b in V. cbn zeta in V.
  repeat (apply andb_true_iff in V as [V ?]).
  match goal with H0 : forallb (sample_valid _ _) (p_sample p) = true |- _ => rename H0 into VS end.
  match goal with H0 : forallb (location_valid _ _) (p_location p) = true |- _ => rename H0 into VL end.
  assert (SOK : Forall (sample_ok (map l_id (p_location p))) (p_sample p)).
  { apply Forall_forall. intros s Hs. rewrite forallb_forall in VS. unfold units_wf_b in UW. rewrite forallb_forall in UW.
    exact (proj1 (sample_valid_ok _ _ s (VS s Hs) (UW s Hs))). }
  assert (NL : forall id, existsb (Z.eqb id) (map l_id (p_location p)) = true -> id <> -1).
  { intros id Hid. apply existsb_exists in Hid as (x & Hx & E). apply Z.eqb_eq in E. subst x.
    apply in_map_iff in Hx as (l & <- & Hl). rewrite forallb_forall in VL. specialize (VL l Hl).
    unfold location_valid in VL. repeat (apply andb_true_iff in VL as [VL ?]).
    match goal with H0 : S_Codec.is_u64 (l_id l) = true |- _ => unfold S_Codec.is_u64 in H0; lia end. }
  unfold pre_encode.
  destruct (pre_list pre_valuetype [""] (p_sampletype p)) as [t1 sts].
  destruct (pre_samples_total _ (p_sample p) t1 SOK NL) as (t2 & ss & E2). rewrite E2. cbn [bind].
  destruct (pre_list pre_mapping t2 (p_mapping p)) as [t3 ms].
  destruct (pre_list pre_function t3 (p_function p)) as [t4 fs].
  destruct (add_string t4 (p_dropframes p)) as [t5 df].
  destruct (add_string t5 (p_keepframes p)) as [t6 kf].
  destruct (match p_periodtype p with
            | Some v => let '(tab, x) := pre_valuetype t6 v in (tab, Some x)
            | None => (t6, None) end) as [t7 pt].
  destruct (pre_list add_string t7 (p_comments p)) as [t8 cs].
  destruct (add_string t8 (p_defaultsampletype p)) as [t9 dst].
  destruct (add_string t9 (p_docurl p)) as [t10 du]. eauto.
Qed.

(* ---------- the round trip ---------- *)
Lemma enc_profile_nonempty r : enc_profile r <> [].
Proof.
  unfold enc_profile. intros E. do 13 (apply app_eq_nil in E as [_ E]).
  apply app_eq_nil in E as [E _]. unfold encode_int64, encode_uint64 in E. apply app_eq_nil in E as [E _].
  exact (encode_varint_nonempty _ E).
Qed.

Lemma post_decode_canon r : post_decode (canon_rprofile r) = post_decode r.
Proof.
  unfold post_decode, canon_rprofile, rp_upd.
  cbn [rp_sampletype rp_sample rp_mapping rp_location rp_function rp_strings rp_dropframes rp_keepframes rp_time
       rp_duration rp_periodtype rp_period rp_comment rp_defaultst rp_docurl].
  assert (E : match canon_pt (rp_periodtype r) with Some v => v | None => rvt0 end
              = match rp_periodtype r with Some v => v | None => rvt0 end).
  { unfold canon_pt. destruct (rp_periodtype r) as [[a b]|]; [|reflexivity]. cbn [rvt_type rvt_unit].
    destruct (Z.eqb_spec a 0) as [->|]; destruct (Z.eqb_spec b 0) as [->|]; reflexivity. }
  rewrite E. reflexivity.
Qed.

Lemma write_parse_roundtrip_lemma p r :
  valid_b p = true -> units_wf_b p = true -> pre_encode p = Ok r -> size_ok r ->
  serialize p = Ok (enc_profile r) /\ parse_uncompressed (enc_profile r) = Ok (normalize p).
Proof.
  intros V UW H SZ. split; [unfold serialize; rewrite H; reflexivity|].
  unfold parse_uncompressed. pose proof (enc_profile_nonempty r) as NE.
  destruct (enc_profile r) as [|b0 bs] eqn:EB; [congruence|]. rewrite <- EB.
  rewrite (unmarshal_enc_profile r (pre_encode_wf p r V UW H SZ)). cbn [bind].
  rewrite post_decode_canon. apply post_pre_lemma; assumption.
Qed.

Lemma copy_lemma p r :
  valid_b p = true -> units_wf_b p = true -> pre_encode p = Ok r -> size_ok r -> copy p = Ok (normalize p).
Proof.
  intros V UW H SZ. destruct (write_parse_roundtrip_lemma p r V UW H SZ) as [S P].
  unfold copy. rewrite S. cbn [bind]. rewrite P. reflexivity.
Qed.
