(* Lemmas and proofs for C13 (symbol lookup part): addrInfo's binary search over a sorted nm table
   returns a symbol with the greatest start not above the address. *)
From Coq Require Import Lia ZifyBool ZifyNat.
From PV Require Import M_Elf S_Elf.
Open Scope Z_scope.
Ltac Zify.zify_post_hook ::= Z.div_mod_to_equations.

Definition A (m : list sym) (i : nat) : Z := sy_addr (sym_at m i).

Definition sorted_idx (m : list sym) : Prop :=
  forall i j, (i <= j < List.length m)%nat -> A m i <= A m j.

Lemma sortedb_head : forall r x,
  sortedb (x :: r) = true -> sortedb r = true /\ forall y, In y r -> sy_addr x <= sy_addr y.
Proof.
  induction r as [|y r IH]; intros x H.
  - split; [reflexivity | intros y []].
  - cbn [sortedb] in H. apply andb_true_iff in H. destruct H as [Hxy Hs].
    split; [exact Hs|]. destruct (IH y Hs) as [_ Hy].
    intros z [Hz|Hz]; [subst z; lia | specialize (Hy z Hz); lia].
Qed.

Lemma sortedb_sorted_idx : forall m, sortedb m = true -> sorted_idx m.
Proof.
  induction m as [|x r IH]; intros H i j Hij; cbn [List.length] in Hij; [lia|].
  destruct (sortedb_head _ _ H) as [Hr Hx].
  unfold A, sym_at. destruct i as [|i]; destruct j as [|j]; cbn [nth]; try lia.
  - apply Hx. apply nth_In. lia.
  - apply (IH Hr i j). lia.
Qed.

Lemma half_between : forall low high : nat,
  (low + 1 < high)%nat -> (low < (low + high) / 2 < high)%nat.
Proof. intros low high H. lia. Qed.

(* the loop invariant: A low <= a, and a < A high unless high = n *)
Lemma bsearch_inv : forall m a, sorted_idx m ->
  forall fuel low high,
  (low < high <= List.length m)%nat -> (high - low <= S fuel)%nat ->
  A m low <= a -> (high = List.length m \/ a < A m high) ->
  let r := bsearch fuel m a low high in
  (r < List.length m)%nat /\ A m r <= a /\
  forall j, (j < List.length m)%nat -> A m j <= a -> A m j <= A m r.
Proof.
  intros m a Hs. induction fuel as [|f IH]; intros low high Hlh Hf Hlo Hhi; cbn [bsearch].
  - (* high = low + 1 *)
    split; [lia|]. split; [exact Hlo|]. intros j Hj Hja.
    destruct (Nat.le_gt_cases j low) as [Hle|Hgt]; [apply Hs; lia|].
    destruct Hhi as [Hn|Hlt]; [lia|].
    assert (A m high <= A m j) by (apply Hs; lia). lia.
  - destruct (low + 1 <? high)%nat eqn:El.
    + apply Nat.ltb_lt in El. pose proof (half_between _ _ El) as Hm.
      set (mid := ((low + high) / 2)%nat) in *. fold (A m mid).
      destruct (a =? A m mid) eqn:Ee.
      * apply Z.eqb_eq in Ee. split; [lia|]. split; [lia|]. intros j Hj Hja. lia.
      * apply Z.eqb_neq in Ee. destruct (A m mid <? a) eqn:Ev.
        -- apply IH; lia.
        -- apply IH; lia.
    + apply Nat.ltb_ge in El.
      split; [lia|]. split; [exact Hlo|]. intros j Hj Hja.
      destruct (Nat.le_gt_cases j low) as [Hle|Hgt]; [apply Hs; lia|].
      destruct Hhi as [Hn|Hlt]; [lia|].
      assert (A m high <= A m j) by (apply Hs; lia). lia.
Qed.

(* the fuel (= table length) is enough: more fuel does not change the answer *)
Lemma bsearch_fuel_irrelevant : forall m a f1 f2 low high,
  (high - low <= S f1)%nat -> (high - low <= S f2)%nat ->
  bsearch f1 m a low high = bsearch f2 m a low high.
Proof.
  intros m a. induction f1 as [|f1 IH]; intros f2 low high H1 H2.
  - destruct f2 as [|f2]; cbn [bsearch]; [reflexivity|].
    replace (low + 1 <? high)%nat with false by (symmetry; apply Nat.ltb_ge; lia). reflexivity.
  - destruct f2 as [|f2]; cbn [bsearch].
    + replace (low + 1 <? high)%nat with false by (symmetry; apply Nat.ltb_ge; lia). reflexivity.
    + destruct (low + 1 <? high)%nat eqn:El; [|reflexivity].
      apply Nat.ltb_lt in El. pose proof (half_between _ _ El) as Hm.
      destruct (a =? sy_addr (sym_at m ((low + high) / 2))); [reflexivity|].
      destruct (sy_addr (sym_at m ((low + high) / 2)) <? a); apply IH; lia.
Qed.

Lemma in_sym_at : forall m s, In s m -> exists j, (j < List.length m)%nat /\ sym_at m j = s.
Proof. intros m s H. unfold sym_at. apply In_nth. exact H. Qed.

(* what a [Some]/[None] answer of addrInfo means on a sorted table *)
Lemma addr_info_cases : forall m a, sortedb m = true ->
  match addr_info m a with
  | Some n => exists s, In s m /\ sy_name s = n /\ sy_addr s <= a /\
                        (forall s', In s' m -> sy_addr s' <= a -> sy_addr s' <= sy_addr s) /\
                        (sym_is_data s = true -> a < sym_end s)
  | None => m = [] \/ (forall s, In s m -> a < sy_addr s) \/
            sym_end (sym_at m (List.length m - 1)) <= a \/
            exists s, In s m /\ sy_addr s <= a /\
                      (forall s', In s' m -> sy_addr s' <= a -> sy_addr s' <= sy_addr s) /\
                      sym_is_data s = true /\ sym_end s <= a
  end.
Proof.
  intros m a Hsb. pose proof (sortedb_sorted_idx _ Hsb) as Hs.
  unfold addr_info. destruct m as [|first rest] eqn:Em; [left; reflexivity|]. rewrite <- Em in *.
  assert (Hn : (0 < List.length m)%nat) by (rewrite Em; cbn; lia).
  assert (Hfirst : first = sym_at m 0) by (rewrite Em; reflexivity).
  destruct (a <? sy_addr first) eqn:E1; cbn [orb].
  - right. left. intros s Hin. destruct (in_sym_at _ _ Hin) as (j & Hj & <-).
    assert (A m 0 <= A m j) by (apply Hs; lia). unfold A in *. rewrite <- Hfirst in *. lia.
  - fold (sym_end (sym_at m (List.length m - 1))).
    destruct (sym_end (sym_at m (List.length m - 1)) <=? a) eqn:E2.
    + right. right. left. lia.
    + pose proof (bsearch_inv m a Hs (List.length m) 0%nat (List.length m) ltac:(lia) ltac:(lia)) as Hb.
      unfold A at 1 in Hb. rewrite <- Hfirst in Hb.
      specialize (Hb ltac:(lia) (or_introl eq_refl)). cbv zeta in Hb.
      set (low := bsearch (List.length m) m a 0 (List.length m)) in *.
      destruct Hb as (Hlow & Hle & Hmax).
      assert (Hin : In (sym_at m low) m) by (unfold sym_at; apply nth_In; exact Hlow).
      assert (Hgl : forall s', In s' m -> sy_addr s' <= a -> sy_addr s' <= sy_addr (sym_at m low)).
      { intros s' Hs' Ha'. destruct (in_sym_at _ _ Hs') as (j & Hj & <-). apply (Hmax j Hj Ha'). }
      fold (sym_end (sym_at m low)).
      destruct (sym_is_data (sym_at m low) && (sym_end (sym_at m low) <=? a)) eqn:E3.
      * right. right. right. exists (sym_at m low).
        apply andb_true_iff in E3. destruct E3 as [Ed Ee].
        split; [exact Hin|]. split; [exact Hle|]. split; [exact Hgl|]. split; [exact Ed | lia].
      * exists (sym_at m low). split; [exact Hin|]. split; [reflexivity|]. split; [exact Hle|].
        split; [exact Hgl|]. intros Hd. rewrite Hd in E3. cbn [andb] in E3. lia.
Qed.

Lemma greatest_le_intro : forall m a s,
  sy_addr s <= a -> (forall s', In s' m -> sy_addr s' <= a -> sy_addr s' <= sy_addr s) ->
  greatest_le m a s = true.
Proof.
  intros m a s Hle Hmax. unfold greatest_le. apply andb_true_iff. split; [lia|].
  apply forallb_forall. intros s' Hs'. specialize (Hmax s' Hs'). lia.
Qed.

Lemma addr_info_meets_spec_lemma : forall m a, spec_addr_info m a (addr_info m a) = true.
Proof.
  intros m a. unfold spec_addr_info. destruct (sortedb m) eqn:Hsb; [|reflexivity].
  pose proof (addr_info_cases m a Hsb) as Hc.
  destruct (addr_info m a) as [n|].
  - destruct Hc as (s & Hin & Hname & Hle & Hmax & Hdata).
    apply existsb_exists. exists s. split; [exact Hin|].
    rewrite Hname, String.eqb_refl, (greatest_le_intro _ _ _ Hle Hmax). cbn [andb].
    destruct (sym_is_data s); [specialize (Hdata eq_refl); cbn [negb orb]; lia | reflexivity].
  - destruct Hc as [Hm|[Hlt|[Hend|(s & Hin & Hle & Hmax & Hd & He)]]].
    + subst m. reflexivity.
    + replace (existsb (fun s => sy_addr s <=? a) m) with false; [reflexivity|].
      symmetry. destruct (existsb (fun s => sy_addr s <=? a) m) eqn:Ee; [|reflexivity].
      apply existsb_exists in Ee. destruct Ee as (s & Hin & Hs). specialize (Hlt s Hin). lia.
    + replace (sym_end (sym_at m (List.length m - 1)) <=? a) with true by lia.
      rewrite orb_true_r. reflexivity.
    + apply orb_true_iff. right. apply existsb_exists. exists s. split; [exact Hin|].
      rewrite (greatest_le_intro _ _ _ Hle Hmax), Hd. cbn [andb]. lia.
Qed.

Lemma addr_info_greatest_le_lemma : forall m a n, sortedb m = true -> addr_info m a = Some n ->
  exists s, In s m /\ sy_name s = n /\ sy_addr s <= a /\
            (forall s', In s' m -> sy_addr s' <= a -> sy_addr s' <= sy_addr s) /\
            (sym_is_data s = true -> a < sym_end s).
Proof. intros m a n Hs Hn. pose proof (addr_info_cases m a Hs) as Hc. rewrite Hn in Hc. exact Hc. Qed.

Lemma addr_info_none_lemma : forall m a, sortedb m = true -> addr_info m a = None ->
  m = [] \/ (forall s, In s m -> a < sy_addr s) \/
  sym_end (sym_at m (List.length m - 1)) <= a \/
  exists s, In s m /\ sy_addr s <= a /\
            (forall s', In s' m -> sy_addr s' <= a -> sy_addr s' <= sy_addr s) /\
            sym_is_data s = true /\ sym_end s <= a.
Proof. intros m a Hs Hn. pose proof (addr_info_cases m a Hs) as Hc. rewrite Hn in Hc. exact Hc. Qed.

Lemma binary_search_terminates_lemma : forall m a k,
  bsearch (List.length m + k) m a 0 (List.length m) = bsearch (List.length m) m a 0 (List.length m).
Proof. intros m a k. apply bsearch_fuel_irrelevant; lia. Qed.

(* ---------------- addr2line + nm fix-up ---------------- *)
Lemma strs_eqb_refl : forall l, strs_eqb l l = true.
Proof. induction l as [|x l IH]; cbn [strs_eqb]; [reflexivity|]. rewrite String.eqb_refl, IH. reflexivity. Qed.

Lemma a2l_fixup_meets_spec_lemma : forall base raw addr stack,
  spec_a2l_fixup (shift_syms base raw) addr stack
                 (a2l_addr_info base (Some (shift_syms base raw)) addr stack) = true.
Proof.
  intros base raw addr stack. unfold spec_a2l_fixup.
  set (tab := shift_syms base raw).
  destruct (sortedb tab) eqn:Hs; [|reflexivity].
  unfold a2l_addr_info, a2l_nm_query.
  pose proof (addr_info_meets_spec_lemma tab addr) as Hm.
  assert (Hgoal : existsb (fun r => spec_addr_info tab addr r &&
                     strs_eqb (a2l_apply_nm (addr_info tab addr) stack) (a2l_apply_nm r stack))
                    (None :: map (fun s => Some (sy_name s)) tab) = true).
  { apply existsb_exists. exists (addr_info tab addr). split.
    - destruct (addr_info tab addr) as [n|] eqn:En; [|left; reflexivity].
      right. destruct (addr_info_greatest_le_lemma tab addr n Hs En) as (s & Hin & Hn & _).
      apply in_map_iff. exists s. rewrite Hn. split; [reflexivity | exact Hin].
    - rewrite Hm, strs_eqb_refl. reflexivity. }
  destruct stack as [|x stack']; [|exact Hgoal].
  (* empty stack: every answer leaves it empty *)
  apply existsb_exists in Hgoal. destruct Hgoal as (r & Hin & Hr).
  apply existsb_exists. exists r. split; [exact Hin|].
  apply andb_true_iff in Hr. destruct Hr as [Hr _]. rewrite Hr. destruct r; reflexivity.
Qed.

(* without an attached table nothing is replaced *)
Lemma a2l_no_nm_lemma : forall base addr stack, a2l_addr_info base None addr stack = stack.
Proof. reflexivity. Qed.
