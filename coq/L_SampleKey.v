(* The byte encoding of the merge sample key (M_Merge.skey_bytes, = profileMerger.sampleKey after
   the F2 repair) is injective on well-formed keys: every component is self-delimiting (varints are
   prefix-free, strings and lists carry their length, the location section ends with a 0 that no
   location id can be).  This is what allows M_Merge to compare keys as tuples. *)
From Coq Require Import List ZArith Lia Bool String Ascii.
From PV Require Import M_Merge.
Import ListNotations.
Open Scope Z_scope.
Open Scope list_scope.

(* ------------------------------------------------------------------ varints *)
Lemma uvarint_fuel_prefix : forall n a b r r',
  0 <= a < 128 ^ (Z.of_nat n + 1) -> 0 <= b < 128 ^ (Z.of_nat n + 1) ->
  uvarint_fuel n a ++ r = uvarint_fuel n b ++ r' -> a = b /\ r = r'.
Proof.
  induction n as [|n IH]; intros a b r r' Ha Hb H.
  - cbn [uvarint_fuel] in H. change (128 ^ (Z.of_nat 0 + 1)) with 128 in *.
    rewrite !Z.mod_small in H by lia. inversion H. auto.
  - cbn [uvarint_fuel] in H.
    assert (E : 128 ^ (Z.of_nat (S n) + 1) = 128 * 128 ^ (Z.of_nat n + 1)).
    { rewrite Nat2Z.inj_succ. replace (Z.succ (Z.of_nat n) + 1) with (Z.succ (Z.of_nat n + 1)) by lia.
      rewrite Z.pow_succ_r by lia. reflexivity. }
    rewrite E in Ha, Hb.
    pose proof (Z.mod_pos_bound a 128) as Ma. pose proof (Z.mod_pos_bound b 128) as Mb.
    destruct (a <? 128) eqn:La; destruct (b <? 128) eqn:Lb;
      try apply Z.ltb_lt in La; try apply Z.ltb_lt in Lb; try apply Z.ltb_ge in La; try apply Z.ltb_ge in Lb;
      cbn [app] in H; inversion H as [[H1 H2]].
    + auto.
    + lia.
    + lia.
    + assert (Da : 0 <= a / 128 < 128 ^ (Z.of_nat n + 1)).
      { split; [apply Z.div_pos; lia | apply Z.div_lt_upper_bound; lia]. }
      assert (Db : 0 <= b / 128 < 128 ^ (Z.of_nat n + 1)).
      { split; [apply Z.div_pos; lia | apply Z.div_lt_upper_bound; lia]. }
      destruct (IH _ _ _ _ Da Db H2) as [Q R]. split; [|exact R].
      rewrite (Z.div_mod a 128), (Z.div_mod b 128) by lia. lia.
Qed.

Lemma two64_lt : two64 < 128 ^ (Z.of_nat 10 + 1).
Proof. reflexivity. Qed.

Lemma uvarint_prefix : forall a b r r',
  0 <= a < two64 -> 0 <= b < two64 -> uvarint a ++ r = uvarint b ++ r' -> a = b /\ r = r'.
Proof.
  intros a b r r' Ha Hb H. pose proof two64_lt. apply (uvarint_fuel_prefix 10 a b r r'); [lia | lia | exact H].
Qed.

(* ------------------------------------------------------------------ strings *)
Lemma bytes_of_string_length : forall s, List.length (bytes_of_string s) = String.length s.
Proof. induction s as [|a s IH]; cbn; [reflexivity | rewrite IH; reflexivity]. Qed.

Lemma bytes_of_string_inj : forall s t, bytes_of_string s = bytes_of_string t -> s = t.
Proof.
  induction s as [|a s IH]; intros t H; destruct t as [|b t]; cbn in H; try discriminate; [reflexivity|].
  inversion H as [[H1 H2]]. f_equal; [|apply IH; exact H2].
  apply N2Z.inj in H1. rewrite <- (ascii_N_embedding a), <- (ascii_N_embedding b), H1. reflexivity.
Qed.

Lemma app_eq_length : forall {A} (a b r r' : list A),
  List.length a = List.length b -> a ++ r = b ++ r' -> a = b /\ r = r'.
Proof.
  intros A. induction a as [|x a IH]; intros b r r' L H; destruct b as [|y b]; cbn in *; try discriminate.
  - auto.
  - inversion H as [[H1 H2]]. destruct (IH b r r') as [Q R]; [lia | exact H2|]. subst. auto.
Qed.

Definition slen_ok (s : string) : Prop := Z.of_nat (String.length s) < two64.

Lemma put_string_prefix : forall s t r r',
  slen_ok s -> slen_ok t -> put_string s ++ r = put_string t ++ r' -> s = t /\ r = r'.
Proof.
  intros s t r r' Hs Ht H. unfold put_string in H. rewrite <- !app_assoc in H.
  unfold slen_ok in *.
  destruct (uvarint_prefix (Z.of_nat (String.length s)) (Z.of_nat (String.length t)) _ _
              ltac:(lia) ltac:(lia) H) as [L H'].
  assert (LL : List.length (bytes_of_string s) = List.length (bytes_of_string t))
    by (rewrite !bytes_of_string_length; lia).
  destruct (app_eq_length _ _ _ _ LL H') as [Q R].
  split; [apply bytes_of_string_inj; exact Q | exact R].
Qed.

(* ------------------------------------------------------------------ counted lists *)
Section Counted.
  Context {A : Type} (enc : A -> list Z) (P : A -> Prop).
  Hypothesis enc_prefix : forall x y r r', P x -> P y -> enc x ++ r = enc y ++ r' -> x = y /\ r = r'.

  Lemma flat_map_prefix : forall l l' r r',
    List.length l = List.length l' -> Forall P l -> Forall P l' ->
    flat_map enc l ++ r = flat_map enc l' ++ r' -> l = l' /\ r = r'.
  Proof.
    induction l as [|x l IH]; intros l' r r' L Hl Hl' H; destruct l' as [|y l']; cbn in L; try discriminate.
    - cbn in H. auto.
    - cbn [flat_map] in H. rewrite <- !app_assoc in H.
      inversion Hl as [|? ? Px Pl]; inversion Hl' as [|? ? Py Pl']; subst.
      destruct (enc_prefix x y _ _ Px Py H) as [Q H'].
      destruct (IH l' r r') as [Q' R]; [lia | assumption | assumption | exact H'|]. subst. auto.
  Qed.

  Definition llen_ok (l : list A) : Prop := Z.of_nat (List.length l) < two64.

  Lemma counted_prefix : forall l l' r r',
    llen_ok l -> llen_ok l' -> Forall P l -> Forall P l' ->
    uvarint (Z.of_nat (List.length l)) ++ flat_map enc l ++ r =
    uvarint (Z.of_nat (List.length l')) ++ flat_map enc l' ++ r' -> l = l' /\ r = r'.
  Proof.
    intros l l' r r' Ll Ll' Hl Hl' H. unfold llen_ok in *.
    destruct (uvarint_prefix (Z.of_nat (List.length l)) (Z.of_nat (List.length l')) _ _
                ltac:(lia) ltac:(lia) H) as [L H'].
    apply flat_map_prefix; auto. lia.
  Qed.
End Counted.

(* ------------------------------------------------------------------ well-formed keys *)
Definition in_i64P (v : Z) : Prop := - two63 <= v < two63.

Definition label_ok (e : string * list string) : Prop :=
  slen_ok (fst e) /\ llen_ok (snd e) /\ Forall slen_ok (snd e).
Definition num_ok (e : numlabel_entry) : Prop :=
  let '(k, vals, units) := e in
  slen_ok k /\ llen_ok vals /\ Forall in_i64P vals /\ llen_ok units /\ Forall slen_ok units.
(* what every sample of a Go program satisfies: ids are non-zero uint64, values int64, lengths < 2^64 *)
Definition skey_ok (k : skey) : Prop :=
  let '(locs, labels, nums) := k in
  Forall (fun id => 1 <= id < two64) locs /\
  llen_ok labels /\ Forall label_ok labels /\ llen_ok nums /\ Forall num_ok nums.

Definition enc_label (e : string * list string) : list Z :=
  put_string (fst e) ++ uvarint (Z.of_nat (List.length (snd e))) ++ flat_map put_string (snd e).
Definition enc_num (e : numlabel_entry) : list Z :=
  let '(key, vals, units) := e in
  put_string key ++ uvarint (Z.of_nat (List.length vals)) ++ flat_map (fun v => uvarint (wrap_u64 v)) vals ++
  uvarint (Z.of_nat (List.length units)) ++ flat_map put_string units.

Lemma skey_bytes_unfold : forall locs labels nums,
  skey_bytes (locs, labels, nums) =
  flat_map uvarint locs ++ uvarint 0 ++
  uvarint (Z.of_nat (List.length labels)) ++ flat_map enc_label labels ++
  uvarint (Z.of_nat (List.length nums)) ++ flat_map enc_num nums.
Proof.
  intros. reflexivity.
Qed.

Lemma enc_label_prefix : forall x y r r',
  label_ok x -> label_ok y -> enc_label x ++ r = enc_label y ++ r' -> x = y /\ r = r'.
Proof.
  intros [k v] [k' v'] r r' (A1 & A2 & A3) (B1 & B2 & B3) H. unfold enc_label in H. cbn [fst snd] in *.
  rewrite <- !app_assoc in H.
  destruct (put_string_prefix _ _ _ _ A1 B1 H) as [Q H1]. subst k'.
  destruct (counted_prefix put_string slen_ok put_string_prefix _ _ _ _ A2 B2 A3 B3 H1) as [Q' R].
  subst. auto.
Qed.

Lemma wrap_u64_inj : forall v w, in_i64P v -> in_i64P w -> wrap_u64 v = wrap_u64 w -> v = w.
Proof.
  intros v w Hv Hw H. unfold wrap_u64, in_i64P, two63, two64 in *.
  pose proof (Z.div_mod v 18446744073709551616). pose proof (Z.div_mod w 18446744073709551616).
  pose proof (Z.mod_pos_bound v 18446744073709551616). pose proof (Z.mod_pos_bound w 18446744073709551616).
  lia.
Qed.

Lemma enc_val_prefix : forall x y r r',
  in_i64P x -> in_i64P y -> uvarint (wrap_u64 x) ++ r = uvarint (wrap_u64 y) ++ r' -> x = y /\ r = r'.
Proof.
  intros x y r r' Hx Hy H.
  assert (Bx : 0 <= wrap_u64 x < two64) by (apply Z.mod_pos_bound; reflexivity).
  assert (By : 0 <= wrap_u64 y < two64) by (apply Z.mod_pos_bound; reflexivity).
  destruct (uvarint_prefix _ _ _ _ Bx By H) as [Q R]. split; [apply wrap_u64_inj; assumption | exact R].
Qed.

Lemma enc_num_prefix : forall x y r r',
  num_ok x -> num_ok y -> enc_num x ++ r = enc_num y ++ r' -> x = y /\ r = r'.
Proof.
  intros [[k v] u] [[k' v'] u'] r r' (A1 & A2 & A3 & A4 & A5) (B1 & B2 & B3 & B4 & B5) H.
  unfold enc_num in H. rewrite <- !app_assoc in H.
  destruct (put_string_prefix _ _ _ _ A1 B1 H) as [Q H1]. subst k'.
  destruct (counted_prefix (fun v => uvarint (wrap_u64 v)) in_i64P enc_val_prefix _ _ _ _ A2 B2 A3 B3 H1) as [Q' H2].
  subst v'.
  destruct (counted_prefix put_string slen_ok put_string_prefix _ _ _ _ A4 B4 A5 B5 H2) as [Q'' R].
  subst. auto.
Qed.

Lemma locs_prefix : forall l l' r r',
  Forall (fun id => 1 <= id < two64) l -> Forall (fun id => 1 <= id < two64) l' ->
  flat_map uvarint l ++ uvarint 0 ++ r = flat_map uvarint l' ++ uvarint 0 ++ r' -> l = l' /\ r = r'.
Proof.
  assert (Z0 : 0 <= 0 < two64) by (unfold two64; lia).
  induction l as [|x l IH]; intros l' r r' Hl Hl' H; destruct l' as [|y l']; cbn [flat_map app] in H.
  - destruct (uvarint_prefix _ _ _ _ Z0 Z0 H). auto.
  - inversion Hl'; subst. rewrite <- app_assoc in H.
    destruct (uvarint_prefix 0 y _ _ Z0 ltac:(lia) H). lia.
  - inversion Hl; subst. rewrite <- app_assoc in H.
    destruct (uvarint_prefix x 0 _ _ ltac:(lia) Z0 H). lia.
  - inversion Hl; inversion Hl'; subst. rewrite <- !app_assoc in H.
    destruct (uvarint_prefix x y _ _ ltac:(lia) ltac:(lia) H) as [Q H'].
    destruct (IH l' r r') as [Q' R]; auto. subst. auto.
Qed.

(* the byte string determines the key *)
Theorem skey_bytes_injective_lemma : forall a b,
  skey_ok a -> skey_ok b -> skey_bytes a = skey_bytes b -> a = b.
Proof.
  intros [[locs labels] nums] [[locs' labels'] nums'] (A1 & A2 & A3 & A4 & A5) (B1 & B2 & B3 & B4 & B5) H.
  rewrite !skey_bytes_unfold in H.
  destruct (locs_prefix _ _ _ _ A1 B1 H) as [Q H1]. subst locs'.
  destruct (counted_prefix enc_label label_ok enc_label_prefix _ _ _ _ A2 B2 A3 B3 H1) as [Q' H2]. subst labels'.
  rewrite <- (app_nil_r (flat_map enc_num nums)), <- (app_nil_r (flat_map enc_num nums')) in H2.
  destruct (counted_prefix enc_num num_ok enc_num_prefix _ _ _ _ A4 B4 A5 B5 H2) as [Q'' _]. subst. reflexivity.
Qed.
