(* C18 model of internal/report/report.go printCallgrind / callgrindName / callgrindAddress.
   The graph (node order, out-edge order, disambiguated callee names, scaled integer costs) is an
   oracle shipped with the case; the model is the emission: which lines, which name-compression
   ids, which subposition encodings.  Output is first a list of structured lines ([cgline]),
   then text.  No proofs in this file. *)
From PV Require Export Base.Term Base.Str M_Profile M_Dot.
Open Scope string_scope.
Open Scope Z_scope.

Record cgedge := { ce_file : string; ce_name : string (* nodeNames[callee] *); ce_addr : Z; ce_line : Z; ce_cost : Z }.
Record cgnode := { cn_obj : string; cn_file : string; cn_name : string; cn_addr : Z; cn_line : Z;
                   cn_cost : Z; cn_out : list cgedge }.

Inductive nref := NEmpty | NDef (id : Z) (name : string) | NRef (id : Z).
Inductive apos := PAbs (z : Z) | PSame | PRel (d : Z).

Inductive cgline :=
| GHeader (s : string)
| GBlank
| GOb (r : nref) | GFl (r : nref) | GFn (r : nref) | GCfl (r : nref) | GCfn (r : nref)
| GCost (p : apos) (line cost : Z)
| GCalls (p : apos) (line : Z)
| GCallCost (cost : Z).

(* callgrindName: the table is the list of names in order of first use; id = position + 1 *)
Fixpoint index_of (name : string) (tbl : list string) (i : Z) : option Z :=
  match tbl with
  | [] => None
  | x :: r => if String.eqb x name then Some i else index_of name r (i + 1)
  end.

Definition cg_name (tbl : list string) (name : string) : nref * list string :=
  if String.eqb name "" then (NEmpty, tbl)
  else match index_of name tbl 1 with
       | Some id => (NRef id, tbl)
       | None => (NDef (Z.of_nat (List.length tbl) + 1) name, (tbl ++ [name])%list)
       end.

Definition fmt_abs (curr : Z) : string := "0x" ++ hex_min curr.                (* %#x *)
Definition fmt_rel (d : Z) : string := (if d <? 0 then "" else "+") ++ string_of_Z d.  (* %+d *)

(* callgrindAddress *)
Definition cg_addr (prev : option Z) (curr : Z) : apos :=
  match prev with
  | None => PAbs curr
  | Some p =>
      if p =? curr then PSame
      else
        let diff := wrap_i64 (wrap_u64 (curr - p)) in
        if (String.length (fmt_rel diff) <? String.length (fmt_abs curr))%nat then PRel diff else PAbs curr
  end.

Record cgstate := { cs_obj : list string; cs_file : list string; cs_name : list string }.

(* F11: the callee's subposition is encoded relative to the PREVIOUS node (prevInfo), although
   the node's own cost line has already been written.  One definition, so that a repair is a
   one-line change (use [Some (cn_addr n)] instead). *)
Definition callee_base (prev : option cgnode) (n : cgnode) : option Z :=
  match prev with Some p => Some (cn_addr p) | None => None end.

Fixpoint cg_edges (es : list cgedge) (st : cgstate) (base : option Z) : list cgline * cgstate :=
  match es with
  | [] => ([], st)
  | e :: r =>
      let '(rf, files) := cg_name (cs_file st) (ce_file e) in
      let '(rn, names) := cg_name (cs_name st) (ce_name e) in
      let st' := {| cs_obj := cs_obj st; cs_file := files; cs_name := names |} in
      let '(ls, st'') := cg_edges r st' base in
      ((GCfl rf :: GCfn rn :: GCalls (cg_addr base (ce_addr e)) (ce_line e) :: GCallCost (ce_cost e) :: ls)%list, st'')
  end.

Definition same_fn (p n : cgnode) : bool :=
  String.eqb (cn_obj n) (cn_obj p) && String.eqb (cn_file n) (cn_file p) && String.eqb (cn_name n) (cn_name p).

Fixpoint cg_nodes (ns : list cgnode) (st : cgstate) (prev : option cgnode) : list cgline :=
  match ns with
  | [] => []
  | n :: r =>
      let hdr := match prev with Some p => negb (same_fn p n) | None => true end in
      let '(hl, st1) :=
        if hdr then
          let '(ro, objs) := cg_name (cs_obj st) (cn_obj n) in
          let '(rf, files) := cg_name (cs_file st) (cn_file n) in
          let '(rn, names) := cg_name (cs_name st) (cn_name n) in
          ([GBlank; GOb ro; GFl rf; GFn rn], {| cs_obj := objs; cs_file := files; cs_name := names |})
        else ([], st) in
      let cost := GCost (cg_addr (match prev with Some p => Some (cn_addr p) | None => None end) (cn_addr n))
                        (cn_line n) (cn_cost n) in
      let '(el, st2) := cg_edges (cn_out n) st1 (callee_base prev n) in
      (hl ++ cost :: el ++ cg_nodes r st2 (Some n))%list
  end.

Definition cg_lines (sample_type output_unit : string) (ns : list cgnode) : list cgline :=
  GHeader "positions: instr line" ::
  GHeader ("events: " ++ sample_type ++ "(" ++ output_unit ++ ")") ::
  cg_nodes ns {| cs_obj := []; cs_file := []; cs_name := [] |} None.

(* ---------------- text ---------------- *)
Definition render_ref (r : nref) : string :=
  match r with
  | NEmpty => ""
  | NDef id name => "(" ++ string_of_Z id ++ ") " ++ name
  | NRef id => "(" ++ string_of_Z id ++ ")"
  end.
Definition render_pos (p : apos) : string :=
  match p with PAbs z => fmt_abs z | PSame => "*" | PRel d => fmt_rel d end.
Definition render_line (l : cgline) : string :=
  match l with
  | GHeader s => s
  | GBlank => ""
  | GOb r => "ob=" ++ render_ref r
  | GFl r => "fl=" ++ render_ref r
  | GFn r => "fn=" ++ render_ref r
  | GCfl r => "cfl=" ++ render_ref r
  | GCfn r => "cfn=" ++ render_ref r
  | GCost p line cost => render_pos p ++ " " ++ string_of_Z line ++ " " ++ string_of_Z cost
  | GCalls p line => "calls=0 " ++ render_pos p ++ " " ++ string_of_Z line
  | GCallCost cost => "* * " ++ string_of_Z cost
  end.
Fixpoint render_lines (ls : list cgline) : string :=
  match ls with
  | [] => ""
  | l :: r => render_line l ++ s_nl ++ render_lines r
  end.
Definition print_callgrind (sample_type output_unit : string) (ns : list cgnode) : string :=
  render_lines (cg_lines sample_type output_unit ns).
