(* Model of the glue between "pprof -http ... profile" and Report.Stacks on the /flamegraph path:
   cli.go parseFlags (sample_index and the legacy selection flags, mean, granularity choice flags,
   noinlines, showcolumns, trim_path), config.go applyURL (a non-empty URL parameter overrides the
   value the command line left in the current configuration; choice and bool values are validated),
   stacks.go stackView's config editor (granularity "" -> "filefunctions"), driver.go sampleFormat /
   reportOptions / aggregate (re-used from M_Report: sample_format, aggregate), and webui.go
   serveWebInterface / makeReport: every request works on a fresh copy of the profile the user
   loaded, so a request neither sees nor leaves any state.  No proofs in this file. *)
From PV Require Import M_Report.
From PV Require Import M_Stacks.
Open Scope string_scope.
Open Scope Z_scope.

(* what the command line left in the current configuration *)
Record gflags := {
  gf_si : string;              (* -sample_index=v, "" if not given *)
  gf_legacy : list string;     (* legacy selection flags given: total_delay, mean_delay, contentions,
                                  inuse_space, inuse_objects, alloc_space, alloc_objects *)
  gf_mean : bool;              (* -mean *)
  gf_gran : string;            (* the granularity choice flag given (-functions, -files, ...), or "" *)
  gf_noinlines : bool;
  gf_columns : bool;           (* -showcolumns *)
  gf_trim : string             (* -trim_path *)
}.

(* decoded URL parameters of a request, "" = absent or empty (applyURL skips empty values) *)
Record gurl := { u_si : string; u_mean : string; u_gran : string; u_noinlines : string; u_columns : string }.

(* cli.go:124-136: the legacy flags are consulted in this order, each one only if nothing was
   selected before it *)
Definition legacy_order : list (string * string) :=
  [("total_delay", "delay"); ("mean_delay", "delay"); ("contentions", "contentions");
   ("inuse_space", "inuse_space"); ("inuse_objects", "inuse_objects");
   ("alloc_space", "alloc_space"); ("alloc_objects", "alloc_objects")].

Definition cli_sample_index (f : gflags) : string :=
  fold_left (fun si ft => if String.eqb si "" && existsb (String.eqb (fst ft)) (gf_legacy f) then snd ft else si)
            legacy_order (gf_si f).
Definition cli_mean (f : gflags) : bool := gf_mean f || existsb (String.eqb "mean_delay") (gf_legacy f).

(* commands.go stringToBool *)
Definition string_to_bool (s : string) : option bool :=
  let l := to_lower s in
  if existsb (String.eqb l) ["true"; "t"; "yes"; "y"; "1"; ""] then Some true
  else if existsb (String.eqb l) ["false"; "f"; "no"; "n"; "0"] then Some false
  else None.

Definition gran_choices : list string := ["addresses"; "lines"; "files"; "functions"; "filefunctions"].

(* the configuration a /flamegraph request ends up with *)
Record gcfg := { c_si : string; c_mean : bool; c_gran : string; c_noinlines : bool; c_columns : bool }.

Definition url_bool (dflt : bool) (v : string) : option bool :=
  if String.eqb v "" then Some dflt else string_to_bool v.

Definition apply_url (f : gflags) (u : gurl) : option gcfg :=
  match url_bool (cli_mean f) (u_mean u), url_bool (gf_noinlines f) (u_noinlines u),
        url_bool (gf_columns f) (u_columns u) with
  | Some mean, Some noinl, Some cols =>
      if String.eqb (u_gran u) "" || existsb (String.eqb (u_gran u)) gran_choices then
        Some {| c_si := if String.eqb (u_si u) "" then cli_sample_index f else u_si u;
                c_mean := mean;
                c_gran := if String.eqb (u_gran u) "" then gf_gran f else u_gran u;
                c_noinlines := noinl; c_columns := cols |}
      else None
  | _, _, _ => None
  end.

(* stackView's config editor *)
Definition stack_view_gran (g : string) : string := if String.eqb g "" then "filefunctions" else g.

Inductive web_result :=
| WebOk (o : opts) (unit : string) (p : profile)   (* options, sample unit and profile Stacks() runs on *)
| WebBadRequest.

Definition flamegraph_request (f : gflags) (u : gurl) (loaded : profile) : web_result :=
  match apply_url f u with
  | None => WebBadRequest
  | Some c =>
      match M_Report.sample_format loaded (c_si c) with
      | M_Report.SiOk i =>
          let st := nth (Z.to_nat i) (p_sampletype loaded) {| vt_type := ""; vt_unit := "" |} in
          WebOk {| o_index := Z.to_nat i;
                   o_meandiv := if c_mean c then Some O else None;
                   o_type := if c_mean c then "mean_" ++ vt_type st else vt_type st;
                   o_trim := gf_trim f |}
                (vt_unit st)
                (M_Report.aggregate (stack_view_gran (c_gran c)) (c_noinlines c) (c_columns c) loaded)
      | _ => WebBadRequest
      end
  end.

(* a browser session: the state a request could see is (flags, loaded profile); serving a request
   leaves it as it was *)
Definition serve_one (st : gflags * profile) (u : gurl) : web_result * (gflags * profile) :=
  (flamegraph_request (fst st) u (snd st), st).

Fixpoint serve (st : gflags * profile) (reqs : list gurl) : list web_result * (gflags * profile) :=
  match reqs with
  | [] => ([], st)
  | u :: r => let '(x, st1) := serve_one st u in let '(xs, st2) := serve st1 r in (x :: xs, st2)
  end.
