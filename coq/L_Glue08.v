(* C08, end-to-end layer -- lemmas about the glue model. *)
From Coq Require Import Lia Sorting.Permutation.
From PV Require Import Base.Term Base.Str M_Glue08.
Open Scope string_scope.

(* the outcome of a multi-choice group is a function of the SET of flags that were set: the order in
   which the map hands them over cannot show *)
Lemma resolve_choice_perm_lemma (s s' : list string) :
  Permutation s s' -> resolve_choice s = resolve_choice s'.
Proof.
  intro P. destruct s as [|a [|b s]].
  - apply Permutation_nil in P. now subst.
  - apply Permutation_length_1_inv in P. now subst.
  - pose proof (Permutation_length P) as L. destruct s' as [|a' [|b' s']]; cbn in L; try lia. reflexivity.
Qed.

(* the lenient rule ("the last flag that departs from the default wins") is NOT a function of the set *)
Lemma resolve_lenient_order_sensitive_witness :
  resolve_lenient "" ["functions"; "lines"] <> resolve_lenient "" ["lines"; "functions"].
Proof. vm_compute. intro H. discriminate H. Qed.

(* a command repeated with no option assignment in between issues the same request *)
Lemma session_requests_repeat_lemma (c1 c2 : string) (mid rest hist : list string) :
  is_assignment c1 = false -> is_assignment c2 = false ->
  forallb (fun l => negb (is_assignment l)) mid = true ->
  strip_redirect c1 = strip_redirect c2 ->
  nth (S (List.length mid)) (session_requests (c1 :: mid ++ c2 :: rest) hist) None
  = nth 0 (session_requests (c1 :: mid ++ c2 :: rest) hist) None.
Proof.
  intros A1 A2 M E. cbn [session_requests]. rewrite A1. cbn [nth].
  revert M. induction mid as [|m mid IH]; intro M; cbn [app List.length session_requests].
  - rewrite A2. cbn. now rewrite E.
  - cbn in M. apply andb_true_iff in M. destruct M as [Mm M]. apply negb_true_iff in Mm. rewrite Mm.
    cbn [nth]. now apply IH.
Qed.

(* hence, whatever deterministic function of the request produces the bytes, the two outputs agree *)
Lemma session_repeat_same_output_lemma {B} (render : string * list string -> B) c1 c2 mid rest hist :
  is_assignment c1 = false -> is_assignment c2 = false ->
  forallb (fun l => negb (is_assignment l)) mid = true ->
  strip_redirect c1 = strip_redirect c2 ->
  let outs := map (option_map render) (session_requests (c1 :: mid ++ c2 :: rest) hist) in
  nth (S (List.length mid)) outs None = nth 0 outs None.
Proof.
  intros A1 A2 M E outs. unfold outs.
  change None with (option_map render None).
  rewrite !map_nth. f_equal. now apply session_requests_repeat_lemma.
Qed.

(* at most one address can qualify, so the map order of the search cannot show: two different second
   frames are counted on disjoint sets of samples *)
Lemma handler_frame_unique_lemma (n c1 c2 : Z) :
  (0 < c1)%Z -> (0 < c2)%Z -> (c1 + c2 <= n)%Z ->
  handler_frame_qualifies n c1 = true -> handler_frame_qualifies n c2 = false.
Proof.
  unfold handler_frame_qualifies. intros P1 P2 S Q. apply Z.leb_le in Q. apply Z.leb_gt.
  pose proof (Z.div_mod n 32 ltac:(lia)) as D. pose proof (Z.mod_pos_bound n 32 ltac:(lia)) as B. lia.
Qed.

(* measured against the samples that HAVE a second frame (keeping the tolerance n/32) two addresses can qualify *)
Lemma handler_frame_against_deep_stacks_not_unique_witness :
  let n := 64%Z in let stacks := 4%Z in let c1 := 2%Z in let c2 := 2%Z in
  (c1 + c2 <= stacks)%Z /\ (stacks - n / 32 <=? c1)%Z = true /\ (stacks - n / 32 <=? c2)%Z = true.
Proof. vm_compute. repeat split; discriminate. Qed.
