(* C08 -- fmt.Sprint(NodeInfo) is injective as long as no string field contains a space:
   the class F8 is confined to names / files / object files with spaces. *)
From Coq Require Import Lia DecimalString DecimalZ DecimalPos DecimalN Decimal.
From PV Require Import M_Order L_Order.
Open Scope string_scope.
Open Scope Z_scope.

Definition sp : ascii := " "%char.
Definition no_space (s : string) : bool := negb (contains_char sp s).
Definition info_no_spaces (i : node_info) : bool :=
  no_space (ni_name i) && no_space (ni_orig i) && no_space (ni_file i) && no_space (ni_objfile i).

Lemma no_space_cons a s : no_space (String a s) = true -> a <> sp /\ no_space s = true.
Proof.
  unfold no_space. cbn. intro H. apply negb_true_iff in H. apply orb_false_iff in H. destruct H as [H1 H2].
  split; [now apply Ascii.eqb_neq in H1 | now rewrite H2].
Qed.

(* a space-free head is determined by the concatenation *)
Lemma split_unique x : forall x' r r',
  no_space x = true -> no_space x' = true ->
  x ++ String sp r = x' ++ String sp r' -> x = x' /\ r = r'.
Proof.
  induction x as [|a x IH]; intros x' r r' N N' E; destruct x' as [|a' x']; cbn in E.
  - inversion E. auto.
  - inversion E as [[A R]]. apply no_space_cons in N'. destruct N' as [N' _]. congruence.
  - inversion E as [[A R]]. apply no_space_cons in N. destruct N as [N _]. congruence.
  - inversion E as [[A R]]. apply no_space_cons in N. apply no_space_cons in N'.
    destruct (IH x' r r') as [X R']; try tauto. subst. auto.
Qed.

Lemma append_last_inj s1 : forall s2 c, s1 ++ String c "" = s2 ++ String c "" -> s1 = s2.
Proof.
  induction s1 as [|a s1 IH]; intros s2 c E; destruct s2 as [|b s2]; cbn in E.
  - reflexivity.
  - inversion E as [[A R]]. destruct s2; discriminate.
  - inversion E as [[A R]]. destruct s1; discriminate.
  - inversion E as [[A R]]. f_equal. eapply IH. eassumption.
Qed.

(* decimal numerals contain no space and determine the number *)
Lemma uint_no_space d : no_space (NilEmpty.string_of_uint d) = true.
Proof. induction d; cbn; try reflexivity; unfold no_space in *; cbn; assumption. Qed.

Lemma string_of_Z_no_space z : no_space (string_of_Z z) = true.
Proof.
  unfold string_of_Z, NilZero.string_of_int, NilZero.string_of_uint.
  destruct (Z.to_int z) as [d|d]; destruct d; try reflexivity;
    try (apply (uint_no_space (_ d)));
    try (change (no_space (String "-" (NilEmpty.string_of_uint (D0 d))) = true));
    unfold no_space; cbn; try apply (uint_no_space d); fold (no_space (NilEmpty.string_of_uint d)); try apply uint_no_space.
Qed.

Lemma to_int_nonnil z : Z.to_int z <> Pos Nil /\ Z.to_int z <> Neg Nil.
Proof.
  destruct z as [|p|p]; cbn; split; try discriminate; intro H; inversion H as [H'];
    exact (Unsigned.to_uint_nonnil p H').
Qed.

Lemma string_of_Z_inj a b : string_of_Z a = string_of_Z b -> a = b.
Proof.
  unfold string_of_Z. intro H.
  apply (f_equal NilZero.int_of_string) in H.
  destruct (to_int_nonnil a) as [A1 A2]. destruct (to_int_nonnil b) as [B1 B2].
  rewrite !NilZero.isi in H by assumption. inversion H as [H'].
  apply (f_equal Z.of_int) in H'. now rewrite !DecimalZ.of_to in H'.
Qed.

Theorem sprint_injective_if_no_spaces_lemma a b :
  info_no_spaces a = true -> info_no_spaces b = true ->
  sprint_info a = sprint_info b -> a = b.
Proof.
  unfold info_no_spaces. intros NA NB E.
  repeat (apply andb_true_iff in NA; destruct NA as [NA ?]).
  repeat (apply andb_true_iff in NB; destruct NB as [NB ?]).
  unfold sprint_info, sprint_fields in E. cbn [concat_with] in E.
  cbn [append] in E. inversion E as [E']. clear E.
  apply append_last_inj in E'.
  repeat match type of E' with
  | ?x ++ String _ ?r = ?x' ++ String _ ?r' =>
      let X := fresh "X" in
      destruct (split_unique x x' r r') as [X E'']; try assumption; try apply string_of_Z_no_space;
      clear E'; rename E'' into E'
  end.
  destruct a, b; cbn in *. subst.
  repeat match goal with H : string_of_Z _ = string_of_Z _ |- _ => apply string_of_Z_inj in H end.
  subst. reflexivity.
Qed.

(* hence F8 needs a space in a name, file or object file *)
Lemma no_spaces_not_F8_lemma l :
  forallb (fun n => info_no_spaces (n_info n)) l = true -> in_F8 l = false.
Proof.
  intro NS. destruct (in_F8 l) eqn:E; [|reflexivity]. exfalso.
  unfold in_F8 in E. apply exists_pair_true in E. destruct E as [x [y [Hx [Hy P]]]].
  rewrite forallb_forall in NS.
  apply andb_true_iff in P. destruct P as [P1 P2]. apply String.eqb_eq in P2.
  apply sprint_injective_if_no_spaces_lemma in P2; [| now apply NS | now apply NS].
  rewrite P2, info_eqb_refl in P1. discriminate.
Qed.
