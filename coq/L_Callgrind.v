(* C18 lemmas for callgrind: the reference reader (S_Callgrind.decode) follows the writer
   (M_Callgrind.cg_lines) line by line: name tables stay in step, positions decode.  The reader may
   see each name through a view f (identity at the structured level, ltrim at the text level). *)
From Coq Require Import Lia ZifyBool.
From PV Require Import M_Callgrind S_Callgrind.
Open Scope string_scope.
Open Scope Z_scope.

Lemma wrap_decode : forall p c, 0 <= p < two64 -> 0 <= c < two64 ->
  wrap_u64 (p + wrap_i64 (wrap_u64 (c - p))) = c.
Proof.
  intros p c Hp Hc. unfold wrap_u64, wrap_i64, two64, two63 in *.
  change (2 ^ 64) with 18446744073709551616 in *. change (2 ^ 63) with 9223372036854775808 in *.
  Ltac Zify.zify_post_hook ::= Z.div_mod_to_equations.
  lia.
Qed.
Ltac Zify.zify_post_hook ::= idtac.

Lemma cg_addr_decodes : forall p c, 0 <= p < two64 -> 0 <= c < two64 -> dpos p (cg_addr (Some p) c) = c.
Proof.
  intros p c Hp Hc. unfold cg_addr. destruct (p =? c) eqn:E.
  - simpl. lia.
  - destruct (String.length (fmt_rel (wrap_i64 (wrap_u64 (c - p)))) <? String.length (fmt_abs c))%nat; simpl; [|reflexivity].
    now apply wrap_decode.
Qed.

(* ---------------- name tables ---------------- *)
Lemma index_of_range : forall x l i k, index_of x l i = Some k -> i <= k < i + Z.of_nat (List.length l).
Proof.
  induction l as [|y r IH]; simpl; intros i k H; [discriminate H|].
  destruct (String.eqb y x).
  - inversion H. lia.
  - apply IH in H. lia.
Qed.

Lemma index_of_app_some : forall x l m i k, index_of x l i = Some k -> index_of x (l ++ m) i = Some k.
Proof.
  induction l as [|y r IH]; simpl; intros m i k H; [discriminate H|].
  destruct (String.eqb y x); [exact H | now apply IH].
Qed.

Lemma index_of_app_none : forall x l y i, index_of x l i = None ->
  index_of x (l ++ [y]) i = if String.eqb y x then Some (i + Z.of_nat (List.length l)) else None.
Proof.
  induction l as [|z r IH]; simpl; intros y i H.
  - destruct (String.eqb y x); [f_equal; lia | reflexivity].
  - destruct (String.eqb z x); [discriminate H|]. rewrite (IH y (i + 1) H).
    destruct (String.eqb y x); [f_equal; lia | reflexivity].
Qed.

(* ids are handed out densely: a definition always gets the next unused id *)
Lemma cg_name_def_dense : forall tbl0 name k n,
  fst (cg_name tbl0 name) = NDef k n ->
  k = Z.of_nat (List.length tbl0) + 1 /\ n = name /\ snd (cg_name tbl0 name) = (tbl0 ++ [name])%list /\
  index_of name tbl0 1 = None.
Proof.
  intros tbl0 name k n. unfold cg_name. destruct (String.eqb name ""); [discriminate|].
  destruct (index_of name tbl0 1) eqn:E; simpl; intro H; [discriminate H|]. inversion H. auto.
Qed.

(* the reader may see each written name through a view f (text level: leading blanks are lost) *)
Definition map_ref (f : string -> string) (r : nref) : nref :=
  match r with NEmpty => NEmpty | NDef k n => NDef k (f n) | NRef k => NRef k end.
Definition map_line (f : string -> string) (l : cgline) : cgline :=
  match l with
  | GOb r => GOb (map_ref f r) | GFl r => GFl (map_ref f r) | GFn r => GFn (map_ref f r)
  | GCfl r => GCfl (map_ref f r) | GCfn r => GCfn (map_ref f r)
  | other => other
  end.
Definition fedge (f : string -> string) (e : cgedge) : cgedge :=
  {| ce_file := f (ce_file e); ce_name := f (ce_name e); ce_addr := ce_addr e; ce_line := ce_line e; ce_cost := ce_cost e |}.
Definition fnode (f : string -> string) (n : cgnode) : cgnode :=
  {| cn_obj := f (cn_obj n); cn_file := f (cn_file n); cn_name := f (cn_name n);
     cn_addr := cn_addr n; cn_line := cn_line n; cn_cost := cn_cost n; cn_out := map (fedge f) (cn_out n) |}.

Section View.
Variable f : string -> string.
Hypothesis f_nil : f "" = "".

(* the reader's table mirrors the writer's list of names *)
Definition trel (names : list string) (t : tbl) : Prop :=
  (forall k, Z.of_nat (List.length names) < k -> tlookup t k = None) /\
  (forall x k, index_of x names 1 = Some k -> tlookup t k = Some (f x)).

Lemma trel_nil : trel [] [].
Proof. split; [reflexivity | intros x k H; discriminate H]. Qed.

Lemma cg_name_resolve : forall names t name,
  trel names t ->
  exists t', resolve t (map_ref f (fst (cg_name names name))) = Some (f name, t') /\ trel (snd (cg_name names name)) t'.
Proof.
  intros names t name [I1 I2]. unfold cg_name.
  destruct (String.eqb_spec name "") as [E|NE].
  - subst name. exists t. simpl. rewrite f_nil. split; [reflexivity | split; assumption].
  - destruct (index_of name names 1) as [k|] eqn:EI; simpl.
    + exists t. rewrite (I2 _ _ EI). split; [reflexivity | split; assumption].
    + remember (Z.of_nat (List.length names) + 1) as n1 eqn:En1.
      assert (Hn1 : Z.of_nat (List.length names) < n1) by (clear - En1; lia).
      rewrite (I1 n1 Hn1).
      exists ((n1, f name) :: t). split; [reflexivity|]. split.
      * intros k Hid. rewrite app_length in Hid. simpl in Hid. simpl.
        assert (Hne : (n1 =? k) = false) by (clear - En1 Hid; lia).
        rewrite Hne. apply I1. clear - Hid. lia.
      * intros x k Hx. simpl.
        destruct (index_of x names 1) as [k0|] eqn:E0.
        -- rewrite (index_of_app_some _ _ [name] _ _ E0) in Hx. inversion Hx. subst k0.
           pose proof (index_of_range _ _ _ _ E0) as R0.
           assert (Hne : (n1 =? k) = false) by (clear - En1 R0; lia).
           rewrite Hne. now apply I2.
        -- rewrite (index_of_app_none _ _ name _ E0) in Hx.
           destruct (String.eqb_spec name x) as [Ex|Nx]; [|discriminate Hx].
           assert (Hk : 1 + Z.of_nat (List.length names) = k) by congruence. subst x.
           assert (Heq : (n1 =? k) = true) by (clear - En1 Hk; lia).
           rewrite Heq. reflexivity.
Qed.

(* ---------------- the reader follows the writer ---------------- *)
Definition Q (st : cgstate) (ds : dstate) : Prop :=
  exists tob tfl tfn, d_tabs ds = (tob, tfl, tfn) /\ trel (cs_obj st) tob /\ trel (cs_file st) tfl /\ trel (cs_name st) tfn.
Definition at_node (n : cgnode) (ds : dstate) : Prop :=
  d_cur ds = (f (cn_obj n), f (cn_file n), f (cn_name n)) /\ d_pos ds = (cn_addr n, cn_line n) /\ d_pend ds = (None, None, None).

Definition edge_ev (n : cgnode) (e : cgedge) : cgev :=
  EvCall (f (cn_obj n)) (f (cn_file n)) (f (cn_name n)) (f (ce_file e)) (f (ce_name e)) (ce_addr e) (ce_line e)
         (cn_addr n) (cn_line n) (ce_cost e).

Lemma edges_run : forall n base es st ds,
  Q st ds -> at_node n ds ->
  (forall e, In e es -> dpos (cn_addr n) (cg_addr base (ce_addr e)) = ce_addr e) ->
  exists ds', drun ds (map (map_line f) (fst (cg_edges es st base))) = Some ds' /\ Q (snd (cg_edges es st base)) ds' /\ at_node n ds' /\
              d_out ds' = (rev (map (edge_ev n) es) ++ d_out ds)%list.
Proof.
  intros n base es. induction es as [|e r IH]; intros st ds HQ HA Hpos.
  - exists ds. simpl. split; [reflexivity | split; [exact HQ | split; [exact HA | reflexivity]]].
  - destruct HQ as [tob [tfl [tfn [Et [Ro [Rf Rn]]]]]]. destruct HA as [Ec [Ep Epd]].
    destruct (cg_name_resolve (cs_file st) tfl (ce_file e) Rf) as [tfl' [Hr1 Rf']].
    destruct (cg_name_resolve (cs_name st) tfn (ce_name e) Rn) as [tfn' [Hr2 Rn']].
    simpl cg_edges.
    destruct (cg_name (cs_file st) (ce_file e)) as [rf files] eqn:Ef.
    destruct (cg_name (cs_name st) (ce_name e)) as [rn names] eqn:En.
    simpl in Hr1, Hr2, Rf', Rn'.
    set (st' := {| cs_obj := cs_obj st; cs_file := files; cs_name := names |}).
    set (ds4 := {| d_tabs := (tob, tfl', tfn'); d_cur := d_cur ds; d_pend := (None, None, None); d_pos := d_pos ds;
                   d_out := edge_ev n e :: d_out ds |}).
    assert (HQ' : Q st' ds4).
    { exists tob, tfl', tfn'. split; [reflexivity | split; [exact Ro | split; [exact Rf' | exact Rn']]]. }
    assert (HA' : at_node n ds4).
    { split; [exact Ec | split; [exact Ep | reflexivity]]. }
    destruct (IH st' ds4 HQ' HA' (fun e' He' => Hpos e' (or_intror He'))) as [ds' [Hrun [HQ'' [HA'' Hout]]]].
    destruct (cg_edges r st' base) as [ls st''] eqn:Er. simpl in Hrun, HQ''.
    exists ds'. simpl. split; [|split; [exact HQ'' | split; [exact HA''|]]].
    + unfold dstep at 1. rewrite Et, Ec, Epd, Ep, Hr1. cbn -[drun dstep].
      unfold dstep at 1. cbn -[drun dstep resolve]. rewrite Hr2. cbn -[drun dstep].
      unfold dstep at 1. cbn -[drun dstep]. unfold dstep at 1. cbn -[drun dstep].
      rewrite (Hpos e (or_introl eq_refl)). unfold ds4 in Hrun. rewrite Ec, Ep in Hrun. exact Hrun.
    + rewrite Hout. simpl. rewrite <- app_assoc. reflexivity.
Qed.

Definition addr_ok (z : Z) : Prop := 0 <= z < two64.
Definition nodes_addr_ok (ns : list cgnode) : Prop :=
  forall n, In n ns -> addr_ok (cn_addr n) /\ forall e, In e (cn_out n) -> addr_ok (ce_addr e).

(* the "same position" shorthand is written only for the address of the previous line *)
Lemma cg_addr_same : forall p c, cg_addr p c = PSame -> p = Some c.
Proof.
  intros p c. unfold cg_addr. destruct p as [p|]; [|discriminate].
  destruct (p =? c) eqn:E; [intros _; apply Z.eqb_eq in E; now subst|].
  destruct (String.length (fmt_rel (wrap_i64 (wrap_u64 (c - p)))) <? String.length (fmt_abs c))%nat; discriminate.
Qed.

Lemma cg_addr_abs : forall p c z, cg_addr p c = PAbs z -> z = c.
Proof.
  intros p c z. unfold cg_addr. destruct p as [p|]; [|intro H; now inversion H].
  destruct (p =? c); [discriminate|].
  destruct (String.length (fmt_rel (wrap_i64 (wrap_u64 (c - p)))) <? String.length (fmt_abs c))%nat; intro H; now inversion H.
Qed.

Lemma header_run : forall st ds n,
  Q st ds ->
  exists ds' st', 
    (let '(ro, objs) := cg_name (cs_obj st) (cn_obj n) in
     let '(rf, files) := cg_name (cs_file st) (cn_file n) in
     let '(rn, names) := cg_name (cs_name st) (cn_name n) in
     drun ds (map (map_line f) [GBlank; GOb ro; GFl rf; GFn rn]) = Some ds' /\
     st' = {| cs_obj := objs; cs_file := files; cs_name := names |}) /\
    Q st' ds' /\ d_cur ds' = (f (cn_obj n), f (cn_file n), f (cn_name n)) /\
    d_pend ds' = d_pend ds /\ d_pos ds' = d_pos ds /\ d_out ds' = d_out ds.
Proof.
  intros st ds n [tob [tfl [tfn [Et [Ro [Rf Rn]]]]]].
  destruct (cg_name_resolve (cs_obj st) tob (cn_obj n) Ro) as [tob' [H1 Ro']].
  destruct (cg_name_resolve (cs_file st) tfl (cn_file n) Rf) as [tfl' [H2 Rf']].
  destruct (cg_name_resolve (cs_name st) tfn (cn_name n) Rn) as [tfn' [H3 Rn']].
  destruct (cg_name (cs_obj st) (cn_obj n)) as [ro objs].
  destruct (cg_name (cs_file st) (cn_file n)) as [rf files].
  destruct (cg_name (cs_name st) (cn_name n)) as [rn names].
  simpl in *.
  destruct (d_cur ds) as [[cob cfl] cfn] eqn:Ec. destruct (d_pend ds) as [[pfl pfn] call] eqn:Epd.
  destruct (d_pos ds) as [addr line0] eqn:Ep.
  eexists. eexists. split; [split; [|reflexivity]|].
  - do 4 (unfold dstep at 1; cbn -[drun dstep resolve]; rewrite ?Et, ?Ec, ?Epd, ?Ep, ?H1, ?H2, ?H3; cbn -[drun dstep resolve]).
    reflexivity.
  - cbn. split; [|repeat split; congruence].
    exists tob', tfl', tfn'. split; [reflexivity | split; [exact Ro' | split; [exact Rf' | exact Rn']]].
Qed.

Lemma cost_step : forall ds cob cfl cfn addr line0 p line cost,
  d_cur ds = (cob, cfl, cfn) -> d_pos ds = (addr, line0) -> d_pend ds = (None, None, None) ->
  dstep ds (GCost p line cost) =
  Some {| d_tabs := d_tabs ds; d_cur := d_cur ds; d_pend := d_pend ds; d_pos := (dpos addr p, line);
          d_out := EvCost cob cfl cfn (dpos addr p) line cost :: d_out ds |}.
Proof.
  intros ds cob cfl cfn addr line0 p line cost Ec Ep Epd. unfold dstep.
  destruct (d_tabs ds) as [[a b] c]. rewrite Ec, Epd, Ep. reflexivity.
Qed.

Lemma drun_app : forall a b ds, drun ds (a ++ b) = match drun ds a with Some s => drun s b | None => None end.
Proof.
  induction a as [|l r IH]; simpl; intros b ds; [reflexivity|].
  destruct (dstep ds l); [apply IH | reflexivity].
Qed.

Lemma nodes_run : forall ns st prev ds,
  Q st ds -> d_pend ds = (None, None, None) ->
  match prev with
  | Some p => d_cur ds = (f (cn_obj p), f (cn_file p), f (cn_name p)) /\ d_pos ds = (cn_addr p, cn_line p) /\
              addr_ok (cn_addr p) /\ in_F11_from p ns = false
  | None => in_F11 ns = false
  end ->
  nodes_addr_ok ns ->
  exists ds', drun ds (map (map_line f) (cg_nodes ns st prev)) = Some ds' /\
              d_out ds' = (rev (expected_events (map (fnode f) ns)) ++ d_out ds)%list.
Proof.
  induction ns as [|n r IH]; intros st prev ds HQ Hpd Hprev Hok.
  - exists ds. split; reflexivity.
  - destruct (Hok n (or_introl eq_refl)) as [Hna Hea].
    (* 1. header *)
    set (hdr := match prev with Some p => negb (same_fn p n) | None => true end).
    assert (H1 : exists ds1 st1,
               (let '(hl, s1) := if hdr then
                   let '(ro, objs) := cg_name (cs_obj st) (cn_obj n) in
                   let '(rf, files) := cg_name (cs_file st) (cn_file n) in
                   let '(rn, names) := cg_name (cs_name st) (cn_name n) in
                   ([GBlank; GOb ro; GFl rf; GFn rn], {| cs_obj := objs; cs_file := files; cs_name := names |})
                 else ([], st) in drun ds (map (map_line f) hl) = Some ds1 /\ s1 = st1) /\
               Q st1 ds1 /\ d_cur ds1 = (f (cn_obj n), f (cn_file n), f (cn_name n)) /\
               d_pend ds1 = d_pend ds /\ d_pos ds1 = d_pos ds /\ d_out ds1 = d_out ds).
    { destruct hdr eqn:Eh.
      - destruct (header_run st ds n HQ) as [ds1 [st1 [Hr Hrest]]]. exists ds1, st1. split; [|exact Hrest].
        destruct (cg_name (cs_obj st) (cn_obj n)) as [ro objs].
        destruct (cg_name (cs_file st) (cn_file n)) as [rf files].
        destruct (cg_name (cs_name st) (cn_name n)) as [rn names].
        destruct Hr as [Hr Es]. split; [exact Hr | now symmetry].
      - exists ds, st. split; [split; reflexivity|]. split; [exact HQ|].
        unfold hdr in Eh. destruct prev as [p|]; [|discriminate Eh].
        apply Bool.negb_false_iff in Eh. unfold same_fn in Eh.
        apply andb_prop in Eh. destruct Eh as [Eh E3]. apply andb_prop in Eh. destruct Eh as [E1 E2].
        apply String.eqb_eq in E1. apply String.eqb_eq in E2. apply String.eqb_eq in E3.
        destruct Hprev as [Hc _]. rewrite Hc, E1, E2, E3. repeat split; reflexivity. }
    destruct H1 as [ds1 [st1 [Hhdr [HQ1 [Hc1 [Hpd1 [Hp1 Ho1]]]]]]].
    (* 2. cost line *)
    set (pa := match prev with Some p => Some (cn_addr p) | None => None end).
    destruct (d_pos ds) as [addr0 line0] eqn:Epos.
    assert (Hdec : dpos addr0 (cg_addr pa (cn_addr n)) = cn_addr n).
    { unfold pa. destruct prev as [p|]; [|reflexivity].
      destruct Hprev as [_ [Hp [Hpa _]]]. injection Hp as Ea El. rewrite Ea.
      apply cg_addr_decodes; assumption. }
    set (ds2 := {| d_tabs := d_tabs ds1; d_cur := d_cur ds1; d_pend := d_pend ds1; d_pos := (cn_addr n, cn_line n);
                   d_out := EvCost (f (cn_obj n)) (f (cn_file n)) (f (cn_name n)) (cn_addr n) (cn_line n) (cn_cost n) :: d_out ds1 |}).
    assert (Hcost : dstep ds1 (GCost (cg_addr pa (cn_addr n)) (cn_line n) (cn_cost n)) = Some ds2).
    { rewrite (cost_step ds1 _ _ _ addr0 line0 _ _ _ Hc1 Hp1 (eq_trans Hpd1 Hpd)). rewrite Hdec. reflexivity. }
    assert (HQ2 : Q st1 ds2) by exact HQ1.
    assert (HA2 : at_node n ds2).
    { split; [exact Hc1 | split; [reflexivity | exact (eq_trans Hpd1 Hpd)]]. }
    (* 3. calls *)
    assert (Hpos : forall e, In e (cn_out n) ->
                   dpos (cn_addr n) (cg_addr (callee_base prev n) (ce_addr e)) = ce_addr e).
    { intros e He. unfold callee_base. destruct prev as [p|]; [|reflexivity].
      destruct Hprev as [_ [_ [Hpa HF]]]. simpl in HF. apply Bool.orb_false_iff in HF. destruct HF as [HF _].
      assert (Hs : stale_edge p n e = false).
      { destruct (stale_edge p n e) eqn:Es; [|reflexivity].
        assert (Hex : existsb (stale_edge p n) (cn_out n) = true) by (apply existsb_exists; exists e; split; assumption).
        congruence. }
      unfold stale_edge in Hs.
      destruct (cg_addr (Some (cn_addr p)) (ce_addr e)) as [z| |d] eqn:Ea.
      - simpl. now apply cg_addr_abs in Ea.
      - apply Bool.negb_false_iff in Hs. apply Z.eqb_eq in Hs. rewrite <- Hs, <- Ea.
        apply cg_addr_decodes; [exact Hpa | now apply Hea].
      - apply Bool.negb_false_iff in Hs. apply Z.eqb_eq in Hs. rewrite <- Hs, <- Ea.
        apply cg_addr_decodes; [exact Hpa | now apply Hea]. }
    destruct (edges_run n (callee_base prev n) (cn_out n) st1 ds2 HQ2 HA2 Hpos) as [ds3 [Hrun3 [HQ3 [HA3 Ho3]]]].
    (* 4. the rest *)
    destruct HA3 as [Hc3 [Hp3 Hpd3]].
    assert (HF' : in_F11_from n r = false).
    { destruct prev as [p|].
      - destruct Hprev as [_ [_ [_ HF]]]. simpl in HF. apply Bool.orb_false_iff in HF. now destruct HF.
      - exact Hprev. }
    destruct (IH (snd (cg_edges (cn_out n) st1 (callee_base prev n))) (Some n) ds3 HQ3 Hpd3
                 (conj Hc3 (conj Hp3 (conj Hna HF'))) (fun m Hm => Hok m (or_intror Hm))) as [ds4 [Hrun4 Ho4]].
    exists ds4. split.
    + simpl cg_nodes. fold hdr. fold pa.
      destruct (if hdr then _ else _) as [hl s1] eqn:Eif. destruct Hhdr as [Hh Es]. subst s1.
      destruct (cg_edges (cn_out n) st1 (callee_base prev n)) as [el st2] eqn:Ee. simpl in Hrun3, Hrun4.
      rewrite map_app, drun_app, Hh. rewrite map_cons. change (map_line f (GCost (cg_addr pa (cn_addr n)) (cn_line n) (cn_cost n))) with (GCost (cg_addr pa (cn_addr n)) (cn_line n) (cn_cost n)).
      simpl drun. rewrite Hcost. rewrite map_app, drun_app, Hrun3. exact Hrun4.
    + rewrite Ho4, Ho3. unfold ds2. simpl d_out. rewrite Ho1.
      change (expected_events (map (fnode f) (n :: r)))
        with (node_events (fnode f n) ++ expected_events (map (fnode f) r))%list.
      rewrite rev_app_distr. unfold node_events. simpl rev.
      assert (Hee : edge_events (fnode f n) = map (edge_ev n) (cn_out n)).
      { unfold edge_events, fnode. simpl. rewrite map_map. reflexivity. }
      rewrite Hee. simpl. rewrite <- !app_assoc. reflexivity.
Qed.

Theorem callgrind_decodes_view : forall st u ns, nodes_addr_ok ns -> in_F11 ns = false ->
  decode (map (map_line f) (cg_lines st u ns)) = Some (expected_events (map (fnode f) ns)).
Proof.
  intros st u ns Hok HF. unfold decode, cg_lines.
  change (drun d_init (map (map_line f) (GHeader "positions: instr line" :: GHeader ("events: " ++ st ++ "(" ++ u ++ ")") ::
                       cg_nodes ns {| cs_obj := []; cs_file := []; cs_name := [] |} None)))
    with (drun d_init (map (map_line f) (cg_nodes ns {| cs_obj := []; cs_file := []; cs_name := [] |} None))).
  assert (HQ : Q {| cs_obj := []; cs_file := []; cs_name := [] |} d_init).
  { exists [], [], []. split; [reflexivity | split; [apply trel_nil | split; apply trel_nil]]. }
  destruct (nodes_run ns _ None d_init HQ eq_refl HF Hok) as [ds' [Hrun Hout]].
  rewrite Hrun, Hout. simpl. rewrite app_nil_r, rev_involutive. reflexivity.
Qed.
End View.

Lemma map_line_id : forall l, map_line (fun x => x) l = l.
Proof. intro l. destruct l; try reflexivity; destruct r; reflexivity. Qed.
Lemma fnode_id : forall n, fnode (fun x => x) n = n.
Proof.
  intro n. destruct n as [o fl nm a l c out]. unfold fnode. simpl. f_equal.
  induction out as [|e r IH]; [reflexivity|]. simpl. rewrite IH. destruct e; reflexivity.
Qed.

Theorem callgrind_decodes : forall st u ns, nodes_addr_ok ns -> in_F11 ns = false ->
  decode (cg_lines st u ns) = Some (expected_events ns).
Proof.
  intros st u ns Hok HF.
  pose proof (callgrind_decodes_view (fun x => x) eq_refl st u ns Hok HF) as H.
  rewrite (map_ext _ (fun l => l) map_line_id), map_id in H.
  rewrite (map_ext _ (fun n => n) fnode_id), map_id in H. exact H.
Qed.
