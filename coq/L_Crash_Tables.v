(* Facts about the tables the driver package has NOW (Gen/Gen_C09Tables.v is regenerated from /repo on
   every run, so these are re-proved whenever configFields / pprofCommands change). *)
From PV Require Import M_Crash L_Crash Gen.Gen_C09Tables Gen.Gen_C09CallTree.
Open Scope string_scope.
Open Scope Z_scope.

(* every configuration field has one of the four kinds config.get/set handle *)
Lemma fields_supported_fact : forallb supported config_fields = true.
Proof. vm_compute. reflexivity. Qed.

Fixpoint nodupb (l : list string) : bool :=
  match l with [] => true | a :: r => negb (existsb (String.eqb a) r) && nodupb r end.

(* field names and choice names are pairwise distinct: configFieldMap has no overwritten entry *)
Lemma config_names_distinct_fact :
  nodupb (flat_map (fun f => cf_name f :: cf_choices f) config_fields) = true.
Proof. vm_compute. reflexivity. Qed.

(* the fields parseCommandLine / printCurrentOptions address directly exist with the expected kind *)
Definition has_field (name : string) (k : kind) : bool :=
  existsb (fun f => String.eqb (cf_name f) name &&
                    match cf_kind f, k with
                    | KString, KString | KInt, KInt | KFloat, KFloat | KBool, KBool => true
                    | _, _ => false
                    end) config_fields.
Lemma direct_fields_fact :
  has_field "nodecount" KInt && has_field "output" KString && has_field "sort" KString &&
  has_field "focus" KString && has_field "ignore" KString && has_field "tagfocus" KString &&
  has_field "tagignore" KString && has_field "sample_index" KString && has_field "compact_labels" KBool = true.
Proof. vm_compute. reflexivity. Qed.

(* the closing command of every explored session: [top 3] is answered with a report request
   whatever the configuration has become *)
Definition answers_top (s : step) : bool :=
  match s with
  | SCont _ [EReport ("top" :: _) _] => true
  | _ => false
  end.

Lemma top_answered_lemma : forall pf stypes dst cfg,
  answers_top (process_input config_fields pf commands help_keys stypes dst cfg "top 3") = true.
Proof. intros. vm_compute. reflexivity. Qed.

Lemma session_then_top_lemma : forall pf stypes dst cfg lines cfg' evs,
  session config_fields pf commands help_keys stypes dst cfg lines [] = SCont cfg' evs ->
  answers_top (process_input config_fields pf commands help_keys stypes dst cfg' "top 3") = true.
Proof. intros. apply top_answered_lemma. Qed.

(* the source scan understood every site, and every g.TrimTree call is guarded by formats for which
   newGraph builds a call tree (re-proved on the sets regenerated from /repo each run) *)
Lemma trim_tree_sites_fact :
  calltree_scan_ok && forallb (fun site => incl_b (snd site) build_tree_formats) trim_tree_sites = true.
Proof. vm_compute. reflexivity. Qed.

Lemma trim_tree_sites_no_panic : forall site, In site trim_tree_sites ->
  forall ct fmt dropped two, is_panic (trim_site_outcome build_tree_formats (snd site) ct fmt dropped two) = false.
Proof.
  intros site Hin. apply trim_site_no_panic.
  pose proof trim_tree_sites_fact as H. apply andb_prop in H. destruct H as [_ H].
  rewrite forallb_forall in H. apply H. exact Hin.
Qed.

(* the guard in front of the node-limiting step is the one the model assumes (node_count_guard) *)
Lemma node_limit_guard_fact : node_limit_guard = "> 0".
Proof. vm_compute. reflexivity. Qed.
