(* C18 specification side for DOT: an independent lexer and recogniser of the Graphviz DOT
   language (the statement forms of a digraph: node, edge, attribute statements, ID=ID,
   subgraphs by nesting depth) and the decidable checker [dot_valid] evaluated on the text that
   the implementation really wrote.

   Lexing of a double-quoted string follows Graphviz's scanner (lib/cgraph/scan.l, qstring):
     backslash quote -> quote;  backslash backslash -> kept, consumed as a pair;
     backslash newline -> dropped;  any other byte (a lone backslash included) is kept;
     an unescaped quote ends the string.
   Not supported on purpose (lexed as [TErr], i.e. rejected): comments, HTML strings <...>,
   ports (:), string concatenation (+), undirected edges (--).  The emitters never produce them
   outside a quoted string, so meeting one means that text leaked out of a quoted string.
   No proofs in this file. *)
From PV Require Export Base.Term Base.Str.
Open Scope string_scope.
Open Scope Z_scope.

(* ---------------- character classes ---------------- *)
(* one classification per byte (a decision tree over its code), everything else is derived *)
Inductive cc := CSp | CNl | CAlpha | CIdS (* underscore, bytes >= 128 *) | CDig | CDot | CQuo | CBsl | CDash | CGt
              | CLb | CRb | CLs | CRs | CEq | CSemi | CComma | COth.

Definition cn (c : ascii) : N := N_of_ascii c.
Definition cclass (c : ascii) : cc :=
  let n := cn c in
  (if n <? 65 then
     if n <? 48 then
       if n <? 34 then
         if n =? 32 then CSp else if n =? 10 then CNl else if n =? 9 then CSp else if n =? 13 then CSp else COth
       else if n =? 34 then CQuo else if n =? 44 then CComma else if n =? 45 then CDash
       else if n =? 46 then CDot else COth
     else if n <? 58 then CDig
     else if n =? 59 then CSemi else if n =? 61 then CEq else if n =? 62 then CGt else COth
   else if n <? 91 then CAlpha
   else if n <? 97 then
     if n =? 91 then CLs else if n =? 92 then CBsl else if n =? 93 then CRs else if n =? 95 then CIdS else COth
   else if n <? 123 then CAlpha
   else if n <? 128 then
     if n =? 123 then CLb else if n =? 125 then CRb else COth
   else CIdS)%N.

Definition is_digit (c : ascii) : bool := match cclass c with CDig => true | _ => false end.
Definition is_alpha (c : ascii) : bool := match cclass c with CAlpha => true | _ => false end.
Definition is_id_start (c : ascii) : bool := match cclass c with CAlpha | CIdS => true | _ => false end.
Definition is_id_char (c : ascii) : bool := match cclass c with CAlpha | CIdS | CDig => true | _ => false end.
Definition is_space (c : ascii) : bool := match cclass c with CSp | CNl => true | _ => false end.
Definition is_num_char (c : ascii) : bool := match cclass c with CDig | CDot => true | _ => false end.
Definition c_quote : ascii := ascii_of_N 34.
Definition c_bslash : ascii := ascii_of_N 92.
Definition c_nl : ascii := ascii_of_N 10.
Definition is_quote (c : ascii) : bool := match cclass c with CQuo => true | _ => false end.
Definition is_bslash (c : ascii) : bool := match cclass c with CBsl => true | _ => false end.
Definition is_nl (c : ascii) : bool := match cclass c with CNl => true | _ => false end.

Fixpoint str_forallb (f : ascii -> bool) (s : string) : bool :=
  match s with EmptyString => true | String c r => f c && str_forallb f r end.

(* ---------------- tokens ---------------- *)
Inductive kw := KDigraph | KGraph | KNode | KEdge | KSubgraph | KStrict.

Inductive token :=
| TId (s : string)      (* unquoted identifier that is not a keyword *)
| TNum (s : string)     (* numeral *)
| TStr (s : string)     (* double-quoted string, value after Graphviz's scanner *)
| TKw (k : kw)
| TLb | TRb | TLs | TRs | TEq | TSemi | TComma | TArrow
| TErr.

(* keywords are case-independent; a spelling with a non-letter is never a keyword *)
Definition classify (s : string) : token :=
  if str_forallb is_alpha s then
    let l := to_lower s in
    if String.eqb l "digraph" then TKw KDigraph
    else if String.eqb l "graph" then TKw KGraph
    else if String.eqb l "node" then TKw KNode
    else if String.eqb l "edge" then TKw KEdge
    else if String.eqb l "subgraph" then TKw KSubgraph
    else if String.eqb l "strict" then TKw KStrict
    else TId s
  else TId s.

(* numeral: [-] ( .d+ | d+ [. d*] ) *)
Definition all_digits (s : string) : bool := str_forallb is_digit s.
Fixpoint split_at_dot (s : string) (acc : string) : string * option string :=
  match s with
  | EmptyString => (rev_string acc, None)
  | String c r => if match cclass c with CDot => true | _ => false end then (rev_string acc, Some r) else split_at_dot r (String c acc)
  end.
Definition num_ok (s : string) : bool :=
  let body := match s with String c r => if match cclass c with CDash => true | _ => false end then r else s | _ => s end in
  match split_at_dot body "" with
  | (ip, None) => negb (String.eqb ip "") && all_digits ip
  | (ip, Some fp) =>
      all_digits ip && all_digits fp && negb (String.eqb ip "" && String.eqb fp "")
  end.
Definition num_tok (s : string) : token := if num_ok s then TNum s else TErr.

(* ---------------- lexer: a transducer fed one byte at a time ---------------- *)
Inductive lmode :=
| LInit
| LId (racc : string)               (* reversed text so far *)
| LNum (racc : string)
| LStr (racc : string) (esc : bool) (* esc: an odd backslash is pending *)
| LDash.

Definition lstart (c : ascii) : lmode * list token :=
  match cclass c with
  | CSp | CNl => (LInit, [])
  | CAlpha | CIdS => (LId (String c ""), [])
  | CDig | CDot => (LNum (String c ""), [])
  | CQuo => (LStr "" false, [])
  | CDash => (LDash, [])
  | CLb => (LInit, [TLb]) | CRb => (LInit, [TRb]) | CLs => (LInit, [TLs]) | CRs => (LInit, [TRs])
  | CEq => (LInit, [TEq]) | CSemi => (LInit, [TSemi]) | CComma => (LInit, [TComma])
  | CBsl | CGt | COth => (LInit, [TErr])
  end.

(* one byte inside a quoted string: new reversed accumulator and escape state, or end *)
Definition qstep (racc : string) (esc : bool) (c : ascii) : option (string * bool) :=
  match cclass c with
  | CQuo => if esc then Some (String c racc, false) else None
  | CBsl => if esc then Some (String c (String c racc), false) else Some (racc, true)
  | CNl => if esc then Some (racc, false) else Some (String c racc, false)
  | _ => if esc then Some (String c (String c_bslash racc), false) else Some (String c racc, false)
  end.

Definition lstep (m : lmode) (c : ascii) : lmode * list token :=
  match m with
  | LInit => lstart c
  | LId racc =>
      if is_id_char c then (LId (String c racc), [])
      else let '(m', t) := lstart c in (m', classify (rev_string racc) :: t)
  | LNum racc =>
      match cclass c with
      | CDig | CDot => (LNum (String c racc), [])
      | CAlpha | CIdS => (LId (String c ""), [num_tok (rev_string racc); TErr])
      | _ => let '(m', t) := lstart c in (m', num_tok (rev_string racc) :: t)
      end
  | LStr racc esc =>
      match qstep racc esc c with
      | Some (racc', esc') => (LStr racc' esc', [])
      | None => (LInit, [TStr (rev_string racc)])
      end
  | LDash =>
      match cclass c with
      | CGt => (LInit, [TArrow])
      | CDig | CDot => (LNum (String c "-"), [])
      | _ => let '(m', t) := lstart c in (m', TErr :: t)
      end
  end.

Fixpoint lex_go (m : lmode) (s : string) : lmode * list token :=
  match s with
  | EmptyString => (m, [])
  | String c r =>
      let '(m1, t1) := lstep m c in
      let '(m2, t2) := lex_go m1 r in
      (m2, (t1 ++ t2)%list)
  end.

Definition lflush (m : lmode) : list token :=
  match m with
  | LInit => []
  | LId racc => [classify (rev_string racc)]
  | LNum racc => [num_tok (rev_string racc)]
  | LStr _ _ => [TErr]
  | LDash => [TErr]
  end.

Definition lex (s : string) : list token :=
  let '(m, t) := lex_go LInit s in (t ++ lflush m)%list.

(* ---------------- recogniser: a pushdown automaton with a depth counter ---------------- *)
Inductive pst :=
| P0 | P0s | P1 | P2
| PS                      (* at the start of a statement *)
| PId (x : string)        (* a statement that began with ID x *)
| PAssign | PStmtEnd
| PEdge | PEdgeId (y : string)
| PKw | PSub | PSubId
| PAttr | PAttrEq | PAttrVal | PAttrSep | PAfterAttr
| PEnd | PErr.

Record pstate := { p_st : pst; p_depth : nat; p_decl : list string; p_edges : list string }.

Definition id_of (t : token) : option string :=
  match t with TId s => Some s | TNum s => Some s | TStr s => Some s | _ => None end.

Definition with_st (s : pstate) (x : pst) : pstate :=
  {| p_st := x; p_depth := p_depth s; p_decl := p_decl s; p_edges := p_edges s |}.
Definition declare (s : pstate) (x : string) : pstate :=
  {| p_st := p_st s; p_depth := p_depth s; p_decl := x :: p_decl s; p_edges := p_edges s |}.
Definition endpoint (s : pstate) (x : string) : pstate :=
  {| p_st := p_st s; p_depth := p_depth s; p_decl := p_decl s; p_edges := x :: p_edges s |}.
Definition push (s : pstate) : pstate :=
  {| p_st := PS; p_depth := S (p_depth s); p_decl := p_decl s; p_edges := p_edges s |}.

(* a token met where a statement may start *)
Definition step_ps (s : pstate) (t : token) : pstate :=
  match t with
  | TRb => match p_depth s with
           | S O => {| p_st := PEnd; p_depth := O; p_decl := p_decl s; p_edges := p_edges s |}
           | S d => {| p_st := PS; p_depth := d; p_decl := p_decl s; p_edges := p_edges s |}
           | O => with_st s PErr
           end
  | TKw KNode | TKw KEdge | TKw KGraph => with_st s PKw
  | TKw KSubgraph => with_st s PSub
  | TLb => push s
  | _ => match id_of t with Some x => with_st s (PId x) | None => with_st s PErr end
  end.

Definition pstep (s : pstate) (t : token) : pstate :=
  match p_st s with
  | P0 => match t with
          | TKw KStrict => with_st s P0s
          | TKw KDigraph | TKw KGraph => with_st s P1
          | _ => with_st s PErr end
  | P0s => match t with TKw KDigraph | TKw KGraph => with_st s P1 | _ => with_st s PErr end
  | P1 => match t with
          | TLb => push s
          | _ => match id_of t with Some _ => with_st s P2 | None => with_st s PErr end end
  | P2 => match t with TLb => push s | _ => with_st s PErr end
  | PS => step_ps s t
  | PId x =>
      match t with
      | TEq => with_st s PAssign
      | TArrow => with_st (endpoint s x) PEdge
      | TLs => with_st (declare s x) PAttr
      | TSemi => with_st (declare s x) PS
      | _ => step_ps (with_st (declare s x) PS) t
      end
  | PAssign => match id_of t with Some _ => with_st s PStmtEnd | None => with_st s PErr end
  | PStmtEnd => match t with TSemi => with_st s PS | _ => step_ps (with_st s PS) t end
  | PEdge => match id_of t with Some y => with_st s (PEdgeId y) | None => with_st s PErr end
  | PEdgeId y =>
      match t with
      | TArrow => with_st (endpoint s y) PEdge
      | TLs => with_st (endpoint s y) PAttr
      | TSemi => with_st (endpoint s y) PS
      | _ => step_ps (with_st (endpoint s y) PS) t
      end
  | PKw => match t with TLs => with_st s PAttr | _ => with_st s PErr end
  | PSub => match t with
            | TLb => push s
            | _ => match id_of t with Some _ => with_st s PSubId | None => with_st s PErr end end
  | PSubId => match t with TLb => push s | _ => with_st s PErr end
  | PAttr => match t with
             | TRs => with_st s PAfterAttr
             | _ => match id_of t with Some _ => with_st s PAttrEq | None => with_st s PErr end end
  | PAttrEq => match t with TEq => with_st s PAttrVal | _ => with_st s PErr end
  | PAttrVal => match id_of t with Some _ => with_st s PAttrSep | None => with_st s PErr end
  | PAttrSep => match t with
                | TRs => with_st s PAfterAttr
                | TSemi | TComma => with_st s PAttr
                | _ => match id_of t with Some _ => with_st s PAttrEq | None => with_st s PErr end end
  | PAfterAttr => match t with
                  | TLs => with_st s PAttr
                  | TSemi => with_st s PS
                  | _ => step_ps (with_st s PS) t end
  | PEnd => with_st s PErr
  | PErr => s
  end.

Definition p_init : pstate := {| p_st := P0; p_depth := O; p_decl := []; p_edges := [] |}.
Definition parse (ts : list token) : pstate := fold_left pstep ts p_init.

Definition is_end (x : pst) : bool := match x with PEnd => true | _ => false end.
Definition mem_str (x : string) (l : list string) : bool := existsb (String.eqb x) l.

(* the two clauses of the property for DOT *)
Definition dot_syntax_ok (s : string) : bool := is_end (p_st (parse (lex s))).
Definition dot_edges_ok (s : string) : bool :=
  let st := parse (lex s) in forallb (fun e => mem_str e (p_decl st)) (p_edges st).
Definition dot_valid (s : string) : bool := dot_syntax_ok s && dot_edges_ok s.

(* ---------------- quoted-string bodies ---------------- *)
(* [qscan esc s]: run the quoted-string automaton over s; None = an unescaped quote was met *)
Fixpoint qscan (esc : bool) (s : string) : option bool :=
  match s with
  | EmptyString => Some esc
  | String c r =>
      match cclass c with
      | CQuo => if esc then qscan false r else None
      | CBsl => qscan (negb esc) r
      | _ => qscan false r
      end
  end.
(* a text that may stand between two double quotes: it neither closes the string nor leaves a
   backslash pending that would swallow the closing quote *)
Definition qsafe (s : string) : bool :=
  match qscan false s with Some false => true | _ => false end.

(* value the scanner gives to a body, as reversed accumulator *)
Fixpoint qacc (racc : string) (esc : bool) (s : string) : string :=
  match s with
  | EmptyString => racc
  | String c r =>
      match qstep racc esc c with
      | Some (racc', esc') => qacc racc' esc' r
      | None => racc
      end
  end.
Definition qview (s : string) : string := rev_string (qacc "" false s).

(* one whole quoted token *)
Definition one_qtoken (s : string) : bool :=
  match lex s with [TStr _] => true | _ => false end.

(* what a correctly escaped s must read back as (escString level): a quote for a quote, two
   backslashes for a backslash, backslash-l for a newline, every other byte unchanged *)
Fixpoint esc_view (s : string) : string :=
  match s with
  | EmptyString => EmptyString
  | String c r =>
      if is_quote c then String c (esc_view r)
      else if is_bslash c then String c (String c (esc_view r))
      else if is_nl c then String c_bslash (String "l"%char (esc_view r))
      else String c (esc_view r)
  end.

Definition quoted (s : string) : string := String c_quote (s ++ String c_quote "").
(* [e] is a correct escaping of [s] *)
Definition escapes_to (s e : string) : bool :=
  match lex (quoted e) with
  | [TStr v] => String.eqb v (esc_view s)
  | _ => false
  end.
