(* Lemmas about the command-line glue in front of the C07 pipeline (M_CombineCli). *)
From Coq Require Import QArith Lia.
From PV Require Import M_Combine M_CombineCli.
Open Scope Z_scope.

Lemma cli_sources_shape_lemma is_binary args :
  cli_sources is_binary args = args \/
  exists a0 a1 r, args = a0 :: a1 :: r /\ is_binary a0 = true /\ cli_sources is_binary args = a1 :: r.
Proof.
  destruct args as [|a0 [|a1 r]]; simpl; try (left; reflexivity).
  destruct (is_binary a0) eqn:B; [right; exists a0, a1, r; auto | left; reflexivity].
Qed.

Lemma cli_sources_all_lemma is_binary args :
  (forall a, In a args -> is_binary a = false) -> cli_sources is_binary args = args.
Proof.
  intros H. destruct (cli_sources_shape_lemma is_binary args) as [E|[a0 [a1 [r [E [B _]]]]]]; [exact E|].
  subst args. rewrite (H a0 (or_introl eq_refl)) in B. discriminate.
Qed.

Lemma cli_sources_single_lemma is_binary a : cli_sources is_binary [a] = [a].
Proof. reflexivity. Qed.

Lemma cli_plan_ok_lemma is_binary c pl :
  cli_plan is_binary c = Ok pl ->
  pl_srcs pl = cli_sources is_binary (c_args c)
  /\ pl_normalize pl = c_normalize c
  /\ pl_diffbase pl = negb (match drop_empty (c_diffbase c) with [] => true | _ => false end)
  /\ pl_bases pl = (if pl_diffbase pl then drop_empty (c_diffbase c) else drop_empty (c_base c))
  /\ (drop_empty (c_base c) = [] \/ drop_empty (c_diffbase c) = [])
  /\ (c_normalize c = true -> pl_bases pl <> []).
Proof.
  unfold cli_plan. destruct (c_args c) as [|a0 ar] eqn:A; [discriminate|].
  destruct (drop_empty (c_base c)) as [|b br] eqn:B; destruct (drop_empty (c_diffbase c)) as [|d dr] eqn:D;
    try discriminate; destruct (c_normalize c) eqn:N; try discriminate;
    intros H; inversion H; subst pl; simpl; repeat split; auto; try (intros _; discriminate); try discriminate.
Qed.

Section Fetch.
  Variable keep : list Q -> list Z -> bool.
  Variable uts : list unit_type.

  (* plain invocation `pprof [flags] src...` where no argument is an executable: the fetched
     profile is the combination of EVERY positional argument, in order *)
  Lemma cli_fetch_plain_lemma is_binary files c :
    c_args c <> [] -> c_base c = [] -> c_diffbase c = [] -> c_normalize c = false ->
    (forall a, In a (c_args c) -> is_binary a = false) ->
    cli_fetch keep uts is_binary files c =
    match resolve files (c_args c) with
    | [] => Err "src:none-fetched"
    | srcs => fetch keep uts false false srcs []
    end.
  Proof.
    intros NE B D N NB. unfold cli_fetch, cli_plan. rewrite B, D, N. simpl.
    destruct (c_args c) as [|a0 ar] eqn:A; [contradiction|].
    cbn [pl_srcs pl_bases pl_diffbase pl_normalize drop_empty filter].
    change (match ar with [] => a0 :: ar | a1 :: r => if is_binary a0 then a1 :: r else a0 :: ar end)
      with (cli_sources is_binary (a0 :: ar)).
    rewrite (cli_sources_all_lemma is_binary (a0 :: ar) NB).
    destruct (resolve files (a0 :: ar)); reflexivity.
  Qed.
End Fetch.
