(* Executable model of the command-line glue that turns option flags into the process-wide option
   state (internal/driver/cli.go: installConfigFlags and the tail of parseFlags).  Flags are the
   (name, value) pairs given on the command line; values are what the flag package hands over
   (the harness generates canonical spellings).  No proofs in this file. *)
From PV Require Export M_Config.
Open Scope string_scope.
Open Scope Z_scope.

Definition flags := list (string * string).

Fixpoint flag_get (fl : flags) (n : string) : option string :=
  match fl with
  | [] => None
  | (k, v) :: r => if String.eqb k n then Some v else flag_get r n
  end.

Definition flag_true (fl : flags) (n : string) : bool :=
  match flag_get fl n with Some v => String.eqb v "true" | None => false end.

Section Flags.
  Variable pf : string -> option string.

  (* installConfigFlags: one typed flag per option; a multi-choice option has one bool flag per
     choice: none set = keep, one set = that choice, several = error *)
  Fixpoint config_flags (fs : list field) (c : config) (fl : flags) : res config :=
    match fs with
    | [] => Ok c
    | f :: r =>
        match f_choices f with
        | [] =>
            match flag_get fl (f_name f) with
            | None => config_flags r c fl
            | Some v => match set_field pf c f v with
                        | Some c' => config_flags r c' fl
                        | None => Err (f_name f)
                        end
            end
        | ch =>
            match filter (flag_true fl) ch with
            | [] => config_flags r c fl
            | [one] => config_flags r (upd c (f_name f) one) fl
            | _ => Err "conflicting options"
            end
        end
    end.

  (* the sample-type shortcut flags, in the order parseFlags consults them *)
  Definition si_shortcuts : list (string * string) :=
    [("total_delay", "delay"); ("mean_delay", "delay"); ("contentions", "contentions");
     ("inuse_space", "inuse_space"); ("inuse_objects", "inuse_objects");
     ("alloc_space", "alloc_space"); ("alloc_objects", "alloc_objects")].

  Definition apply_si (fl : flags) (si : string) : string :=
    fold_left (fun s kt => if flag_true fl (fst kt) then (if String.eqb s "" then snd kt else s) else s)
              si_shortcuts si.

  (* parseFlags: the option state the run starts with, or an error (pprof exits).
     has_base: a -base / -diff_base profile was given *)
  Definition apply_flags (fs : list field) (cur : config) (fl : flags) (has_base : bool) : res config :=
    match config_flags fs cur fl with
    | Err e => Err e
    | Ok c =>
        let c1 := upd c "sample_index" (apply_si fl (c "sample_index")) in
        let c2 := if flag_true fl "mean_delay" then upd c1 "mean" "true" else c1 in
        if String.eqb (c2 "normalize") "true" && negb has_base then Err "normalize" else Ok c2
    end.
End Flags.
