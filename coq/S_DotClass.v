(* C18: decidable classes of ComposeDot inputs.  [holes_safe] collects what the emitters write
   between double quotes without escaping; F25 and F26 are the two kinds of such holes that
   carry profile-derived text on the unchanged tree. *)
From PV Require Export M_Dot S_Dot.
Open Scope string_scope.
Open Scope Z_scope.

Definition tab_safe (t : list (Z * string)) : bool := forallb (fun e => qsafe (snd e)) t.

(* F25: FormatValue results are written verbatim (labels and tooltips of nodes, nodelets and
   edges); report.formatValue appends the profile's sample unit *)
Definition in_F25 (g : dgraph) : bool := negb (tab_safe (dg_fv g)).

(* F26: multilinePrintableName escapes the function name only; the file (base name) and the
   bracketed binary name reach the node label as they are *)
Definition uses_formatter (n : dnode) : bool :=
  match dn_attrs n with Some a => match na_fmt a with Some _ => true | None => false end | None => false end.
Definition label_tail (i : ninfo) : list string :=
  name_tail (ml_name (ni_short i)) (ml_file (ni_file i)) (ni_obj i) (ni_line i) (ni_col i).
Definition node_tail_safe (n : dnode) : bool :=
  uses_formatter n || forallb qsafe (label_tail (dn_info n)).
Definition in_F26 (g : dgraph) : bool := negb (forallb node_tail_safe (dg_nodes g)).

(* caller-supplied attribute values (not profile-derived) *)
Definition ident_ok (s : string) : bool :=
  match s with
  | EmptyString => false
  | String c r => is_id_start c && str_forallb is_id_char r &&
                  match classify s with TId _ => true | _ => false end
  end.
Definition attrs_safe (n : dnode) : bool :=
  match dn_attrs n with
  | None => true
  | Some a =>
      match na_fmt a with Some f => qsafe f | None => true end &&
      (String.eqb (na_shape a) "" || ident_ok (na_shape a)) && (0 <=? na_periph a) && qsafe (na_url a)
  end.

Definition holes_safe (g : dgraph) : bool :=
  tab_safe (dg_fv g) && tab_safe (dg_pct g) && forallb node_tail_safe (dg_nodes g) &&
  forallb attrs_safe (dg_nodes g).

(* every edge endpoint is one of the graph's nodes (what graph.New guarantees since F21) *)
Definition edges_within_nodes (g : dgraph) : bool :=
  let n := Z.of_nat (List.length (dg_nodes g)) in
  forallb (fun e => (1 <=? de_from e) && (de_from e <=? n) && (1 <=? de_to e) && (de_to e <=? n)) (dg_edges g).
