(* C18: decidable side conditions on ComposeDot inputs.  Since the repair of F29 / F30 (FormatValue
   results and the file / binary name in the node label are escaped) no profile-derived text is
   written between double quotes verbatim; what remains are the caller's own attribute values
   and the percentage oracle. *)
From PV Require Export M_Dot S_Dot.
Open Scope string_scope.
Open Scope Z_scope.

Definition tab_safe (t : list (Z * string)) : bool := forallb (fun e => qsafe (snd e)) t.

(* caller-supplied attribute values (not profile-derived) *)
Definition ident_ok (s : string) : bool :=
  match s with
  | EmptyString => false
  | String c r => is_id_start c && str_forallb is_id_char r &&
                  match classify s with TId _ => true | _ => false end
  end.
Definition attrs_safe (n : dnode) : bool :=
  match dn_attrs n with
  | None => true
  | Some a =>
      match na_fmt a with Some f => qsafe f | None => true end &&
      (String.eqb (na_shape a) "" || ident_ok (na_shape a)) && (0 <=? na_periph a) && qsafe (na_url a)
  end.

Definition holes_safe (g : dgraph) : bool :=
  tab_safe (dg_pct g) && forallb attrs_safe (dg_nodes g).

(* every edge endpoint is one of the graph's nodes (what graph.New guarantees since F21) *)
Definition edges_within_nodes (g : dgraph) : bool :=
  let n := Z.of_nat (List.length (dg_nodes g)) in
  forallb (fun e => (1 <=? de_from e) && (de_from e <=? n) && (1 <=? de_to e) && (de_to e <=? n)) (dg_edges g).
