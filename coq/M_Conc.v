(* C20 -- executable model of the concurrency discipline of pprof's shared state.
   Part A: threads as event lists, lock ownership, sync.Once, small-step interleaving semantics,
           the static checkers [wl] (lock discipline) and [sl] (one lock at a time), expansion of
           the event lists regenerated from /repo by the translator `lockscan`.
   Part B: atomic sections over shared data (option store, encode scratch, Once value).
   Part C: concurrent newTempFile over a directory with create-exclusive.
   Part D: executable predictions used by the case runner.
   No proofs in this file. *)
From PV Require Export Base.Term Base.Str.
Open Scope string_scope.

(* ------------------------------------------------------------------------------------------ *)
(* Part A *)

(* what the translator emits, per function, in syntactic order *)
Inductive gev :=
| GAcq (m : string) | GRel (m : string)
| GRd (v : string) | GWr (v : string)
| GCall (f : string)                 (* call of a same-package helper: inlined by [expand] *)
| GOnce (o : string) (f : string)    (* o.Do(closure f) *)
| GSpawn (f : string)                (* go closure f *)
| GWait                              (* wg.Wait() *)
| GCreate (excl : bool)              (* os.OpenFile(.. O_CREATE [|O_EXCL]) *)
| GRelease                            (* os.Remove / os.Rename: a name is given up or replaced *)
| GRmw (v : string) (atomic : bool)  (* a write of guarded v whose value derives from a read of v;
                                        atomic = read and write lie in ONE acquire..release region *)
| GBad (why : string).               (* a shape the translator cannot linearise soundly *)

Inductive ev :=
| Acq (m : string) | Rel (m : string)
| Rd (v : string) | Wr (v : string)
| Once (o : string) (body : list (bool * string))   (* (is_write, variable) accesses of the closure *)
| ExitOnce (o : string)                             (* appears only dynamically *)
| Nop (tag : string)
| Fail.

Inductive guard := GMu (m : string) | GOnceG (o : string).

Definition mem (x : string) (l : list string) : bool := existsb (String.eqb x) l.
Definition nilb {A} (l : list A) : bool := match l with [] => true | _ => false end.
Definition is_once (s : string) : bool := has_prefix "once:" s.

Fixpoint assoc {A} (k : string) (l : list (string * A)) : option A :=
  match l with
  | [] => None
  | (k', v) :: r => if String.eqb k k' then Some v else assoc k r
  end.

Definition acc_ev (a : bool * string) : ev := if fst a then Wr (snd a) else Rd (snd a).

(* accesses of an already expanded closure body; anything else inside a Once body is refused *)
Fixpoint accesses (l : list ev) : option (list (bool * string)) :=
  match l with
  | [] => Some []
  | Rd v :: r => option_map (cons (false, v)) (accesses r)
  | Wr v :: r => option_map (cons (true, v)) (accesses r)
  | Nop _ :: r => accesses r
  | _ => None
  end.

(* inline helpers (fuel-bounded; running out of fuel = recursion = Fail) *)
Fixpoint expand (fuel : nat) (funcs : list (string * list gev)) (l : list gev) : list ev :=
  match fuel with
  | O => match l with [] => [] | _ => [Fail] end
  | S fuel' =>
      flat_map (fun e =>
        match e with
        | GAcq m => [Acq m] | GRel m => [Rel m] | GRd v => [Rd v] | GWr v => [Wr v]
        | GCall f => match assoc f funcs with
                     | Some b => expand fuel' funcs b
                     | None => [Fail]
                     end
        | GOnce o f => match assoc f funcs with
                       | Some b => match accesses (expand fuel' funcs b) with
                                   | Some a => [Once o a]
                                   | None => [Fail]
                                   end
                       | None => [Fail]
                       end
        | GSpawn f => [Nop ("spawn " ++ f)]
        | GWait => [Nop "wait"]
        | GCreate true => [Nop "create-excl"]
        | GCreate false => [Nop "create-nonexcl"]
        | GRelease => [Nop "release"]
        | GRmw v true => [Nop ("rmw-atomic " ++ v)]
        | GRmw v false => [Nop ("rmw-split " ++ v)]
        | GBad _ => [Fail]
        end) l
  end.

Section Discipline.
  Variable g : string -> option guard.

  Definition rd_ok (h p : list string) (v : string) : bool :=
    match g v with
    | None => true
    | Some (GMu m) => mem m h
    | Some (GOnceG o) => mem o h || mem o p
    end.
  Definition wr_ok (h : list string) (v : string) : bool :=
    match g v with
    | None => true
    | Some (GMu m) => mem m h
    | Some (GOnceG o) => mem o h
    end.
  Definition acc_ok (h p : list string) (a : bool * string) : bool :=
    if fst a then wr_ok h (snd a) else rd_ok h p (snd a).

  (* lock discipline of one thread: h = mutexes/onces it is inside, p = onces it has passed *)
  Fixpoint wl (h p : list string) (t : list ev) : bool :=
    match t with
    | [] => nilb h
    | Acq m :: r => negb (is_once m) && negb (mem m h) && wl (m :: h) p r
    | Rel m :: r => negb (is_once m) && mem m h && wl (remove string_dec m h) p r
    | Rd v :: r => rd_ok h p v && wl h p r
    | Wr v :: r => wr_ok h v && wl h p r
    | Once o b :: r => is_once o && negb (mem o h) && forallb (acc_ok (o :: h) p) b && wl h (o :: p) r
    | ExitOnce o :: r => is_once o && mem o h && wl (remove string_dec o h) (o :: p) r
    | Nop _ :: r => wl h p r
    | Fail :: _ => false
    end.
End Discipline.

(* one lock at a time (enough for deadlock freedom) *)
Fixpoint sl (h : list string) (t : list ev) : bool :=
  match t with
  | [] => true
  | Acq m :: r => nilb h && sl [m] r
  | Rel m :: r => sl (remove string_dec m h) r
  | Once o b :: r => nilb h && sl h r
  | ExitOnce o :: r => sl (remove string_dec o h) r
  | _ :: r => sl h r
  end.

Definition well_locked (g : string -> option guard) (t : list ev) : bool := wl g [] [] t.
Definition single_lock (t : list ev) : bool := sl [] t.

(* --- interleaving semantics: any number of threads (index nat), relational --- *)
Record thr := { th_h : list string; th_p : list string; th_k : list ev }.
Record st := { ths : nat -> thr; own : string -> option nat; done : string -> bool }.

Definition upd {A} (f : nat -> A) (i : nat) (a : A) : nat -> A := fun j => if Nat.eqb j i then a else f j.
Definition supd {A} (f : string -> A) (k : string) (a : A) : string -> A :=
  fun k' => if String.eqb k' k then a else f k'.

Definition plain (e : ev) : bool :=
  match e with Rd _ | Wr _ | Nop _ | Fail => true | _ => false end.

Inductive step (s : st) : st -> Prop :=
| s_acq i m r : th_k (ths s i) = Acq m :: r -> own s m = None ->
    step s {| ths := upd (ths s) i {| th_h := m :: th_h (ths s i); th_p := th_p (ths s i); th_k := r |};
              own := supd (own s) m (Some i); done := done s |}
(* sync.Mutex is not owner-checked: Unlock by anybody releases it; unlocking a free mutex is fatal *)
| s_rel i m r : th_k (ths s i) = Rel m :: r -> own s m <> None ->
    step s {| ths := upd (ths s) i {| th_h := remove string_dec m (th_h (ths s i)); th_p := th_p (ths s i); th_k := r |};
              own := supd (own s) m None; done := done s |}
| s_plain i e r : th_k (ths s i) = e :: r -> plain e = true ->
    step s {| ths := upd (ths s) i {| th_h := th_h (ths s i); th_p := th_p (ths s i); th_k := r |};
              own := own s; done := done s |}
| s_once_skip i o b r : th_k (ths s i) = Once o b :: r -> done s o = true ->
    step s {| ths := upd (ths s) i {| th_h := th_h (ths s i); th_p := o :: th_p (ths s i); th_k := r |};
              own := own s; done := done s |}
| s_once_enter i o b r : th_k (ths s i) = Once o b :: r -> done s o = false -> own s o = None ->
    step s {| ths := upd (ths s) i {| th_h := o :: th_h (ths s i); th_p := th_p (ths s i);
                                      th_k := map acc_ev b ++ ExitOnce o :: r |};
              own := supd (own s) o (Some i); done := done s |}
| s_once_exit i o r : th_k (ths s i) = ExitOnce o :: r ->
    step s {| ths := upd (ths s) i {| th_h := remove string_dec o (th_h (ths s i)); th_p := o :: th_p (ths s i); th_k := r |};
              own := supd (own s) o None; done := supd (done s) o true |}.

Definition init (progs : nat -> list ev) : st :=
  {| ths := fun i => {| th_h := []; th_p := []; th_k := progs i |}; own := fun _ => None; done := fun _ => false |}.

Inductive reach (progs : nat -> list ev) : st -> Prop :=
| reach0 : reach progs (init progs)
| reachS s s' : reach progs s -> step s s' -> reach progs s'.

(* the next event of thread i is an access to v (true = write) *)
Definition next_access (s : st) (i : nat) (v : string) (w : bool) : Prop :=
  exists r, th_k (ths s i) = (if w then Wr v else Rd v) :: r.

(* ------------------------------------------------------------------------------------------ *)
(* Part B: atomic sections over data.  A thread is a list of critical sections; a section is a
   list of instructions, each atomic, acting on the shared store and the thread's local state.
   All sections use ONE mutex (the guard of the store): this is the shape [wl] establishes. *)
Section Atomic.
  Variables Sh Lo : Type.
  Definition instr := Sh -> Lo -> Sh * Lo.
  Record ath := { a_loc : Lo; a_todo : list (list instr) }.
  Record ast := { a_sh : Sh; a_hold : option (nat * list instr); a_th : nat -> ath }.

  Fixpoint run_body (b : list instr) (s : Sh) (l : Lo) : Sh * Lo :=
    match b with
    | [] => (s, l)
    | i :: r => let '(s', l') := i s l in run_body r s' l'
    end.

  (* sequential reference: thread i runs its next section as one indivisible step *)
  Definition seq_step (c : Sh * (nat -> ath)) (i : nat) : Sh * (nat -> ath) :=
    match a_todo (snd c i) with
    | [] => c
    | b :: r => let '(s', l') := run_body b (fst c) (a_loc (snd c i)) in
                (s', upd (snd c) i {| a_loc := l'; a_todo := r |})
    end.
  Definition seq_run (log : list nat) (c : Sh * (nat -> ath)) : Sh * (nat -> ath) := fold_left seq_step log c.

  (* concurrent semantics; the label is Some i when thread i acquires the mutex *)
  Inductive astep (s : ast) : option nat -> ast -> Prop :=
  | a_acq i b r : a_hold s = None -> a_todo (a_th s i) = b :: r ->
      astep s (Some i) {| a_sh := a_sh s; a_hold := Some (i, b);
                          a_th := upd (a_th s) i {| a_loc := a_loc (a_th s i); a_todo := r |} |}
  | a_ins i ins rest s' l' : a_hold s = Some (i, ins :: rest) -> ins (a_sh s) (a_loc (a_th s i)) = (s', l') ->
      astep s None {| a_sh := s'; a_hold := Some (i, rest);
                      a_th := upd (a_th s) i {| a_loc := l'; a_todo := a_todo (a_th s i) |} |}
  | a_rel i : a_hold s = Some (i, []) ->
      astep s None {| a_sh := a_sh s; a_hold := None; a_th := a_th s |}.

  (* executions, with the order of lock acquisitions *)
  Inductive aexec (s0 : ast) : list nat -> ast -> Prop :=
  | aexec0 : aexec s0 [] s0
  | aexecS log s lab s' : aexec s0 log s -> astep s lab s' ->
      aexec s0 (log ++ match lab with Some i => [i] | None => [] end) s'.

  Definition ainit (sh : Sh) (th : nat -> ath) : ast := {| a_sh := sh; a_hold := None; a_th := th |}.
End Atomic.
Arguments a_loc {Sh Lo}. Arguments a_todo {Sh Lo}. Arguments a_sh {Sh Lo}. Arguments a_hold {Sh Lo}.
Arguments a_th {Sh Lo}. Arguments run_body {Sh Lo}. Arguments seq_step {Sh Lo}. Arguments seq_run {Sh Lo}.
Arguments astep {Sh Lo}. Arguments aexec {Sh Lo}. Arguments ainit {Sh Lo}. Arguments Build_ath {Sh Lo}.
Arguments Build_ast {Sh Lo}.

(* B1. option store (internal/driver/config.go:77-90, :297): the shared value is the whole config *)
Section Options.
  Variable Cfg : Type.
  Inductive oop := OGet | OSet (c : Cfg) | OConfigure (f : Cfg -> Cfg).
  (* local state: the values returned by the gets so far, newest first *)
  Definition oop_body (o : oop) : list (instr Cfg (list Cfg)) :=
    match o with
    | OGet => [fun s l => (s, s :: l)]                            (* return currentCfg *)
    | OSet c => [fun _ l => (c, l)]                               (* currentCfg = cfg *)
    | OConfigure f => [fun s l => (f s, l)]                       (* currentCfg.set(f, value) under the lock *)
    end.
  (* the same operations applied one at a time *)
  Definition oop_seq (o : oop) (c : Cfg * list Cfg) : Cfg * list Cfg :=
    match o with
    | OGet => (fst c, fst c :: snd c)
    | OSet x => (x, snd c)
    | OConfigure f => (f (fst c), snd c)
    end.
End Options.
Arguments OGet {Cfg}. Arguments OSet {Cfg}. Arguments OConfigure {Cfg}. Arguments oop_body {Cfg}. Arguments oop_seq {Cfg}.

(* B2. serialize (profile/profile.go:335): Lock; preEncode (overwrites every scratch field from the
   exported fields); marshal (reads exported + scratch); Unlock.  Scratch = shared store; the exported
   fields [P] are never written (C10/C01 territory), so they are a parameter. *)
Section Serialize.
  Variables P Scratch Bytes : Type.
  Variable pre : P -> Scratch.                  (* preEncode: depends on the exported fields only *)
  Variable marshal : P -> Scratch -> Bytes.
  Definition serialize_body (p : P) : list (instr Scratch (option Bytes)) :=
    [fun _ l => (pre p, l); fun s _ => (s, Some (marshal p s))].
  Definition serialize_seq (p : P) : Bytes := marshal p (pre p).
End Serialize.

(* B3. sync.Once around computeBase (internal/binutils/binutils.go:581,:624): shared = (value, number of
   times the body ran); every caller passes its own address; local = the base the caller then reads *)
Section OnceVal.
  Variables A V : Type.
  Variable f : A -> V.
  Definition once_body (a : A) : list (instr (option V * nat) (option V)) :=
    [fun s l => match fst s with None => ((Some (f a), S (snd s)), l) | Some _ => (s, l) end;
     fun s _ => (s, fst s)].
End OnceVal.

(* B4. the temp-file registry (internal/driver/tempfile.go:38-60): deferDeleteTempFile appends under
   tempFilesMu; cleanupTempFiles removes every registered file and empties the list in ONE section.
   Shared = (registered names, names on disk, ghost: every name ever registered); local = "an
   os.Remove of one of this thread's cleanups failed". *)
Inductive rop := RReg (f : string) | RClean.
Definition rstore := (list string * list string * list string)%type.
Definition r_reg (s : rstore) := fst (fst s).
Definition r_disk (s : rstore) := snd (fst s).
Definition r_ever (s : rstore) := snd s.
Definition rop_body (o : rop) : list (instr rstore bool) :=
  match o with
  | RReg f => [fun s l => ((f :: r_reg s, r_disk s, f :: r_ever s), l)]
  | RClean => [fun s l => (([], filter (fun d => negb (mem d (r_reg s))) (r_disk s), r_ever s),
                           (l || existsb (fun f => negb (mem f (r_disk s))) (r_reg s))%bool)]
  end.

(* B5. copy-on-write tool configuration (internal/binutils/binutils.go:72 get, :85 update): get
   initialises the representation lazily, update replaces it by a modified copy; each is ONE section
   on the store (representation, ghost: number of updates that have run); local = what get returned *)
Section Cow.
  Variable Rep : Type.
  Variable dflt : Rep.                       (* initTools(r, "") *)
  Inductive cwop := CwGet | CwUpd (g : Rep -> Rep).
  Definition cw_cur (s : option Rep * nat) : Rep := match fst s with Some b => b | None => dflt end.
  Definition cw_body (o : cwop) : list (instr (option Rep * nat) (option Rep)) :=
    match o with
    | CwGet => [fun s _ => ((Some (cw_cur s), snd s), Some (cw_cur s))]
    | CwUpd g => [fun s l => ((Some (g (cw_cur s)), S (snd s)), l)]
    end.
End Cow.
Arguments CwGet {Rep}. Arguments CwUpd {Rep}. Arguments cw_body {Rep}. Arguments cw_cur {Rep}.

(* ------------------------------------------------------------------------------------------ *)
(* Part C: newTempFile (internal/driver/tempfile.go:25).  Directory: name -> None (absent) |
   Some None (existed before) | Some (Some i) (created by thread i).  One probe = one atomic
   open(O_CREATE|O_EXCL) (or, for the mutated variant, without O_EXCL). *)
Inductive tres := TRun (idx : nat) | TDone (name : string) | TErr.
Record tst := { t_dir : string -> option (option nat); t_th : nat -> tres }.

Section TempFile.
  Variable nm : nat -> string.     (* fmt.Sprintf("%s%03d%s", prefix, index, suffix) *)
  Variable limit : nat.            (* 10000 *)
  Variable excl : bool.

  Inductive tstep (s : tst) : tst -> Prop :=
  | t_create i n : t_th s i = TRun n -> t_dir s (nm n) = None ->
      tstep s {| t_dir := supd (t_dir s) (nm n) (Some (Some i)); t_th := upd (t_th s) i (TDone (nm n)) |}
  | t_exists i n : t_th s i = TRun n -> t_dir s (nm n) <> None -> excl = true ->
      tstep s {| t_dir := t_dir s; t_th := upd (t_th s) i (if Nat.ltb (S n) limit then TRun (S n) else TErr) |}
  | t_clobber i n : t_th s i = TRun n -> t_dir s (nm n) <> None -> excl = false ->
      tstep s {| t_dir := supd (t_dir s) (nm n) (Some (Some i)); t_th := upd (t_th s) i (TDone (nm n)) |}
  | t_fail i n : t_th s i = TRun n ->                       (* any other error of os.OpenFile *)
      tstep s {| t_dir := t_dir s; t_th := upd (t_th s) i TErr |}.

  Inductive treach (s0 : tst) : tst -> Prop :=
  | treach0 : treach s0 s0
  | treachS s s' : treach s0 s -> tstep s s' -> treach s0 s'.
End TempFile.

(* initial state: some names exist, every thread (any number) is about to probe index 1 or idle *)
Definition tinit (exists_before : string -> bool) (active : nat -> bool) : tst :=
  {| t_dir := fun n => if exists_before n then Some None else None;
     t_th := fun i => if active i then TRun 1 else TErr |}.

(* ------------------------------------------------------------------------------------------ *)
(* Part D: executable predictions for the case runner *)

(* the indices k concurrent newTempFile calls end up creating: the k smallest free ones *)
Fixpoint smallest_free (fuel : nat) (idx : Z) (taken : list Z) (k : nat) : list Z :=
  match fuel, k with
  | _, O => []
  | O, _ => []
  | S fuel', S k' =>
      if existsb (Z.eqb idx) taken then smallest_free fuel' (idx + 1)%Z taken k
      else idx :: smallest_free fuel' (idx + 1)%Z taken k'
  end.

(* option store over the projection the harness observes: (NodeCount, Output) *)
Definition cfgv := (Z * string)%type.
Inductive cop := CGet | CSet (x : Z) | CConf (x : Z).
Definition out_of (x : Z) : string := "o" ++ string_of_Z x.
Definition cop_op (o : cop) : oop cfgv :=
  match o with
  | CGet => OGet
  | CSet x => OSet (x, out_of x)                      (* setCurrentConfig(cfg{NodeCount:x, Output:"o<x>"}) *)
  | CConf x => OConfigure (fun c => (x, snd c))       (* configure("nodecount", x) *)
  end.

(* all outcomes of running the threads' operations atomically in every order that respects
   program order: (per-thread get results oldest first, final value) *)
Fixpoint set_nth {A} (n : nat) (a : A) (l : list A) : list A :=
  match n, l with
  | O, _ :: r => a :: r
  | S n', x :: r => x :: set_nth n' a r
  | _, [] => []
  end.

Fixpoint outcomes (fuel : nat) (c : cfgv) (todo : list (list cop)) (res : list (list cfgv)) : list (list (list cfgv) * cfgv) :=
  match fuel with
  | O => []
  | S fuel' =>
      if forallb nilb todo then [(map (@rev cfgv) res, c)]
      else flat_map (fun i =>
             match List.nth i todo [] with
             | [] => []
             | o :: r =>
                 let '(c', l') := oop_seq (cop_op o) (c, List.nth i res []) in
                 outcomes fuel' c' (set_nth i r todo) (set_nth i l' res)
             end) (List.seq 0 (List.length todo))
  end.

(* ------------------------------------------------------------------------------------------ *)
(* Part E: guard table kinds emitted by the translator *)
Inductive gkind :=
| GG (g : guard)     (* mutex- or Once-guarded *)
| GBarrier           (* handed to goroutines: distinct element per goroutine + WaitGroup barrier *)
| GGlobal.           (* an unguarded package-level variable that some function writes *)

(* ------------------------------------------------------------------------------------------ *)
(* Part F: which assignments configure rejects (internal/driver/config.go:224-260, :297-313): the
   answer depends on (name, value) only, never on the state or on what other threads do *)
Fixpoint all_digits (s : string) : bool :=
  match s with
  | EmptyString => true
  | String a r => (N.leb 48 (N_of_ascii a) && N.leb (N_of_ascii a) 57)%bool && all_digits r
  end.
Definition is_int (s : string) : bool :=     (* strconv.Atoi, for values that fit *)
  let d := match s with
           | String a r => if (Ascii.eqb a "-" || Ascii.eqb a "+")%bool then r else s
           | EmptyString => s
           end in
  negb (String.eqb d "") && all_digits d.
Definition sort_choices : list string := ["cum"; "flat"].
Definition gran_choices : list string := ["functions"; "filefunctions"; "files"; "lines"; "addresses"].
Definition conf_rejects (name value : string) : bool :=
  if String.eqb name "nodecount" then negb (is_int value)
  else if String.eqb name "sort" then negb (mem value sort_choices)
  else if String.eqb name "granularity" then negb (mem value gran_choices)
  else if mem name (sort_choices ++ gran_choices) then
    negb (mem value ["1"; "t"; "T"; "TRUE"; "true"; "True"])               (* strconv.ParseBool = true *)
  else if String.eqb name "focus" then false
  else if String.eqb name "trim" then
    negb (mem (to_lower value) ["true"; "t"; "yes"; "y"; "1"; ""; "false"; "f"; "no"; "n"; "0"])  (* stringToBool *)
  else true.

(* ------------------------------------------------------------------------------------------ *)
(* Part G: glue of a multi-source invocation (internal/driver/fetch.go grabProfile/concurrentGrab with
   the default transport): whether a source is fetched depends on that source alone -- kind 0 http,
   1 https+insecure (certificate not verified), 2 https with a certificate the client does not trust
   (refused), 3 local file -- never on what is fetched next to it; the result is the merge of the
   fetched ones (weights add up, C03/C16), and the invocation fails iff nothing was fetched. *)
Definition e2e_accepts (kind : Z) : bool := negb (kind =? 2)%Z.
Fixpoint e2e_total (srcs : list (Z * Z)) : Z :=
  match srcs with
  | [] => 0%Z
  | (k, v) :: r => ((if e2e_accepts k then v else 0) + e2e_total r)%Z
  end.
Definition e2e_any (srcs : list (Z * Z)) : bool := existsb (fun s => e2e_accepts (fst s)) srcs.

(* ------------------------------------------------------------------------------------------ *)
(* Part H: the shared UI (internal/driver/options.go stdUI.fprint): every Print/PrintErr is ONE write of
   the message followed by a newline; the stream is the concatenation of these writes in the order in
   which the file serialises them.  [lines] reads a stream back into its lines. *)
Definition nl : ascii := "010"%char.
Fixpoint ui_stream (ms : list string) : string :=
  match ms with
  | [] => EmptyString
  | m :: r => (m ++ String nl (ui_stream r))%string
  end.
Fixpoint lines (s : string) : list string :=
  match s with
  | EmptyString => []
  | String a r => if Ascii.eqb a nl then EmptyString :: lines r
                  else match lines r with
                       | [] => [String a EmptyString]
                       | l :: ls => String a l :: ls
                       end
  end.
Fixpoint no_nl (s : string) : bool :=
  match s with
  | EmptyString => true
  | String a r => negb (Ascii.eqb a nl) && no_nl r
  end.

(* ------------------------------------------------------------------------------------------ *)
(* Part I: per-request state of the web handlers (internal/driver/webui.go makeReport, errorCatcher):
   the messages a page shows in its errors box are those printed while the report of THAT request was
   generated -- a function of the request alone.  For the sample filters (driver_focus.go:45-60) a filter
   whose expression matches nothing reports "<Name> expression matched no samples", in this order. *)
Definition filter_names : list string :=
  ["Focus"; "Ignore"; "Hide"; "Show"; "ShowFrom"; "TagFocus"; "TagIgnore"; "TagShow"].
Fixpoint web_errors_from (bit : Z) (names : list string) (mask : Z) : list string :=
  match names with
  | [] => []
  | n :: r => (if Z.testbit mask bit then [(n ++ " expression matched no samples")%string] else [])
              ++ web_errors_from (bit + 1) r mask
  end.
Definition web_errors (mask : Z) : list string := web_errors_from 0 filter_names mask.

(* a SHARED catcher, correctly locked: printing and taking are separate critical sections on the list *)
Definition cat_print (m : string) : list (instr (list string) (list string)) :=
  [fun (s l : list string) => ((s ++ [m])%list, l)].
Definition cat_take : list (instr (list string) (list string)) := [fun (s _ : list string) => (@nil string, s)].
Definition cat_threads (i : nat) : ath (list string) (list string) :=
  match i with
  | O => {| a_loc := []; a_todo := [cat_print "Focus expression matched no samples"; cat_take] |}
  | S O => {| a_loc := []; a_todo := [cat_take] |}
  | _ => {| a_loc := []; a_todo := [] |}
  end.
