(* Declarative specification of C15, written from the property text, independent of the
   control flow of M_Measure (it only shares the table and the sniffing of unit spellings). *)
From Coq Require Import QArith Qround Qabs.
From PV Require Import M_Measure.
Open Scope Z_scope.
Open Scope Q_scope.

(* the family a unit spelling belongs to: first family (table order) that recognises it *)
Fixpoint family_of (uts : list unit_type) (s : string) : option (unit_type * unit) :=
  match uts with
  | [] => None
  | ut :: r => match sniff_unit ut s with
               | Some u => Some (ut, u)
               | None => family_of r s
               end
  end.

Definition names_of (ut : unit_type) : list string :=
  u_name (ut_default ut) :: map u_name (ut_units ut).

(* relative closeness used when the implementation's float64 is compared with an exact rational *)
Definition qclose (a b : Q) : bool :=
  Qle_bool (Qabs (a - b)) (Qabs a * (1 # 1099511627776 (* 2^-40 *)) ).

(* what "Scale x from to = (q, name)" must satisfy *)
Definition scale_spec (uts : list unit_type) (x : Z) (from to : string) (q : Q) (name : string) : bool :=
  match family_of uts from with
  | None =>
      (* unknown unit: never treated as a known one -- value untouched, no factor applied *)
      qclose (inject_Z x) q && (String.eqb name to || String.eqb name "")
  | Some (ut, u) =>
      let phys := inject_Z x * u_factor u in
      if is_auto to then
        (* the result is the physical value expressed in SOME unit of the same family ... *)
        existsb (fun w => String.eqb (u_name w) name && qclose (phys / u_factor w) q
           (* ... whose magnitude is >= 1 (within float tolerance) and no larger unit of the family
              also keeps it >= 1; if no unit does, the family default is used *)
           && ((Qle_bool (1 - (1 # 1099511627776)) (Qabs (phys / u_factor w))
                && forallb (fun w' => Qle_bool (u_factor w') (u_factor w)
                                      || negb (Qle_bool (1 + (1 # 1099511627776)) (Qabs (phys / u_factor w'))))
                     (ut_units ut))
               || (forallb (fun w' => negb (Qle_bool (1 + (1 # 1099511627776)) (Qabs (phys / u_factor w')))) (ut_units ut)
                   && String.eqb (u_name w) (u_name (ut_default ut)))))
          (ut_default ut :: ut_units ut)
      else
        match sniff_unit ut to with
        | Some v => String.eqb name (u_name v) && qclose (phys / u_factor v) q   (* exact ratio *)
        | None =>
            (* target not in the family (another family, or unknown): never crosses families:
               the value is expressed in the source family's default unit *)
            String.eqb name (u_name (ut_default ut)) && qclose (phys / u_factor (ut_default ut)) q
        end
  end.
