(* Executable model of profile/filter.go (FilterSamplesByName, ShowFrom, FilterTagsByName,
   FilterSamplesByTag) over an ABSTRACT regexp match predicate [M : source -> subject -> bool]
   (the Go harness ships the match table of the real regexp engine in every case; theorems hold
   for every M).  Shared with M_Prune.v (generic list cutters, frames).  No proofs here. *)
From PV Require Export M_Profile.
Open Scope Z_scope.

(* ---------------------------------------------------------------- generic list cutters
   The Go code finds an index with a loop and reslices; each reslicing pattern is one function. *)

(* l[:i+1] for the LAST i with f l[i]   (ShowFrom: lines of a location, locations of a sample) *)
Fixpoint keep_through_last {A} (f : A -> bool) (l : list A) : option (list A) :=
  match l with
  | [] => None
  | x :: r =>
      match keep_through_last f r with
      | Some r' => Some (x :: r')
      | None => if f x then Some [x] else None
      end
  end.

(* l[i:] for the FIRST i with f l[i]   (PruneFrom) *)
Fixpoint from_first {A} (f : A -> bool) (l : list A) : option (list A) :=
  match l with
  | [] => None
  | x :: r => if f x then Some l else from_first f r
  end.

(* l[i+1:] for the LAST i with f l[i]   (Prune, lines of a location) *)
Fixpoint after_last {A} (f : A -> bool) (l : list A) : option (list A) :=
  match l with
  | [] => None
  | x :: r =>
      match after_last f r with
      | Some r' => Some r'
      | None => if f x then Some r else None
      end
  end.

Definition is_nil {A} (l : list A) : bool := match l with [] => true | _ => false end.
Definition is_some {A} (o : option A) : bool := match o with Some _ => true | None => false end.

(* ---------------------------------------------------------------- frames (used by the specs)
   A frame is one inline line of a location; a location without lines (unsymbolized) is one
   address frame.  Frames are listed leaf first, like Sample.Location and Location.Line. *)
Record frame := { fr_loc : Z; fr_line : option line }.

Definition loc_frames (l : location) : list frame :=
  match l_lines l with
  | [] => [ {| fr_loc := l_id l; fr_line := None |} ]
  | ls => map (fun ln => {| fr_loc := l_id l; fr_line := Some ln |}) ls
  end.

Definition frames_of (p : profile) (locs : list Z) : list frame :=
  flat_map (fun id => match find_location p id with Some l => loc_frames l | None => [] end) locs.

Definition sample_frames (p : profile) (s : sample) : list frame := frames_of p (s_loc s).

(* profile validity the theorems assume (a fragment of Profile.CheckValid): unique non-zero
   location ids, every sample location present, every line has a function *)
Definition locs_present (p : profile) (s : sample) : bool :=
  forallb (fun id => is_some (find_location p id)) (s_loc s).

Fixpoint nodup_z (l : list Z) : bool :=
  match l with
  | [] => true
  | x :: r => negb (existsb (Z.eqb x) r) && nodup_z r
  end.

Definition wf_profile (p : profile) : bool :=
  nodup_z (map l_id (p_location p))
  && forallb (locs_present p) (p_sample p)
  && forallb (fun l => forallb (fun ln => is_some (find_function p (ln_fn ln))) (l_lines l)) (p_location p).

Definition set_samples (p : profile) (ss : list sample) : profile :=
  {| p_sampletype := p_sampletype p; p_defaultsampletype := p_defaultsampletype p; p_sample := ss;
     p_mapping := p_mapping p; p_location := p_location p; p_function := p_function p;
     p_comments := p_comments p; p_docurl := p_docurl p; p_dropframes := p_dropframes p;
     p_keepframes := p_keepframes p; p_timenanos := p_timenanos p; p_durationnanos := p_durationnanos p;
     p_periodtype := p_periodtype p; p_period := p_period p |}.

Definition set_locations (p : profile) (ls : list location) : profile :=
  {| p_sampletype := p_sampletype p; p_defaultsampletype := p_defaultsampletype p; p_sample := p_sample p;
     p_mapping := p_mapping p; p_location := ls; p_function := p_function p;
     p_comments := p_comments p; p_docurl := p_docurl p; p_dropframes := p_dropframes p;
     p_keepframes := p_keepframes p; p_timenanos := p_timenanos p; p_durationnanos := p_durationnanos p;
     p_periodtype := p_periodtype p; p_period := p_period p |}.

Definition set_loc_lines (l : location) (ls : list line) : location :=
  {| l_id := l_id l; l_mapping := l_mapping l; l_addr := l_addr l; l_lines := ls; l_folded := l_folded l |}.

Definition set_sample_locs (s : sample) (locs : list Z) : sample :=
  {| s_loc := locs; s_val := s_val s; s_label := s_label s; s_numlabel := s_numlabel s; s_numunit := s_numunit s |}.

(* flag table keyed by location id, as the Go maps filled while ranging over p.Location *)
Definition id_flag (flag : location -> bool) (ls : list location) (id : Z) : bool :=
  existsb (fun l => (l_id l =? id) && flag l) ls.

Section Filter.
  Variable M : string -> string -> bool.   (* regexp source -> subject -> MatchString *)

  (* ln.Function != nil && (re.MatchString(fn.Name) || re.MatchString(fn.Filename)) *)
  Definition line_matches (p : profile) (re : string) (ln : line) : bool :=
    match find_function p (ln_fn ln) with
    | Some f => M re (f_name f) || M re (f_file f)
    | None => false
    end.

  (* loc.Mapping != nil && re.MatchString(m.File) *)
  Definition mapping_matches (p : profile) (re : string) (l : location) : bool :=
    match find_mapping p (l_mapping l) with
    | Some m => M re (m_file m)
    | None => false
    end.

  (* Location.matchesName *)
  Definition matches_name (p : profile) (re : string) (l : location) : bool :=
    existsb (line_matches p re) (l_lines l) || mapping_matches p re l.

  (* Location.unmatchedLines *)
  Definition unmatched_lines (p : profile) (re : string) (l : location) : list line :=
    if mapping_matches p re l then []
    else filter (fun ln => negb (line_matches p re ln)) (l_lines l).

  (* Location.matchedLines: a line WITHOUT function is kept *)
  Definition line_shown (p : profile) (re : string) (ln : line) : bool :=
    match find_function p (ln_fn ln) with
    | Some f => M re (f_name f) || M re (f_file f)
    | None => true
    end.
  Definition matched_lines (p : profile) (re : string) (l : location) : list line :=
    if mapping_matches p re l then l_lines l
    else filter (line_shown p re) (l_lines l).

  (* one iteration of the location loop of FilterSamplesByName *)
  Record loc_res := { lr_loc : location; lr_foi : option bool; lr_hidden : bool; lr_hm : bool; lr_hnm : bool }.

  Definition opt_match (o : option string) (f : string -> bool) : bool :=
    match o with Some re => f re | None => false end.

  Definition name_loc (p : profile) (focus ignore hide show : option string) (l : location) : loc_res :=
    let foi :=
      if opt_match ignore (fun re => matches_name p re l) then Some false
      else if match focus with None => true | Some re => matches_name p re l end then Some true
      else None in
    let hm := opt_match hide (fun re => matches_name p re l) in
    let l1 := match hide with
              | Some re => if matches_name p re l then set_loc_lines l (unmatched_lines p re l) else l
              | None => l
              end in
    let hid1 := hm && is_nil (l_lines l1) in
    let l2 := match show with
              | Some re => set_loc_lines l1 (matched_lines p re l1)
              | None => l1
              end in
    let hid2 := match show with Some _ => is_nil (l_lines l2) | None => false end in
    let hnm := match show with Some _ => negb (is_nil (l_lines l2)) | None => false end in
    {| lr_loc := l2; lr_foi := foi; lr_hidden := hid1 || hid2; lr_hm := hm; lr_hnm := hnm |}.

  Definition foi_of (rs : list loc_res) (id : Z) : option bool :=
    match find (fun r => l_id (lr_loc r) =? id) rs with
    | Some r => lr_foi r
    | None => None
    end.

  Definition hidden_of (rs : list loc_res) (id : Z) : bool :=
    existsb (fun r => (l_id (lr_loc r) =? id) && lr_hidden r) rs.

  (* focusedAndNotIgnored *)
  Fixpoint fani (m : Z -> option bool) (locs : list Z) (f : bool) : bool :=
    match locs with
    | [] => f
    | id :: r =>
        match m id with
        | Some true => fani m r true
        | Some false => false
        | None => fani m r f
        end
    end.

  Definition name_sample (rs : list loc_res) (any_hidden : bool) (s : sample) : option sample :=
    if fani (foi_of rs) (s_loc s) false then
      if any_hidden then
        let locs := filter (fun id => negb (hidden_of rs id)) (s_loc s) in
        if is_nil locs then None else Some (set_sample_locs s locs)
      else Some s
    else None.

  Fixpoint filter_map {A B} (f : A -> option B) (l : list A) : list B :=
    match l with
    | [] => []
    | x :: r => match f x with Some y => y :: filter_map f r | None => filter_map f r end
    end.

  (* FilterSamplesByName: result profile and (fm, im, hm, hnm) *)
  Definition filter_samples_by_name (p : profile) (focus ignore hide show : option string)
    : profile * (bool * bool * bool * bool) :=
    match focus, ignore, hide, show with
    | None, None, None, None => (p, (true, false, false, false))
    | _, _, _, _ =>
        let rs := map (name_loc p focus ignore hide show) (p_location p) in
        let fm := existsb (fun r => match lr_foi r with Some true => true | _ => false end) rs in
        let im := existsb (fun r => match lr_foi r with Some false => true | _ => false end) rs in
        let hm := existsb lr_hm rs in
        let hnm := existsb lr_hnm rs in
        let any_hidden := existsb lr_hidden rs in
        let ss := filter_map (name_sample rs any_hidden) (p_sample p) in
        (set_samples (set_locations p (map lr_loc rs)) ss, (fm, im, hm, hnm))
    end.

  (* filterShowFromLocation: Some l' = matched (l' possibly trimmed), None = not matched *)
  Definition show_from_loc (p : profile) (re : string) (l : location) : option location :=
    if mapping_matches p re l then Some l
    else match keep_through_last (line_matches p re) (l_lines l) with
         | Some ls => Some (set_loc_lines l ls)
         | None => None
         end.

  Definition show_from (p : profile) (sf : option string) : profile * bool :=
    match sf with
    | None => (p, false)
    | Some re =>
        let flagged := fun l => is_some (show_from_loc p re l) in
        let ls := map (fun l => match show_from_loc p re l with Some l' => l' | None => l end) (p_location p) in
        let flag := id_flag flagged (p_location p) in
        let ss := filter_map (fun s => match keep_through_last flag (s_loc s) with
                                       | Some locs => Some (set_sample_locs s locs)
                                       | None => None
                                       end) (p_sample p) in
        (set_samples (set_locations p ls) ss, existsb flagged (p_location p))
    end.

  (* FilterTagsByName *)
  Definition tag_removed (show hide : option string) (key : string) : bool :=
    let ms := match show with Some re => M re key | None => true end in
    let mh := match hide with Some re => M re key | None => false end in
    negb ms || mh.

  Definition filter_tags_by_name (p : profile) (show hide : option string) : profile * (bool * bool) :=
    let keys := flat_map (fun s => (map fst (s_label s) ++ map fst (s_numlabel s))%list) (p_sample p) in
    let sm := existsb (fun k => match show with Some re => M re k | None => true end) keys in
    let hm := existsb (fun k => match hide with Some re => M re k | None => false end) keys in
    let ss := map (fun s =>
      {| s_loc := s_loc s; s_val := s_val s;
         s_label := filter (fun kv => negb (tag_removed show hide (fst kv))) (s_label s);
         s_numlabel := filter (fun kv => negb (tag_removed show hide (fst kv))) (s_numlabel s);
         s_numunit := s_numunit s |}) (p_sample p) in
    (set_samples p ss, (sm, hm)).

  (* FilterSamplesByTag *)
  Definition filter_samples_by_tag (p : profile) (focus ignore : option (sample -> bool))
    : profile * (bool * bool) :=
    let foc := fun s => match focus with Some f => f s | None => true end in
    let ign := fun s => match ignore with Some f => f s | None => false end in
    (set_samples p (filter (fun s => foc s && negb (ign s)) (p_sample p)),
     (existsb foc (p_sample p), existsb ign (p_sample p))).
End Filter.
