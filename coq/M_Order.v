(* C08 -- executable model of the orderings pprof uses on its output paths.

   A comparator ("Less") is a CHAIN of steps; step {guard; decide; dir} transcribes
       if guard(l) != guard(r) { return decide(l) <dir> decide(r) }
   and the end of the chain is `return false` (a final `return X < Y` is the step
   {X; X; Asc}: when X(l) = X(r) it answers false).  Chains are DATA: the translator `cmpscan`
   re-reads the Go source on every run and emits them into Gen/Gen_Comparators.v; keys are the
   canonical text of the Go expression with the element variable removed (`abs64(.Flat)`,
   `.Info.PrintableName()`, `fmt.Sprint(.Info)`, ...), interpreted here per carrier.
   No proofs in this file. *)
From PV Require Export Base.Term Base.Str M_Profile.
Open Scope string_scope.
Open Scope Z_scope.

(* ---------------------------------------------------------------- values and chains *)
Inductive val := VZ (z : Z) | VS (s : string).

Definition val_eqb (a b : val) : bool :=
  match a, b with
  | VZ x, VZ y => Z.eqb x y
  | VS x, VS y => String.eqb x y
  | _, _ => false
  end.

(* Go's < on int64/uint64/int (as Z) and on strings (bytewise).  A key has one static type, so
   the mixed cases never arise; they are ordered VZ < VS to keep the order total. *)
Definition val_ltb (a b : val) : bool :=
  match a, b with
  | VZ x, VZ y => Z.ltb x y
  | VS x, VS y => str_ltb x y
  | VZ _, VS _ => true
  | VS _, VZ _ => false
  end.

Inductive dir := Asc | Desc.
Definition dir_eqb (a b : dir) : bool :=
  match a, b with Asc, Asc => true | Desc, Desc => true | _, _ => false end.

Record step := { guard : string; decide : string; sdir : dir }.
Definition chain := list step.

Definition vlt (d : dir) (a b : val) : bool :=
  match d with Asc => val_ltb a b | Desc => val_ltb b a end.

Section Less.
  Context {A : Type}.
  Variable kv : string -> A -> val.

  Fixpoint less (c : chain) (x y : A) : bool :=
    match c with
    | [] => false
    | s :: r =>
        if val_eqb (kv (guard s) x) (kv (guard s) y) then less r x y
        else vlt (sdir s) (kv (decide s) x) (kv (decide s) y)
    end.

  (* x and y agree on every key the chain guards on *)
  Definition keys_equal (c : chain) (x y : A) : bool :=
    forallb (fun s => val_eqb (kv (guard s) x) (kv (guard s) y)) c.

  (* insertion sort with the comparator, as sort.Sort does for short slices: insert x before the
     first element it is less than, scanning from the right (stable) *)
  Fixpoint insert_sorted (c : chain) (x : A) (l : list A) : list A :=
    match l with
    | [] => [x]
    | y :: r => if less c x y then x :: y :: r else y :: insert_sorted c x r
    end.
  Definition sort_by (c : chain) (l : list A) : list A :=
    fold_right (insert_sorted c) [] l.

  (* Go's notion of "sorted": no adjacent inversion *)
  Fixpoint go_sorted (c : chain) (l : list A) : bool :=
    match l with
    | x :: ((y :: _) as r) => negb (less c y x) && go_sorted c r
    | _ => true
    end.
End Less.

(* every step decides on the key it guards on (syntactic check) *)
Definition step_ok (s : step) : bool := String.eqb (guard s) (decide s).
Definition chain_ok (c : chain) : bool := forallb step_ok c.
Definition chain_keys (c : chain) : list string := map guard c.
Definition has_key (k : string) (c : chain) : bool := existsb (String.eqb k) (chain_keys c).

(* ---------------------------------------------------------------- carriers *)
(* graph.NodeInfo (graph.go:151) *)
Record node_info := {
  ni_name : string; ni_orig : string; ni_addr : Z; ni_file : string;
  ni_startline : Z; ni_lineno : Z; ni_colno : Z; ni_objfile : string }.

Definition info_eqb (a b : node_info) : bool :=
  String.eqb (ni_name a) (ni_name b) && String.eqb (ni_orig a) (ni_orig b) && (ni_addr a =? ni_addr b)
  && String.eqb (ni_file a) (ni_file b) && (ni_startline a =? ni_startline b) && (ni_lineno a =? ni_lineno b)
  && (ni_colno a =? ni_colno b) && String.eqb (ni_objfile a) (ni_objfile b).

(* abs64 (graph.go:1173): -i in int64, so abs64(MinInt64) = MinInt64 *)
Definition abs64 (i : Z) : Z := if i <? 0 then wrap_i64 (- i) else i.

Definition hex_digit (n : Z) : string :=
  String (ascii_of_N (Z.to_N (if n <? 10 then 48 + n else 87 + n))) "".
Fixpoint hex_fixed (digits : nat) (z : Z) : string :=
  match digits with
  | O => ""
  | S d => hex_fixed d (z / 16) ++ hex_digit (z mod 16)
  end.
(* fmt.Sprintf("%016x", uint64) *)
Definition hex16 (z : Z) : string := hex_fixed 16 z.

Definition slash : ascii := "/"%char.
Fixpoint after_last_slash (s acc : string) : string :=
  match s with
  | EmptyString => acc
  | String a r => if Ascii.eqb a slash then after_last_slash r r else after_last_slash r acc
  end.
Fixpoint strip_trailing_slashes_rev (s : string) : string :=
  match s with
  | String a r => if Ascii.eqb a slash then strip_trailing_slashes_rev r else s
  | EmptyString => EmptyString
  end.
(* path/filepath.Base on Unix *)
Definition path_base (s : string) : string :=
  if String.eqb s "" then "." else
  let t := rev_string (strip_trailing_slashes_rev (rev_string s)) in
  if String.eqb t "" then "/" else after_last_slash t t.

(* NodeInfo.NameComponents / PrintableName (graph.go:162-196) *)
Definition name_components (i : node_info) : list string :=
  (if ni_addr i =? 0 then [] else [hex16 (ni_addr i)]) ++
  (if String.eqb (ni_name i) "" then [] else [ni_name i]) ++
  (if negb (ni_lineno i =? 0) then
     [ni_file i ++ ":" ++ string_of_Z (ni_lineno i) ++
      (if ni_colno i =? 0 then "" else ":" ++ string_of_Z (ni_colno i))]
   else if negb (String.eqb (ni_file i) "") then [ni_file i]
   else if negb (String.eqb (ni_name i) "") then []
   else if negb (String.eqb (ni_objfile i) "") then ["[" ++ path_base (ni_objfile i) ++ "]"]
   else ["<unknown>"]).
Definition printable_name (i : node_info) : string := concat_with " " (name_components i).

(* fmt.Sprint(NodeInfo): "{Name OrigName Address File StartLine Lineno Columnno Objfile}" *)
Definition sprint_fields (i : node_info) : list string :=
  [ni_name i; ni_orig i; string_of_Z (ni_addr i); ni_file i; string_of_Z (ni_startline i);
   string_of_Z (ni_lineno i); string_of_Z (ni_colno i); ni_objfile i].
Definition sprint_info (i : node_info) : string := "{" ++ concat_with " " (sprint_fields i) ++ "}".

(* a graph node as far as the orderings look at it.  n_id is the pointer identity (distinct nodes
   have distinct ids); n_score is what Nodes.Sort stores in its score map for the node *)
Record node := { n_id : Z; n_info : node_info; n_flat : Z; n_cum : Z; n_score : Z }.
Record edge := { e_src : node; e_dst : node; e_weight : Z }.
Record tag := { t_name : string; t_flat : Z; t_cum : Z }.

(* interpretation of the key texts cmpscan emits; an unknown key is reported by keys_known and
   evaluates to a constant *)
Definition info_key (k : string) (i : node_info) : option val :=
  if String.eqb k ".PrintableName()" then Some (VS (printable_name i))
  else if String.eqb k ".Name" then Some (VS (ni_name i))
  else if String.eqb k ".OrigName" then Some (VS (ni_orig i))
  else if String.eqb k ".File" then Some (VS (ni_file i))
  else if String.eqb k ".Objfile" then Some (VS (ni_objfile i))
  else if String.eqb k ".StartLine" then Some (VZ (ni_startline i))
  else if String.eqb k ".Lineno" then Some (VZ (ni_lineno i))
  else if String.eqb k ".Columnno" then Some (VZ (ni_colno i))
  else if String.eqb k ".Address" then Some (VZ (ni_addr i))
  else None.

Definition node_key (k : string) (n : node) : option val :=
  if String.eqb k "abs64(.Flat)" then Some (VZ (abs64 (n_flat n)))
  else if String.eqb k "abs64(.Cum)" then Some (VZ (abs64 (n_cum n)))
  else if String.eqb k ".Flat" then Some (VZ (n_flat n))
  else if String.eqb k ".Cum" then Some (VZ (n_cum n))
  else if String.eqb k "abs64(entropyScore())" then Some (VZ (abs64 (n_score n)))
  else if String.eqb k "entropyScore()" then Some (VZ (n_score n))
  else if String.eqb k "fmt.Sprint(.Info)" then Some (VS (sprint_info (n_info n)))
  else if has_prefix ".Info" k then info_key (drop 5 k) (n_info n)
  else None.

Definition edge_key (k : string) (e : edge) : option val :=
  if String.eqb k "abs64(.Weight)" then Some (VZ (abs64 (e_weight e)))
  else if String.eqb k ".Weight" then Some (VZ (e_weight e))
  else if has_prefix ".Src" k then node_key (drop 4 k) (e_src e)
  else if has_prefix ".Dest" k then node_key (drop 5 k) (e_dst e)
  else None.

Definition tag_key (k : string) (t : tag) : option val :=
  if String.eqb k ".Name" then Some (VS (t_name t))
  else if String.eqb k "abs64(.Flat)" then Some (VZ (abs64 (t_flat t)))
  else if String.eqb k "abs64(.Cum)" then Some (VZ (abs64 (t_cum t)))
  else if String.eqb k ".Flat" then Some (VZ (t_flat t))
  else if String.eqb k ".Cum" then Some (VZ (t_cum t))
  else None.

Definition total_key {A} (f : string -> A -> option val) (k : string) (a : A) : val :=
  match f k a with Some v => v | None => VZ 0 end.
Definition node_kv := total_key node_key.
Definition edge_kv := total_key edge_key.
Definition tag_kv := total_key tag_key.

Definition dummy_info : node_info :=
  {| ni_name := ""; ni_orig := ""; ni_addr := 0; ni_file := ""; ni_startline := 0; ni_lineno := 0;
     ni_colno := 0; ni_objfile := "" |}.
Definition dummy_node : node := {| n_id := 0; n_info := dummy_info; n_flat := 0; n_cum := 0; n_score := 0 |}.
Definition dummy_edge : edge := {| e_src := dummy_node; e_dst := dummy_node; e_weight := 0 |}.
Definition dummy_tag : tag := {| t_name := ""; t_flat := 0; t_cum := 0 |}.

(* all keys of the chain are understood by the carrier's interpretation *)
Definition keys_known {A} (f : string -> A -> option val) (d : A) (c : chain) : bool :=
  forallb (fun s => match f (guard s) d, f (decide s) d with Some _, Some _ => true | _, _ => false end) c.

(* the carrier a named comparator orders *)
Inductive carrier := CNode | CEdge | CTag | CString.

(* ---------------------------------------------------------------- identity and finding classes *)
(* identity of the things ordered:
   nodes -- the *Node pointer (n_id); in a graph (not call tree) NodeMap makes NodeInfo unique;
   edges -- the pair of endpoint nodes;   tags -- the name (TagMap key). *)
Definition node_same (a b : node) : bool := n_id a =? n_id b.
Definition edge_same (a b : edge) : bool := node_same (e_src a) (e_src b) && node_same (e_dst a) (e_dst b).
Definition tag_same (a b : tag) : bool := String.eqb (t_name a) (t_name b).

Fixpoint exists_pair {A} (p : A -> A -> bool) (l : list A) : bool :=
  match l with
  | [] => false
  | x :: r => existsb (p x) r || exists_pair p r
  end.

(* F19: two distinct nodes carry the same NodeInfo (call trees) *)
Definition in_F19 (l : list node) : bool :=
  exists_pair (fun a b => negb (node_same a b) && info_eqb (n_info a) (n_info b)) l.
(* F8: two different NodeInfos print the same under fmt.Sprint *)
Definition in_F8 (l : list node) : bool :=
  exists_pair (fun a b => negb (info_eqb (n_info a) (n_info b))
                          && String.eqb (sprint_info (n_info a)) (sprint_info (n_info b))) l.
(* F9: two different edges agree on |weight| and on the printable names of both endpoints *)
Definition in_F9 (l : list edge) : bool :=
  exists_pair (fun a b => negb (edge_same a b)
                          && (abs64 (e_weight a) =? abs64 (e_weight b))
                          && String.eqb (printable_name (n_info (e_src a))) (printable_name (n_info (e_src b)))
                          && String.eqb (printable_name (n_info (e_dst a))) (printable_name (n_info (e_dst b)))) l.

(* node-level form of F9 for a whole graph: two different nodes share a printable name, so two
   edges with a common endpoint can tie *)
Definition in_F9_nodes (l : list node) : bool :=
  exists_pair (fun a b => negb (node_same a b)
                          && String.eqb (printable_name (n_info a)) (printable_name (n_info b))) l.
(* F25: entropyScore adds float64 terms in map order.  A node is exposed when it has three or more
   edges on one side; a whole -dot report when, in addition, weights are large enough (2^40) for
   the float rounding of score*cum to reach the integer part *)
Definition in_F25_node (edges_on_a_side : Z) : bool := 3 <=? edges_on_a_side.
Definition in_F25_graph (l : list node) : bool := existsb (fun n => 1099511627776 <=? abs64 (n_cum n)) l.

(* ---------------------------------------------------------------- case-format codec *)
Definition info_of (t : term) : node_info :=
  {| ni_name := gs (gn t 0); ni_orig := gs (gn t 1); ni_addr := gz (gn t 2); ni_file := gs (gn t 3);
     ni_startline := gz (gn t 4); ni_lineno := gz (gn t 5); ni_colno := gz (gn t 6); ni_objfile := gs (gn t 7) |}.
Definition node_of (t : term) : node :=
  {| n_id := gz (gn t 0); n_info := info_of (gn t 1); n_flat := gz (gn t 2); n_cum := gz (gn t 3); n_score := gz (gn t 4) |}.
Definition edge_of (t : term) : edge :=
  {| e_src := node_of (gn t 0); e_dst := node_of (gn t 1); e_weight := gz (gn t 2) |}.
Definition tag_of (t : term) : tag :=
  {| t_name := gs (gn t 0); t_flat := gz (gn t 1); t_cum := gz (gn t 2) |}.
