(* Executable model of internal/driver/config.go (shared by C19 and C10).
   A config is a total map from field NAME to the string that [config.get] returns for the field
   (fmt.Sprint of the Go value).  Printing is injective for every field type, so this loses nothing:
   ints hold their decimal form, bools "true"/"false", float64s the shortest form fmt.Sprint gives.
   The field table ([list field], in configFields order) is regenerated from /repo on every run
   (Gen/Gen_ConfigTable.v).  strconv.ParseFloat composed with fmt.Sprint is an ORACLE
   ([pf : string -> option string], shipped with every case).  No proofs in this file. *)
From Coq Require Export List ZArith String Ascii Bool.
From PV Require Export Base.Str.
Export ListNotations.
Open Scope string_scope.
Open Scope Z_scope.

Inductive kind := KStr | KInt | KFloat | KBool.

Record field := {
  f_name : string;          (* JSON name / variable name *)
  f_url : string;           (* URL parameter, "" = not in URLs *)
  f_saved : bool;           (* saved in settings (has a JSON tag) *)
  f_kind : kind;
  f_choices : list string;
  f_default : string;       (* defaultConfig().get(f) *)
  f_transient : bool        (* overwritten by resetTransient *)
}.

Definition config := string -> string.

Definition upd (c : config) (n v : string) : config :=
  fun m => if String.eqb m n then v else c m.

(* ---- url.Values: key |-> list of values; Get = first value or "" *)
Definition values := list (string * list string).

Fixpoint vget (q : values) (k : string) : string :=
  match q with
  | [] => ""
  | (k', vs) :: r => if String.eqb k' k then match vs with v :: _ => v | [] => "" end else vget r k
  end.
Definition vdel (q : values) (k : string) : values :=
  filter (fun kv => negb (String.eqb (fst kv) k)) q.
Definition vset (q : values) (k v : string) : values := (k, [v]) :: vdel q k.

(* ---- strconv.Atoi (base 10, int = int64) and fmt.Sprint(int) *)
Definition is_digit (a : ascii) : bool :=
  let n := N_of_ascii a in (N.leb 48 n && N.leb n 57)%N.
Fixpoint all_digits (s : string) : bool :=
  match s with EmptyString => true | String a r => is_digit a && all_digits r end.
Definition digit_val (a : ascii) : Z := Z.of_N (N_of_ascii a) - 48.
Fixpoint digits_val (s : string) (acc : Z) : Z :=
  match s with EmptyString => acc | String a r => digits_val r (acc * 10 + digit_val a) end.

Definition max_int : Z := 9223372036854775807.
Definition min_int : Z := -9223372036854775808.

Definition split_sign (s : string) : bool * string :=
  match s with
  | String a r => if Ascii.eqb a "-" then (true, r) else if Ascii.eqb a "+" then (false, r) else (false, s)
  | EmptyString => (false, s)
  end.

Definition atoi (s : string) : option Z :=
  let '(neg, body) := split_sign s in
  match body with
  | EmptyString => None
  | _ => if all_digits body then
           let v := digits_val body 0 in
           let z := if neg then - v else v in
           if (z <? min_int) || (max_int <? z) then None else Some z
         else None
  end.

Definition digit_char (d : Z) : ascii := ascii_of_N (Z.to_N (48 + d)).
(* decimal digits of n >= 0, most significant first; fuel = number of digits allowed *)
Fixpoint print_digits (fuel : nat) (n : Z) : string :=
  match fuel with
  | O => ""
  | S f => if n <? 10 then String (digit_char n) ""
           else print_digits f (n / 10) ++ String (digit_char (n mod 10)) ""
  end.
Definition print_int (z : Z) : string :=
  if z <? 0 then String "-" (print_digits 20 (- z)) else print_digits 20 z.

(* ---- driver.stringToBool and strconv.ParseBool *)
Definition string_to_bool (s : string) : option bool :=
  let l := to_lower s in
  if existsb (String.eqb l) ["true"; "t"; "yes"; "y"; "1"; ""] then Some true
  else if existsb (String.eqb l) ["false"; "f"; "no"; "n"; "0"] then Some false
  else None.
Definition parse_bool (s : string) : option bool :=
  if existsb (String.eqb s) ["1"; "t"; "T"; "TRUE"; "true"; "True"] then Some true
  else if existsb (String.eqb s) ["0"; "f"; "F"; "FALSE"; "false"; "False"] then Some false
  else None.
Definition print_bool (b : bool) : string := if b then "true" else "false".

Inductive res (A : Type) := Ok (a : A) | Err (e : string).
Arguments Ok {A} a.
Arguments Err {A} e.

Definition zero_of (k : kind) : string :=
  match k with KStr => "" | KInt => "0" | KFloat => "0" | KBool => "false" end.

Section WithFloatOracle.
  (* pf s = Some (fmt.Sprint v) when strconv.ParseFloat(s, 64) = v, None on error *)
  Variable pf : string -> option string.

  (* config.set *)
  Definition set_field (c : config) (f : field) (v : string) : option config :=
    match f_kind f with
    | KStr =>
        match f_choices f with
        | [] => Some (upd c (f_name f) v)
        | ch => if existsb (String.eqb v) ch then Some (upd c (f_name f) v) else None
        end
    | KInt => match atoi v with Some z => Some (upd c (f_name f) (print_int z)) | None => None end
    | KFloat => match pf v with Some s => Some (upd c (f_name f) s) | None => None end
    | KBool => match string_to_bool v with Some b => Some (upd c (f_name f) (print_bool b)) | None => None end
    end.

  (* config.applyURL: fields in table order; the first failing field aborts *)
  Fixpoint apply_url_go (fs : list field) (c : config) (q : values) : res config :=
    match fs with
    | [] => Ok c
    | f :: r =>
        let value := if String.eqb (f_url f) "" then "" else vget q (f_url f) in
        if String.eqb value "" then apply_url_go r c q
        else match set_field c f value with
             | Some c' => apply_url_go r c' q
             | None => Err (f_name f)
             end
    end.

  (* configFieldMap lookup: an entry per field name and per choice, later entries overwrite *)
  Fixpoint cfm_lookup (fs : list field) (name : string) (acc : option field) : option field :=
    match fs with
    | [] => acc
    | f :: r =>
        cfm_lookup r name
          (if String.eqb (f_name f) name || existsb (String.eqb name) (f_choices f) then Some f else acc)
    end.

  (* driver.configure on a config value *)
  Definition configure (fs : list field) (c : config) (name value : string) : res config :=
    match cfm_lookup fs name None with
    | None => Err "unknown"
    | Some f =>
        if String.eqb (f_name f) name then
          match set_field c f value with Some c' => Ok c' | None => Err "set" end
        else
          match parse_bool value with
          | Some true => match set_field c f name with Some c' => Ok c' | None => Err "set" end
          | _ => Err "unknown"
          end
    end.
End WithFloatOracle.

(* config.makeURL on the parsed query; second component = changed *)
Definition url_value (f : field) (c : config) : string :=
  let v := c (f_name f) in
  if String.eqb v (f_default f) then ""
  else match f_kind f with KBool => take 1 v | _ => v end.

Fixpoint make_url_go (fs : list field) (c : config) (q : values) (changed : bool) : values * bool :=
  match fs with
  | [] => (q, changed)
  | f :: r =>
      if String.eqb (f_url f) "" || negb (f_saved f) then make_url_go r c q changed
      else
        let v := url_value f c in
        if String.eqb (vget q (f_url f)) v then make_url_go r c q changed
        else make_url_go r c (if String.eqb v "" then vdel q (f_url f) else vset q (f_url f) v) true
  end.
Definition make_url (fs : list field) (c : config) (q : values) : values * bool :=
  make_url_go fs c q false.

Definition find_field (fs : list field) (n : string) : option field :=
  find (fun f => String.eqb (f_name f) n) fs.

Definition default_cfg (fs : list field) : config :=
  fun n => match find_field fs n with Some f => f_default f | None => "" end.

(* the Go zero value of config *)
Definition zero_cfg (fs : list field) : config :=
  fun n => match find_field fs n with Some f => zero_of (f_kind f) | None => "" end.

Definition is_transient (fs : list field) (n : string) : bool :=
  match find_field fs n with Some f => f_transient f | None => false end.
Definition is_saved (fs : list field) (n : string) : bool :=
  match find_field fs n with Some f => f_saved f | None => false end.

(* config.resetTransient *)
Definition reset_transient (fs : list field) (c cur : config) : config :=
  fun n => if is_transient fs n then cur n else c n.

(* ---- table well-formedness (decidable; re-checked on the regenerated table each run) *)
Fixpoint nodup_str (l : list string) : bool :=
  match l with [] => true | a :: r => negb (existsb (String.eqb a) r) && nodup_str r end.
Definition url_params (fs : list field) : list string :=
  filter (fun u => negb (String.eqb u "")) (map f_url fs).
Definition table_ok (fs : list field) : bool :=
  nodup_str (map f_name fs) && nodup_str (url_params fs).
