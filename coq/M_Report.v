(* Executable model of the report pipeline around the graph:
   graph.NodeInfo / nodeInfo (graph.go:151,597), PrintableName (:162), node orders (:952),
   profile.Aggregate (profile.go:442) + driver.aggregate (driver.go:253), sampleFormat (:368) +
   SampleIndexByName (index.go:26), addLabelNodes (tagroot.go:17), computeTotal (report.go:1302),
   Report.newGraph (:238), newTrimmedGraph (:124), TextItems (:789), printTree (:1068),
   printTraces (:853), printCallgrind (:929), reportLabels (:1208).  No proofs here. *)
From PV Require Export M_Graph.
Open Scope string_scope.
Open Scope list_scope.
Open Scope Z_scope.

(* ---------------- NodeInfo ---------------- *)
Record node_info := mk_ni {
  ni_name : string; ni_orig : string; ni_addr : Z; ni_file : string;
  ni_startline : Z; ni_lineno : Z; ni_col : Z; ni_obj : string }.

Definition ni_eqb (a b : node_info) : bool :=
  String.eqb (ni_name a) (ni_name b) && String.eqb (ni_orig a) (ni_orig b) && (ni_addr a =? ni_addr b) &&
  String.eqb (ni_file a) (ni_file b) && (ni_startline a =? ni_startline b) && (ni_lineno a =? ni_lineno b) &&
  (ni_col a =? ni_col b) && String.eqb (ni_obj a) (ni_obj b).

Definition hex_digit (d : Z) : ascii :=
  ascii_of_N (Z.to_N (if d <? 10 then 48 + d else 87 + d)).
Fixpoint hex_fixed (n : nat) (z : Z) (acc : string) : string :=
  match n with
  | O => acc
  | S n' => hex_fixed n' (z / 16) (String (hex_digit (z mod 16)) acc)
  end.
(* fmt "%016x" of a uint64 *)
Definition hex16 (z : Z) : string := hex_fixed 16 z "".

(* filepath.Base for slash-separated paths *)
Fixpoint strip_trailing_slashes_rev (r : string) : string :=
  match r with
  | String "/" r' => strip_trailing_slashes_rev r'
  | _ => r
  end.
Fixpoint take_until_slash (r : string) (acc : string) : string :=
  match r with
  | EmptyString => acc
  | String "/" _ => acc
  | String a r' => take_until_slash r' (String a acc)
  end.
Definition path_base (p : string) : string :=
  if String.eqb p "" then "."
  else match strip_trailing_slashes_rev (rev_string p) with
       | EmptyString => "/"
       | r => take_until_slash r ""
       end.

Definition col_suffix (c : Z) : string := if c =? 0 then "" else (":" ++ string_of_Z c)%string.
(* NameComponents / PrintableName (graph.go:162-197) *)
Definition name_components (i : node_info) : list string :=
  (if ni_addr i =? 0 then [] else [hex16 (ni_addr i)]) ++
  (if String.eqb (ni_name i) "" then [] else [ni_name i]) ++
  (if negb (ni_lineno i =? 0)
   then [(ni_file i ++ ":" ++ string_of_Z (ni_lineno i) ++ col_suffix (ni_col i))%string]
   else if negb (String.eqb (ni_file i) "") then [ni_file i]
   else if negb (String.eqb (ni_name i) "") then []
   else if negb (String.eqb (ni_obj i) "") then [("[" ++ path_base (ni_obj i) ++ "]")%string]
   else ["<unknown>"]).
Definition printable_name (i : node_info) : string := concat_with " " (name_components i).

(* fmt.Sprint(NodeInfo): {Name OrigName Address File StartLine Lineno Columnno Objfile} *)
Definition sprint_info (i : node_info) : string :=
  ("{" ++ ni_name i ++ " " ++ ni_orig i ++ " " ++ string_of_Z (ni_addr i) ++ " " ++ ni_file i ++ " " ++
   string_of_Z (ni_startline i) ++ " " ++ string_of_Z (ni_lineno i) ++ " " ++ string_of_Z (ni_col i) ++ " " ++
   ni_obj i ++ "}")%string.

(* ---------------- options ---------------- *)
Record ropts := mk_ropts {
  o_gran : string;          (* "", addresses, lines, files, functions, filefunctions *)
  o_noinlines : bool;
  o_showcolumns : bool;
  o_sample_index : string;
  o_mean : bool;
  o_call_tree : bool;
  o_drop_negative : bool;
  o_tagroot : string;
  o_tagleaf : string;
  o_format : string;        (* text | tree | dot | callgrind | traces | topproto *)
  o_cumsort : bool;
  o_nodecount : Z;
  o_nodecutoff : Z;         (* abs64(int64(float64(total) * NodeFraction)), computed by the Go expression *)
  o_edgecutoff : Z;
  o_srcpath : string;       (* source_path *)
  o_trimpath : string       (* trim_path *)
}.

Definition set_sample_index (o : ropts) (si : string) : ropts :=
  mk_ropts (o_gran o) (o_noinlines o) (o_showcolumns o) si (o_mean o) (o_call_tree o) (o_drop_negative o)
           (o_tagroot o) (o_tagleaf o) (o_format o) (o_cumsort o) (o_nodecount o) (o_nodecutoff o) (o_edgecutoff o)
           (o_srcpath o) (o_trimpath o).

(* ---------------- glue: what the driver does to the options before the report sees them -------- *)
(* applyCommandOverrides (driver.go:178), for the commands modelled: a node count that was not given
   (-1) becomes 0 for text/top and 80 for every other command; an explicit count, 0 included, is
   kept; trim=false and the callgrind format switch every limit off *)
Definition override_nodecount (format : string) (notrim : bool) (n : Z) : Z :=
  if notrim || String.eqb format "callgrind" then 0
  else if n =? -1 then (if String.eqb format "text" then 0 else 80) else n.
Definition override_cutoff (format : string) (notrim : bool) (c : Z) : Z :=
  if notrim || String.eqb format "callgrind" then 0 else c.

(* which node count a command starts from: the web /top handler forces 500 (webui.go:370); an
   interactive command's own numeric argument replaces the session's value for that command only
   (interactive.go:261), and an interactive top/text whose count is still "not given" shows 10
   (interactive.go:302); otherwise the configured one *)
Definition entry_nodecount (via format : string) (hasarg : bool) (arg n : Z) : Z :=
  if String.eqb via "web" then 500
  else if String.eqb via "session" then
    (let n1 := if hasarg then arg else n in
     if (n1 =? -1) && String.eqb format "text" then 10 else n1)
  else n.

(* parseFlags' legacy sample-index flags (cli.go:124-136): in this order, a set flag selects its
   type only while no sample index has been chosen yet; -mean_delay also switches mean on *)
Definition legacy_table : list (string * string) :=
  [("total_delay", "delay"); ("mean_delay", "delay"); ("contentions", "contentions");
   ("inuse_space", "inuse_space"); ("inuse_objects", "inuse_objects");
   ("alloc_space", "alloc_space"); ("alloc_objects", "alloc_objects")].
Definition legacy_si (flags : list string) (si : string) : string :=
  fold_left (fun si fe => if existsb (String.eqb (fst fe)) flags && String.eqb si "" then snd fe else si)
            legacy_table si.
(* which sample index a report starts from.  Command line: the -sample_index flag, else the legacy
   flags.  Web: the si= URL parameter replaces what the command line left in the configuration.
   Interactive session: an assignment sample_index=v is checked against the profile when it is
   typed (interactive.go: SampleIndexByName) and REJECTED when invalid, the previous value stays. *)
Definition entry_sample_index (via : string) (flags : list string) (si : string) (valid : bool) : string :=
  if String.eqb via "web" then (if String.eqb si "" then legacy_si flags "" else si)
  else if String.eqb via "session" then (if negb (String.eqb si "") && valid then si else legacy_si flags "")
  else legacy_si flags si.
Definition legacy_mean (flags : list string) (mean : bool) : bool :=
  mean || existsb (String.eqb "mean_delay") flags.

(* trimPath (report/source.go:1038), applied by Report.newGraph to every Function.Filename on the
   full-graph build of a report *)
Fixpoint str_index_from (s pat : string) (i : nat) : option nat :=
  if has_prefix pat s then Some i
  else match s with
       | EmptyString => None
       | String _ r => str_index_from r pat (S i)
       end.
Fixpoint split_colons (s : string) (cur : string) : list string :=
  match s with
  | EmptyString => [cur]
  | String ":" r => cur :: split_colons r ""
  | String a r => split_colons r (cur ++ String a "")%string
  end.
(* filepath.SplitList *)
Definition split_list (s : string) : list string := if String.eqb s "" then [] else split_colons s "".

Definition trim_path (path trimp searchp : string) : string :=
  let guess :=
    if String.eqb trimp "" then
      fold_left (fun (acc : option string) dir =>
                   match acc with
                   | Some _ => acc
                   | None => let want := ("/" ++ path_base dir ++ "/")%string in
                             match str_index_from path want 0 with
                             | Some found => Some (drop (found + String.length want) path)
                             | None => None
                             end
                   end) (split_list searchp) None
    else None in
  match guess with
  | Some r => r
  | None =>
      let prefixes := split_list trimp ++ ["/proc/self/cwd/./"; "/proc/self/cwd/"] in
      match fold_left (fun (acc : option string) tp =>
                         match acc with
                         | Some _ => acc
                         | None => let tp' := if has_suffix "/" tp then tp else (tp ++ "/")%string in
                                   if has_prefix tp' path then Some (drop (String.length tp') path) else None
                         end) prefixes None with
      | Some r => r
      | None => path
      end
  end.

(* applyCommandOverrides (driver.go:178): callgrind forces granularity addresses *)
Definition eff_gran (o : ropts) : string :=
  if String.eqb (o_format o) "callgrind" then "addresses" else o_gran o.
(* Report.newGraph (report.go:281, 288): call trees only for dot and callgrind, object names only
   for callgrind (of the formats modelled) *)
Definition eff_call_tree (o : ropts) : bool :=
  o_call_tree o && (String.eqb (o_format o) "dot" || String.eqb (o_format o) "callgrind").
Definition eff_objnames (o : ropts) : bool := String.eqb (o_format o) "callgrind".

(* ---------------- profile.Aggregate (profile.go:442) via driver.aggregate (driver.go:253) ------- *)
Definition aggregate_raw (inl fn file lineno col addr : bool) (p : profile) : profile :=
  let fs := map (fun f => {| f_id := f_id f;
                             f_name := if fn then f_name f else "";
                             f_sysname := if fn then f_sysname f else "";
                             f_file := if file then f_file f else "";
                             f_startline := f_startline f |}) (p_function p) in
  let fix_line (l : line) :=
    {| ln_fn := ln_fn l;
       ln_line := if lineno then ln_line l else 0;
       ln_col := if lineno && col then ln_col l else 0 |} in
  let ls := map (fun l =>
                   let lines := if negb inl && (1 <? Z.of_nat (List.length (l_lines l)))
                                then match rev (l_lines l) with x :: _ => [x] | [] => [] end
                                else l_lines l in
                   {| l_id := l_id l; l_mapping := l_mapping l;
                      l_addr := if addr then l_addr l else 0;
                      l_lines := map fix_line lines; l_folded := l_folded l |}) (p_location p) in
  {| p_sampletype := p_sampletype p; p_defaultsampletype := p_defaultsampletype p; p_sample := p_sample p;
     p_mapping := p_mapping p; p_location := ls; p_function := fs; p_comments := p_comments p;
     p_docurl := p_docurl p; p_dropframes := p_dropframes p; p_keepframes := p_keepframes p;
     p_timenanos := p_timenanos p; p_durationnanos := p_durationnanos p; p_periodtype := p_periodtype p;
     p_period := p_period p |}.

Definition aggregate (gran : string) (noinlines showcols : bool) (p : profile) : profile :=
  let inl := negb noinlines in
  if String.eqb gran "" then aggregate_raw inl true false false showcols false p
  else if String.eqb gran "addresses" then
    (if inl then p else aggregate_raw inl true true true showcols true p)
  else if String.eqb gran "lines" then aggregate_raw inl true true true showcols false p
  else if String.eqb gran "files" then aggregate_raw inl false true false showcols false p
  else if String.eqb gran "functions" then aggregate_raw inl true false false showcols false p
  else if String.eqb gran "filefunctions" then aggregate_raw inl true true false showcols false p
  else p.

(* ---------------- sampleFormat / SampleIndexByName ---------------- *)
Fixpoint all_digits (s : string) : bool :=
  match s with
  | EmptyString => true
  | String a r => (N.leb 48 (N_of_ascii a) && N.leb (N_of_ascii a) 57)%N && all_digits r
  end.
Fixpoint digits_to_Z (s : string) (acc : Z) : Z :=
  match s with
  | EmptyString => acc
  | String a r => digits_to_Z r (acc * 10 + (Z.of_N (N_of_ascii a) - 48))
  end.
(* strconv.Atoi: optional sign, at least one digit, int64 range *)
Definition atoi (s : string) : option Z :=
  let '(neg, body) := match s with
                      | String "-" r => (true, r)
                      | String "+" r => (false, r)
                      | _ => (false, s)
                      end in
  if String.eqb body "" || negb (all_digits body) then None
  else let v := digits_to_Z body 0 in
       let v := if neg then - v else v in
       if in_i64 v then Some v else None.

Fixpoint index_where {A} (f : A -> bool) (l : list A) (i : Z) : option Z :=
  match l with
  | [] => None
  | x :: r => if f x then Some i else index_where f r (i + 1)
  end.

Inductive sidx := SiOk (i : Z) | SiRange | SiName | SiNoSamples.

Definition sample_index_by_name (p : profile) (si : string) : sidx :=
  let n := Z.of_nat (List.length (p_sampletype p)) in
  if String.eqb si "" then
    match (if String.eqb (p_defaultsampletype p) "" then None
           else index_where (fun t => String.eqb (vt_type t) (p_defaultsampletype p)) (p_sampletype p) 0) with
    | Some i => SiOk i
    | None => SiOk (n - 1)
    end
  else match atoi si with
       | Some i => if (i <? 0) || (n <=? i) then SiRange else SiOk i
       | None =>
           let noinuse := trim_prefix "inuse_" si in
           match index_where (fun t => String.eqb (vt_type t) si || String.eqb (vt_type t) noinuse) (p_sampletype p) 0 with
           | Some i => SiOk i
           | None => SiName
           end
       end.

Definition sample_format (p : profile) (si : string) : sidx :=
  match p_sampletype p with
  | [] => SiNoSamples
  | _ => sample_index_by_name p si
  end.

Definition value_at (ix : Z) (v : list Z) : Z := nth (Z.to_nat ix) v 0.
(* (w, dw) of a sample: SampleValue, SampleMeanDivisor (nil without mean => 0) *)
Definition sample_w (ix : Z) (s : sample) : Z := value_at ix (s_val s).
Definition sample_dw (mean : bool) (s : sample) : Z := if mean then value_at 0 (s_val s) else 0.

(* ---------------- computeTotal (report.go:1302) ---------------- *)
Definition has_label (s : sample) (k v : string) : bool :=
  existsb (fun e => String.eqb (fst e) k && existsb (String.eqb v) (snd e)) (s_label s).
Definition diff_base_sample (s : sample) : bool := has_label s "pprof::base" "true".

Definition compute_total (ix : Z) (mean : bool) (ss : list sample) : Z :=
  let '(div, total, ddiv, dtotal) :=
    fold_left (fun (acc : Z * Z * Z * Z) s =>
                 let '(div, total, ddiv, dtotal) := acc in
                 let v := sample_w ix s in
                 let d := sample_dw mean s in
                 let v := if v <? 0 then wrap_i64 (- v) else v in
                 if diff_base_sample s
                 then (wadd div d, wadd total v, wadd ddiv d, wadd dtotal v)
                 else (wadd div d, wadd total v, ddiv, dtotal))
              ss (0, 0, 0, 0) in
  let '(total, div) := if 0 <? dtotal then (dtotal, ddiv) else (total, div) in
  if div =? 0 then total else div64 total div.

(* ---------------- addLabelNodes (tagroot.go:17) ---------------- *)
(* numeric label values are formatted by measurement.ScaledLabel, which is C15's model; here the
   formatter is a parameter (the runner passes the harness's answer table) *)
Definition assoc_s {A} (k : string) (l : list (string * A)) : option A :=
  match find (fun e => String.eqb (fst e) k) l with Some e => Some (snd e) | None => None end.
Definition or_nil {A} (o : option (list A)) : list A := match o with Some l => l | None => [] end.

Section TagRoot.
  Variable fmt_num : Z -> string -> string.   (* value, unit ("" when the sample has no units for the key) *)

  Definition format_label_values (s : sample) (k : string) : list string :=
    let vals := or_nil (assoc_s k (s_label s)) in
    let nums := or_nil (assoc_s k (s_numlabel s)) in
    let units := or_nil (assoc_s k (s_numunit s)) in
    if negb (Nat.eqb (List.length nums) (List.length units)) && negb (Nat.eqb (List.length units) 0) then vals
    else vals ++ (match units with
                  | [] => map (fun v => fmt_num v "") nums
                  | _ => map (fun vu => fmt_num (fst vu) (snd vu)) (combine nums units)
                  end).

  Fixpoint split_commas (s : string) (cur : string) : list string :=
    match s with
    | EmptyString => [cur]
    | String "," r => cur :: split_commas r ""
    | String a r => split_commas r (cur ++ String a "")%string
    end.
  Definition tag_keys (s : string) : list string :=
    filter (fun x => negb (String.eqb x "")) (split_commas s "").

  (* interning state: next ids and the (name, file) -> location id table *)
  Record lstate := mk_lstate { ls_nextloc : Z; ls_nextfn : Z; ls_tab : list ((string * string) * Z);
                               ls_newlocs : list location; ls_newfns : list function }.

  Definition intern_loc (st : lstate) (name file : string) : lstate * Z :=
    match find (fun e => String.eqb (fst (fst e)) name && String.eqb (snd (fst e)) file) (ls_tab st) with
    | Some e => (st, snd e)
    | None =>
        let f := {| f_id := ls_nextfn st; f_name := name; f_sysname := ""; f_file := file; f_startline := 0 |} in
        let l := {| l_id := ls_nextloc st; l_mapping := 0; l_addr := 0;
                    l_lines := [{| ln_fn := ls_nextfn st; ln_line := 0; ln_col := 0 |}]; l_folded := false |} in
        (mk_lstate (wrap_u64 (ls_nextloc st + 1)) (wrap_u64 (ls_nextfn st + 1))
                   (((name, file), ls_nextloc st) :: ls_tab st) (ls_newlocs st ++ [l]) (ls_newfns st ++ [f]),
         ls_nextloc st)
    end.

  (* makeLabelLocs: keys walked backwards *)
  Definition make_label_locs (st : lstate) (s : sample) (keys : list string) : lstate * list Z :=
    fold_left (fun (acc : lstate * list Z) k =>
                 let '(st, locs) := acc in
                 let '(st', id) := intern_loc st (concat_with "," (format_label_values s k)) k in
                 (st', locs ++ [id]))
              (rev keys) (st, []).

  Definition add_label_nodes (rootkeys leafkeys : list string) (p : profile) : profile :=
    let maxloc := fold_left (fun m l => Z.max m (l_id l)) (p_location p) 0 in
    let maxfn := fold_left (fun m f => Z.max m (f_id f)) (p_function p) 0 in
    let st0 := mk_lstate (wrap_u64 (maxloc + 1)) (wrap_u64 (maxfn + 1)) [] [] [] in
    let '(st, ss) :=
      fold_left (fun (acc : lstate * list sample) s =>
                   let '(st, out) := acc in
                   let '(st1, roots) := make_label_locs st s rootkeys in
                   let '(st2, leaves) := make_label_locs st1 s leafkeys in
                   let s' := {| s_loc := leaves ++ s_loc s ++ roots; s_val := s_val s; s_label := s_label s;
                                s_numlabel := s_numlabel s; s_numunit := s_numunit s |} in
                   (st2, out ++ [s']))
                (p_sample p) (st0, []) in
    {| p_sampletype := p_sampletype p; p_defaultsampletype := p_defaultsampletype p; p_sample := ss;
       p_mapping := p_mapping p; p_location := p_location p ++ ls_newlocs st;
       p_function := p_function p ++ ls_newfns st; p_comments := p_comments p;
       p_docurl := p_docurl p; p_dropframes := p_dropframes p; p_keepframes := p_keepframes p;
       p_timenanos := p_timenanos p; p_durationnanos := p_durationnanos p; p_periodtype := p_periodtype p;
       p_period := p_period p |}.
End TagRoot.

(* ---------------- nodeInfo (graph.go:597) and the frames of a sample ---------------- *)
Definition node_info_of (objnames : bool) (p : profile) (l : location) (ln : line) (objfile : string) : node_info :=
  match (if ln_fn ln =? 0 then None else find_function p (ln_fn ln)) with
  | None => mk_ni "" "" (l_addr l) "" 0 0 0 objfile
  | Some f =>
      (* OrigFnNames is never set by the report package: OrigName stays "" *)
      let keepobj := objnames || String.eqb (f_name f) "" in
      mk_ni (f_name f) "" (l_addr l) (f_file f)
            (if keepobj then f_startline f else 0) (ln_line ln) (ln_col ln)
            (if keepobj then objfile else "")
  end.

Definition loc_objfile (p : profile) (l : location) : string :=
  match (if l_mapping l =? 0 then None else find_mapping p (l_mapping l)) with
  | Some m => m_file m
  | None => ""
  end.

(* CreateNodes (graph.go:560): one node per line, or one for a location without lines *)
Definition loc_infos (objnames : bool) (p : profile) (l : location) : list node_info :=
  let lines := match l_lines l with [] => [{| ln_fn := 0; ln_line := 0; ln_col := 0 |}] | ls => ls end in
  map (fun ln => node_info_of objnames p l ln (loc_objfile p l)) lines.

(* lines walked from the last (outermost caller) to the first; inline = not the last line *)
Definition loc_frames (objnames : bool) (p : profile) (l : location) : list (node_info * bool) :=
  match rev (loc_infos objnames p l) with
  | [] => []
  | x :: r => (x, false) :: map (fun y => (y, true)) r
  end.

Definition sample_frames (objnames : bool) (p : profile) (s : sample) : list (node_info * bool) :=
  flat_map (fun id => match find_location p id with Some l => loc_frames objnames p l | None => [] end)
           (rev (s_loc s)).

Definition gsamples (objnames : bool) (ix : Z) (mean : bool) (p : profile) : list (gsample node_info) :=
  map (fun s => mk_gsample (sample_frames objnames p s) (sample_w ix s) (sample_dw mean s)) (p_sample p).

(* ---------------- node orders (graph.go:952) ---------------- *)
Definition ninfo := (node_info * nval)%type.
Definition compare_nodes (l r : ninfo) : bool := str_ltb (sprint_info (fst l)) (sprint_info (fst r)).

Definition flat_name_less (l r : ninfo) : bool :=
  let fl := abs64 (nv_flat (snd l)) in let fr := abs64 (nv_flat (snd r)) in
  if negb (fl =? fr) then fr <? fl
  else let nl := printable_name (fst l) in let nr := printable_name (fst r) in
       if negb (String.eqb nl nr) then str_ltb nl nr
       else let cl := abs64 (nv_cum (snd l)) in let cr := abs64 (nv_cum (snd r)) in
            if negb (cl =? cr) then cr <? cl else compare_nodes l r.

Definition cum_name_less (l r : ninfo) : bool :=
  let cl := abs64 (nv_cum (snd l)) in let cr := abs64 (nv_cum (snd r)) in
  if negb (cl =? cr) then cr <? cl
  else let nl := printable_name (fst l) in let nr := printable_name (fst r) in
       if negb (String.eqb nl nr) then str_ltb nl nr
       else let fl := abs64 (nv_flat (snd l)) in let fr := abs64 (nv_flat (snd r)) in
            if negb (fl =? fr) then fr <? fl else compare_nodes l r.

Definition igraph := graph node_info.

(* SortNodes for the non-visual modes *)
Definition sort_nodes (cum : bool) (g : igraph) : igraph :=
  mk_graph (sort_by (if cum then cum_name_less else flat_name_less) (g_nodes g)) (g_edges g).

(* edgeList.Less (graph.go:1152) *)
Definition edge_less (a b : edge node_info) : bool :=
  let wa := abs64 (e_w a) in let wb := abs64 (e_w b) in
  if negb (wa =? wb) then wb <? wa
  else let f1 := printable_name (e_src a) in let f2 := printable_name (e_src b) in
       if negb (String.eqb f1 f2) then str_ltb f1 f2
       else str_ltb (printable_name (e_dst a)) (printable_name (e_dst b)).

(* ---------------- the report's graph ---------------- *)
Record prepared := mk_prepared { pr_prof : profile; pr_ix : Z; pr_total : Z }.

(* generateRawReport (driver.go:64): tag roots/leaves, report.New (total), aggregate *)
Definition prepare (fmt_num : Z -> string -> string) (o : ropts) (p : profile) : sidx * prepared :=
  let p1 := if String.eqb (o_tagroot o) "" && String.eqb (o_tagleaf o) "" then p
            else add_label_nodes fmt_num (tag_keys (o_tagroot o)) (tag_keys (o_tagleaf o)) p in
  match sample_format p1 (o_sample_index o) with
  | SiOk ix =>
      (SiOk ix, mk_prepared (aggregate (eff_gran o) (o_noinlines o) (o_showcolumns o) p1) ix
                            (compute_total ix (o_mean o) (p_sample p1)))
  | e => (e, mk_prepared p1 0 0)
  end.

(* the full-graph build of Report.newGraph rewrites the file names of the report's profile in place *)
Definition trim_files (o : ropts) (p : profile) : profile :=
  {| p_sampletype := p_sampletype p; p_defaultsampletype := p_defaultsampletype p; p_sample := p_sample p;
     p_mapping := p_mapping p; p_location := p_location p;
     p_function := map (fun f => {| f_id := f_id f; f_name := f_name f; f_sysname := f_sysname f;
                                    f_file := trim_path (f_file f) (o_trimpath o) (o_srcpath o);
                                    f_startline := f_startline f |}) (p_function p);
     p_comments := p_comments p; p_docurl := p_docurl p; p_dropframes := p_dropframes p;
     p_keepframes := p_keepframes p; p_timenanos := p_timenanos p; p_durationnanos := p_durationnanos p;
     p_periodtype := p_periodtype p; p_period := p_period p |}.
Definition rebuild (o : ropts) (pr : prepared) : prepared :=
  mk_prepared (trim_files o (pr_prof pr)) (pr_ix pr) (pr_total pr).

Definition report_samples (o : ropts) (pr : prepared) : list (gsample node_info) :=
  gsamples (eff_objnames o) (pr_ix pr) (o_mean o) (pr_prof pr).

(* Report.newGraph(kept) for graphs (CallTree off or not honoured) *)
Definition report_graph (o : ropts) (pr : prepared) (kept : option (list node_info)) : igraph :=
  new_graph node_info ni_eqb kept (o_drop_negative o) (report_samples o pr).

Definition report_tree (o : ropts) (pr : prepared) : graph (list node_info) :=
  new_tree node_info ni_eqb (o_drop_negative o) (report_samples o pr).

(* ---------------- newTrimmedGraph (report.go:124), non-visual graph mode ---------------- *)
Record trimmed := mk_trimmed { t_g : igraph; t_orig : Z; t_dropped_nodes : Z; t_dropped_edges : Z }.

Definition nlen (g : igraph) : Z := Z.of_nat (List.length (g_nodes g)).

(* first pass: cum cutoff (graph mode).  The path clean-up of Report.newGraph runs on the full-graph
   build only (nodes == nil; since the F42 repair, /repo 84fd0b7): [pr1] is the report's profile after
   it, and every rebuild from a kept set works on that same profile. *)
Definition trim_pass1 (o : ropts) (pr1 : prepared) : igraph * Z :=
  let g0 := report_graph o pr1 None in
  if 0 <? o_nodecutoff o then
    let kept := above_cum_cutoff node_info (o_nodecutoff o) g0 in
    if negb (nlen g0 =? Z.of_nat (List.length kept))
    then (report_graph o pr1 (Some kept), nlen g0 - Z.of_nat (List.length kept))
    else (g0, 0)
  else (g0, 0).

Definition new_trimmed_text (o : ropts) (pr : prepared) : trimmed :=
  let pr1 := rebuild o pr in
  let '(g1, dropped) := trim_pass1 o pr1 in
  let orig := nlen g1 in
  let g1s := sort_nodes (o_cumsort o) g1 in
  let g2 :=
    if 0 <? o_nodecount o then
      let g1e := trim_edges node_info (o_edgecutoff o) g1s in
      (* SelectTopNodes = makeNodeSet(top, 0): a node whose |cum| wraps negative is left out *)
      let top := firstn (Z.to_nat (o_nodecount o)) (g_nodes g1e) in
      let kept := above_cum_cutoff node_info 0 (mk_graph top []) in
      if negb (nlen g1e =? Z.of_nat (List.length kept))
      then sort_nodes (o_cumsort o) (report_graph o pr1 (Some kept))
      else g1e
    else g1s in
  mk_trimmed (trim_edges node_info (o_edgecutoff o) g2) orig dropped (dropped_edges node_info (o_edgecutoff o) g2).

(* visual mode (dot), graph form: the survivors of the node-count pass and their order are chosen
   by EntropyOrder (float log2), which is not modelled: [order] is the final node list reported by
   the implementation.  A rebuild happens iff that list is shorter than the first-pass graph. *)
Definition reorder (order : list node_info) (g : igraph) : igraph :=
  mk_graph (flat_map (fun k => match find (fun e => ni_eqb (fst e) k) (g_nodes g) with
                               | Some e => [e] | None => [] end) order)
           (g_edges g).

Definition new_trimmed_dot (o : ropts) (pr : prepared) (order : list node_info) : trimmed :=
  let pr1 := rebuild o pr in
  let '(g1, dropped) := trim_pass1 o pr1 in
  let orig := nlen g1 in
  let g1e := if 0 <? o_nodecount o then trim_edges node_info (o_edgecutoff o) g1 else g1 in
  let g2 :=
    if (0 <? o_nodecount o) && negb (nlen g1 =? Z.of_nat (List.length order))
    then report_graph o pr1 (Some order)
    else g1e in
  let g3 := reorder order g2 in
  let de := dropped_edges node_info (o_edgecutoff o) g2 in
  mk_trimmed (remove_redundant_edges node_info ni_eqb edge_less (trim_edges node_info (o_edgecutoff o) g3)) orig dropped de.

(* ---------------- printers' data flow ---------------- *)
(* TextItems (report.go:789): name, inline label, FlatValue, CumValue per node, in node order *)
Definition inline_label (g : igraph) (n : node_info) : string :=
  let ins := in_edges node_info ni_eqb g n in
  let inl := existsb (fun e => e_inl e) ins in
  let noinl := existsb (fun e => negb (e_inl e)) ins in
  if inl then (if noinl then "(partial-inline)" else "(inline)") else "".

Record text_item := mk_item { ti_name : string; ti_inl : string; ti_flat : Z; ti_cum : Z }.
Definition text_items (g : igraph) : list text_item :=
  map (fun e => mk_item (printable_name (fst e)) (inline_label g (fst e)) (flat_value (snd e)) (cum_value (snd e)))
      (g_nodes g).

(* printTraces (report.go:853): per sample with a non-empty stack, value (mean if d <> 0) and the
   frames leaf first; CreateNodes with zero Options (no object names) *)
Definition trace_of (p : profile) (ix : Z) (mean : bool) (s : sample) : option (Z * list (string * bool)) :=
  let stack := flat_map (fun id => match find_location p id with
                                   | Some l => let infos := loc_infos false p l in
                                               let n := List.length infos in
                                               map (fun ie => (printable_name (snd ie), negb (Nat.eqb (fst ie) (n - 1))))
                                                   (combine (seq 0 n) infos)
                                   | None => [] end) (s_loc s) in
  match stack with
  | [] => None
  | _ => let v := sample_w ix s in let d := sample_dw mean s in
         Some (if d =? 0 then v else div64 v d, stack)
  end.
Definition traces (pr : prepared) (mean : bool) : list (Z * list (string * bool)) :=
  flat_map (fun s => match trace_of (pr_prof pr) (pr_ix pr) mean s with Some t => [t] | None => [] end)
           (p_sample (pr_prof pr)).
