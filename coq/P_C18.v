(* C18 -- Graph outputs are syntactically valid for any names.
   Property theorems only: each is closed by [exact] of a lemma and followed by Print Assumptions.
   DOT: [lex]/[parse] (S_Dot) are an independent lexer and recogniser of the DOT language;
   [compose_dot] (M_Dot) is the model of ComposeDot, tied to the code by correspondence.
   callgrind: [decode] (S_Callgrind) is a reference reader; [cg_lines] (M_Callgrind) the model. *)
From PV Require Import M_Dot S_Dot S_DotClass L_Dot L_Dot2 L_Dot3 L_Dot4 M_Callgrind S_Callgrind L_Callgrind L_CallgrindText M_Trim L_Trim.
Open Scope string_scope.
Open Scope Z_scope.

(* ---------------- escaping ---------------- *)
(* for ALL strings s: the escaped text between double quotes is exactly one string token,
   whatever follows *)
Theorem escape_quoted_is_one_token : forall s rest,
  lex_go LInit (quoted (escape_for_dot s) ++ rest) =
  let '(m, t) := lex_go LInit rest in (m, TStr (qview (escape_for_dot s)) :: t).
Proof. exact escape_quoted_one_token. Qed.
Print Assumptions escape_quoted_is_one_token.

(* ... and it reads back as s (quote for quote, two backslashes per backslash, \l per newline) *)
Theorem escape_reads_back_as_input : forall s, escapes_to s (escape_for_dot s) = true.
Proof. exact escape_reads_back. Qed.
Print Assumptions escape_reads_back_as_input.

(* tag names (sample labels joined with a literal backslash-n) *)
Theorem escape_tag_quoted_is_one_token : forall s rest,
  lex_go LInit (quoted (escape_tag_for_dot s) ++ rest) =
  let '(m, t) := lex_go LInit rest in (m, TStr (qview (escape_tag_for_dot s)) :: t).
Proof. exact escape_tag_quoted_one_token. Qed.
Print Assumptions escape_tag_quoted_is_one_token.

(* the rewriting of function names in node labels (:: and . to line breaks, [...] to an
   ellipsis) is applied AFTER escaping and keeps the text a valid quoted body *)
Theorem label_name_rewriting_is_safe : forall short, qsafe (ml_name short) = true.
Proof. exact ml_name_safe. Qed.
Print Assumptions label_name_rewriting_is_safe.

(* abbreviating a name is safe BEFORE escaping (whatever is kept), never after: a cut of an
   escaped text may fall between a backslash and the quote it escapes *)
Theorem abbreviate_then_escape_is_safe : forall s n m mid,
  qsafe (escape_for_dot (take n s ++ mid ++ drop m s)) = true.
Proof. intros. apply escape_safe. Qed.
Print Assumptions abbreviate_then_escape_is_safe.
Theorem escape_then_cut_refuted :
  exists s n, qsafe (escape_for_dot s) = true /\ qsafe (drop n (escape_for_dot s)) = false.
Proof. exists ("a" ++ s_quote ++ "b"), 2%nat. vm_compute. split; reflexivity. Qed.
Print Assumptions escape_then_cut_refuted.

(* builder.formatValue: every formatted value is escaped on its own -- a valid quoted body whatever
   text FormatValue returns for it, independently of what it returns for any other value (the
   total included: a total that displays as a bare 0 says nothing about the unit of the others) *)
Theorem formatted_value_is_safe : forall table v, qsafe (fmt_value table v) = true.
Proof. exact fmt_value_safe. Qed.
Print Assumptions formatted_value_is_safe.

(* ---------------- whole documents ---------------- *)
(* for ALL graphs, titles, legends, tags, names, files, units: with the caller's own attribute
   values and the percentage oracle well-formed, the text ComposeDot writes is a syntactically
   valid DOT document.  (Since the repair of F29 / F30 -- FormatValue results and the file /
   binary name in node labels are escaped -- no hypothesis about profile-derived text is left.) *)
Theorem dot_well_formed : forall g,
  tab_safe (dg_pct g) = true -> forallb attrs_safe (dg_nodes g) = true -> edge_ids_nonneg g = true ->
  dot_syntax_ok (compose_dot g) = true.
Proof.
  intros g Hp Ha Hi. apply compose_dot_valid; [|exact Hi]. unfold holes_safe. now rewrite Hp, Ha.
Qed.
Print Assumptions dot_well_formed.

(* ... whose edges reference only declared nodes, provided every edge of the graph joins two of
   its nodes (what graph.New guarantees since the F21 repair; C05's domain) *)
Theorem dot_edges_declared : forall g,
  tab_safe (dg_pct g) = true -> forallb attrs_safe (dg_nodes g) = true -> edge_ids_nonneg g = true ->
  edges_within_nodes g = true ->
  dot_edges_ok (compose_dot g) = true.
Proof.
  intros g Hp Ha Hi. apply compose_dot_valid; [|exact Hi]. unfold holes_safe. now rewrite Hp, Ha.
Qed.
Print Assumptions dot_edges_declared.

(* the file base name and the bracketed binary name of a node label: any text is a valid body *)
Theorem label_file_and_binary_are_safe : forall i, qsafe (multiline_printable_name i) = true.
Proof. exact multiline_safe. Qed.
Print Assumptions label_file_and_binary_are_safe.

(* ---------------- witnesses ---------------- *)
Definition w_info (file : string) : ninfo :=
  {| ni_name := "f"; ni_short := "f"; ni_addr := 0; ni_file := file; ni_line := 3; ni_col := 0; ni_obj := "" |}.
Definition w_node (file : string) : dnode :=
  {| dn_info := w_info file; dn_flat := 10; dn_cum := 10; dn_attrs := None; dn_tags := []; dn_rootnum := None; dn_hasout := false |}.
Definition w_graph (file unit : string) (edges : list dedge) : dgraph :=
  {| dg_title := "t"; dg_url := ""; dg_labels := []; dg_total := 10;
     dg_fv := [(10, "10" ++ unit)]; dg_pct := [(10, "100%")]; dg_nodes := [w_node file]; dg_edges := edges |}.

(* the former witnesses of F29 (a sample unit holding a double quote in every formatted value) and
   F30 (a file name with double quotes in the node label) are well-formed now *)
Example former_F29_witness_is_well_formed :
  dot_valid (compose_dot (w_graph "main.go" ("a" ++ s_quote ++ "b") [])) = true.
Proof. vm_compute. reflexivity. Qed.
Example former_F30_witness_is_well_formed :
  dot_valid (compose_dot (w_graph ("di" ++ s_quote ++ "r/fi" ++ s_quote ++ "le.go") "ms" [])) = true.
Proof. vm_compute. reflexivity. Qed.

(* an edge to a node that is not in the graph (the shape of the repaired F21) is written as N0 *)
Theorem dot_dangling_edge_refuted :
  let g := w_graph "main.go" "ms"
             [{| de_from := 1; de_to := 0; de_src := w_info "main.go"; de_dst := w_info "x.go"; de_w := 10;
                 de_inline := false; de_residual := false |}] in
  holes_safe g = true /\ edges_within_nodes g = false /\
  dot_syntax_ok (compose_dot g) = true /\ dot_edges_ok (compose_dot g) = false.
Proof. vm_compute. repeat split; reflexivity. Qed.
Print Assumptions dot_dangling_edge_refuted.

(* ---------------- callgrind ---------------- *)
(* for ALL graphs (any names, any 64-bit addresses): the lines printCallgrind writes are read by
   the reference reader without an undefined or redefined "(n)", every name reference resolves
   to the intended object / file / function name, every cost line decodes to the node's address
   and line, and every calls= line to the callee's -- outside the class F11 (callee address
   written relative to a stale base) *)
Theorem callgrind_reads_back : forall sample_type unit ns,
  nodes_addr_ok ns -> in_F11 ns = false ->
  decode (cg_lines sample_type unit ns) = Some (expected_events ns).
Proof. exact callgrind_decodes. Qed.
Print Assumptions callgrind_reads_back.

(* the subposition compression itself is right: relative to p, the written form of c reads c *)
Theorem callgrind_address_decodes : forall p c,
  0 <= p < two64 -> 0 <= c < two64 -> dpos p (cg_addr (Some p) c) = c.
Proof. exact cg_addr_decodes. Qed.
Print Assumptions callgrind_address_decodes.

(* "*" (same subposition) is written only when the address IS that of the previous line -- in
   particular never for a node without an address (0) after a node that has one *)
Theorem callgrind_same_only_when_equal : forall p c, cg_addr p c = PSame -> p = Some c.
Proof. exact cg_addr_same. Qed.
Print Assumptions callgrind_same_only_when_equal.

(* name compression: the reader's table follows the writer's; a name written a second time is a
   bare reference to the id it was defined with *)
Theorem callgrind_name_defined_before_use : forall (f : string -> string) names t name,
  f "" = "" -> trel f names t ->
  exists t', resolve t (map_ref f (fst (cg_name names name))) = Some (f name, t') /\ trel f (snd (cg_name names name)) t'.
Proof. intros f names t name Hf. exact (cg_name_resolve f Hf names t name). Qed.
Print Assumptions callgrind_name_defined_before_use.

(* ids are dense: a definition gets id = (number of names defined so far in that table) + 1, for a
   name that was not in the table *)
Theorem callgrind_ids_dense : forall tbl0 name k n,
  fst (cg_name tbl0 name) = NDef k n ->
  k = Z.of_nat (List.length tbl0) + 1 /\ n = name /\ snd (cg_name tbl0 name) = (tbl0 ++ [name])%list /\
  index_of name tbl0 1 = None.
Proof. exact cg_name_def_dense. Qed.
Print Assumptions callgrind_ids_dense.

(* the TEXT: for ALL graphs whose names can be written on a line (no newline, not blank: outside
   F20) and outside F11, parsing the text the model writes and reading it gives back the graph
   (names up to the leading blanks a reader skips) *)
Theorem callgrind_text_reads_back : forall sample_type unit ns,
  names_ok sample_type unit ns = true -> nodes_addr_ok ns -> in_F11 ns = false ->
  callgrind_ok ns (print_callgrind sample_type unit ns) = true.
Proof. exact callgrind_text_reads_back_lemma. Qed.
Print Assumptions callgrind_text_reads_back.

(* F11 (ASSUMPTION: positions are relative to the last cost line): previous node at 0x1000 ...
   0x3000, caller at 0x3010, callee at 0x3000: the callee position is written against the
   previous node and reads back as the caller's own address *)
Definition w_cg : list cgnode :=
  [ {| cn_obj := "/bin/prog"; cn_file := "other.go"; cn_name := "other"; cn_addr := 4096; cn_line := 9; cn_cost := 40; cn_out := [] |};
    {| cn_obj := "/bin/prog"; cn_file := "callee.go"; cn_name := "callee"; cn_addr := 12288; cn_line := 3; cn_cost := 10; cn_out := [] |};
    {| cn_obj := "/bin/prog"; cn_file := "main.go"; cn_name := "main"; cn_addr := 12304; cn_line := 7; cn_cost := 5;
       cn_out := [ {| ce_file := "callee.go"; ce_name := "callee"; ce_addr := 12288; ce_line := 3; ce_cost := 10 |} ] |} ].
Theorem callgrind_callee_position_refuted :
  in_F11 w_cg = true /\
  exists evs, decode (cg_lines "cpu" "ms" w_cg) = Some evs /\ evs_eqb evs (expected_events w_cg) = false /\
              In (EvCall "/bin/prog" "main.go" "main" "callee.go" "callee" 12304 3 12304 7 10) evs.
Proof. split; [vm_compute; reflexivity|]. eexists. split; [vm_compute; reflexivity|]. split; [vm_compute; reflexivity|]. vm_compute. auto 10. Qed.
Print Assumptions callgrind_callee_position_refuted.

(* F20: the structured lines are right, but a name with a newline does not survive as text *)
Definition w_cg_nl : list cgnode :=
  [ {| cn_obj := ""; cn_file := "a.go"; cn_name := "a" ++ s_nl ++ "fn=(7)"; cn_addr := 0; cn_line := 0; cn_cost := 1; cn_out := [] |} ].
Theorem callgrind_newline_name_refuted :
  names_ok "cpu" "ms" w_cg_nl = false /\ in_F11 w_cg_nl = false /\
  decode (cg_lines "cpu" "ms" w_cg_nl) = Some (expected_events w_cg_nl) /\
  callgrind_ok w_cg_nl (print_callgrind "cpu" "ms" w_cg_nl) = false.
Proof. vm_compute. repeat split; reflexivity. Qed.
Print Assumptions callgrind_newline_name_refuted.

(* ---------------- the trimming step that feeds ComposeDot (call trees) ---------------- *)
(* TrimTree on a forest (parents strictly closer to the root, every node of the forest LISTED in
   g.Nodes when it runs): every edge that is left joins two kept nodes, so [edges_within_nodes]
   holds for what ComposeDot is given *)
Theorem trim_tree_closed : forall rank kept listed pm,
  wf rank pm -> (forall x, In x (dom pm) -> In x listed) ->
  forall c p, In (c, p) (trim_tree kept listed pm) -> p <> 0 -> In c kept /\ In p kept.
Proof. exact trim_tree_closed_lemma. Qed.
Print Assumptions trim_tree_closed.

(* the two passes of newTrimmedGraph (nodefraction cut-off, then nodecount): the second pass finds
   every node of the forest listed because the first one unlinked what it dropped *)
Theorem trim_twice_closed : forall rank k1 k2 listed pm,
  wf rank pm -> (forall x, In x (dom pm) -> In x listed) ->
  forall c p, In (c, p) (trim_tree k2 (trim_nodes k1 listed) (trim_tree k1 listed pm)) -> p <> 0 -> In c k2 /\ In p k2.
Proof. exact trim_twice_closed_lemma. Qed.
Print Assumptions trim_twice_closed.

(* the hypothesis cannot be dropped: nodes that were only taken off the list (not unlinked) keep
   their parents' edges -- ComposeDot then prints an edge to an undeclared node *)
Definition w_tree : pmap := [(1, 0); (2, 1); (3, 2); (4, 2); (5, 2); (6, 1); (7, 6); (8, 6); (9, 1)].
Theorem trim_unlisted_refuted :
  let listed := [1; 2; 3; 4; 6; 7; 9] in let kept := [1; 2; 3; 6] in
  edges_closed (trim_nodes kept listed) (trim_tree kept listed w_tree) = false /\
  edges_closed (trim_nodes kept [1; 2; 3; 4; 5; 6; 7; 8; 9]) (trim_tree kept [1; 2; 3; 4; 5; 6; 7; 8; 9] w_tree) = true.
Proof. vm_compute. split; reflexivity. Qed.
Print Assumptions trim_unlisted_refuted.

(* ---------------- non-vacuity ---------------- *)
Example hypotheses_satisfiable :
  let g := w_graph "main.go" "ms"
             [{| de_from := 1; de_to := 1; de_src := w_info "main.go"; de_dst := w_info "main.go"; de_w := 10;
                 de_inline := true; de_residual := true |}] in
  tab_safe (dg_pct g) = true /\ forallb attrs_safe (dg_nodes g) = true /\
  edge_ids_nonneg g = true /\ edges_within_nodes g = true /\ dot_valid (compose_dot g) = true.
Proof. vm_compute. repeat split; reflexivity. Qed.
Definition w_cg_ok : list cgnode :=
  [ {| cn_obj := "/bin/prog"; cn_file := "main.go"; cn_name := "main"; cn_addr := 0; cn_line := 7; cn_cost := 5;
       cn_out := [ {| ce_file := "callee.go"; ce_name := "callee"; ce_addr := 0; ce_line := 3; ce_cost := 10 |} ] |};
    {| cn_obj := "/bin/prog"; cn_file := "callee.go"; cn_name := "callee"; cn_addr := 0; cn_line := 3; cn_cost := 10;
       cn_out := [ {| ce_file := "callee.go"; ce_name := "callee"; ce_addr := 0; ce_line := 3; ce_cost := 2 |} ] |} ].
Example callgrind_hypotheses_satisfiable :
  let ns := w_cg_ok in
  in_F11 ns = false /\ names_ok "cpu" "ms" ns = true /\ callgrind_ok ns (print_callgrind "cpu" "ms" ns) = true.
Proof. vm_compute. repeat split; reflexivity. Qed.
Example trim_hypotheses_satisfiable : wf (fun x => x) w_tree.
Proof.
  intros c p H. simpl in H.
  repeat (destruct H as [H|H];
          [inversion H; subst; split; [discriminate|]; intro Hp;
           first [exfalso; apply Hp; reflexivity | split; [simpl; auto 12 | reflexivity]]|]).
  destruct H.
Qed.
(* a total that displays as 0 (no unit) while the node values carry a hostile unit: -mean *)
Example zero_total_hostile_unit_is_well_formed :
  let u := "ti" ++ s_quote ++ "cks" in
  let g := w_graph "main.go" u [] in
  dot_valid (compose_dot {| dg_title := dg_title g; dg_url := ""; dg_labels := []; dg_total := 0;
                            dg_fv := [(0, "0"); (10, "10" ++ u)]; dg_pct := [(10, "0%")];
                            dg_nodes := dg_nodes g; dg_edges := [] |}) = true.
Proof. vm_compute. reflexivity. Qed.
