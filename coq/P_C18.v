(* C18 -- Graph outputs are syntactically valid for any names (property theorems). *)
From PV Require Import M_Dot S_Dot S_DotClass.
Open Scope string_scope.

Theorem placeholder_example : dot_valid ("digraph " ++ quoted (escape_for_dot "a""b\") ++ " { }") = true.
Proof. vm_compute. reflexivity. Qed.
Print Assumptions placeholder_example.
