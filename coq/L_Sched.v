(* Serializability of mutex-guarded read-modify-write (M_Sched). *)
From Coq Require Import Lia.
From PV Require Import M_Sched.

Lemma NoDup_app_snoc : forall (l : list nat) x, NoDup l -> ~ In x l -> NoDup (l ++ [x]).
Proof.
  induction l as [|a l IH]; intros x ND N.
  - simpl. constructor; [intros []|constructor].
  - inversion ND as [|a' l' Na NDl]; subst. simpl. constructor.
    + intro X. apply in_app_or in X. destruct X as [X|[X|[]]]; [contradiction|]. subst a. apply N. left. reflexivity.
    + apply IH; [exact NDl|]. intro X. apply N. right. exact X.
Qed.

Section Proofs.
  Variable F : Type.
  Variable edit : nat -> F -> option F.
  Variable f0 : F.

  Notation st := (st F).
  Notation seqf := (sequential F edit).

  Definition idle (s : st) (i : nat) : Prop := pc F s i = 0 \/ pc F s i = 4.

  (* invariant of every reachable state of the locked program *)
  Definition inv (s : st) (order : list nat) : Prop :=
    NoDup order /\
    (forall i, In i order <-> pc F s i <> 0) /\
    match holder F s with
    | None => (forall i, idle s i) /\ file F s = seqf order f0
    | Some h =>
        exists prev, order = prev ++ [h] /\
          (forall i, i <> h -> idle s i) /\
          ((pc F s h = 1 /\ file F s = seqf prev f0) \/
           (pc F s h = 2 /\ file F s = seqf prev f0 /\ loc F s h = Some (seqf prev f0)) \/
           (pc F s h = 3 /\ file F s = seqf order f0))
    end.

  Lemma set_at_same : forall A (g : nat -> A) i v, set_at g i v i = v.
  Proof. intros A g i v. unfold set_at. rewrite Nat.eqb_refl. reflexivity. Qed.
  Lemma set_at_other : forall A (g : nat -> A) i v j, j <> i -> set_at g i v j = g j.
  Proof. intros A g i v j N. unfold set_at. destruct (Nat.eqb_spec j i) as [E|E]; [contradiction|reflexivity]. Qed.

  Lemma seqf_snoc : forall order i f, seqf (order ++ [i]) f = apply_edit F edit i (seqf order f).
  Proof. intros order i f. unfold sequential. rewrite fold_left_app. reflexivity. Qed.

  Lemma inv_init : inv (init F f0) [].
  Proof.
    unfold inv, init. cbn. split; [constructor|]. split.
    - intro i. split; [intros []|intro H; contradiction H; reflexivity].
    - split; [intro i; left; reflexivity|reflexivity].
  Qed.

  Lemma inv_step : forall s order i s',
    inv s order -> step_thread F edit true s i = Some s' ->
    inv s' (if Nat.eqb (pc F s i) 0 then order ++ [i] else order).
  Proof.
    intros s order i s' [ND [Hin Hh]] St. unfold step_thread in St.
    destruct (pc F s i) as [|[|[|[|k]]]] eqn:P; cbn [Nat.eqb].
    - (* Lock *)
      destruct (holder F s) as [h|] eqn:H; [discriminate|]. inversion St; subst s'; clear St.
      destruct Hh as [Idle Hf]. unfold inv. cbn [holder pc file loc].
      split.
      { apply NoDup_app_snoc. - exact ND. - intro X. apply Hin in X. congruence. }
      split.
      { intro j. rewrite in_app_iff. cbn [In]. destruct (Nat.eq_dec j i) as [E|E].
        - subst j. rewrite set_at_same. split; [intros _; discriminate|intros _; right; left; reflexivity].
        - rewrite set_at_other by exact E. rewrite Hin. split; [intros [X|[X|[]]]; [exact X|congruence]|intro X; left; exact X]. }
      exists order. split; [reflexivity|]. split.
      { intros j Nj. unfold idle. cbn [pc]. rewrite set_at_other by exact Nj. apply Idle. }
      left. split; [apply set_at_same|exact Hf].
    - (* read *)
      inversion St; subst s'; clear St. unfold inv. cbn [holder pc file loc].
      assert (Hi : holder F s = Some i).
      { destruct (holder F s) as [h|] eqn:H.
        - destruct Hh as [prev [E [Idle _]]]. destruct (Nat.eq_dec i h) as [X|X]; [subst; reflexivity|].
          destruct (Idle i X) as [Y|Y]; congruence.
        - destruct Hh as [Idle _]. destruct (Idle i) as [Y|Y]; congruence. }
      rewrite Hi in *. destruct Hh as [prev [E [Idle Cases]]].
      split; [exact ND|]. split.
      { intro j. destruct (Nat.eq_dec j i) as [X|X].
        - subst j. rewrite set_at_same. rewrite Hin. rewrite P. split; intros _; discriminate.
        - rewrite set_at_other by exact X. apply Hin. }
      exists prev. split; [exact E|]. split.
      { intros j Nj. unfold idle. cbn [pc]. rewrite set_at_other by exact Nj. apply Idle. exact Nj. }
      right. left. rewrite !set_at_same.
      destruct Cases as [[_ Hf]|[[X _]|[X _]]]; try congruence.
      split; [reflexivity|]. split; [exact Hf|rewrite Hf; reflexivity].
    - (* write *)
      inversion St; subst s'; clear St. unfold inv. cbn [holder pc file loc].
      assert (Hi : holder F s = Some i).
      { destruct (holder F s) as [h|] eqn:H.
        - destruct Hh as [prev [E [Idle _]]]. destruct (Nat.eq_dec i h) as [X|X]; [subst; reflexivity|].
          destruct (Idle i X) as [Y|Y]; congruence.
        - destruct Hh as [Idle _]. destruct (Idle i) as [Y|Y]; congruence. }
      rewrite Hi in *. destruct Hh as [prev [E [Idle Cases]]].
      split; [exact ND|]. split.
      { intro j. destruct (Nat.eq_dec j i) as [X|X].
        - subst j. rewrite set_at_same. rewrite Hin. rewrite P. split; intros _; discriminate.
        - rewrite set_at_other by exact X. apply Hin. }
      exists prev. split; [exact E|]. split.
      { intros j Nj. unfold idle. cbn [pc]. rewrite set_at_other by exact Nj. apply Idle. exact Nj. }
      right. right. rewrite set_at_same.
      destruct Cases as [[X _]|[[_ [Hf Hl]]|[X _]]]; try congruence.
      split; [reflexivity|]. rewrite Hl. rewrite E, seqf_snoc. unfold apply_edit.
      destruct (edit i (seqf prev f0)); [reflexivity|exact Hf].
    - (* Unlock *)
      inversion St; subst s'; clear St. unfold inv. cbn [holder pc file loc].
      assert (Hi : holder F s = Some i).
      { destruct (holder F s) as [h|] eqn:H.
        - destruct Hh as [prev [E [Idle _]]]. destruct (Nat.eq_dec i h) as [X|X]; [subst; reflexivity|].
          destruct (Idle i X) as [Y|Y]; congruence.
        - destruct Hh as [Idle _]. destruct (Idle i) as [Y|Y]; congruence. }
      rewrite Hi in *. destruct Hh as [prev [E [Idle Cases]]].
      split; [exact ND|]. split.
      { intro j. destruct (Nat.eq_dec j i) as [X|X].
        - subst j. rewrite set_at_same. rewrite Hin. rewrite P. split; intros _; discriminate.
        - rewrite set_at_other by exact X. apply Hin. }
      split.
      { intro j. unfold idle. cbn [pc]. destruct (Nat.eq_dec j i) as [X|X].
        - subst j. rewrite set_at_same. right. reflexivity.
        - rewrite set_at_other by exact X. apply Idle. exact X. }
      destruct Cases as [[X _]|[[X _]|[_ Hf]]]; congruence.
    - discriminate.
  Qed.

  Lemma inv_exec : forall sched s order s' order',
    inv s order -> exec F edit true sched s order = Some (s', order') -> inv s' order'.
  Proof.
    induction sched as [|i r IH]; intros s order s' order' I E.
    - simpl in E. inversion E; subst. exact I.
    - cbn [exec] in E. destruct (step_thread F edit true s i) as [s1|] eqn:St; [|discriminate].
      apply (IH _ _ _ _ (inv_step _ _ _ _ I St) E).
  Qed.

  (* MAIN: with the mutex, whenever no request is in flight the file is what the started
     requests give when performed one after another, in the order they acquired the mutex; the
     order lists exactly the requests that ran, each once *)
  Lemma edits_serializable_lemma : forall sched s order,
    exec F edit true sched (init F f0) [] = Some (s, order) ->
    holder F s = None ->
    file F s = seqf order f0 /\ NoDup order /\ (forall i, In i order <-> pc F s i = 4).
  Proof.
    intros sched s order E H. pose proof (inv_exec _ _ _ _ _ inv_init E) as [ND [Hin Hh]].
    rewrite H in Hh. destruct Hh as [Idle Hf]. split; [exact Hf|]. split; [exact ND|].
    intro i. rewrite Hin. destruct (Idle i) as [X|X]; rewrite X; split; intro Y; try congruence; try discriminate.
  Qed.

  (* a finished request implies the mutex was released by it; if every scheduled request
     finished, nobody holds the mutex *)
  Lemma all_finished_unlocked : forall sched s order,
    exec F edit true sched (init F f0) [] = Some (s, order) ->
    (forall i, In i sched -> pc F s i = 4) -> holder F s = None.
  Proof.
    intros sched s order E Fin. pose proof (inv_exec _ _ _ _ _ inv_init E) as [ND [Hin Hh]].
    destruct (holder F s) as [h|] eqn:H; [|reflexivity].
    destruct Hh as [prev [Eo [Idle Cases]]].
    assert (Hh : In h order) by (rewrite Eo; apply in_or_app; right; left; reflexivity).
    (* h took a step, so it occurs in sched *)
    assert (Occ : forall sched0 s0 o0 s1 o1, exec F edit true sched0 s0 o0 = Some (s1, o1) ->
                  forall j, In j o1 -> In j o0 \/ In j sched0).
    { induction sched0 as [|i r IH]; intros s0 o0 s1 o1 E0 j Hj.
      - simpl in E0. inversion E0; subst. left. exact Hj.
      - cbn [exec] in E0. destruct (step_thread F edit true s0 i) as [s2|]; [|discriminate].
        destruct (IH _ _ _ _ E0 j Hj) as [X|X].
        + destruct (Nat.eqb (pc F s0 i) 0); [|left; exact X].
          apply in_app_or in X. destruct X as [X|[X|[]]]; [left; exact X|right; left; exact X].
        + right. right. exact X. }
    destruct (Occ _ _ _ _ _ E h Hh) as [[]|X].
    pose proof (Fin h X) as P4. destruct Cases as [[P _]|[[P _]|[P _]]]; congruence.
  Qed.
End Proofs.

(* without the mutex the same program loses updates: r1 r2 w1 w2 *)
Definition add_edit (i : nat) (f : list nat) : option (list nat) := Some (f ++ [i]).

Lemma unlocked_lost_update_lemma :
  exists sched s order,
    exec (list nat) add_edit false sched (init (list nat) []) [] = Some (s, order) /\
    (forall i, In i sched -> pc _ s i = 4) /\
    forall perm, In perm [[1; 2]; [2; 1]] -> file _ s <> sequential (list nat) add_edit perm [].
Proof.
  exists [1; 2; 1; 2; 1; 2; 1; 2].
  eexists. eexists. split; [vm_compute; reflexivity|]. split.
  - intros i Hi. cbn in Hi. destruct Hi as [E|[E|[E|[E|[E|[E|[E|[E|[]]]]]]]]]; subst i; reflexivity.
  - intros perm [E|[E|[]]]; subst perm; vm_compute; discriminate.
Qed.
