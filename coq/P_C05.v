(* C05 -- Trimming hides entries but never changes the numbers of those shown.
   Property theorems only ([exact] of lemmas of L_Graph / L_Report + Print Assumptions).
   [build_graph K keqb kept ss] is the model of newGraph with KeptNodes = kept (None: untrimmed),
   [new_graph] the graph that is reported; EVERY kept set is covered, hence also the heuristic
   survivor choice of graphical reports. *)
From PV Require Import M_Graph S_Graph M_Report L_Graph L_Report L_Cutoff L_Dropped.
Open Scope Z_scope.

Definition key_eq (K : Type) (keqb : K -> K -> bool) : Prop := forall a b, keqb a b = true <-> a = b.

(* an entry that is kept has the flat, cum (and mean divisors) it has in the untrimmed graph *)
Theorem kept_nodes_unchanged : forall K keqb, key_eq K keqb -> forall kept ss n,
  keptb K keqb kept n = true ->
  nget K keqb n (g_nodes (build_graph K keqb kept ss)) = nget K keqb n (g_nodes (build_graph K keqb None ss)).
Proof. exact kept_nodes_unchanged_lemma. Qed.
Print Assumptions kept_nodes_unchanged.

(* every entry of a trimmed graph is an entry of the untrimmed graph with the same numbers *)
Theorem trimmed_nodes_in_untrimmed : forall K keqb, key_eq K keqb -> forall kept dn ss n v,
  In (n, v) (g_nodes (new_graph K keqb kept dn ss)) -> In (n, v) (g_nodes (new_graph K keqb None dn ss)).
Proof. exact kept_nodes_unchanged_graph_lemma. Qed.
Print Assumptions trimmed_nodes_in_untrimmed.

(* an edge between kept entries that is not marked residual has exactly its untrimmed weight *)
Theorem nonresidual_edge_unchanged : forall K keqb, key_eq K keqb -> forall kept ss a b,
  keptb K keqb kept a = true -> keptb K keqb kept b = true ->
  eres K keqb a b (g_edges (build_graph K keqb kept ss)) = false ->
  ew K keqb a b (g_edges (build_graph K keqb kept ss)) = ew K keqb a b (g_edges (build_graph K keqb None ss)).
Proof. exact nonresidual_edge_unchanged_lemma. Qed.
Print Assumptions nonresidual_edge_unchanged.

(* an edge that exists in some counted sample only because removed entries were skipped is residual *)
Theorem residual_when_bypass : forall K keqb, key_eq K keqb -> forall kept ss a b s,
  In s ss -> counted K s = true -> keqb a b = false -> bypasses K keqb kept s a b = true ->
  eres K keqb a b (g_edges (build_graph K keqb kept ss)) = true.
Proof. exact residual_when_bypass_lemma. Qed.
Print Assumptions residual_when_bypass.

(* every edge of a trimmed graph carries the definition sum over the kept sequences *)
Theorem trimmed_edges_eq_spec : forall K keqb, key_eq K keqb -> forall kept dn ss e,
  In e (g_edges (new_graph K keqb kept dn ss)) ->
  e_w e = wrap_i64 (edge_spec K keqb false kept ss (e_src e) (e_dst e)) /\
  e_wdiv e = wrap_i64 (edge_spec K keqb true kept ss (e_src e) (e_dst e)).
Proof. exact graph_edges_eq_spec_lemma. Qed.
Print Assumptions trimmed_edges_eq_spec.

(* no edge refers to a removed entry: both ends are kept and are shown *)
Theorem no_edge_to_removed : forall K keqb, key_eq K keqb -> forall kept dn ss e,
  In e (g_edges (new_graph K keqb kept dn ss)) ->
  keptb K keqb kept (e_src e) = true /\ keptb K keqb kept (e_dst e) = true /\
  (exists v, In (e_src e, v) (g_nodes (new_graph K keqb kept dn ss))) /\
  (exists v, In (e_dst e, v) (g_nodes (new_graph K keqb kept dn ss))).
Proof. exact no_edge_to_removed_lemma. Qed.
Print Assumptions no_edge_to_removed.

(* the whole text pipeline (cum cutoff, sort, top N, rebuilds, edge cutoff): whatever is shown is an
   entry of the untrimmed report with the same numbers *)
Theorem text_report_nodes_unchanged : forall o pr n v,
  In (n, v) (g_nodes (t_g (new_trimmed_text o pr))) -> In (n, v) (g_nodes (report_graph o (rebuild o pr) None)).
Proof. exact text_report_nodes_unchanged_lemma. Qed.
Print Assumptions text_report_nodes_unchanged.

(* the header's "accounting for" figure is the sum of the flat values shown *)
Theorem accounting_for_is_sum_flat : forall g : igraph,
  graph_total g = fold_left (fun a it => wadd a (ti_flat it)) (text_items g) 0.
Proof. exact graph_total_is_sum_flat. Qed.
Print Assumptions accounting_for_is_sum_flat.

(* "removed are exactly those below the cutoff", the half that needs no uniqueness of the order:
   NOTHING BELOW THE CUM CUTOFF IS EVER SHOWN by the text pipeline, whatever node count, edge cutoff,
   sort order and rebuilds are in play (the kept set of the node-count rebuild is drawn from the
   first-pass graph, whose entries carry their untrimmed numbers) *)
Theorem shown_not_below_cutoff : forall o pr n v, 0 < o_nodecutoff o ->
  In (n, v) (g_nodes (t_g (new_trimmed_text o pr))) ->
  (abs64 (nv_cum v) <? o_nodecutoff o) = false.
Proof. exact shown_not_below_cutoff_lemma. Qed.
Print Assumptions shown_not_below_cutoff.

(* and the converse when no node count is asked for (nodecount 0, e.g. -nodecount=0 or callgrind):
   every entry of the untrimmed graph that is not below the cutoff IS shown, with its numbers; with
   [text_report_nodes_unchanged] and [shown_not_below_cutoff] the shown SET is then exactly the set
   of untrimmed entries at or above the cutoff ("removed exactly those below the cutoff") *)
Theorem above_cutoff_is_shown : forall o pr n v, o_nodecount o = 0 ->
  In (n, v) (g_nodes (report_graph o (rebuild o pr) None)) ->
  (abs64 (nv_cum v) <? o_nodecutoff o) = false ->
  In (n, v) (g_nodes (t_g (new_trimmed_text o pr))).
Proof. exact above_cutoff_is_shown_lemma. Qed.
Print Assumptions above_cutoff_is_shown.

(* the edge cutoff of the text pipeline: no shown edge weighs less than the cutoff *)
Theorem shown_edge_not_below_cutoff : forall o pr e,
  In e (g_edges (t_g (new_trimmed_text o pr))) -> (abs64 (e_w e) <? o_edgecutoff o) = false.
Proof. exact shown_edge_not_below_cutoff_lemma. Qed.
Print Assumptions shown_edge_not_below_cutoff.

(* the header's "Dropped N nodes (cum <= X)": the entries the cutoff pass leaves ("orig", the
   figure "Showing top k nodes out of ..." counts from) plus the entries it reports as dropped are
   the entries of the untrimmed graph -- nothing is dropped uncounted, nothing is counted twice *)
Theorem dropped_nodes_add_up : forall o pr,
  t_orig (new_trimmed_text o pr) + t_dropped_nodes (new_trimmed_text o pr) =
  nlen (report_graph o (rebuild o pr) None).
Proof. exact dropped_nodes_add_up_lemma. Qed.
Print Assumptions dropped_nodes_add_up.

(* "the entries removed are exactly those below the cutoff or outside the top N": full statement.
   Proved above: what is shown is unchanged ([text_report_nodes_unchanged]); the exact identity of
   the shown list is evaluated by the specification checker on every generated case
   (R_C05.expected_shown, computed from the definition sums), not proved: it needs uniqueness of the
   sorted order (C08). *)
Definition text_expected (o : ropts) (pr : prepared) : list (node_info * nval) :=
  let g0 := report_graph o (rebuild o pr) None in
  let cut := if 0 <? o_nodecutoff o
             then filter (fun e => negb (abs64 (nv_cum (snd e)) <? o_nodecutoff o)) (g_nodes g0) else g_nodes g0 in
  let sorted := sort_by (if o_cumsort o then cum_name_less else flat_name_less) cut in
  if 0 <? o_nodecount o
  then (let top := filter (fun e => negb (abs64 (nv_cum (snd e)) <? 0)) (firstn (Z.to_nat (o_nodecount o)) sorted) in
        if Nat.eqb (List.length top) (List.length sorted) then sorted else top)
  else sorted.
Definition full_statement_text_removed_exactly : Prop :=
  forall o pr, g_nodes (t_g (new_trimmed_text o pr)) = text_expected o pr.

(* non-vacuity: removing the middle of a chain r -> m -> l keeps r and l unchanged, joins them by a
   residual edge of the full weight, and the direct edge r -> l of another sample is summed in *)
Example middle_removed :
  let ss := [mk_gsample [(1, false); (2, false); (3, false)] 5 0; mk_gsample [(1, false); (3, false)] 2 0] in
  let gt := new_graph Z Z.eqb (Some [1; 3]) false ss in
  let gu := new_graph Z Z.eqb None false ss in
  nget Z Z.eqb 1 (g_nodes gt) = nget Z Z.eqb 1 (g_nodes gu) /\
  nget Z Z.eqb 3 (g_nodes gt) = nget Z Z.eqb 3 (g_nodes gu) /\
  ew Z Z.eqb 1 3 (g_edges gt) = (7, 0) /\ eres Z Z.eqb 1 3 (g_edges gt) = true /\
  ew Z Z.eqb 1 3 (g_edges gu) = (2, 0) /\ List.length (g_nodes gt) = 2%nat.
Proof. vm_compute. repeat split; reflexivity. Qed.

(* a report asked for without any limit (nodecount 0, node cutoff 0 -- by the options or by
   trim=false) shows every node of the untrimmed graph, in the active order *)
Theorem untrimmed_request_shows_all : forall o pr,
  o_nodecount o = 0 -> o_nodecutoff o = 0 ->
  g_nodes (t_g (new_trimmed_text o pr)) =
  sort_by (if o_cumsort o then cum_name_less else flat_name_less) (g_nodes (report_graph o (rebuild o pr) None)).
Proof. exact untrimmed_request_lemma. Qed.
Print Assumptions untrimmed_request_shows_all.

(* ---- F42 (repaired in /repo 84fd0b7): the path clean-up of Report.newGraph used to run again on
   every rebuild and is not idempotent when the base name of a source_path directory occurs twice
   in a file name (/build/proj/w/proj/d/d.go with source_path=/home/me/proj: "w/proj/d/d.go", then
   "d/d.go"), so the kept set of the first build no longer matched and an entry far above the cutoff
   disappeared.  It now runs on the full-graph build only; the old witness is kept as a regression
   example on which the "removed exactly" clause holds again (also an always-generated case). *)
Definition f42_profile : profile :=
  {| p_sampletype := [{| vt_type := "cpu"; vt_unit := "count" |}]; p_defaultsampletype := "";
     p_sample := [ {| s_loc := [2; 1]; s_val := [70]; s_label := []; s_numlabel := []; s_numunit := [] |};
                   {| s_loc := [3; 1]; s_val := [1]; s_label := []; s_numlabel := []; s_numunit := [] |};
                   {| s_loc := [1]; s_val := [50]; s_label := []; s_numlabel := []; s_numunit := [] |} ];
     p_mapping := [];
     p_location := [ {| l_id := 1; l_mapping := 0; l_addr := 16; l_lines := [{| ln_fn := 1; ln_line := 10; ln_col := 0 |}]; l_folded := false |};
                     {| l_id := 2; l_mapping := 0; l_addr := 32; l_lines := [{| ln_fn := 2; ln_line := 20; ln_col := 0 |}]; l_folded := false |};
                     {| l_id := 3; l_mapping := 0; l_addr := 48; l_lines := [{| ln_fn := 3; ln_line := 30; ln_col := 0 |}]; l_folded := false |} ];
     p_function := [ {| f_id := 1; f_name := "main"; f_sysname := "main"; f_file := "m.go"; f_startline := 0 |};
                     {| f_id := 2; f_name := "d"; f_sysname := "d"; f_file := "/build/proj/w/proj/d/d.go"; f_startline := 0 |};
                     {| f_id := 3; f_name := "tiny"; f_sysname := "tiny"; f_file := "t.go"; f_startline := 0 |} ];
     p_comments := []; p_docurl := ""; p_dropframes := ""; p_keepframes := ""; p_timenanos := 0;
     p_durationnanos := 0; p_periodtype := None; p_period := 0 |}%string.
Definition f42_opts : ropts :=
  mk_ropts "lines" false false "" false false false "" "" "text" false 0 6 0 "/home/me/proj" ""%string.
Definition f42_prepared : prepared := snd (prepare (fun _ _ => ""%string) f42_opts f42_profile).

Example f42_regression :
  g_nodes (t_g (new_trimmed_text f42_opts f42_prepared)) = text_expected f42_opts f42_prepared /\
  List.length (g_nodes (t_g (new_trimmed_text f42_opts f42_prepared))) = 2%nat.
Proof. vm_compute. split; reflexivity. Qed.

(* non-vacuity of [shown_not_below_cutoff]: the F42 case has an active cutoff (6), shows two entries
   and removes one ("tiny", cum 1), so both the hypothesis and the removal are exercised *)
Example cutoff_active_somewhere :
  0 < o_nodecutoff f42_opts /\
  List.length (g_nodes (report_graph f42_opts (rebuild f42_opts f42_prepared) None)) = 3%nat /\
  forallb (fun e => negb (abs64 (nv_cum (snd e)) <? o_nodecutoff f42_opts))
          (g_nodes (t_g (new_trimmed_text f42_opts f42_prepared))) = true.
Proof. vm_compute. repeat split; reflexivity. Qed.
