(* C05 -- placeholder until the theorems are stated. *)
From PV Require Import M_Graph.
Theorem c05_placeholder : wadd 0 0 = 0%Z.
Proof. reflexivity. Qed.
Print Assumptions c05_placeholder.
