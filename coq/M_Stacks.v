(* Executable model of internal/report/stacks.go: Report.Stacks = makeInitialStacks + fillPlaces,
   with computeTotal (report.go) and trimPath (source.go, searchPath = "").  Transcribed loop by
   loop: samples in order, locations from the last (root) to the first (leaf), lines of a location
   from the last (outermost) to the first, inlined = "j != len(loc.Line)-1"; sources are interned
   by (function name, file name, line, column, inlined); Self is added on the last source of each
   stack with int64 wrap-around; fillPlaces records the first occurrence of a source per stack.
   graph.ShortenFunctionName and filepath.Clean are oracles (Section variables; the harness ships
   their answers).  No proofs in this file. *)
From PV Require Export M_Profile.
Open Scope string_scope.
Open Scope Z_scope.

(* ---------------------------------------------------------------- small list helpers *)
Fixpoint upd {A} (l : list A) (n : nat) (f : A -> A) : list A :=
  match l, n with
  | [], _ => []
  | a :: r, O => f a :: r
  | a :: r, S n' => a :: upd r n' f
  end.

Fixpoint memn (x : nat) (l : list nat) : bool :=
  match l with [] => false | y :: r => Nat.eqb x y || memn x r end.

(* ---------------------------------------------------------------- data *)
(* key of makeInitialStacks' [srcs] map *)
Record skey := { k_fn : string; k_file : string; k_line : Z; k_col : Z; k_inl : bool }.

Definition skey_eqb (a b : skey) : bool :=
  String.eqb (k_fn a) (k_fn b) && String.eqb (k_file a) (k_file b) && (k_line a =? k_line b)
  && (k_col a =? k_col b) && Bool.eqb (k_inl a) (k_inl b).

(* StackSource (Color is not modelled); [so_key] is the key under which the source sits in the
   [srcs] map (None for the synthetic root), it is model state, not an observable *)
Record source := {
  so_key : option skey;
  so_full : string; so_file : string; so_unique : string; so_inl : bool;
  so_display : list string;
  so_places : list (nat * nat);
  so_self : Z
}.

Record stack := { sk_value : Z; sk_sources : list nat }.

Record stackset := {
  ss_total : Z; ss_type : string;
  ss_stacks : list stack; ss_sources : list source
}.

(* report.Options as far as Stacks() reads them *)
Record opts := {
  o_index : nat;              (* SampleValue = v[index] *)
  o_meandiv : option nat;     (* SampleMeanDivisor = v[k], or nil *)
  o_type : string;            (* SampleType *)
  o_trim : string             (* TrimPath (SourcePath is "") *)
}.

(* ---------------------------------------------------------------- strings *)
(* strings.Split(s, ":") *)
Fixpoint split_colon_acc (s acc : string) : list string :=
  match s with
  | EmptyString => [rev_string acc]
  | String a r => if Ascii.eqb a ":" then rev_string acc :: split_colon_acc r ""
                  else split_colon_acc r (String a acc)
  end.
(* filepath.SplitList *)
Definition split_list (s : string) : list string :=
  match s with EmptyString => [] | _ => split_colon_acc s "" end.

(* trimPath(path, trimPath, searchPath="") : the heuristic loop runs over SplitList("") = [] *)
Fixpoint trim_first (path : string) (ps : list string) : string :=
  match ps with
  | [] => path
  | t :: r =>
      let t := if has_suffix "/" t then t else t ++ "/" in
      if has_prefix t path then drop (String.length t) path else trim_first path r
  end.
Definition trim_path (trim path : string) : string :=
  trim_first path (split_list trim ++ ["/proc/self/cwd/./"; "/proc/self/cwd/"])%list.

(* addLineInfo: fmt.Sprint(str, ":", line, ":", column) *)
Definition add_line_info (s : string) (ln col : Z) : string :=
  if negb (col =? 0) then s ++ ":" ++ string_of_Z ln ++ ":" ++ string_of_Z col
  else if negb (ln =? 0) then s ++ ":" ++ string_of_Z ln
  else s.

(* allSuffixes(name, re): name, then what follows every separator match that is not at the end.
   [sepRE] = `::|\.` (leftmost, non-overlapping), [fileSepRE] = `/` *)
Fixpoint suffixes_sep (s : string) : list string :=
  match s with
  | EmptyString => []
  | String a r =>
      if Ascii.eqb a "." then ((match r with EmptyString => [] | _ => [r] end) ++ suffixes_sep r)%list
      else if Ascii.eqb a ":" then
        match r with
        | String b r' =>
            if Ascii.eqb b ":" then ((match r' with EmptyString => [] | _ => [r'] end) ++ suffixes_sep r')%list
            else suffixes_sep r
        | EmptyString => []
        end
      else suffixes_sep r
  end.
Fixpoint suffixes_slash (s : string) : list string :=
  match s with
  | EmptyString => []
  | String a r =>
      if Ascii.eqb a "/" then ((match r with EmptyString => [] | _ => [r] end) ++ suffixes_slash r)%list
      else suffixes_slash r
  end.

Section Stacks.
  Variable shorten : string -> string.   (* graph.ShortenFunctionName *)
  Variable clean : string -> string.     (* filepath.ToSlash . filepath.Clean *)
  Variable o : opts.

  Definition short_name_list (name : string) : list string :=
    let n := shorten name in n :: suffixes_sep n.
  Definition file_name_suffixes (name : string) : list string :=
    match name with EmptyString => [""] | _ => let n := clean name in n :: suffixes_slash n end.

  (* ------------------------------------------------------------ computeTotal *)
  Definition value_at (k : nat) (v : list Z) : Z := nth k v 0.
  Definition sample_value (s : sample) : Z := value_at (o_index o) (s_val s).

  (* Sample.DiffBaseSample: HasLabel("pprof::base", "true") *)
  Definition diff_base (s : sample) : bool :=
    existsb (fun kv => String.eqb (fst kv) "pprof::base" && existsb (String.eqb "true") (snd kv)) (s_label s).

  Definition neg_i64 (v : Z) : Z := wrap_i64 (- v).

  Definition total_step (acc : Z * Z * Z * Z) (s : sample) : Z * Z * Z * Z :=
    let '(div, total, ddiv, dtotal) := acc in
    let v := sample_value s in
    let d := match o_meandiv o with Some k => value_at k (s_val s) | None => 0 end in
    let v := if v <? 0 then neg_i64 v else v in
    let total := wrap_i64 (total + v) in
    let div := wrap_i64 (div + d) in
    if diff_base s then (div, total, wrap_i64 (ddiv + d), wrap_i64 (dtotal + v)) else (div, total, ddiv, dtotal).

  Definition compute_total (p : profile) : Z :=
    let '(div, total, ddiv, dtotal) := fold_left total_step (p_sample p) (0, 0, 0, 0) in
    let '(total, div) := if 0 <? dtotal then (dtotal, ddiv) else (total, div) in
    if div =? 0 then total else wrap_i64 (Z.quot total div).

  (* ------------------------------------------------------------ makeInitialStacks *)
  Record st := { st_srcs : list source; st_seen : list string; st_unk : Z }.

  Definition root_source : source :=
    {| so_key := None; so_full := "root"; so_file := ""; so_unique := ""; so_inl := false;
       so_display := ["root"]; so_places := []; so_self := 0 |}.

  Definition init_st : st := {| st_srcs := [root_source]; st_seen := []; st_unk := 1 |}.

  Fixpoint find_idx (k : skey) (l : list source) (i : nat) : option nat :=
    match l with
    | [] => None
    | s :: r => match so_key s with
                | Some k' => if skey_eqb k k' then Some i else find_idx k r (S i)
                | None => find_idx k r (S i)
                end
    end.

  (* the line's function, or the synthesized "?n?" one: (name, file, id, next unknownIndex) *)
  Definition line_fn (p : profile) (unk : Z) (ln : line) : string * string * Z * Z :=
    match (if ln_fn ln =? 0 then None else find_function p (ln_fn ln)) with
    | Some f => (f_name f, f_file f, f_id f, unk)
    | None => ("?" ++ string_of_Z unk ++ "?", "", 0, unk + 1)
    end.

  Definition full_name (k : skey) : string :=
    match k_fn k with
    | EmptyString => add_line_info (trim_path (o_trim o) (k_file k)) (k_line k) (k_col k)
    | n => add_line_info n (k_line k) (k_col k)
    end.
  Definition display_of (k : skey) : list string :=
    match k_fn k with
    | EmptyString => file_name_suffixes (full_name k)
    | _ => short_name_list (full_name k)
    end.

  Definition new_source (k : skey) (fid : Z) (seen : bool) : source :=
    let full := full_name k in
    {| so_key := Some k; so_full := full; so_file := trim_path (o_trim o) (k_file k);
       so_unique := if seen then full ++ "#" ++ string_of_Z fid else full;
       so_inl := k_inl k; so_display := display_of k; so_places := []; so_self := 0 |}.

  (* the part of getSrc after the key has been formed *)
  Definition intern (k : skey) (fid : Z) (s : st) : nat * st :=
    match find_idx k (st_srcs s) 0 with
    | Some i => (i, s)
    | None =>
        let seen := existsb (String.eqb (full_name k)) (st_seen s) in
        (List.length (st_srcs s),
         {| st_srcs := (st_srcs s ++ [new_source k fid seen])%list;
            st_seen := if seen then st_seen s else full_name k :: st_seen s;
            st_unk := st_unk s |})
    end.

  Definition get_src (p : profile) (ln : line) (inl : bool) (s : st) : nat * st :=
    let '(name, file, fid, unk) := line_fn p (st_unk s) ln in
    let k := {| k_fn := name; k_file := file; k_line := ln_line ln; k_col := ln_col ln; k_inl := inl |} in
    intern k fid {| st_srcs := st_srcs s; st_seen := st_seen s; st_unk := unk |}.

  (* for j := len(loc.Line)-1; j >= 0; j-- { inlined := j != len(loc.Line)-1 } *)
  Definition loc_lines_rev (l : location) : list (line * bool) :=
    let n := List.length (l_lines l) in
    rev (map (fun jl => (snd jl, negb (Nat.eqb (fst jl) (n - 1)))) (combine (seq 0 n) (l_lines l))).

  (* for i := len(sample.Location)-1; i >= 0; i-- *)
  Definition sample_lines (p : profile) (s : sample) : list (line * bool) :=
    flat_map (fun id => match find_location p id with Some l => loc_lines_rev l | None => [] end)
             (rev (s_loc s)).

  Fixpoint build (p : profile) (ls : list (line * bool)) (acc : list nat) (s : st) : list nat * st :=
    match ls with
    | [] => (acc, s)
    | (ln, il) :: r => let '(i, s') := get_src p ln il s in build p r (acc ++ [i])%list s'
    end.

  Definition add_self (v : Z) (x : source) : source :=
    {| so_key := so_key x; so_full := so_full x; so_file := so_file x; so_unique := so_unique x;
       so_inl := so_inl x; so_display := so_display x; so_places := so_places x;
       so_self := wrap_i64 (so_self x + v) |}.

  Definition sample_step (p : profile) (acc : list stack * st) (s : sample) : list stack * st :=
    let '(stacks, s0) := acc in
    let value := sample_value s in
    let '(srcs, s1) := build p (sample_lines p s) [O] s0 in
    let leaf := last srcs O in
    ((stacks ++ [{| sk_value := value; sk_sources := srcs |}])%list,
     {| st_srcs := upd (st_srcs s1) leaf (add_self value); st_seen := st_seen s1; st_unk := st_unk s1 |}).

  Definition make_initial_stacks (p : profile) : list stack * st :=
    fold_left (sample_step p) (p_sample p) ([], init_st).

  (* ------------------------------------------------------------ fillPlaces *)
  Definition add_place (pl : nat * nat) (x : source) : source :=
    {| so_key := so_key x; so_full := so_full x; so_file := so_file x; so_unique := so_unique x;
       so_inl := so_inl x; so_display := so_display x; so_places := (so_places x ++ [pl])%list;
       so_self := so_self x |}.

  Fixpoint fp_inner (i j : nat) (ss : list nat) (seen : list nat) (S : list source) : list source :=
    match ss with
    | [] => S
    | x :: r => if memn x seen then fp_inner i (Datatypes.S j) r seen S
                else fp_inner i (Datatypes.S j) r (x :: seen) (upd S x (add_place (i, j)))
    end.

  Fixpoint fp_outer (i : nat) (stacks : list stack) (S : list source) : list source :=
    match stacks with
    | [] => S
    | k :: r => fp_outer (Datatypes.S i) r (fp_inner i O (sk_sources k) [] S)
    end.

  Definition fill_places (stacks : list stack) (S : list source) : list source := fp_outer O stacks S.

  (* ------------------------------------------------------------ Stacks() *)
  Definition stacks_of (p : profile) : stackset :=
    let '(stacks, s) := make_initial_stacks p in
    {| ss_total := compute_total p; ss_type := o_type o;
       ss_stacks := stacks; ss_sources := fill_places stacks (st_srcs s) |}.

  (* ------------------------------------------------------------ Stacks() as an operation on a report
     A Report holds a pointer to its profile and several reports may share one profile.  Stacks() is
     called any number of times (every /flamegraph request on a report, every caller of the API).
     What a call can reach is the profile; the unchanged code only reads it, so a call returns the
     stack set and leaves the profile as it found it.  [os] = the options of the report each
     successive call is made on (all reports share the profile). *)
  Definition stacks_call (p : profile) : stackset * profile := (stacks_of p, p).
End Stacks.

Section Calls.
  Variable shorten clean : string -> string.
  Fixpoint stacks_calls (os : list opts) (p : profile) : list stackset * profile :=
    match os with
    | [] => ([], p)
    | o :: r => let '(R, p1) := stacks_call shorten clean o p in
                let '(Rs, p2) := stacks_calls r p1 in (R :: Rs, p2)
    end.
End Calls.
