(* Call trees (newTree, graph.go:406): a node is a path from the root; its cum is the sum over the
   samples whose stack starts with that path, its flat the sum over the samples whose stack IS that
   path, and the edge into it carries its cum. *)
From Coq Require Import Lia.
From PV Require Import M_Graph S_Graph L_Graph.
Open Scope list_scope.
Open Scope Z_scope.

Section TreeProofs.
  Variable K : Type.
  Variable keqb : K -> K -> bool.
  Hypothesis keqb_spec : forall a b, keqb a b = true <-> a = b.

  Notation leqb := (list_eqb K keqb).

  Lemma list_eqb_spec : forall a b : list K, leqb a b = true <-> a = b.
  Proof.
    induction a as [|x a IH]; destruct b as [|y b]; simpl; split; intros H; try discriminate; auto.
    - apply andb_prop in H. destruct H as [H1 H2]. apply keqb_spec in H1. apply IH in H2. subst. reflexivity.
    - inversion H. subst. apply andb_true_intro. split; [apply keqb_spec; reflexivity|apply IH; reflexivity].
  Qed.

  Notation prefixb := (S_Graph.prefixb K keqb).
  Notation econd := (S_Graph.econd K keqb).
  Notation tree_cum_spec := (S_Graph.tree_cum_spec K keqb).
  Notation tree_flat_spec := (S_Graph.tree_flat_spec K keqb).
  Notation tree_edge_spec := (S_Graph.tree_edge_spec K keqb).

  Lemma prefixb_nil_r : forall q, prefixb q [] = false.
  Proof. destruct q as [|x [|y q]]; reflexivity. Qed.

  Lemma prefixb_cons : forall x q y l, q <> [] -> prefixb (x :: q) (y :: l) = (keqb x y && prefixb q l)%bool.
  Proof. intros x q y l H. destruct q; [contradiction|reflexivity]. Qed.

  Lemma prefixb_self : forall l, l <> [] -> prefixb l l = true.
  Proof.
    induction l as [|x r IH]; intros H; [contradiction|].
    destruct r as [|y r']; simpl.
    - apply keqb_spec. reflexivity.
    - rewrite (proj2 (keqb_spec x x) eq_refl). apply IH. discriminate.
  Qed.

  Lemma prefixb_length : forall q l, prefixb q l = true -> (List.length q <= List.length l)%nat.
  Proof.
    induction q as [|x q IH]; intros l H; [discriminate|].
    destruct l as [|y l]; [rewrite prefixb_nil_r in H; discriminate|].
    destruct q as [|z q'].
    - simpl. lia.
    - rewrite prefixb_cons in H by discriminate. apply andb_prop in H. destruct H as [_ H].
      apply IH in H. simpl in *. lia.
  Qed.

  (* prefixes of l ++ [x]: the prefixes of l, and l ++ [x] itself *)
  Lemma prefixb_snoc : forall q l x,
    prefixb q (l ++ [x]) = (prefixb q l || leqb q (l ++ [x]))%bool.
  Proof.
    induction q as [|a q IH]; intros l x.
    - simpl. destruct (l ++ [x]) eqn:E; [destruct l; discriminate|reflexivity].
    - destruct l as [|b l].
      + simpl app. destruct q as [|c q'].
        * simpl. rewrite andb_true_r. reflexivity.
        * rewrite prefixb_cons by discriminate. rewrite prefixb_nil_r.
          simpl. rewrite andb_false_r. reflexivity.
      + simpl app. destruct q as [|c q'].
        * simpl. destruct (l ++ [x]) eqn:E; [destruct l; discriminate|]. rewrite andb_false_r, orb_false_r. reflexivity.
        * rewrite !prefixb_cons by discriminate. rewrite IH.
          change (leqb (a :: c :: q') (b :: l ++ [x])) with (keqb a b && leqb (c :: q') (l ++ [x]))%bool.
          destruct (keqb a b); reflexivity.
  Qed.

  Notation tgraph := (graph (list K)).
  Notation tnget := (nget (list K) leqb).
  Notation tew := (ew (list K) leqb).
  Notation tstep := (tstep K keqb).

  (* state after walking the frames [pre] of one sample *)
  Record TInv (w dw : Z) (g0 : tgraph) (pre : list (K * bool)) (st : tgraph * option (list K)) : Prop := mk_TInv {
    ti_parent : snd st = match pre with [] => None | _ => Some (map fst pre) end;
    ti_nodes : forall q, tnget q (g_nodes (fst st)) =
                         if prefixb q (map fst pre) then bump_cum w dw (tnget q (g_nodes g0)) else tnget q (g_nodes g0);
    ti_edges : forall p q, tew p q (g_edges (fst st)) =
                           if econd p q (map fst pre)
                           then bump2 w dw (tew p q (g_edges g0)) else tew p q (g_edges g0)
  }.

  Lemma TInv_init : forall w dw g0, TInv w dw g0 [] (g0, None).
  Proof.
    intros. constructor; simpl; intros.
    - reflexivity.
    - rewrite prefixb_nil_r. reflexivity.
    - unfold S_Graph.econd. rewrite prefixb_nil_r. reflexivity.
  Qed.

  Lemma leqb_refl : forall l, leqb l l = true.
  Proof. intros. apply list_eqb_spec. reflexivity. Qed.

  Lemma leqb_false : forall a b, leqb a b = false <-> a <> b.
  Proof.
    intros a b. split.
    - intros E H. subst. rewrite leqb_refl in E. discriminate.
    - intros H. destruct (leqb a b) eqn:E; auto. apply list_eqb_spec in E. contradiction.
  Qed.

  Lemma leqb_sym : forall a b, leqb a b = leqb b a.
  Proof.
    intros a b. destruct (leqb a b) eqn:E1, (leqb b a) eqn:E2; auto.
    - apply list_eqb_spec in E1. subst. rewrite leqb_refl in E2. discriminate.
    - apply list_eqb_spec in E2. subst. rewrite leqb_refl in E1. discriminate.
  Qed.

  Lemma prefixb_full : forall q l, prefixb q l = true -> List.length q = List.length l -> q = l.
  Proof.
    induction q as [|x q IH]; intros l H Hl; [discriminate|].
    destruct l as [|y l]; [discriminate|].
    destruct q as [|z q'].
    - simpl in H. apply keqb_spec in H. subst. destruct l; [reflexivity|discriminate].
    - rewrite prefixb_cons in H by discriminate. apply andb_prop in H. destruct H as [H1 H2].
      apply keqb_spec in H1. subst y. f_equal. apply IH; [exact H2|]. simpl in *. lia.
  Qed.

  Lemma prefixb_longer : forall q l, (List.length l < List.length q)%nat -> prefixb q l = false.
  Proof.
    intros q l H. destruct (prefixb q l) eqn:E; [|reflexivity]. apply prefixb_length in E. lia.
  Qed.

  Lemma econd_snoc : forall p q l x,
    econd p q (l ++ [x]) = (econd p q l || (leqb l p && leqb (l ++ [x]) q && negb (Nat.eqb (List.length l) 0)))%bool.
  Proof.
    intros p q l x. unfold S_Graph.econd. rewrite !prefixb_snoc.
    assert (Hlen : List.length (l ++ [x]) = S (List.length l)) by (rewrite app_length; simpl; lia).
    destruct (leqb q (l ++ [x])) eqn:Eq.
    - apply list_eqb_spec in Eq. subst q. rewrite leqb_refl.
      rewrite (prefixb_longer (l ++ [x]) l) by lia. rewrite andb_false_r. simpl orb.
      rewrite Hlen. simpl Nat.eqb.
      destruct (leqb p (l ++ [x])) eqn:Ep.
      + apply list_eqb_spec in Ep. subst p. rewrite Hlen.
        rewrite (prefixb_longer (l ++ [x]) l) by lia.
        assert (Nat.eqb (List.length l) (S (List.length l)) = false) as E by (apply Nat.eqb_neq; lia).
        rewrite E. simpl.
        assert (leqb l (l ++ [x]) = false) as E2.
        { apply leqb_false. intros H. apply (f_equal (@List.length K)) in H. rewrite Hlen in H. lia. }
        rewrite E2. reflexivity.
      + rewrite orb_false_r, andb_true_r.
        destruct (leqb l p) eqn:Elp.
        * apply list_eqb_spec in Elp. subst p. rewrite Nat.eqb_refl.
          destruct l as [|y l']; [reflexivity|]. rewrite prefixb_self by discriminate. reflexivity.
        * simpl. destruct (prefixb p l) eqn:Epl; [|reflexivity]. simpl.
          destruct (Nat.eqb (List.length l) (List.length p)) eqn:El; [|reflexivity].
          apply Nat.eqb_eq in El. symmetry in El. apply (prefixb_full p l Epl) in El. subst p.
          rewrite leqb_refl in Elp. discriminate.
    - rewrite orb_false_r. rewrite (leqb_sym (l ++ [x]) q), Eq, andb_false_r. simpl. rewrite orb_false_r.
      destruct (leqb p (l ++ [x])) eqn:Ep; [|rewrite orb_false_r; reflexivity].
      apply list_eqb_spec in Ep. subst p. rewrite (prefixb_longer (l ++ [x]) l) by lia. simpl.
      destruct (prefixb q l) eqn:Eql; [|reflexivity]. simpl.
      apply prefixb_length in Eql. rewrite Hlen. apply Nat.eqb_neq. lia.
  Qed.

  Lemma TInv_step : forall w dw g0 pre st f,
    TInv w dw g0 pre st -> TInv w dw g0 (pre ++ [f]) (tstep w dw st f).
  Proof.
    intros w dw g0 pre st f [IP IN IE]. destruct st as [g parent]. simpl in IP, IN, IE.
    unfold M_Graph.tstep.
    set (l := map fst pre) in *.
    assert (Hn : match parent with Some p => p ++ [fst f] | None => [fst f] end = l ++ [fst f]).
    { rewrite IP. unfold l. destruct pre; reflexivity. }
    rewrite Hn. set (n := l ++ [fst f]).
    assert (Hlen : List.length n = S (List.length l)) by (unfold n; rewrite app_length; simpl; lia).
    assert (Hmap : map fst (pre ++ [f]) = n) by (rewrite map_app; reflexivity).
    constructor.
    - simpl snd. destruct parent; simpl snd; rewrite Hmap; destruct (pre ++ [f]) eqn:E; try reflexivity;
        destruct pre; discriminate.
    - intros q. rewrite Hmap.
      assert (Hps : prefixb q n = (prefixb q l || leqb q n)%bool) by (unfold n; apply prefixb_snoc).
      rewrite Hps.
      assert (HG : g_nodes (fst (match parent with
                                 | Some p => add_edge (list K) leqb (add_cum (list K) leqb g n w dw) p n w dw false (snd f)
                                 | None => add_cum (list K) leqb g n w dw end, Some n)) =
                   nupd (list K) leqb (bump_cum w dw) n (g_nodes g)).
      { destruct parent; reflexivity. }
      rewrite HG. rewrite (nget_nupd (list K) leqb list_eqb_spec). rewrite IN.
      rewrite (leqb_sym q n).
      destruct (leqb n q) eqn:E.
      + apply list_eqb_spec in E. subst q. rewrite (prefixb_longer n l) by lia. rewrite orb_true_r. reflexivity.
      + rewrite orb_false_r. reflexivity.
    - intros p q. rewrite Hmap.
      assert (Hes : econd p q n = (econd p q l || (leqb l p && leqb n q && negb (Nat.eqb (List.length l) 0)))%bool) by (unfold n; apply econd_snoc).
      rewrite Hes.
      destruct parent as [pp|].
      + assert (Hpp : pp = l /\ pre <> []).
        { destruct pre; [discriminate|]. inversion IP. split; [reflexivity|discriminate]. }
        destruct Hpp as [Hpp Hne]. subst pp.
        cbn [fst add_edge g_edges add_cum]. rewrite (ew_eadd (list K) leqb list_eqb_spec). rewrite (IE p q).
        assert (Hl0 : Nat.eqb (List.length l) 0 = false).
        { unfold l. destruct pre; [contradiction|reflexivity]. }
        rewrite Hl0. simpl negb. rewrite andb_true_r.
        destruct (leqb l p && leqb n q)%bool eqn:E.
        * apply andb_prop in E. destruct E as [E1 E2]. apply list_eqb_spec in E1. apply list_eqb_spec in E2. subst p q.
          assert (econd l n l = false) as Ez.
          { unfold S_Graph.econd. rewrite (prefixb_longer n l) by lia. rewrite andb_false_r. reflexivity. }
          rewrite Ez. reflexivity.
        * rewrite orb_false_r. reflexivity.
      + cbn [fst add_cum g_edges]. rewrite (IE p q).
        assert (Hl0 : Nat.eqb (List.length l) 0 = true).
        { unfold l. destruct pre; [reflexivity|discriminate]. }
        rewrite Hl0. simpl negb. rewrite andb_false_r, orb_false_r. reflexivity.
  Qed.

  Lemma TInv_fold : forall w dw g0 fs pre st,
    TInv w dw g0 pre st -> TInv w dw g0 (pre ++ fs) (fold_left (tstep w dw) fs st).
  Proof.
    intros w dw g0 fs. induction fs as [|f r IH]; intros pre st I; simpl.
    - rewrite app_nil_r. exact I.
    - replace (pre ++ f :: r) with ((pre ++ [f]) ++ r) by (rewrite <- app_assoc; reflexivity).
      apply IH. apply TInv_step. exact I.
  Qed.

  Notation tadd_sample := (tadd_sample K keqb).
  Notation build_tree := (build_tree K keqb).

  Lemma tadd_sample_skip : forall g s, counted K s = false -> tadd_sample g s = g.
  Proof.
    intros g s H. unfold counted in H. apply negb_false_iff in H. unfold M_Graph.tadd_sample. rewrite H. reflexivity.
  Qed.

  Lemma tadd_sample_nodes : forall g s q, counted K s = true -> q <> [] ->
    tnget q (g_nodes (tadd_sample g s)) =
    let v := tnget q (g_nodes g) in
    let v1 := if prefixb q (keys K s) then bump_cum (gs_w s) (gs_dw s) v else v in
    if leqb (keys K s) q then bump_flat (gs_w s) (gs_dw s) v1 else v1.
  Proof.
    intros g s q Hc Hq. unfold counted in Hc. apply negb_true_iff in Hc.
    unfold M_Graph.tadd_sample. rewrite Hc.
    set (st := fold_left (tstep (gs_w s) (gs_dw s)) (gs_frames s) (g, None)).
    assert (I : TInv (gs_w s) (gs_dw s) g (gs_frames s) st).
    { unfold st. apply (TInv_fold (gs_w s) (gs_dw s) g (gs_frames s) [] _ (TInv_init _ _ g)). }
    clearbody st. destruct st as [g' parent]. destruct I as [IP IN _]. simpl in IP, IN. unfold S_Graph.keys. cbv zeta.
    destruct (gs_frames s) as [|f r] eqn:Efr.
    - rewrite IP. simpl map. rewrite IN. simpl map.
      assert (leqb [] q = false) as E by (apply leqb_false; auto). rewrite E. reflexivity.
    - rewrite IP. unfold add_flat. cbn [g_nodes]. rewrite (nget_nupd (list K) leqb list_eqb_spec). rewrite IN. reflexivity.
  Qed.

  Lemma tadd_sample_ew : forall g s p q, counted K s = true ->
    tew p q (g_edges (tadd_sample g s)) =
    if econd p q (keys K s) then bump2 (gs_w s) (gs_dw s) (tew p q (g_edges g)) else tew p q (g_edges g).
  Proof.
    intros g s p q Hc. unfold counted in Hc. apply negb_true_iff in Hc.
    unfold M_Graph.tadd_sample. rewrite Hc.
    set (st := fold_left (tstep (gs_w s) (gs_dw s)) (gs_frames s) (g, None)).
    assert (I : TInv (gs_w s) (gs_dw s) g (gs_frames s) st).
    { unfold st. apply (TInv_fold (gs_w s) (gs_dw s) g (gs_frames s) [] _ (TInv_init _ _ g)). }
    clearbody st. destruct st as [g' parent]. destruct I as [_ _ IE]. simpl in IE. unfold S_Graph.keys.
    destruct parent; cbn [add_flat g_edges]; apply IE.
  Qed.

  Section TAcc.
    Variable proj : tgraph -> Z.
    Variable cond : gsample K -> bool.
    Variable div : bool.
    Hypothesis proj_skip : forall g s, counted K s = false -> proj (tadd_sample g s) = proj g.
    Hypothesis proj_step : forall g s, counted K s = true ->
      proj (tadd_sample g s) = if cond s then wadd (proj g) (pick K div s) else proj g.

    Lemma tacc_fold : forall ss g c, proj g = wrap_i64 c ->
      proj (fold_left tadd_sample ss g) = wrap_i64 (c + sumf K (fun s => if cond s then pick K div s else 0) ss).
    Proof.
      induction ss as [|s r IH]; intros g c Hg; simpl.
      - rewrite Z.add_0_r. exact Hg.
      - destruct (counted K s) eqn:Ec.
        + rewrite (IH _ (c + (if cond s then pick K div s else 0))).
          * f_equal. lia.
          * rewrite proj_step by exact Ec. destruct (cond s).
            -- rewrite Hg. apply wadd_wrap.
            -- rewrite Z.add_0_r. exact Hg.
        + rewrite (IH _ c).
          * f_equal. destruct (uncounted_zero K s Ec) as [H1 H2].
            assert (pick K div s = 0) as Hp by (unfold pick; destruct div; auto).
            rewrite Hp. destruct (cond s); lia.
          * rewrite proj_skip by exact Ec. exact Hg.
    Qed.
  End TAcc.

  Theorem tree_cum_eq_spec_lemma : forall (div : bool) ss path, path <> [] ->
    (if div then nv_cumdiv else nv_cum) (tnget path (g_nodes (build_tree ss))) = wrap_i64 (tree_cum_spec div ss path).
  Proof.
    intros div ss path Hp. unfold M_Graph.build_tree, S_Graph.tree_cum_spec.
    rewrite (tacc_fold (fun g => (if div then nv_cumdiv else nv_cum) (tnget path (g_nodes g)))
                       (fun s => prefixb path (keys K s)) div) with (c := 0).
    - reflexivity.
    - intros g s H. rewrite tadd_sample_skip; auto.
    - intros g s H. rewrite tadd_sample_nodes by assumption. cbv zeta.
      destruct (leqb (keys K s) path), (prefixb path (keys K s)), div; reflexivity.
    - destruct div; reflexivity.
  Qed.

  Theorem tree_flat_eq_spec_lemma : forall (div : bool) ss path, path <> [] ->
    (if div then nv_flatdiv else nv_flat) (tnget path (g_nodes (build_tree ss))) = wrap_i64 (tree_flat_spec div ss path).
  Proof.
    intros div ss path Hp. unfold M_Graph.build_tree, S_Graph.tree_flat_spec.
    rewrite (tacc_fold (fun g => (if div then nv_flatdiv else nv_flat) (tnget path (g_nodes g)))
                       (fun s => leqb (keys K s) path) div) with (c := 0).
    - reflexivity.
    - intros g s H. rewrite tadd_sample_skip; auto.
    - intros g s H. rewrite tadd_sample_nodes by assumption. cbv zeta.
      destruct (leqb (keys K s) path), (prefixb path (keys K s)), div; reflexivity.
    - destruct div; reflexivity.
  Qed.

  Theorem tree_edge_eq_spec_lemma : forall (div : bool) ss p q,
    (if div then @snd Z Z else @fst Z Z) (tew p q (g_edges (build_tree ss))) = wrap_i64 (tree_edge_spec div ss p q).
  Proof.
    intros div ss p q. unfold M_Graph.build_tree, S_Graph.tree_edge_spec.
    rewrite (tacc_fold (fun g => (if div then @snd Z Z else @fst Z Z) (tew p q (g_edges g)))
                       (fun s => econd p q (keys K s)) div) with (c := 0).
    - reflexivity.
    - intros g s H. rewrite tadd_sample_skip; auto.
    - intros g s H. rewrite tadd_sample_ew by assumption.
      destruct (econd p q (keys K s)), div; reflexivity.
    - destruct div; reflexivity.
  Qed.
End TreeProofs.
