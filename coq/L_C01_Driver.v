(* C01, driver path: the only thing pprof's fetch pipeline does to what -proto writes, beyond the
   codec, is unsourceMappings; outside class F34 it leaves every frame shown unchanged. *)
From Coq Require Import List String ZArith Bool.
From PV Require Import Base.Term M_Profile M_Codec S_Codec R_C01.
Import ListNotations.
Open Scope string_scope.

Lemma unsourced_file_cases abs m :
  unsourced_file abs m = m_file m \/ unsourced_file abs m = "".
Proof. unfold unsourced_file. destruct (_ && _); auto. Qed.

Lemma frame_view_unsourced_lemma abs p :
  in_F34 abs p = false -> frame_view_f (unsourced_file abs) p = frame_view p.
Proof.
  unfold in_F34, frame_view, frame_view_f. intros H.
  f_equal. apply map_ext_in. intros s Hs.
  assert (Hs' : existsb (fun id =>
      match find_location p id with
      | Some l => match find_mapping p (l_mapping l) with
                  | Some m => negb (String.eqb (m_file m) "") && String.eqb (unsourced_file abs m) ""
                  | None => false end
      | None => false end) (s_loc s) = false).
  { destruct (existsb _ (s_loc s)) eqn:E; [|reflexivity].
    assert (existsb (fun s0 => existsb (fun id =>
      match find_location p id with
      | Some l => match find_mapping p (l_mapping l) with
                  | Some m => negb (String.eqb (m_file m) "") && String.eqb (unsourced_file abs m) ""
                  | None => false end
      | None => false end) (s_loc s0)) (p_sample p) = true) as C.
    { apply existsb_exists. exists s. split; assumption. }
    rewrite C in H. discriminate. }
  f_equal. f_equal. f_equal. apply map_ext_in. intros id Hid.
  destruct (find_location p id) as [l|] eqn:El; [|reflexivity].
  destruct (find_mapping p (l_mapping l)) as [m|] eqn:Em; [|reflexivity].
  assert (Hm : negb (String.eqb (m_file m) "") && String.eqb (unsourced_file abs m) "" = false).
  { destruct (negb (String.eqb (m_file m) "") && String.eqb (unsourced_file abs m) "") eqn:E; [|reflexivity].
    assert (existsb (fun id0 =>
      match find_location p id0 with
      | Some l0 => match find_mapping p (l_mapping l0) with
                  | Some m0 => negb (String.eqb (m_file m0) "") && String.eqb (unsourced_file abs m0) ""
                  | None => false end
      | None => false end) (s_loc s) = true) as C.
    { apply existsb_exists. exists id. split; [assumption|]. rewrite El, Em. exact E. }
    rewrite C in Hs'. discriminate. }
  destruct (unsourced_file_cases abs m) as [E|E]; rewrite E; [reflexivity|].
  rewrite E in Hm. rewrite String.eqb_refl, andb_true_r in Hm.
  apply negb_false_iff in Hm. apply String.eqb_eq in Hm. rewrite Hm. reflexivity.
Qed.

(* the F34 witness: one sample in a mapping named "file:1" without build id *)
Definition f34_profile : profile :=
  {| p_sampletype := [{| vt_type := "samples"; vt_unit := "count" |}]; p_defaultsampletype := "";
     p_sample := [{| s_loc := [1%Z]; s_val := [1%Z]; s_label := []; s_numlabel := []; s_numunit := [] |}];
     p_mapping := [{| m_id := 1; m_start := 4096; m_limit := 8192; m_offset := 0; m_file := "file:1"; m_buildid := "";
                      m_hasfn := false; m_hasfile := false; m_hasline := false; m_hasinline := false |}];
     p_location := [{| l_id := 1; l_mapping := 1; l_addr := 6144; l_lines := []; l_folded := false |}];
     p_function := []; p_comments := []; p_docurl := ""; p_dropframes := ""; p_keepframes := "";
     p_timenanos := 0; p_durationnanos := 0; p_periodtype := None; p_period := 0 |}.

Lemma frame_view_unsourced_refuted_lemma :
  exists abs p, valid_b p = true /\ frame_view_f (unsourced_file abs) p <> frame_view p.
Proof. exists ["file:1"], f34_profile. split; [vm_compute; reflexivity|]. vm_compute. discriminate. Qed.
