(* C18 lemmas for callgrind, text level: numbers, names and lines written by the model are read
   back by the reference parser; with L_Callgrind: the text is read back as the graph. *)
From Coq Require Import Lia DecimalString DecimalPos.
From PV Require Import M_Callgrind S_Callgrind L_Dot L_Callgrind.
Open Scope string_scope.
Open Scope Z_scope.

(* ---------------- decimal ---------------- *)
Fixpoint uacc (d : Decimal.uint) (acc : Z) : Z :=
  match d with
  | Decimal.Nil => acc
  | Decimal.D0 l => uacc l (acc * 10 + 0) | Decimal.D1 l => uacc l (acc * 10 + 1)
  | Decimal.D2 l => uacc l (acc * 10 + 2) | Decimal.D3 l => uacc l (acc * 10 + 3)
  | Decimal.D4 l => uacc l (acc * 10 + 4) | Decimal.D5 l => uacc l (acc * 10 + 5)
  | Decimal.D6 l => uacc l (acc * 10 + 6) | Decimal.D7 l => uacc l (acc * 10 + 7)
  | Decimal.D8 l => uacc l (acc * 10 + 8) | Decimal.D9 l => uacc l (acc * 10 + 9)
  end.

Definition nodigit (s : string) : bool :=
  match s with EmptyString => true | String c _ => match dig c with None => true | Some _ => false end end.

Lemma parse_num_stop : forall d b s acc, (match s with EmptyString => True | String c _ => d c = None end) ->
  parse_num d b s acc true = Some (acc, s).
Proof. intros d b s acc H. destruct s as [|c r]; [reflexivity|]. simpl. now rewrite H. Qed.

Lemma parse_uint : forall d rest acc any,
  parse_num dig 10 (NilEmpty.string_of_uint d ++ rest) acc any =
  match d with
  | Decimal.Nil => parse_num dig 10 rest acc any
  | _ => parse_num dig 10 rest (uacc d acc) true
  end.
Proof.
  induction d; intros rest acc any; try reflexivity;
    simpl NilEmpty.string_of_uint; simpl append; simpl parse_num; rewrite IHd; destruct d; reflexivity.
Qed.

Lemma uacc_acc : forall d acc, Zpos (Pos.of_uint_acc d acc) = uacc d (Zpos acc).
Proof. induction d; intro acc; cbn [Pos.of_uint_acc uacc]; try reflexivity; rewrite IHd; f_equal; lia. Qed.

Lemma uacc_of_uint : forall d, Z.of_N (Pos.of_uint d) = uacc d 0.
Proof.
  induction d; cbn [Pos.of_uint uacc]; try reflexivity; try (cbn [Z.of_N]; rewrite uacc_acc; reflexivity).
  exact IHd.
Qed.

Lemma uacc_to_uint : forall p, uacc (Pos.to_uint p) 0 = Zpos p.
Proof. intro p. rewrite <- uacc_of_uint, Unsigned.of_to. reflexivity. Qed.

Lemma to_uint_nonnil : forall p, Pos.to_uint p <> Decimal.Nil.
Proof. intros p H. pose proof (Unsigned.of_to p) as E. rewrite H in E. discriminate E. Qed.

(* a non-negative number followed by a non-digit *)
Lemma parse_dec_prefix : forall z rest, 0 <= z -> nodigit rest = true ->
  parse_num dig 10 (string_of_Z z ++ rest) 0 false = Some (z, rest).
Proof.
  intros z rest Hz Hr. unfold string_of_Z.
  assert (Hstop : forall acc, parse_num dig 10 rest acc true = Some (acc, rest)).
  { intro acc. apply parse_num_stop. unfold nodigit in Hr. destruct rest as [|c r]; [exact I|]. destruct (dig c); [discriminate Hr | reflexivity]. }
  destruct z as [|p|p]; [| |exfalso; apply Hz; reflexivity].
  - simpl. apply Hstop.
  - simpl Z.to_int. unfold NilZero.string_of_int, NilZero.string_of_uint.
    pose proof (to_uint_nonnil p) as Hn. pose proof (uacc_to_uint p) as Hu.
    destruct (Pos.to_uint p) eqn:E; try congruence; rewrite parse_uint, Hu; apply Hstop.
Qed.

Lemma sapp_nil : forall s : string, s ++ "" = s.
Proof. induction s as [|c r IH]; simpl; [reflexivity | now rewrite IH]. Qed.

Lemma parse_all_dec : forall z, 0 <= z -> parse_all dig 10 (string_of_Z z) = Some z.
Proof.
  intros z Hz. unfold parse_all. pose proof (parse_dec_prefix z "" Hz eq_refl) as H.
  rewrite sapp_nil in H. now rewrite H.
Qed.

Lemma zs_neg : forall p, string_of_Z (Zneg p) = String "-" (string_of_Z (Zpos p)).
Proof. intro p. reflexivity. Qed.

Lemma first_digit : forall z, 0 <= z -> exists c r, string_of_Z z = String c r /\ dig c <> None.
Proof.
  intros z Hz. unfold string_of_Z. destruct z as [|p|p]; [| |exfalso; apply Hz; reflexivity].
  - exists "0"%char, "". split; [reflexivity | discriminate].
  - simpl Z.to_int. unfold NilZero.string_of_int, NilZero.string_of_uint.
    pose proof (to_uint_nonnil p) as Hn.
    destruct (Pos.to_uint p) eqn:E; try congruence; simpl; eexists; eexists; (split; [reflexivity | discriminate]).
Qed.

Lemma parse_int_zs : forall z, parse_int (string_of_Z z) = Some z.
Proof.
  intro z. destruct z as [|p|p].
  - reflexivity.
  - unfold parse_int. destruct (first_digit (Zpos p) ltac:(lia)) as [c [r [E Hd]]]. rewrite E.
    assert (Hc : Ascii.eqb c "-" = false).
    { destruct (Ascii.eqb_spec c "-") as [Ec|]; [|reflexivity]. subst c. exfalso. apply Hd. reflexivity. }
    rewrite Hc, <- E. apply parse_all_dec. lia.
  - rewrite zs_neg. unfold parse_int. simpl Ascii.eqb. cbv iota.
    rewrite parse_all_dec by lia. reflexivity.
Qed.

(* ---------------- hexadecimal ---------------- *)
Lemma hexdig_nibble : forall v, 0 <= v < 16 -> hexdig (hex_nibble v) = Some v.
Proof.
  intros v Hv.
  assert (H : v = 0 \/ v = 1 \/ v = 2 \/ v = 3 \/ v = 4 \/ v = 5 \/ v = 6 \/ v = 7 \/ v = 8 \/ v = 9 \/
              v = 10 \/ v = 11 \/ v = 12 \/ v = 13 \/ v = 14 \/ v = 15) by lia.
  repeat (destruct H as [H|H]; [subst v; reflexivity|]). subst v. reflexivity.
Qed.

Lemma parse_hex_fixed : forall n z s rest a any,
  parse_num hexdig 16 (hex_fixed n z s ++ rest) a any =
  parse_num hexdig 16 (s ++ rest) (a * 16 ^ Z.of_nat n + z mod 16 ^ Z.of_nat n) (any || (0 <? Z.of_nat n)).
Proof.
  induction n as [|k IH]; intros z s rest a any.
  - simpl hex_fixed. change (16 ^ Z.of_nat 0) with 1. rewrite Z.mod_1_r, Z.mul_1_r, Z.add_0_r, Bool.orb_false_r. reflexivity.
  - cbn [hex_fixed]. rewrite IH. cbn [append]. cbn [parse_num].
    rewrite hexdig_nibble by (apply Z.mod_pos_bound; lia).
    assert (E : (a * 16 ^ Z.of_nat k + (z / 16) mod 16 ^ Z.of_nat k) * 16 + z mod 16 =
                a * 16 ^ Z.of_nat (S k) + z mod 16 ^ Z.of_nat (S k)).
    { assert (Hp : 0 < 16 ^ Z.of_nat k) by (apply Z.pow_pos_nonneg; lia).
      assert (E16 : 16 ^ Z.of_nat (S k) = 16 * 16 ^ Z.of_nat k) by (rewrite Nat2Z.inj_succ; apply Z.pow_succ_r; lia).
      rewrite E16. rewrite (Z.rem_mul_r z 16 (16 ^ Z.of_nat k) ltac:(lia) Hp). ring. }
    rewrite E. replace (any || (0 <? Z.of_nat (S k))) with true by (symmetry; apply Bool.orb_true_iff; right; apply Z.ltb_lt; lia).
    reflexivity.
Qed.

Definition hexchars (s : string) : Prop := forall c, (exists a b, s = a ++ String c b) -> hexdig c <> None.

Fixpoint all_hex (s : string) : bool :=
  match s with EmptyString => true | String c r => match hexdig c with Some _ => all_hex r | None => false end end.

Lemma hex_fixed_all_hex : forall n z s, all_hex s = true -> all_hex (hex_fixed n z s) = true.
Proof.
  induction n as [|k IH]; intros z s H; [exact H|]. cbn [hex_fixed]. apply IH. cbn [all_hex].
  rewrite hexdig_nibble by (apply Z.mod_pos_bound; lia). exact H.
Qed.

Lemma parse_flag : forall s rest acc, all_hex s = true -> s <> "" ->
  parse_num hexdig 16 (s ++ rest) acc false = parse_num hexdig 16 (s ++ rest) acc true.
Proof.
  intros s rest acc H Hne. destruct s as [|c r]; [congruence|]. simpl in *. destruct (hexdig c); [reflexivity | discriminate H].
Qed.

Lemma strip_zeros_parse : forall s rest, all_hex s = true -> s <> "" ->
  parse_num hexdig 16 (strip_zeros s ++ rest) 0 false = parse_num hexdig 16 (s ++ rest) 0 false.
Proof.
  induction s as [|c r IH]; intros rest H Hne; [congruence|].
  cbn [strip_zeros]. destruct r as [|d r']; [reflexivity|].
  destruct (Ascii.eqb_spec c "0") as [E|NE]; [|reflexivity].
  subst c. assert (Hr : all_hex (String d r') = true) by exact H.
  rewrite IH by (try exact Hr; discriminate).
  rewrite (parse_flag (String d r') rest 0 Hr) by discriminate. reflexivity.
Qed.

Lemma strip_zeros_nonempty : forall s, s <> "" -> strip_zeros s <> "".
Proof.
  induction s as [|c r IH]; intro H; [congruence|]. cbn [strip_zeros].
  destruct r as [|d r']; [discriminate|]. destruct (Ascii.eqb c "0"); [apply IH; discriminate | discriminate].
Qed.

Lemma hex_fixed_nonempty : forall n z s, (0 < n)%nat -> hex_fixed n z s <> "".
Proof.
  induction n as [|k IH]; intros z s Hn; [lia|]. cbn [hex_fixed].
  destruct k; [cbn [hex_fixed]; discriminate | apply IH; lia].
Qed.

Definition nohex (s : string) : Prop := match s with EmptyString => True | String c _ => hexdig c = None end.

Lemma parse_hex_min : forall z rest, 0 <= z < two64 -> nohex rest ->
  parse_num hexdig 16 (hex_min z ++ rest) 0 false = Some (z, rest).
Proof.
  intros z rest Hz Hr. unfold hex_min, hex16.
  rewrite strip_zeros_parse; [| apply hex_fixed_all_hex; reflexivity | apply hex_fixed_nonempty; lia].
  rewrite parse_hex_fixed. cbn [append orb].
  change (16 ^ Z.of_nat 16) with two64. rewrite Z.mul_0_l, Z.add_0_l, Z.mod_small by exact Hz.
  change (0 <? Z.of_nat 16) with true. apply parse_num_stop. exact Hr.
Qed.

(* ---------------- positions ---------------- *)
Lemma parse_pos_render : forall p, (match p with PAbs z => 0 <= z < two64 | _ => True end) ->
  parse_pos (render_pos p) = Some p.
Proof.
  intros p Hp. destruct p as [z| |d].
  - unfold render_pos, fmt_abs. cbn [append]. unfold parse_pos.
    cbn [Ascii.eqb has_prefix drop]. simpl Ascii.eqb. cbv iota. simpl has_prefix. cbv iota.
    unfold parse_all. pose proof (parse_hex_min z "" Hp I) as H. rewrite sapp_nil in H. now rewrite H.
  - reflexivity.
  - unfold render_pos, fmt_rel. destruct (d <? 0) eqn:E.
    + apply Z.ltb_lt in E. destruct d as [|q|q]; try lia. cbn [append]. rewrite zs_neg. unfold parse_pos.
      simpl Ascii.eqb. cbv iota. rewrite parse_all_dec by lia. reflexivity.
    + apply Z.ltb_ge in E. cbn [append]. unfold parse_pos. simpl Ascii.eqb. cbv iota.
      rewrite parse_all_dec by lia. reflexivity.
Qed.

(* ---------------- characters that do not occur in numbers ---------------- *)
Fixpoint nochar (c0 : ascii) (s : string) : bool :=
  match s with EmptyString => true | String c r => negb (Ascii.eqb c c0) && nochar c0 r end.

Lemma nochar_app : forall c0 a b, nochar c0 (a ++ b) = nochar c0 a && nochar c0 b.
Proof. induction a as [|c r IH]; simpl; intro b; [reflexivity|]. now rewrite IH, Bool.andb_assoc. Qed.

Section NoChar.
  Variable c0 : ascii.
  Hypothesis c0_hex : hexdig c0 = None.
  Hypothesis c0_minus : Ascii.eqb "-" c0 = false.
  Hypothesis c0_plus : Ascii.eqb "+" c0 = false.
  Hypothesis c0_star : Ascii.eqb "*" c0 = false.
  Hypothesis c0_x : Ascii.eqb "x" c0 = false.

  Lemma hexchar_not_c0 : forall c v, hexdig c = Some v -> Ascii.eqb c c0 = false.
  Proof. intros c v H. destruct (Ascii.eqb_spec c c0) as [E|]; [subst c; congruence | reflexivity]. Qed.

  Lemma all_hex_nochar : forall s, all_hex s = true -> nochar c0 s = true.
  Proof.
    induction s as [|c r IH]; simpl; intro H; [reflexivity|].
    destruct (hexdig c) eqn:E; [|discriminate H]. now rewrite (hexchar_not_c0 c z E), IH.
  Qed.

  Lemma uint_nochar : forall d, nochar c0 (NilEmpty.string_of_uint d) = true.
  Proof.
    induction d; cbn [NilEmpty.string_of_uint nochar]; try reflexivity; rewrite IHd, Bool.andb_true_r; apply Bool.negb_true_iff;
      eapply hexchar_not_c0; reflexivity.
  Qed.

  Lemma zero_nochar : nochar c0 "0" = true.
  Proof. cbn [nochar]. now rewrite (hexchar_not_c0 "0" 0 eq_refl). Qed.

  Lemma nzuint_nochar : forall d, nochar c0 (NilZero.string_of_uint d) = true.
  Proof.
    intro d. unfold NilZero.string_of_uint. destruct d; try apply uint_nochar. apply zero_nochar.
  Qed.

  Lemma zs_nochar : forall z, nochar c0 (string_of_Z z) = true.
  Proof.
    intro z. unfold string_of_Z. destruct z as [|p|p].
    - apply zero_nochar.
    - apply nzuint_nochar.
    - change (nochar c0 (String "-" (NilZero.string_of_uint (Pos.to_uint p))) = true).
      cbn [nochar]. now rewrite c0_minus, nzuint_nochar.
  Qed.

  Lemma strip_zeros_all_hex : forall s, all_hex s = true -> all_hex (strip_zeros s) = true.
  Proof.
    induction s as [|c r IH]; intro H; [reflexivity|]. cbn [strip_zeros]. destruct r as [|d r']; [exact H|].
    destruct (Ascii.eqb c "0"); [|exact H]. apply IH. simpl in H. destruct (hexdig c); [exact H | discriminate H].
  Qed.

  Lemma pos_nochar : forall p, nochar c0 (render_pos p) = true.
  Proof.
    intro p. destruct p as [z| |d]; unfold render_pos.
    - unfold fmt_abs. cbn [append nochar]. rewrite (hexchar_not_c0 "0" 0 eq_refl), c0_x. cbn [negb andb].
      apply all_hex_nochar. unfold hex_min. apply strip_zeros_all_hex. unfold hex16. apply hex_fixed_all_hex. reflexivity.
    - cbn [nochar]. now rewrite c0_star.
    - unfold fmt_rel. rewrite nochar_app, zs_nochar. destruct (d <? 0); cbn [nochar]; [reflexivity | now rewrite c0_plus].
  Qed.
End NoChar.

Definition sp : ascii := " "%char.
Definition nl : ascii := ascii_of_N 10.
Definition zs_nosp := zs_nochar sp eq_refl eq_refl.
Definition zs_nonl := zs_nochar nl eq_refl eq_refl.
Definition pos_nosp := pos_nochar sp eq_refl eq_refl eq_refl eq_refl eq_refl.
Definition pos_nonl := pos_nochar nl eq_refl eq_refl eq_refl eq_refl eq_refl.


(* ---------------- splitting ---------------- *)
Lemma split_sp_word : forall a r cur, nochar sp a = true ->
  split_sp (a ++ String sp r) cur = rev_string (rev_string_acc a cur) :: split_sp r "".
Proof.
  induction a as [|c a' IH]; intros r cur H.
  - simpl. reflexivity.
  - simpl in H. apply andb_prop in H. destruct H as [Hc Ha]. apply Bool.negb_true_iff in Hc.
    cbn [append split_sp]. unfold sp in Hc. rewrite Hc. cbn [rev_string_acc]. apply IH. exact Ha.
Qed.
Lemma split_sp_last : forall a cur, nochar sp a = true -> split_sp a cur = [rev_string (rev_string_acc a cur)].
Proof.
  induction a as [|c a' IH]; intros cur H; [reflexivity|].
  simpl in H. apply andb_prop in H. destruct H as [Hc Ha]. apply Bool.negb_true_iff in Hc.
  cbn [split_sp]. unfold sp in Hc. rewrite Hc. cbn [rev_string_acc]. apply IH. exact Ha.
Qed.
Lemma rev_rev0 : forall a, rev_string (rev_string_acc a "") = a.
Proof. intro a. exact (rev_string_involutive a). Qed.

Lemma split3 : forall a b c, nochar sp a = true -> nochar sp b = true -> nochar sp c = true ->
  split_sp (a ++ " " ++ b ++ " " ++ c) "" = [a; b; c].
Proof.
  intros a b c Ha Hb Hc.
  change (a ++ " " ++ b ++ " " ++ c) with (a ++ String sp (b ++ String sp c)).
  rewrite (split_sp_word a _ "" Ha), (split_sp_word b _ "" Hb), (split_sp_last c "" Hc), !rev_rev0. reflexivity.
Qed.

Lemma lines_word : forall a r cur, nochar nl a = true ->
  text_lines (a ++ String nl r) cur = rev_string (rev_string_acc a cur) :: text_lines r "".
Proof.
  induction a as [|c a' IH]; intros r cur H.
  - reflexivity.
  - simpl in H. apply andb_prop in H. destruct H as [Hc Ha]. apply Bool.negb_true_iff in Hc.
    cbn [append text_lines]. unfold nl in Hc. rewrite Hc. cbn [rev_string_acc]. apply IH. exact Ha.
Qed.

Lemma text_lines_render : forall ls, (forall l, In l ls -> nochar nl (render_line l) = true) ->
  text_lines (render_lines ls) "" = map render_line ls.
Proof.
  induction ls as [|l r IH]; intro H; [reflexivity|].
  cbn [render_lines map]. change (render_line l ++ s_nl ++ render_lines r) with (render_line l ++ String nl (render_lines r)).
  rewrite (lines_word _ _ "" (H l (or_introl eq_refl))), rev_rev0, IH; [reflexivity|].
  intros l' Hl'. apply H. now right.
Qed.

(* ---------------- lines ---------------- *)
Definition ref_good (r : nref) : Prop :=
  match r with
  | NEmpty => True
  | NDef k n => 0 <= k /\ n <> "" /\ name_ok n = true
  | NRef k => 0 <= k
  end.
Definition pos_good (p : apos) : Prop := match p with PAbs z => 0 <= z < two64 | _ => True end.
Definition line_good (l : cgline) : Prop :=
  match l with
  | GHeader s => (has_prefix "positions:" s || has_prefix "events:" s) = true /\ nochar nl s = true
  | GBlank => True
  | GOb r | GFl r | GFn r | GCfl r | GCfn r => ref_good r
  | GCost p _ _ => pos_good p
  | GCalls p _ => pos_good p
  | GCallCost _ => True
  end.

Lemma ltrim_sp : forall s, ltrim (String " " s) = ltrim s.
Proof. reflexivity. Qed.

Lemma parse_ref_render : forall r, ref_good r -> parse_ref (render_ref r) = Some (map_ref cg_view r).
Proof.
  intros r H. destruct r as [|k n|k]; [reflexivity| |].
  - destruct H as [Hk [Hn Hok]]. unfold render_ref. cbn [append]. unfold parse_ref.
    simpl Ascii.eqb. cbv iota.
    change (string_of_Z k ++ ") " ++ n) with (string_of_Z k ++ String ")" (String " " n)).
    rewrite (parse_dec_prefix k (String ")" (String " " n)) Hk eq_refl). simpl Ascii.eqb. cbv iota. rewrite ltrim_sp.
    unfold name_ok in Hok. apply andb_prop in Hok. destruct Hok as [_ Hv].
    destruct (String.eqb_spec n "") as [E|_]; [congruence|]. simpl in Hv.
    unfold cg_view in *. destruct (String.eqb (ltrim n) ""); [discriminate Hv | reflexivity].
  - simpl in H. unfold render_ref. cbn [append]. unfold parse_ref. simpl Ascii.eqb. cbv iota.
    change (string_of_Z k ++ ")") with (string_of_Z k ++ String ")" "").
    rewrite (parse_dec_prefix k (String ")" "") H eq_refl). reflexivity.
Qed.

Lemma first_pos_char : forall p, exists c r, render_pos p = String c r /\
  (c = "0" \/ c = "*" \/ c = "+" \/ c = "-")%char.
Proof.
  intro p. destruct p as [z| |d]; unfold render_pos.
  - eexists. eexists. split; [reflexivity | auto].
  - eexists. eexists. split; [reflexivity | auto].
  - unfold fmt_rel. destruct (d <? 0) eqn:E.
    + apply Z.ltb_lt in E. destruct d as [|q|q]; try lia. rewrite zs_neg. eexists. eexists. split; [reflexivity | auto].
    + eexists. eexists. split; [reflexivity | auto].
Qed.

Lemma parse_line_other : forall ch r, (ch = "0" \/ ch = "*" \/ ch = "+" \/ ch = "-")%char ->
  parse_line (String ch r) =
  match split_sp (String ch r) "" with
  | [p; ln; c] =>
      match parse_pos p, parse_int c with
      | Some p', Some c' =>
          match parse_int ln with
          | Some ln' => Some (GCost p' ln' c')
          | None => if String.eqb p "*" && String.eqb ln "*" then Some (GCallCost c') else None
          end
      | _, _ => None
      end
  | _ => None
  end.
Proof. intros ch r [H|[H|[H|H]]]; subst ch; reflexivity. Qed.

Lemma parse_line_calls : forall r,
  parse_line ("calls=" ++ r) =
  match split_sp r "" with
  | [cnt; p; ln] =>
      match parse_int cnt, parse_pos p, parse_int ln with
      | Some _, Some p', Some ln' => Some (GCalls p' ln')
      | _, _, _ => None
      end
  | _ => None
  end.
Proof. intro r. reflexivity. Qed.

Lemma parse_line_render : forall l, line_good l -> parse_line (render_line l) = Some (map_line cg_view l).
Proof.
  intros l H. destruct l as [s| |r|r|r|r|r|p ln c|p ln|c]; cbn [render_line map_line].
  - destruct H as [Hp _]. unfold parse_line. rewrite Hp.
    destruct s as [|ch s']; [discriminate Hp | reflexivity].
  - reflexivity.
  - unfold parse_line. cbn. rewrite (parse_ref_render r H). reflexivity.
  - unfold parse_line. cbn. rewrite (parse_ref_render r H). reflexivity.
  - unfold parse_line. cbn. rewrite (parse_ref_render r H). reflexivity.
  - unfold parse_line. cbn. rewrite (parse_ref_render r H). reflexivity.
  - unfold parse_line. cbn. rewrite (parse_ref_render r H). reflexivity.
  - (* cost line *)
    destruct (first_pos_char p) as [ch [rest [E Hc]]].
    assert (Hsplit : split_sp (render_pos p ++ " " ++ string_of_Z ln ++ " " ++ string_of_Z c) "" =
                     [render_pos p; string_of_Z ln; string_of_Z c]).
    { apply split3; [apply pos_nosp | apply zs_nosp | apply zs_nosp]. }
    set (X := " " ++ string_of_Z ln ++ " " ++ string_of_Z c) in *.
    assert (Es : render_pos p ++ X = String ch (rest ++ X)) by (rewrite E; reflexivity).
    rewrite Es, (parse_line_other ch _ Hc), <- Es, Hsplit.
    rewrite (parse_pos_render p H), !parse_int_zs. reflexivity.
  - (* calls= *)
    assert (Hsplit : split_sp ("0" ++ " " ++ render_pos p ++ " " ++ string_of_Z ln) "" =
                     ["0"; render_pos p; string_of_Z ln]).
    { apply split3; [reflexivity | apply pos_nosp | apply zs_nosp]. }
    change ("calls=0 " ++ render_pos p ++ " " ++ string_of_Z ln)
      with ("calls=" ++ ("0" ++ " " ++ render_pos p ++ " " ++ string_of_Z ln)).
    rewrite parse_line_calls, Hsplit, (parse_pos_render p H), parse_int_zs. reflexivity.
  - (* call cost *)
    assert (Hsplit : split_sp ("*" ++ " " ++ "*" ++ " " ++ string_of_Z c) "" = ["*"; "*"; string_of_Z c]).
    { apply split3; [reflexivity | reflexivity | apply zs_nosp]. }
    change ("* * " ++ string_of_Z c) with (String "*" (" * " ++ string_of_Z c)).
    rewrite (parse_line_other "*" _ (or_intror (or_introl eq_refl))).
    change (String "*" (" * " ++ string_of_Z c)) with ("*" ++ " " ++ "*" ++ " " ++ string_of_Z c).
    rewrite Hsplit. rewrite parse_int_zs. reflexivity.
Qed.

(* ---------------- all lines of the model are good ---------------- *)
Lemma has_nl_nochar : forall s, has_nl s = false -> nochar nl s = true.
Proof.
  induction s as [|c r IH]; cbn [has_nl nochar]; intro H; [reflexivity|].
  apply Bool.orb_false_iff in H. destruct H as [Hc Hr]. unfold nl. rewrite Hc. cbn [negb andb]. now apply IH.
Qed.

Lemma name_ok_nonl : forall n, name_ok n = true -> nochar nl n = true.
Proof.
  intros n H. unfold name_ok in H. apply andb_prop in H. destruct H as [H _].
  apply has_nl_nochar. now apply Bool.negb_true_iff in H.
Qed.

Lemma ref_nonl : forall r, ref_good r -> nochar nl (render_ref r) = true.
Proof.
  intros r H. destruct r as [|k n|k]; unfold render_ref; [reflexivity| |].
  - destruct H as [_ [_ Hok]]. rewrite !nochar_app, zs_nonl, (name_ok_nonl n Hok). reflexivity.
  - rewrite !nochar_app, zs_nonl. reflexivity.
Qed.

Lemma line_nonl : forall l, line_good l -> nochar nl (render_line l) = true.
Proof.
  intros l H. destruct l as [s| |r|r|r|r|r|p ln c|p ln|c]; cbn [render_line]; rewrite ?nochar_app, ?zs_nonl, ?pos_nonl;
    try reflexivity; try (rewrite (ref_nonl r H); reflexivity).
  destruct H as [_ H]. exact H.
Qed.

Lemma parse_lines_render : forall ls, Forall line_good ls ->
  parse_lines (map render_line ls) = Some (map (map_line cg_view) ls).
Proof.
  induction ls as [|l r IH]; intro H; [reflexivity|].
  inversion H as [|? ? Hl Hr]. subst. cbn [map parse_lines]. rewrite (parse_line_render l Hl), (IH Hr). reflexivity.
Qed.

Lemma cg_name_good : forall tbl0 name, name_ok name = true -> ref_good (fst (cg_name tbl0 name)).
Proof.
  intros tbl0 name Hok. unfold cg_name. destruct (String.eqb_spec name "") as [E|NE]; [exact I|].
  destruct (index_of name tbl0 1) as [k|] eqn:EI; simpl.
  - apply index_of_range in EI. lia.
  - split; [lia | split; assumption].
Qed.

Lemma cg_addr_good : forall prev c, 0 <= c < two64 -> pos_good (cg_addr prev c).
Proof.
  intros prev c Hc. unfold cg_addr. destruct prev as [p|]; [|exact Hc].
  destruct (p =? c); [exact I|].
  destruct (String.length (fmt_rel (wrap_i64 (wrap_u64 (c - p)))) <? String.length (fmt_abs c))%nat; [exact I | exact Hc].
Qed.

Definition edge_names_ok (e : cgedge) : Prop := name_ok (ce_file e) = true /\ name_ok (ce_name e) = true /\ 0 <= ce_addr e < two64.
Definition node_names_ok (n : cgnode) : Prop :=
  name_ok (cn_obj n) = true /\ name_ok (cn_file n) = true /\ name_ok (cn_name n) = true /\ 0 <= cn_addr n < two64 /\
  Forall edge_names_ok (cn_out n).

Lemma edges_good : forall es st base, Forall edge_names_ok es -> Forall line_good (fst (cg_edges es st base)).
Proof.
  induction es as [|e r IH]; intros st base H; [constructor|].
  inversion H as [|? ? [Hf [Hn Ha]] Hr]. subst. cbn [cg_edges].
  pose proof (cg_name_good (cs_file st) (ce_file e) Hf) as G1.
  pose proof (cg_name_good (cs_name st) (ce_name e) Hn) as G2.
  destruct (cg_name (cs_file st) (ce_file e)) as [rf files]. destruct (cg_name (cs_name st) (ce_name e)) as [rn names].
  specialize (IH {| cs_obj := cs_obj st; cs_file := files; cs_name := names |} base Hr).
  destruct (cg_edges r {| cs_obj := cs_obj st; cs_file := files; cs_name := names |} base) as [ls st''].
  cbn [fst] in *. repeat constructor; try assumption. exact (cg_addr_good base (ce_addr e) Ha).
Qed.

Lemma nodes_good : forall ns st prev, Forall node_names_ok ns -> Forall line_good (cg_nodes ns st prev).
Proof.
  induction ns as [|n r IH]; intros st prev H; [constructor|].
  inversion H as [|? ? [Ho [Hf [Hn [Ha He]]]] Hr]. subst. cbn [cg_nodes].
  set (hdr := match prev with Some p => negb (same_fn p n) | None => true end).
  pose proof (cg_name_good (cs_obj st) (cn_obj n) Ho) as G1.
  pose proof (cg_name_good (cs_file st) (cn_file n) Hf) as G2.
  pose proof (cg_name_good (cs_name st) (cn_name n) Hn) as G3.
  destruct (cg_name (cs_obj st) (cn_obj n)) as [ro objs]. destruct (cg_name (cs_file st) (cn_file n)) as [rf files].
  destruct (cg_name (cs_name st) (cn_name n)) as [rn names]. cbn [fst] in *.
  destruct hdr.
  - pose proof (edges_good (cn_out n) {| cs_obj := objs; cs_file := files; cs_name := names |} (callee_base prev n) He) as GE.
    destruct (cg_edges (cn_out n) {| cs_obj := objs; cs_file := files; cs_name := names |} (callee_base prev n)) as [el st2].
    cbn [fst app] in *. repeat constructor; try assumption.
    + apply cg_addr_good. exact Ha.
    + apply Forall_app. split; [exact GE | apply IH; exact Hr].
  - pose proof (edges_good (cn_out n) st (callee_base prev n) He) as GE.
    destruct (cg_edges (cn_out n) st (callee_base prev n)) as [el st2].
    cbn [fst app] in *. constructor.
    + apply cg_addr_good. exact Ha.
    + apply Forall_app. split; [exact GE | apply IH; exact Hr].
Qed.

Lemma evs_eqb_refl : forall l, evs_eqb l l = true.
Proof.
  induction l as [|e r IH]; [reflexivity|]. cbn [evs_eqb]. rewrite IH, Bool.andb_true_r.
  destruct e; cbn [ev_eqb]; rewrite ?String.eqb_refl, ?Z.eqb_refl; reflexivity.
Qed.

Lemma view_is_fnode : forall ns, map view_node ns = map (fnode cg_view) ns.
Proof. intro ns. reflexivity. Qed.

(* the text printCallgrind's model writes is read back as the graph *)
Theorem callgrind_text_ok : forall st u ns,
  Forall node_names_ok ns -> has_nl st = false -> has_nl u = false -> in_F11 ns = false ->
  callgrind_ok ns (print_callgrind st u ns) = true.
Proof.
  intros st u ns Hn Hst Hu HF. unfold callgrind_ok, print_callgrind, parse_text.
  assert (Hgood : Forall line_good (cg_lines st u ns)).
  { unfold cg_lines. constructor; [split; reflexivity|]. constructor.
    - split; [reflexivity|]. rewrite !nochar_app, (has_nl_nochar st Hst), (has_nl_nochar u Hu). reflexivity.
    - apply nodes_good. exact Hn. }
  rewrite text_lines_render by (intros l Hl; apply line_nonl; rewrite Forall_forall in Hgood; now apply Hgood).
  rewrite (parse_lines_render _ Hgood).
  assert (Hok : nodes_addr_ok ns).
  { intros n Hin. rewrite Forall_forall in Hn. destruct (Hn n Hin) as [_ [_ [_ [Ha He]]]]. split; [exact Ha|].
    intros e Hine. rewrite Forall_forall in He. now destruct (He e Hine) as [_ [_ Hea]]. }
  rewrite (callgrind_decodes_view cg_view eq_refl st u ns Hok HF). apply evs_eqb_refl.
Qed.

(* the hypotheses in the form the case runner evaluates *)
Lemma names_ok_forall : forall st u ns, names_ok st u ns = true -> nodes_addr_ok ns ->
  has_nl st = false /\ has_nl u = false /\ Forall node_names_ok ns.
Proof.
  intros st u ns H Hok. unfold names_ok in H.
  apply andb_prop in H. destruct H as [H Hns]. apply andb_prop in H. destruct H as [Hst Hu].
  apply Bool.negb_true_iff in Hst. apply Bool.negb_true_iff in Hu. split; [exact Hst | split; [exact Hu|]].
  apply Forall_forall. intros n Hin. rewrite forallb_forall in Hns. specialize (Hns n Hin).
  apply andb_prop in Hns. destruct Hns as [Hns He]. apply andb_prop in Hns. destruct Hns as [Hns H3].
  apply andb_prop in Hns. destruct Hns as [H1 H2].
  destruct (Hok n Hin) as [Ha Hea].
  split; [exact H1 | split; [exact H2 | split; [exact H3 | split; [exact Ha|]]]].
  apply Forall_forall. intros e Hine. rewrite forallb_forall in He. specialize (He e Hine).
  apply andb_prop in He. destruct He as [E1 E2]. split; [exact E1 | split; [exact E2 | now apply Hea]].
Qed.

Theorem callgrind_text_reads_back_lemma : forall st u ns,
  names_ok st u ns = true -> nodes_addr_ok ns -> in_F11 ns = false ->
  callgrind_ok ns (print_callgrind st u ns) = true.
Proof.
  intros st u ns Hn Hok HF. destruct (names_ok_forall st u ns Hn Hok) as [H1 [H2 H3]].
  now apply callgrind_text_ok.
Qed.
