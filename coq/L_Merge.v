(* Proofs about the merge model (M_Merge) against the specification (S_Merge).
   Layering (DESIGN 5.22): table invariants (ids are positions, references resolve) ->
   identity preservation by map_function / map_mapping / map_location -> conservation of weights
   by map_sample and the folds -> key distinctness -> header rules. *)
From Coq Require Import List ZArith Lia Bool String Permutation.
From PV Require Import M_Merge S_Merge L_Assoc.
Import ListNotations.
Open Scope Z_scope.
Open Scope list_scope.

(* ------------------------------------------------------------------ int64 congruence *)
Lemma eq64_iff : forall a b, eq64 a b <-> exists k, a = b + k * two64.
Proof.
  intros a b. unfold eq64, wrap_i64. split.
  - intros H.
    assert (E : (a + two63) mod two64 = (b + two63) mod two64) by lia.
    pose proof (Z.div_mod (a + two63) two64) as Ha.
    pose proof (Z.div_mod (b + two63) two64) as Hb.
    unfold two64 in *.
    exists ((a + two63) / 18446744073709551616 - (b + two63) / 18446744073709551616). lia.
  - intros [k ->]. replace (b + k * two64 + two63) with (b + two63 + k * two64) by lia.
    rewrite Z_mod_plus_full. reflexivity.
Qed.

Lemma eq64_refl : forall a, eq64 a a.
Proof. intros a. reflexivity. Qed.
Lemma eq64_sym : forall a b, eq64 a b -> eq64 b a.
Proof. intros a b H. unfold eq64 in *. congruence. Qed.
Lemma eq64_trans : forall a b c, eq64 a b -> eq64 b c -> eq64 a c.
Proof. intros a b c H1 H2. unfold eq64 in *. congruence. Qed.
Lemma eq64_add : forall a b c d, eq64 a b -> eq64 c d -> eq64 (a + c) (b + d).
Proof.
  intros a b c d H1 H2. apply eq64_iff in H1. apply eq64_iff in H2.
  destruct H1 as [k1 ->]. destruct H2 as [k2 ->]. apply eq64_iff. exists (k1 + k2). lia.
Qed.
Lemma eq64_wrap : forall a, eq64 (wrap_i64 a) a.
Proof.
  intros a. apply eq64_iff. unfold wrap_i64.
  pose proof (Z.div_mod (a + two63) two64) as H. unfold two64 in *.
  exists (- ((a + two63) / 18446744073709551616)). lia.
Qed.
Lemma wrap_i64_0 : wrap_i64 0 = 0.
Proof. reflexivity. Qed.

Lemma nth_map_wrap : forall b j, nth j (map wrap_i64 b) 0 = wrap_i64 (nth j b 0).
Proof.
  induction b as [|y b IH]; intros j; destruct j; simpl; try reflexivity. apply IH.
Qed.

Lemma nth_nil0 : forall j, nth j (@nil Z) 0 = 0.
Proof. destruct j; reflexivity. Qed.

Lemma nth_add_vals : forall a b j, eq64 (nth j (add_vals a b) 0) (nth j a 0 + nth j b 0).
Proof.
  induction a as [|x a IH]; intros b j.
  - destruct b as [|y b]; cbn [add_vals].
    + rewrite nth_nil0. apply eq64_refl.
    + rewrite nth_map_wrap, nth_nil0. apply eq64_wrap.
  - destruct b as [|y b]; cbn [add_vals].
    + rewrite nth_nil0, Z.add_0_r. apply eq64_refl.
    + destruct j as [|j]; cbn [nth]; [apply eq64_wrap | apply IH].
Qed.

Lemma zero_sample_nth : forall s j, is_zero_sample s = true -> nth j (s_val s) 0 = 0.
Proof.
  intros s j H. unfold is_zero_sample in H. rewrite forallb_forall in H.
  destruct (nth_in_or_default j (s_val s) 0) as [Hin|Hd]; [|exact Hd].
  apply H in Hin. apply Z.eqb_eq in Hin. exact Hin.
Qed.

(* ------------------------------------------------------------------ key equality tests *)
Lemma fkey_eqb_spec : forall a b, fkey_eqb a b = true <-> a = b.
Proof. intros a b. unfold fkey_eqb. destruct (fkey_dec a b); split; congruence. Qed.
Lemma mkey_eqb_spec : forall a b, mkey_eqb a b = true <-> a = b.
Proof. intros a b. unfold mkey_eqb. destruct (mkey_dec a b); split; congruence. Qed.
Lemma lkey_eqb_spec : forall a b, lkey_eqb a b = true <-> a = b.
Proof. intros a b. unfold lkey_eqb. destruct (lkey_dec a b); split; congruence. Qed.
Lemma skey_eqb_spec : forall a b, skey_eqb a b = true <-> a = b.
Proof. intros a b. unfold skey_eqb. destruct (skey_dec a b); split; congruence. Qed.
Lemma sid_eqb_spec : forall a b, sid_eqb a b = true <-> a = b.
Proof. intros a b. unfold sid_eqb. destruct (sample_ident_dec a b); split; congruence. Qed.

(* ------------------------------------------------------------------ state invariant *)
(* a reference (0 = nil) that resolves in a table whose ids are positions *)
Definition inr {A} (id : Z) (l : list A) : Prop := 0 <= id <= Z.of_nat (List.length l).

Definition loc_refs_ok (st : profile) (l : location) : Prop :=
  inr (l_mapping l) (p_mapping st) /\ Forall (fun ln => inr (ln_fn ln) (p_function st)) (l_lines l).
Definition sample_refs_ok (st : profile) (s : sample) : Prop :=
  Forall (fun id => inr id (p_location st)) (s_loc s).

Record ok (st : profile) : Prop := {
  ok_fn : ids_seq f_id (p_function st);
  ok_mp : ids_seq m_id (p_mapping st);
  ok_lc : ids_seq l_id (p_location st);
  ok_refs : Forall (loc_refs_ok st) (p_location st);
  ok_smp : Forall (sample_refs_ok st) (p_sample st)
}.

(* the three entity tables only grow *)
Record ext (st st' : profile) : Prop := {
  ext_fn : exists a, p_function st' = p_function st ++ a;
  ext_mp : exists a, p_mapping st' = p_mapping st ++ a;
  ext_lc : exists a, p_location st' = p_location st ++ a
}.

Lemma ext_refl : forall st, ext st st.
Proof. intros st. split; exists []; rewrite app_nil_r; reflexivity. Qed.

Lemma ext_trans : forall a b c, ext a b -> ext b c -> ext a c.
Proof.
  intros a b c [[x1 H1] [x2 H2] [x3 H3]] [[y1 G1] [y2 G2] [y3 G3]].
  split; [exists (x1 ++ y1) | exists (x2 ++ y2) | exists (x3 ++ y3)];
    rewrite app_assoc; congruence.
Qed.

Lemma inr_app : forall {A} id (l a : list A), inr id l -> inr id (l ++ a).
Proof. intros A id l a H. unfold inr in *. rewrite app_length. lia. Qed.

Lemma loc_refs_ok_ext : forall st st' l, ext st st' -> loc_refs_ok st l -> loc_refs_ok st' l.
Proof.
  intros st st' l [[a Ha] [b Hb] _] [H1 H2]. split.
  - rewrite Hb. apply inr_app. exact H1.
  - eapply Forall_impl; [|exact H2]. intros ln H. rewrite Ha. apply inr_app. exact H.
Qed.

Lemma sample_refs_ok_ext : forall st st' s, ext st st' -> sample_refs_ok st s -> sample_refs_ok st' s.
Proof.
  intros st st' s [_ _ [c Hc]] H. unfold sample_refs_ok in *.
  eapply Forall_impl; [|exact H]. intros id Hid. rewrite Hc. apply inr_app. exact Hid.
Qed.

(* ------------------------------------------------------------------ lookups are stable *)
Lemma lookup_fn_ext : forall st st' id,
  ok st -> ext st st' -> inr id (p_function st) -> lookup_fn st' id = lookup_fn st id.
Proof.
  intros st st' id Hok [[a Ha] _ _] Hr. unfold lookup_fn, find_function.
  destruct (id =? 0) eqn:E; [reflexivity|]. apply Z.eqb_neq in E.
  rewrite Ha. apply find_id_ext; [apply (ok_fn _ Hok)|]. unfold inr in Hr. lia.
Qed.

Lemma lookup_map_ext : forall st st' id,
  ok st -> ext st st' -> inr id (p_mapping st) -> lookup_map st' id = lookup_map st id.
Proof.
  intros st st' id Hok [_ [a Ha] _] Hr. unfold lookup_map, find_mapping.
  destruct (id =? 0) eqn:E; [reflexivity|]. apply Z.eqb_neq in E.
  rewrite Ha. apply find_id_ext; [apply (ok_mp _ Hok)|]. unfold inr in Hr. lia.
Qed.

Lemma lookup_loc_ext : forall st st' id,
  ok st -> ext st st' -> inr id (p_location st) -> lookup_loc st' id = lookup_loc st id.
Proof.
  intros st st' id Hok [_ _ [a Ha]] Hr. unfold lookup_loc, find_location.
  destruct (id =? 0) eqn:E; [reflexivity|]. apply Z.eqb_neq in E.
  rewrite Ha. apply find_id_ext; [apply (ok_lc _ Hok)|]. unfold inr in Hr. lia.
Qed.

Lemma start_of_ext : forall st st' id,
  ok st -> ext st st' -> inr id (p_mapping st) -> start_of st' id = start_of st id.
Proof. intros. unfold start_of. rewrite (lookup_map_ext st st'); auto. Qed.

Lemma frame_ident_ext : forall st st' l,
  ok st -> ext st st' -> loc_refs_ok st l -> frame_ident_of st' l = frame_ident_of st l.
Proof.
  intros st st' l Hok He [Hm Hl]. unfold frame_ident_of.
  rewrite (lookup_map_ext st st'), (start_of_ext st st') by assumption.
  f_equal. f_equal. apply map_ext_in. intros ln Hin.
  rewrite Forall_forall in Hl. specialize (Hl ln Hin).
  unfold line_ident_of, line_ident_of_slots, line_slots.
  rewrite (lookup_fn_ext st st') by assumption. reflexivity.
Qed.

Lemma lkey_ext : forall st st' l,
  ok st -> ext st st' -> loc_refs_ok st l -> lkey_of st' l = lkey_of st l.
Proof.
  intros st st' l Hok He [Hm Hl]. unfold lkey_of.
  rewrite (start_of_ext st st') by assumption. reflexivity.
Qed.

(* a lookup that succeeds returns a member of the table *)
Lemma lookup_loc_in : forall st id l, lookup_loc st id = Some l -> In l (p_location st).
Proof.
  intros st id l H. unfold lookup_loc, find_location in H.
  destruct (id =? 0); [discriminate|]. apply find_some in H. tauto.
Qed.

Lemma frames_of_id_ext : forall st st' id,
  ok st -> ext st st' -> inr id (p_location st) -> frames_of_id st' id = frames_of_id st id.
Proof.
  intros st st' id Hok He Hr. unfold frames_of_id.
  rewrite (lookup_loc_ext st st') by assumption.
  destruct (lookup_loc st id) as [l|] eqn:E; [|reflexivity].
  rewrite (frame_ident_ext st st'); auto.
  pose proof (ok_refs _ Hok) as Hrefs. rewrite Forall_forall in Hrefs.
  apply Hrefs. eapply lookup_loc_in; eauto.
Qed.

Lemma stack_ident_ext : forall st st' ids,
  ok st -> ext st st' -> Forall (fun id => inr id (p_location st)) ids ->
  stack_ident_of st' ids = stack_ident_of st ids.
Proof.
  intros st st' ids Hok He H. unfold stack_ident_of.
  induction H as [|id r Hid Hr IH]; simpl; [reflexivity|].
  rewrite IH. rewrite (frames_of_id_ext st st'); auto.
Qed.

Lemma sample_ident_ext : forall st st' s,
  ok st -> ext st st' -> sample_refs_ok st s -> sample_ident_of st' s = sample_ident_of st s.
Proof.
  intros st st' s Hok He H. unfold sample_ident_of. rewrite (stack_ident_ext st st'); auto.
Qed.

(* ------------------------------------------------------------------ appending to a table *)
Lemma ext_with_function : forall st a, ext st (with_function st (p_function st ++ a)).
Proof. intros st a. split; cbn; [exists a | exists [] | exists []]; rewrite ?app_nil_r; reflexivity. Qed.
Lemma ext_with_mapping : forall st a, ext st (with_mapping st (p_mapping st ++ a)).
Proof. intros st a. split; cbn; [exists [] | exists a | exists []]; rewrite ?app_nil_r; reflexivity. Qed.
Lemma ext_with_location : forall st a, ext st (with_location st (p_location st ++ a)).
Proof. intros st a. split; cbn; [exists [] | exists [] | exists a]; rewrite ?app_nil_r; reflexivity. Qed.

Lemma next_id_snoc : forall {A} (idf : A -> Z) l x,
  ids_seq idf l -> idf x = next_id l -> ids_seq idf (l ++ [x]).
Proof. intros A idf l x H Hx. apply ids_from_snoc; [exact H|]. unfold next_id in Hx. lia. Qed.

Lemma ok_with_function : forall st x,
  ok st -> f_id x = next_id (p_function st) -> ok (with_function st (p_function st ++ [x])).
Proof.
  intros st x Hok Hx. pose proof (ext_with_function st [x]) as He.
  split; cbn.
  - apply next_id_snoc; [apply (ok_fn _ Hok) | exact Hx].
  - apply (ok_mp _ Hok).
  - apply (ok_lc _ Hok).
  - eapply Forall_impl; [|apply (ok_refs _ Hok)]. intros l Hl. eapply loc_refs_ok_ext; eauto.
  - eapply Forall_impl; [|apply (ok_smp _ Hok)]. intros s Hs. eapply sample_refs_ok_ext; eauto.
Qed.

Lemma ok_with_mapping : forall st x,
  ok st -> m_id x = next_id (p_mapping st) -> ok (with_mapping st (p_mapping st ++ [x])).
Proof.
  intros st x Hok Hx. pose proof (ext_with_mapping st [x]) as He.
  split; cbn.
  - apply (ok_fn _ Hok).
  - apply next_id_snoc; [apply (ok_mp _ Hok) | exact Hx].
  - apply (ok_lc _ Hok).
  - eapply Forall_impl; [|apply (ok_refs _ Hok)]. intros l Hl. eapply loc_refs_ok_ext; eauto.
  - eapply Forall_impl; [|apply (ok_smp _ Hok)]. intros s Hs. eapply sample_refs_ok_ext; eauto.
Qed.

Lemma ok_with_location : forall st x,
  ok st -> l_id x = next_id (p_location st) -> loc_refs_ok st x ->
  ok (with_location st (p_location st ++ [x])).
Proof.
  intros st x Hok Hx Hrefs. pose proof (ext_with_location st [x]) as He.
  split; cbn.
  - apply (ok_fn _ Hok).
  - apply (ok_mp _ Hok).
  - apply next_id_snoc; [apply (ok_lc _ Hok) | exact Hx].
  - apply Forall_app. split.
    + eapply Forall_impl; [|apply (ok_refs _ Hok)]. intros l Hl. eapply loc_refs_ok_ext; eauto.
    + constructor; [|constructor]. eapply loc_refs_ok_ext; eauto.
  - eapply Forall_impl; [|apply (ok_smp _ Hok)]. intros s Hs. eapply sample_refs_ok_ext; eauto.
Qed.

(* ------------------------------------------------------------------ mapFunction *)
Lemma map_function_rec_spec : forall st f st' g,
  ok st -> map_function_rec st f = (st', g) ->
  ok st' /\ ext st st' /\ p_sample st' = p_sample st /\ p_location st' = p_location st /\
  p_mapping st' = p_mapping st /\ 1 <= g <= Z.of_nat (List.length (p_function st')) /\
  exists gf, lookup_fn st' g = Some gf /\ fkey_of gf = fkey_of f.
Proof.
  intros st f st' g Hok H. unfold map_function_rec in H.
  destruct (find (fun g0 => fkey_eqb (fkey_of g0) (fkey_of f)) (p_function st)) as [g0|] eqn:E.
  - inversion H; subst. clear H.
    apply find_some in E. destruct E as [Hin Hk]. apply fkey_eqb_spec in Hk.
    pose proof (ids_from_in f_id _ 1 g0 (ok_fn _ Hok) Hin) as Hr.
    split; [exact Hok|]. split; [apply ext_refl|]. do 3 (split; [reflexivity|]). split; [lia|].
    exists g0. split; [|exact Hk]. unfold lookup_fn, find_function.
    replace (f_id g0 =? 0) with false by (symmetry; apply Z.eqb_neq; lia).
    eapply find_id_in; [apply (ok_fn _ Hok) | exact Hin].
  - inversion H; subst. clear H.
    set (x := new_function (next_id (p_function st)) f).
    assert (Hx : f_id x = next_id (p_function st)) by reflexivity.
    split; [apply ok_with_function; assumption|]. split; [apply ext_with_function|].
    do 3 (split; [reflexivity|]). cbn.
    split; [rewrite app_length; cbn; unfold next_id; lia|].
    { exists x. split; [|reflexivity]. unfold lookup_fn, find_function. cbn.
      replace (next_id (p_function st) =? 0) with false
        by (symmetry; apply Z.eqb_neq; unfold next_id; lia).
      rewrite <- Hx. apply find_id_snoc_new; [apply (ok_fn _ Hok) | rewrite Hx; unfold next_id; lia]. }
Qed.

Lemma map_function_spec : forall st src fid st' g,
  ok st -> map_function st src fid = (st', g) ->
  ok st' /\ ext st st' /\ p_sample st' = p_sample st /\ p_location st' = p_location st /\
  p_mapping st' = p_mapping st /\ inr g (p_function st') /\
  option_map fkey_of (lookup_fn st' g) = option_map fkey_of (lookup_fn src fid).
Proof.
  intros st src fid st' g Hok H. unfold map_function in H.
  destruct (lookup_fn src fid) as [f|] eqn:E.
  - destruct (map_function_rec_spec _ _ _ _ Hok H) as (H1 & H2 & H3 & H4 & H5 & H6 & gf & H7 & H8).
    split; [exact H1|]. split; [exact H2|]. do 3 (split; [assumption|]).
    split; [unfold inr; lia|]. rewrite H7. cbn. congruence.
  - inversion H; subst. split; [exact Hok|]. split; [apply ext_refl|]. do 3 (split; [reflexivity|]).
    split; [unfold inr; lia | reflexivity].
Qed.

(* ------------------------------------------------------------------ mapMapping *)
Lemma wrap_u64_shift : forall x y k, x = y + k * two64 -> wrap_u64 x = wrap_u64 y.
Proof. intros x y k ->. unfold wrap_u64. apply Z_mod_plus_full. Qed.

Lemma rebase_addr : forall a g m,
  wrap_u64 (wrap_u64 (a + wrap_i64 (g - m)) - g) = wrap_u64 (a - m).
Proof.
  intros a g m. unfold wrap_i64.
  pose proof (Z.div_mod (g - m + two63) two64) as H1.
  set (X := a + ((g - m + two63) mod two64 - two63)).
  pose proof (Z.div_mod X two64) as H2.
  apply (wrap_u64_shift _ _ (- (X / two64) - ((g - m + two63) / two64))).
  unfold wrap_u64. unfold X in *. unfold two64 in *. lia.
Qed.

Lemma rebase_addr0 : forall a s, wrap_u64 (wrap_u64 (a + 0) - s) = wrap_u64 (a - s).
Proof.
  intros a s. pose proof (Z.div_mod a two64) as H.
  apply (wrap_u64_shift _ _ (- (a / two64))). unfold wrap_u64. rewrite Z.add_0_r.
  unfold two64 in *. lia.
Qed.

Lemma map_mapping_rec_spec : forall st m st' g off,
  ok st -> map_mapping_rec st m = (st', (g, off)) ->
  ok st' /\ ext st st' /\ p_sample st' = p_sample st /\ p_location st' = p_location st /\
  p_function st' = p_function st /\ 1 <= g <= Z.of_nat (List.length (p_mapping st')) /\
  exists gm, lookup_map st' g = Some gm /\ mkey_of gm = mkey_of m /\
             forall a, wrap_u64 (wrap_u64 (a + off) - m_start gm) = wrap_u64 (a - m_start m).
Proof.
  intros st m st' g off Hok H. unfold map_mapping_rec in H.
  destruct (find (fun g0 => mkey_eqb (mkey_of g0) (mkey_of m)) (p_mapping st)) as [g0|] eqn:E.
  - inversion H; subst. clear H.
    apply find_some in E. destruct E as [Hin Hk]. apply mkey_eqb_spec in Hk.
    pose proof (ids_from_in m_id _ 1 g0 (ok_mp _ Hok) Hin) as Hr.
    split; [exact Hok|]. split; [apply ext_refl|]. do 3 (split; [reflexivity|]). split; [lia|].
    exists g0. split; [|split; [exact Hk | intros a; apply rebase_addr]].
    unfold lookup_map, find_mapping.
    replace (m_id g0 =? 0) with false by (symmetry; apply Z.eqb_neq; lia).
    eapply find_id_in; [apply (ok_mp _ Hok) | exact Hin].
  - inversion H; subst. clear H.
    set (x := new_mapping (next_id (p_mapping st)) m).
    assert (Hx : m_id x = next_id (p_mapping st)) by reflexivity.
    split; [apply ok_with_mapping; assumption|]. split; [apply ext_with_mapping|].
    do 3 (split; [reflexivity|]). cbn.
    split; [rewrite app_length; cbn; unfold next_id; lia|].
    { exists x. split; [|split; [reflexivity | intros a; apply rebase_addr0]].
      unfold lookup_map, find_mapping. cbn.
      replace (next_id (p_mapping st) =? 0) with false
        by (symmetry; apply Z.eqb_neq; unfold next_id; lia).
      rewrite <- Hx. apply find_id_snoc_new; [apply (ok_mp _ Hok) | rewrite Hx; unfold next_id; lia]. }
Qed.

Lemma map_mapping_spec : forall st src mid st' g off,
  ok st -> map_mapping st src mid = (st', (g, off)) ->
  ok st' /\ ext st st' /\ p_sample st' = p_sample st /\ p_location st' = p_location st /\
  p_function st' = p_function st /\ inr g (p_mapping st') /\
  option_map mkey_of (lookup_map st' g) = option_map mkey_of (lookup_map src mid) /\
  forall a, wrap_u64 (wrap_u64 (a + off) - start_of st' g) = wrap_u64 (a - start_of src mid).
Proof.
  intros st src mid st' g off Hok H. unfold map_mapping in H. unfold start_of.
  destruct (lookup_map src mid) as [m|] eqn:E.
  - destruct (map_mapping_rec_spec _ _ _ _ _ Hok H) as (H1 & H2 & H3 & H4 & H5 & H6 & gm & H7 & H8 & H9).
    split; [exact H1|]. split; [exact H2|]. do 3 (split; [assumption|]).
    split; [unfold inr; lia|]. rewrite H7. split; [cbn; congruence | exact H9].
  - inversion H; subst. split; [exact Hok|]. split; [apply ext_refl|]. do 3 (split; [reflexivity|]).
    split; [unfold inr; lia|]. split; [reflexivity|].
    intros a. unfold lookup_map. cbn. apply rebase_addr0.
Qed.

(* ------------------------------------------------------------------ mapLine *)
Lemma map_lines_spec : forall src lns st st' lns',
  ok st -> map_lines st src lns = (st', lns') ->
  ok st' /\ ext st st' /\ p_sample st' = p_sample st /\ p_location st' = p_location st /\
  p_mapping st' = p_mapping st /\
  Forall (fun ln => inr (ln_fn ln) (p_function st')) lns' /\
  map (line_ident_of st') lns' = map (line_ident_of src) lns.
Proof.
  intros src. induction lns as [|ln r IH]; intros st st' lns' Hok H; cbn [map_lines] in H.
  - inversion H; subst. split; [exact Hok|]. split; [apply ext_refl|]. do 3 (split; [reflexivity|]).
    split; [constructor | reflexivity].
  - destruct (map_function st src (ln_fn ln)) as [st1 fid] eqn:E1.
    destruct (map_lines st1 src r) as [st2 r'] eqn:E2.
    inversion H; subst. clear H.
    destruct (map_function_spec _ _ _ _ _ Hok E1) as (A1 & A2 & A3 & A4 & A5 & A6 & A7).
    destruct (IH _ _ _ A1 E2) as (B1 & B2 & B3 & B4 & B5 & B6 & B7).
    split; [exact B1|]. split; [eapply ext_trans; eauto|].
    do 3 (split; [congruence|]).
    split.
    + constructor; [|exact B6]. cbn. destruct B2 as [[a Ha] _ _]. rewrite Ha. apply inr_app. exact A6.
    + cbn [map]. rewrite B7. f_equal.
      unfold line_ident_of, line_ident_of_slots, line_slots. cbn.
      rewrite (lookup_fn_ext st1 st') by assumption. rewrite A7. reflexivity.
Qed.

(* ------------------------------------------------------------------ mapLocation *)
Definition ident_of_lkey (p : profile) (k : lkey) : frame_ident :=
  let '(rel, mid, slots, folded) := k in
  (option_map mkey_of (lookup_map p mid), rel, map (line_ident_of_slots p) slots, folded).

Lemma frame_ident_lkey : forall p l, frame_ident_of p l = ident_of_lkey p (lkey_of p l).
Proof. intros p l. unfold frame_ident_of, ident_of_lkey, lkey_of. rewrite map_map. reflexivity. Qed.

Lemma map_location_rec_spec : forall st src l st' g,
  ok st -> map_location_rec st src l = (st', g) ->
  ok st' /\ ext st st' /\ p_sample st' = p_sample st /\
  1 <= g <= Z.of_nat (List.length (p_location st')) /\
  exists gl, lookup_loc st' g = Some gl /\ frame_ident_of st' gl = frame_ident_of src l.
Proof.
  intros st src l st' g Hok H. unfold map_location_rec in H.
  destruct (map_mapping st src (l_mapping l)) as [st1 [mid off]] eqn:E1.
  destruct (map_lines st1 src (l_lines l)) as [st2 lines] eqn:E2.
  destruct (map_mapping_spec _ _ _ _ _ _ Hok E1) as (A1 & A2 & A3 & A4 & A5 & A6 & A7 & A8).
  destruct (map_lines_spec _ _ _ _ _ A1 E2) as (B1 & B2 & B3 & B4 & B5 & B6 & B7).
  set (l' := {| l_id := next_id (p_location st1); l_mapping := mid; l_addr := wrap_u64 (l_addr l + off);
                l_lines := lines; l_folded := l_folded l |}) in *.
  assert (Hrefs : loc_refs_ok st2 l').
  { split; cbn; [rewrite B5; exact A6 | exact B6]. }
  assert (Hident : frame_ident_of st2 l' = frame_ident_of src l).
  { unfold frame_ident_of. cbn.
    rewrite (lookup_map_ext st1 st2), (start_of_ext st1 st2) by assumption.
    rewrite A7, A8, B7. reflexivity. }
  assert (Hext : ext st st2) by (eapply ext_trans; eauto).
  destruct (find (fun g0 => lkey_eqb (lkey_of st2 g0) (lkey_of st2 l')) (p_location st2)) as [g0|] eqn:E.
  - inversion H; subst. clear H.
    apply find_some in E. destruct E as [Hin Hk]. apply lkey_eqb_spec in Hk.
    pose proof (ids_from_in l_id _ 1 g0 (ok_lc _ B1) Hin) as Hr.
    split; [exact B1|]. split; [exact Hext|]. split; [congruence|]. split; [lia|].
    exists g0. split.
    + unfold lookup_loc, find_location.
      replace (l_id g0 =? 0) with false by (symmetry; apply Z.eqb_neq; lia).
      eapply find_id_in; [apply (ok_lc _ B1) | exact Hin].
    + rewrite frame_ident_lkey, Hk, <- frame_ident_lkey. exact Hident.
  - inversion H; subst. clear H.
    assert (Hx : l_id l' = next_id (p_location st2)) by (cbn; rewrite B4; reflexivity).
    split; [apply ok_with_location; assumption|].
    split; [eapply ext_trans; [exact Hext | apply ext_with_location]|].
    split; [cbn; congruence|]. cbn.
    split; [rewrite B4, app_length; cbn; unfold next_id; lia|].
    exists l'. split.
    + unfold lookup_loc, find_location. cbn.
      replace (next_id (p_location st1) =? 0) with false
        by (symmetry; apply Z.eqb_neq; unfold next_id; lia).
      change (next_id (p_location st1)) with (l_id l').
      apply find_id_snoc_new; [apply (ok_lc _ B1) | rewrite Hx; unfold next_id; lia].
    + exact Hident.
Qed.

Lemma map_location_spec : forall st src lid st' g,
  ok st -> map_location st src lid = (st', g) ->
  ok st' /\ ext st st' /\ p_sample st' = p_sample st /\ inr g (p_location st') /\
  frames_of_id st' g = frames_of_id src lid.
Proof.
  intros st src lid st' g Hok H. unfold map_location in H. unfold frames_of_id at 2.
  destruct (lookup_loc src lid) as [l|] eqn:E.
  - destruct (map_location_rec_spec _ _ _ _ _ Hok H) as (H1 & H2 & H3 & H4 & gl & H5 & H6).
    split; [exact H1|]. split; [exact H2|]. split; [exact H3|]. split; [unfold inr; lia|].
    unfold frames_of_id. rewrite H5, H6. reflexivity.
  - inversion H; subst. split; [exact Hok|]. split; [apply ext_refl|]. split; [reflexivity|].
    split; [unfold inr; lia | reflexivity].
Qed.

Lemma map_locs_spec : forall src ids st st' ids',
  ok st -> map_locs st src ids = (st', ids') ->
  ok st' /\ ext st st' /\ p_sample st' = p_sample st /\
  Forall (fun id => inr id (p_location st')) ids' /\
  stack_ident_of st' ids' = stack_ident_of src ids.
Proof.
  intros src. induction ids as [|id r IH]; intros st st' ids' Hok H; cbn [map_locs] in H.
  - inversion H; subst. split; [exact Hok|]. split; [apply ext_refl|]. split; [reflexivity|].
    split; [constructor | reflexivity].
  - destruct (map_location st src id) as [st1 id'] eqn:E1.
    destruct (map_locs st1 src r) as [st2 r'] eqn:E2.
    inversion H; subst. clear H.
    destruct (map_location_spec _ _ _ _ _ Hok E1) as (A1 & A2 & A3 & A4 & A5).
    destruct (IH _ _ _ A1 E2) as (B1 & B2 & B3 & B4 & B5).
    split; [exact B1|]. split; [eapply ext_trans; eauto|]. split; [congruence|].
    split.
    + constructor; [|exact B4]. destruct B2 as [_ _ [a Ha]]. rewrite Ha. apply inr_app. exact A4.
    + unfold stack_ident_of in *. cbn [flat_map]. rewrite B5.
      rewrite (frames_of_id_ext st1 st') by assumption. rewrite A5. reflexivity.
Qed.

(* ------------------------------------------------------------------ mapSample *)
Lemma assoc_units_new : forall U NL k,
  In k (map fst NL) ->
  assoc_units k (map (fun e : string * list Z => (fst e, assoc_units (fst e) U)) NL) = assoc_units k U.
Proof.
  intros U. induction NL as [|[k' v] r IH]; intros k Hin; cbn in *.
  - contradiction.
  - destruct (String.eqb k k') eqn:E.
    + apply String.eqb_eq in E. subst. reflexivity.
    + apply IH. destruct Hin as [H|H]; [|exact H]. subst. rewrite String.eqb_refl in E. discriminate.
Qed.

Lemma numlabels_new_sample : forall locs s,
  numlabels_with_units (new_sample locs s) = numlabels_with_units s.
Proof.
  intros locs s. unfold numlabels_with_units. cbn. apply map_ext_in. intros e He.
  rewrite assoc_units_new; [reflexivity|]. apply in_map. exact He.
Qed.

Lemma stack_ident_filter : forall p ids,
  stack_ident_of p (filter (fun id => negb (id =? 0)) ids) = stack_ident_of p ids.
Proof.
  intros p. unfold stack_ident_of. induction ids as [|id r IH]; cbn; [reflexivity|].
  destruct (id =? 0) eqn:E; cbn.
  - apply Z.eqb_eq in E. subst. unfold frames_of_id, lookup_loc. cbn. exact IH.
  - rewrite IH. reflexivity.
Qed.

(* equal sample keys => equal identities (the easy direction: identities are functions of ids) *)
Lemma skey_ident : forall p ss locs s,
  skey_of_sample ss = skey_of locs s ->
  sample_ident_of p ss = sample_ident_of p (new_sample locs s).
Proof.
  intros p ss locs s H. unfold skey_of_sample, skey_of in H. inversion H as [[H1 H2 H3]].
  unfold sample_ident_of, labels_ident_of. rewrite numlabels_new_sample. cbn [s_loc s_label new_sample].
  rewrite <- (stack_ident_filter p (s_loc ss)), <- (stack_ident_filter p locs), H1, H2, H3.
  reflexivity.
Qed.

Lemma sumZ_app : forall a b, sumZ (a ++ b) = sumZ a + sumZ b.
Proof.
  induction a as [|x a IH]; intros b; [reflexivity|].
  change (sumZ ((x :: a) ++ b)) with (x + sumZ (a ++ b)). rewrite IH.
  change (sumZ (x :: a)) with (x + sumZ a). lia.
Qed.

(* weights selected by an arbitrary predicate on identities: [wt] (one identity) and [total]
   (all of them) are instances *)
Definition wsel (p : profile) (l : list sample) (pr : sample_ident -> bool) (j : nat) : Z :=
  sumZ (map (fun s => if pr (sample_ident_of p s) then nth j (s_val s) 0 else 0) l).
Definition ws (p : profile) (pr : sample_ident -> bool) (j : nat) : Z := wsel p (p_sample p) pr j.

Lemma wt_ws : forall p k j, wt p k j = ws p (fun i => sid_eqb i k) j.
Proof. reflexivity. Qed.
Lemma total_ws : forall p j, total p j = ws p (fun _ => true) j.
Proof. reflexivity. Qed.

Lemma wsel_app : forall p l l' pr j, wsel p (l ++ l') pr j = wsel p l pr j + wsel p l' pr j.
Proof. intros. unfold wsel. rewrite map_app, sumZ_app. reflexivity. Qed.

Lemma wsel_ext : forall st st' l pr j,
  ok st -> ext st st' -> Forall (sample_refs_ok st) l -> wsel st' l pr j = wsel st l pr j.
Proof.
  intros st st' l pr j Hok He H. unfold wsel. f_equal. apply map_ext_in. intros s Hs.
  rewrite Forall_forall in H. rewrite (sample_ident_ext st st'); auto.
Qed.

Lemma sumZ_cons : forall x l, sumZ (x :: l) = x + sumZ l.
Proof. reflexivity. Qed.

Lemma eq64_by : forall a b k, a = b + k * two64 -> eq64 a b.
Proof. intros a b k H. apply eq64_iff. exists k. exact H. Qed.

Lemma wsel_upd_first : forall p hit v k0 pr j l,
  (forall ss, In ss l -> hit ss = true -> sample_ident_of p ss = k0) ->
  eq64 (wsel p (upd_first hit (add_to_sample v) l) pr j)
       (wsel p l pr j + (if existsb hit l then (if pr k0 then nth j v 0 else 0) else 0)).
Proof.
  intros p hit v k0 pr j. induction l as [|x r IH]; intros Hhit.
  - cbn. apply eq64_refl.
  - cbn [upd_first existsb]. destruct (hit x) eqn:E; cbn [orb]; unfold wsel in *; cbn [map];
      rewrite !sumZ_cons.
    + change (sample_ident_of p (add_to_sample v x)) with (sample_ident_of p x).
      rewrite (Hhit x (or_introl eq_refl) E).
      destruct (pr k0).
      * cbn [s_val add_to_sample].
        pose proof (nth_add_vals (s_val x) v j) as Hn. apply eq64_iff in Hn. destruct Hn as [q Hq].
        apply (eq64_by _ _ q). lia.
      * rewrite Z.add_0_r. apply eq64_refl.
    + assert (IH' := IH (fun ss Hin => Hhit ss (or_intror Hin))).
      apply eq64_iff in IH'. destruct IH' as [q Hq]. apply (eq64_by _ _ q). lia.
Qed.

Lemma Forall_upd_first : forall {A} (P : A -> Prop) pred f l,
  (forall x, P x -> P (f x)) -> Forall P l -> Forall P (upd_first pred f l).
Proof.
  intros A P pred f l Hf H. induction H as [|x r Hx Hr IH]; cbn; [constructor|].
  destruct (pred x); constructor; auto.
Qed.

Lemma ext_with_sample : forall st x, ext st (with_sample st x).
Proof. intros st x. split; cbn; exists []; rewrite app_nil_r; reflexivity. Qed.

Definition contrib (src : profile) (s : sample) (pr : sample_ident -> bool) (j : nat) : Z :=
  if pr (sample_ident_of src s) then nth j (s_val s) 0 else 0.

Lemma map_sample_spec : forall st src s,
  ok st ->
  ok (map_sample st src s) /\ ext st (map_sample st src s) /\
  forall pr j, eq64 (ws (map_sample st src s) pr j) (ws st pr j + contrib src s pr j).
Proof.
  intros st src s Hok. unfold map_sample.
  destruct (map_locs st src (s_loc s)) as [st1 locs] eqn:E.
  destruct (map_locs_spec _ _ _ _ _ Hok E) as (A1 & A2 & A3 & A4 & A5).
  set (hit := fun ss => skey_eqb (skey_of_sample ss) (skey_of locs s)).
  assert (Hk0 : sample_ident_of st1 (new_sample locs s) = sample_ident_of src s).
  { unfold sample_ident_of, labels_ident_of. rewrite numlabels_new_sample. cbn [s_loc s_label new_sample].
    rewrite A5. reflexivity. }
  assert (Hsm : Forall (sample_refs_ok st1) (p_sample st1)).
  { rewrite A3. eapply Forall_impl; [|apply (ok_smp _ Hok)]. intros x Hx. eapply sample_refs_ok_ext; eauto. }
  assert (Hwt : forall pr j, wsel st1 (p_sample st1) pr j = ws st pr j).
  { intros pr j. rewrite A3. unfold ws. apply wsel_ext; auto. apply (ok_smp _ Hok). }
  destruct (existsb hit (p_sample st1)) eqn:Ex.
  - split; [|split].
    + split; cbn; try apply A1.
      apply Forall_upd_first; [|exact Hsm]. intros x Hx. exact Hx.
    + eapply ext_trans; [exact A2 | apply ext_with_sample].
    + intros pr j. unfold ws. cbn [p_sample with_sample].
      change (wsel (with_sample st1 (upd_first hit (add_to_sample (s_val s)) (p_sample st1))))
        with (wsel st1).
      eapply eq64_trans.
      * apply (wsel_upd_first st1 hit (s_val s) (sample_ident_of src s)).
        intros ss _ Hh. unfold hit in Hh. apply skey_eqb_spec in Hh.
        rewrite (skey_ident st1 ss locs s Hh). exact Hk0.
      * rewrite Ex, Hwt. unfold contrib. apply eq64_refl.
  - split; [|split].
    + split; cbn; try apply A1.
      apply Forall_app. split; [exact Hsm|]. constructor; [|constructor]. exact A4.
    + eapply ext_trans; [exact A2 | apply ext_with_sample].
    + intros pr j. unfold ws. cbn [p_sample with_sample].
      change (wsel (with_sample st1 (p_sample st1 ++ [new_sample locs s]))) with (wsel st1).
      rewrite wsel_app, Hwt. unfold wsel at 1. cbn [map sumZ fold_right].
      rewrite Hk0. unfold contrib. cbn [s_val new_sample]. rewrite Z.add_0_r. apply eq64_refl.
Qed.

Lemma merge_sample_spec : forall st src s,
  ok st ->
  ok (merge_sample src st s) /\ ext st (merge_sample src st s) /\
  forall pr j, eq64 (ws (merge_sample src st s) pr j) (ws st pr j + contrib src s pr j).
Proof.
  intros st src s Hok. unfold merge_sample. destruct (is_zero_sample s) eqn:E.
  - split; [exact Hok|]. split; [apply ext_refl|]. intros pr j. unfold contrib.
    rewrite (zero_sample_nth s j E). destruct (pr _); rewrite Z.add_0_r; apply eq64_refl.
  - apply map_sample_spec. exact Hok.
Qed.

Lemma wsel_contrib : forall src l pr j, wsel src l pr j = sumZ (map (fun s => contrib src s pr j) l).
Proof. reflexivity. Qed.

Lemma merge_samples_spec : forall src l st,
  ok st ->
  ok (fold_left (merge_sample src) l st) /\ ext st (fold_left (merge_sample src) l st) /\
  forall pr j, eq64 (ws (fold_left (merge_sample src) l st) pr j) (ws st pr j + wsel src l pr j).
Proof.
  intros src. induction l as [|s r IH]; intros st Hok; cbn [fold_left].
  - split; [exact Hok|]. split; [apply ext_refl|]. intros pr j. unfold wsel. cbn.
    rewrite Z.add_0_r. apply eq64_refl.
  - destruct (merge_sample_spec st src s Hok) as (A1 & A2 & A3).
    destruct (IH _ A1) as (B1 & B2 & B3).
    split; [exact B1|]. split; [eapply ext_trans; eauto|]. intros pr j.
    pose proof (B3 pr j) as H1. pose proof (A3 pr j) as H2.
    apply eq64_iff in H1. destruct H1 as [q1 H1]. apply eq64_iff in H2. destruct H2 as [q2 H2].
    rewrite !wsel_contrib in *. cbn [map]. rewrite sumZ_cons.
    apply (eq64_by _ _ (q1 + q2)). lia.
Qed.

Lemma eager_first_mapping_spec : forall st src,
  ok st ->
  ok (eager_first_mapping st src) /\ ext st (eager_first_mapping st src) /\
  p_sample (eager_first_mapping st src) = p_sample st.
Proof.
  intros st src Hok. unfold eager_first_mapping.
  destruct (p_mapping st) eqn:E1; [|auto using ext_refl].
  destruct (p_mapping src) as [|m r] eqn:E2; [auto using ext_refl|].
  destruct (map_mapping_rec st m) as [st1 [g off]] eqn:E3.
  destruct (map_mapping_rec_spec _ _ _ _ _ Hok E3) as (A1 & A2 & A3 & _).
  cbn. auto.
Qed.

Lemma merge_src_spec : forall st src,
  ok st ->
  ok (merge_src st src) /\ ext st (merge_src st src) /\
  forall pr j, eq64 (ws (merge_src st src) pr j) (ws st pr j + ws src pr j).
Proof.
  intros st src Hok. unfold merge_src.
  destruct (eager_first_mapping_spec st src Hok) as (A1 & A2 & A3).
  destruct (merge_samples_spec src (p_sample src) _ A1) as (B1 & B2 & B3).
  split; [exact B1|]. split; [eapply ext_trans; eauto|]. intros pr j.
  assert (Hw : ws (eager_first_mapping st src) pr j = ws st pr j).
  { unfold ws. rewrite A3. apply wsel_ext; auto. apply (ok_smp _ Hok). }
  pose proof (B3 pr j) as H1. rewrite Hw in H1. exact H1.
Qed.

Lemma merge_srcs_spec : forall srcs st,
  ok st ->
  ok (fold_left merge_src srcs st) /\ ext st (fold_left merge_src srcs st) /\
  forall pr j, eq64 (ws (fold_left merge_src srcs st) pr j) (ws st pr j + sumZ (map (fun p => ws p pr j) srcs)).
Proof.
  induction srcs as [|p r IH]; intros st Hok; cbn [fold_left].
  - split; [exact Hok|]. split; [apply ext_refl|]. intros pr j. cbn. rewrite Z.add_0_r. apply eq64_refl.
  - destruct (merge_src_spec st p Hok) as (A1 & A2 & A3).
    destruct (IH _ A1) as (B1 & B2 & B3).
    split; [exact B1|]. split; [eapply ext_trans; eauto|]. intros pr j.
    pose proof (B3 pr j) as H1. pose proof (A3 pr j) as H2.
    apply eq64_iff in H1. destruct H1 as [q1 H1]. apply eq64_iff in H2. destruct H2 as [q2 H2].
    cbn [map]. rewrite sumZ_cons.
    apply (eq64_by _ _ (q1 + q2)). lia.
Qed.

Lemma ok_combine_headers : forall p0 srcs, ok (combine_headers p0 srcs).
Proof.
  intros. split; cbn; try apply ids_from_nil; constructor.
Qed.

Lemma merge_pass_ws : forall ps q,
  merge_pass ps = MOk q -> forall pr j, eq64 (ws q pr j) (sumZ (map (fun p => ws p pr j) ps)).
Proof.
  intros ps q H pr j. unfold merge_pass in H. destruct ps as [|p0 rest]; [discriminate|].
  destruct (compat_all p0 rest); try discriminate. inversion H; subst. clear H.
  destruct (merge_srcs_spec (p0 :: rest) _ (ok_combine_headers p0 (p0 :: rest))) as (_ & _ & A).
  eapply eq64_trans; [apply A|]. apply eq64_refl.
Qed.

Lemma merge_fuel_ws : forall n ps q,
  merge_fuel n ps = MOk q -> forall pr j, eq64 (ws q pr j) (sumZ (map (fun p => ws p pr j) ps)).
Proof.
  induction n as [|n IH]; intros ps q H pr j; cbn [merge_fuel] in H.
  - destruct (merge_pass ps) as [p| | |] eqn:E; try discriminate.
    destruct (existsb is_zero_sample (p_sample p)); [discriminate|]. inversion H; subst.
    eapply merge_pass_ws; eauto.
  - destruct (merge_pass ps) as [p| | |] eqn:E; try discriminate.
    destruct (existsb is_zero_sample (p_sample p)).
    + eapply eq64_trans; [eapply IH; eauto|]. cbn [map]. rewrite sumZ_cons. cbn [sumZ fold_right].
      rewrite Z.add_0_r. eapply merge_pass_ws; eauto.
    + inversion H; subst. eapply merge_pass_ws; eauto.
Qed.

(* C03, conservation: for every (stack, label set) identity and every sample-type column, the
   weight in the result is the int64 sum of the weights in the inputs *)
Theorem merge_conserves_lemma : forall ps q,
  merge ps = MOk q -> forall k j, eq64 (wt q k j) (sumZ (map (fun p => wt p k j) ps)).
Proof. intros ps q H k j. exact (merge_fuel_ws 2 ps q H (fun i => sid_eqb i k) j). Qed.

Theorem totals_conserved_lemma : forall ps q,
  merge ps = MOk q -> forall j, eq64 (total q j) (sumZ (map (fun p => total p j) ps)).
Proof. intros ps q H j. exact (merge_fuel_ws 2 ps q H (fun _ => true) j). Qed.

(* the result never contains an all-zero sample *)
Theorem merge_no_zero_lemma : forall ps q,
  merge ps = MOk q -> forall s, In s (p_sample q) -> is_zero_sample s = false.
Proof.
  assert (G : forall n ps q, merge_fuel n ps = MOk q -> existsb is_zero_sample (p_sample q) = false).
  { induction n as [|n IH]; intros ps q H; cbn [merge_fuel] in H;
      destruct (merge_pass ps) as [p| | |] eqn:E; try discriminate;
      destruct (existsb is_zero_sample (p_sample p)) eqn:Z; try discriminate.
    - inversion H; subst. exact Z.
    - eapply IH; eauto.
    - inversion H; subst. exact Z. }
  intros ps q H s Hin. specialize (G 2%nat ps q H).
  destruct (is_zero_sample s) eqn:E; [|reflexivity].
  assert (existsb is_zero_sample (p_sample q) = true) by (apply existsb_exists; eauto). congruence.
Qed.

(* order independence of the weights *)
Lemma sumZ_perm : forall a b, Permutation a b -> sumZ a = sumZ b.
Proof.
  intros a b H. induction H as [| x l l' _ IH | x y l | l l' l'' _ IH1 _ IH2].
  - reflexivity.
  - rewrite !sumZ_cons, IH. reflexivity.
  - rewrite !sumZ_cons. lia.
  - congruence.
Qed.

Theorem merge_perm_lemma : forall ps ps' q q',
  Permutation ps ps' -> merge ps = MOk q -> merge ps' = MOk q' ->
  forall k j, eq64 (wt q k j) (wt q' k j).
Proof.
  intros ps ps' q q' Hp H H' k j.
  eapply eq64_trans; [eapply merge_conserves_lemma; eauto|].
  apply eq64_sym. eapply eq64_trans; [eapply merge_conserves_lemma; eauto|].
  rewrite (sumZ_perm _ _ (Permutation_map (fun p => wt p k j) Hp)). apply eq64_refl.
Qed.

(* ------------------------------------------------------------------ the header is untouched by the
   entity/sample phase *)
Definition hdr (p : profile) :=
  (p_sampletype p, p_defaultsampletype p, p_comments p, p_docurl p, p_dropframes p, p_keepframes p,
   p_timenanos p, p_durationnanos p, p_periodtype p, p_period p).

Lemma hdr_map_function : forall st src fid st' g, map_function st src fid = (st', g) -> hdr st' = hdr st.
Proof.
  intros st src fid st' g H. unfold map_function, map_function_rec in H.
  destruct (lookup_fn src fid); [|inversion H; reflexivity].
  destruct (find _ _); inversion H; reflexivity.
Qed.

Lemma hdr_map_mapping_rec : forall st m st' r, map_mapping_rec st m = (st', r) -> hdr st' = hdr st.
Proof.
  intros st m st' r H. unfold map_mapping_rec in H. destruct (find _ _); inversion H; reflexivity.
Qed.

Lemma hdr_map_mapping : forall st src mid st' r, map_mapping st src mid = (st', r) -> hdr st' = hdr st.
Proof.
  intros st src mid st' r H. unfold map_mapping in H.
  destruct (lookup_map src mid); [eapply hdr_map_mapping_rec; eauto | inversion H; reflexivity].
Qed.

Lemma hdr_map_lines : forall src lns st st' r, map_lines st src lns = (st', r) -> hdr st' = hdr st.
Proof.
  intros src. induction lns as [|ln lns IH]; intros st st' r H; cbn [map_lines] in H.
  - inversion H; reflexivity.
  - destruct (map_function st src (ln_fn ln)) as [st1 fid] eqn:E1.
    destruct (map_lines st1 src lns) as [st2 r'] eqn:E2. inversion H; subst.
    rewrite (IH _ _ _ E2). eapply hdr_map_function; eauto.
Qed.

Lemma hdr_map_location : forall st src lid st' g, map_location st src lid = (st', g) -> hdr st' = hdr st.
Proof.
  intros st src lid st' g H. unfold map_location, map_location_rec in H.
  destruct (lookup_loc src lid) as [l|]; [|inversion H; reflexivity].
  destruct (map_mapping st src (l_mapping l)) as [st1 [mid off]] eqn:E1.
  destruct (map_lines st1 src (l_lines l)) as [st2 lines] eqn:E2.
  assert (E : hdr st2 = hdr st).
  { rewrite (hdr_map_lines _ _ _ _ _ E2). eapply hdr_map_mapping; eauto. }
  destruct (find _ _); inversion H; subst; [exact E | rewrite <- E; reflexivity].
Qed.

Lemma hdr_map_locs : forall src ids st st' r, map_locs st src ids = (st', r) -> hdr st' = hdr st.
Proof.
  intros src. induction ids as [|id ids IH]; intros st st' r H; cbn [map_locs] in H.
  - inversion H; reflexivity.
  - destruct (map_location st src id) as [st1 id'] eqn:E1.
    destruct (map_locs st1 src ids) as [st2 r'] eqn:E2. inversion H; subst.
    rewrite (IH _ _ _ E2). eapply hdr_map_location; eauto.
Qed.

Lemma hdr_merge_sample : forall src st s, hdr (merge_sample src st s) = hdr st.
Proof.
  intros src st s. unfold merge_sample, map_sample. destruct (is_zero_sample s); [reflexivity|].
  destruct (map_locs st src (s_loc s)) as [st1 locs] eqn:E.
  rewrite <- (hdr_map_locs _ _ _ _ _ E). destruct (existsb _ _); reflexivity.
Qed.

Lemma hdr_merge_src : forall st src, hdr (merge_src st src) = hdr st.
Proof.
  intros st src. unfold merge_src.
  assert (G : forall l st0, hdr (fold_left (merge_sample src) l st0) = hdr st0).
  { induction l as [|s l IH]; intros st0; cbn [fold_left]; [reflexivity|].
    rewrite IH. apply hdr_merge_sample. }
  rewrite G. unfold eager_first_mapping.
  destruct (p_mapping st); [|reflexivity]. destruct (p_mapping src) as [|m r]; [reflexivity|].
  destruct (map_mapping_rec st m) as [st1 r1] eqn:E. cbn. eapply hdr_map_mapping_rec; eauto.
Qed.

Lemma hdr_merge_srcs : forall srcs st, hdr (fold_left merge_src srcs st) = hdr st.
Proof.
  induction srcs as [|p r IH]; intros st; cbn [fold_left]; [reflexivity|].
  rewrite IH. apply hdr_merge_src.
Qed.

Lemma merge_pass_hdr : forall p0 rest q,
  merge_pass (p0 :: rest) = MOk q -> hdr q = hdr (combine_headers p0 (p0 :: rest)).
Proof.
  intros p0 rest q H. unfold merge_pass in H. destruct (compat_all p0 rest); try discriminate.
  injection H as <-. apply (hdr_merge_srcs (p0 :: rest)).
Qed.

(* ------------------------------------------------------------------ header rules *)
Lemma min_list_nonzero : forall l x, x <> 0 -> Forall (fun y => y <> 0) l -> min_list x l <> 0.
Proof.
  induction l as [|y r IH]; intros x Hx H; cbn; [exact Hx|].
  inversion H; subst. apply IH; [lia | assumption].
Qed.

Lemma fold_time_nonzero : forall srcs t, t <> 0 ->
  fold_left step_time srcs t = min_list t (filter (fun x => negb (x =? 0)) (map p_timenanos srcs)).
Proof.
  induction srcs as [|s r IH]; intros t Ht; cbn [fold_left map filter]; [reflexivity|].
  unfold step_time at 2. destruct (p_timenanos s =? 0) eqn:E; cbn [negb andb].
  - apply IH. exact Ht.
  - apply Z.eqb_neq in E. cbn [min_list].
    replace (t =? 0) with false by (symmetry; apply Z.eqb_neq; exact Ht). cbn [orb].
    destruct (p_timenanos s <? t) eqn:L.
    + apply Z.ltb_lt in L. rewrite IH by exact E. f_equal. lia.
    + apply Z.ltb_ge in L. rewrite IH by exact Ht. f_equal. lia.
Qed.

Theorem header_time_lemma : forall srcs,
  fold_left step_time srcs 0 = spec_time (map p_timenanos srcs).
Proof.
  unfold spec_time. induction srcs as [|s r IH]; cbn [fold_left map filter]; [reflexivity|].
  unfold step_time at 2. destruct (p_timenanos s =? 0) eqn:E; cbn [negb andb orb].
  - exact IH.
  - apply Z.eqb_neq in E. rewrite Z.eqb_refl. cbn [orb]. apply fold_time_nonzero. exact E.
Qed.

Lemma wrap_i64_idem : forall x, wrap_i64 (wrap_i64 x) = wrap_i64 x.
Proof. intros x. exact (eq64_wrap x). Qed.

Lemma fold_duration : forall srcs d, wrap_i64 d = d ->
  fold_left step_duration srcs d = wrap_i64 (d + sumZ (map p_durationnanos srcs)).
Proof.
  induction srcs as [|s r IH]; intros d Hd; cbn [fold_left map].
  - cbn. rewrite Z.add_0_r. symmetry. exact Hd.
  - rewrite IH by apply wrap_i64_idem. rewrite sumZ_cons. unfold step_duration.
    change (wrap_i64 (wrap_i64 (d + p_durationnanos s) + sumZ (map p_durationnanos r)) =
            wrap_i64 (d + (p_durationnanos s + sumZ (map p_durationnanos r))))
      with (eq64 (wrap_i64 (d + p_durationnanos s) + sumZ (map p_durationnanos r))
                 (d + (p_durationnanos s + sumZ (map p_durationnanos r)))).
    pose proof (eq64_wrap (d + p_durationnanos s)) as H. apply eq64_iff in H. destruct H as [q Hq].
    apply (eq64_by _ _ q). lia.
Qed.

Theorem header_duration_lemma : forall srcs,
  fold_left step_duration srcs 0 = spec_duration (map p_durationnanos srcs).
Proof. intros srcs. rewrite fold_duration by reflexivity. reflexivity. Qed.

Lemma fold_period : forall srcs pd, 0 <= pd -> Forall (fun p => 0 <= p_period p) srcs ->
  fold_left step_period srcs pd = Z.max pd (spec_period (map p_period srcs)).
Proof.
  unfold spec_period. induction srcs as [|s r IH]; intros pd Hpd H; cbn [fold_left map fold_right].
  - lia.
  - inversion H as [|? ? Hs Hr]; subst. unfold step_period at 2.
    destruct (pd =? 0) eqn:E; cbn [orb].
    + apply Z.eqb_eq in E. subst. rewrite IH by assumption. lia.
    + destruct (pd <? p_period s) eqn:L.
      * apply Z.ltb_lt in L. rewrite IH by assumption. lia.
      * apply Z.ltb_ge in L. rewrite IH by assumption. lia.
Qed.

Theorem header_period_lemma : forall srcs, Forall (fun p => 0 <= p_period p) srcs ->
  fold_left step_period srcs 0 = spec_period (map p_period srcs).
Proof.
  intros srcs H. rewrite fold_period by (auto; lia).
  assert (0 <= spec_period (map p_period srcs)).
  { unfold spec_period. clear H. induction srcs; cbn; lia. }
  lia.
Qed.

(* comments: de-duplicated union in order of first occurrence *)
Definition smem (y : string) (acc : list string) : bool := existsb (String.eqb y) acc.

Lemma filter_filter : forall {A} (P Q : A -> bool) l,
  filter P (filter Q l) = filter (fun y => P y && Q y) l.
Proof.
  intros A P Q. induction l as [|x r IH]; cbn; [reflexivity|].
  destruct (Q x) eqn:EQ; cbn; rewrite ?andb_true_r, ?andb_false_r; destruct (P x); cbn; rewrite ?EQ, IH; reflexivity.
Qed.

Lemma fold_add_comment : forall l acc,
  fold_left add_comment l acc = acc ++ filter (fun y => negb (smem y acc)) (dedup l).
Proof.
  induction l as [|x r IH]; intros acc; cbn [fold_left dedup filter].
  - rewrite app_nil_r. reflexivity.
  - unfold add_comment at 2. fold (smem x acc). destruct (smem x acc) eqn:E; cbn [negb].
    + rewrite IH. f_equal. rewrite filter_filter. apply filter_ext. intros y.
      destruct (smem y acc) eqn:Ey; cbn [negb andb]; [reflexivity|].
      destruct (String.eqb y x) eqn:Eyx; [|reflexivity].
      apply String.eqb_eq in Eyx. subst. congruence.
    + rewrite IH, <- app_assoc. cbn [app]. f_equal. f_equal. rewrite filter_filter.
      apply filter_ext. intros y. unfold smem. rewrite existsb_app. cbn [existsb].
      rewrite orb_false_r, negb_orb. reflexivity.
Qed.

Lemma fold_step_comments : forall srcs acc,
  fold_left step_comments srcs acc = fold_left add_comment (List.concat (map p_comments srcs)) acc.
Proof.
  induction srcs as [|s r IH]; intros acc; cbn [fold_left map List.concat]; [reflexivity|].
  rewrite fold_left_app. apply IH.
Qed.

Lemma filter_all : forall {A} (l : list A), filter (fun _ => true) l = l.
Proof. induction l as [|x r IH]; cbn; [reflexivity | rewrite IH; reflexivity]. Qed.

Theorem header_comments_lemma : forall srcs,
  fold_left step_comments srcs [] = spec_comments (map p_comments srcs).
Proof.
  intros srcs. rewrite fold_step_comments, fold_add_comment. cbn [app]. unfold spec_comments.
  apply filter_all.
Qed.

Lemma dedup_in : forall l x, In x (dedup l) <-> In x l.
Proof.
  induction l as [|y r IH]; intros x; cbn [dedup]; [tauto|]. cbn [In]. rewrite filter_In, IH.
  destruct (String.eqb_spec x y) as [->|N]; cbn; intuition congruence.
Qed.

Lemma dedup_nodup : forall l, NoDup (dedup l).
Proof.
  induction l as [|y r IH]; cbn [dedup]; constructor.
  - rewrite filter_In. intros [_ H]. rewrite String.eqb_refl in H. discriminate.
  - apply NoDup_filter. exact IH.
Qed.

Lemma dedup_id : forall l, NoDup l -> dedup l = l.
Proof.
  induction l as [|y r IH]; intros H; cbn [dedup]; [reflexivity|].
  inversion H as [|? ? Hn Hr]; subst. rewrite IH by exact Hr. f_equal.
  rewrite <- (filter_all r) at 2. apply filter_ext_in. intros a Ha.
  destruct (String.eqb_spec a y) as [->|N]; [contradiction | reflexivity].
Qed.

(* first non-empty string *)
Theorem header_first_nonempty_lemma : forall (get : profile -> string) srcs,
  fold_left (step_first_nonempty get) srcs "" = first_nonempty (map get srcs).
Proof.
  intros get. unfold first_nonempty.
  assert (G : forall srcs acc, acc <> ""%string -> fold_left (step_first_nonempty get) srcs acc = acc).
  { induction srcs as [|s r IH]; intros acc Ha; cbn [fold_left]; [reflexivity|].
    unfold step_first_nonempty at 2. destruct (String.eqb_spec acc "") as [->|N]; [contradiction|].
    apply IH. exact N. }
  induction srcs as [|s r IH]; cbn [fold_left map filter]; [reflexivity|].
  unfold step_first_nonempty at 2. cbn [String.eqb].
  destruct (String.eqb_spec (get s) "") as [E|N]; cbn [negb].
  - rewrite E. exact IH.
  - apply G. exact N.
Qed.

(* the re-merge pass leaves the header as it is *)
Lemma combine_single : forall p,
  wrap_i64 (p_durationnanos p) = p_durationnanos p -> NoDup (p_comments p) ->
  hdr (combine_headers p [p]) = hdr p.
Proof.
  intros p Hd Hc. unfold hdr, combine_headers. cbn [fold_left p_sampletype p_defaultsampletype p_comments
    p_docurl p_dropframes p_keepframes p_timenanos p_durationnanos p_periodtype p_period].
  assert (E1 : step_first_nonempty p_defaultsampletype "" p = p_defaultsampletype p) by reflexivity.
  assert (E2 : step_first_nonempty p_docurl "" p = p_docurl p) by reflexivity.
  assert (E3 : step_comments [] p = p_comments p).
  { unfold step_comments. rewrite fold_add_comment. cbn [app]. rewrite filter_all. apply dedup_id. exact Hc. }
  assert (E4 : step_time 0 p = p_timenanos p).
  { unfold step_time. cbn. destruct (p_timenanos p =? 0) eqn:E; cbn; [apply Z.eqb_eq in E; lia | reflexivity]. }
  assert (E5 : step_duration 0 p = p_durationnanos p) by (unfold step_duration; cbn [Z.add]; exact Hd).
  assert (E6 : step_period 0 p = p_period p) by reflexivity.
  rewrite E1, E2, E3, E4, E5, E6. reflexivity.
Qed.

Lemma hdr_fields_good : forall p0 srcs q,
  hdr q = hdr (combine_headers p0 srcs) ->
  wrap_i64 (p_durationnanos q) = p_durationnanos q /\ NoDup (p_comments q).
Proof.
  intros p0 srcs q H. unfold hdr in H.
  pose proof (f_equal (fun t : _ * _ * list string * _ * _ * _ * _ * Z * _ * _ =>
                         let '(_, _, _, _, _, _, _, d, _, _) := t in d) H) as Hd.
  pose proof (f_equal (fun t : _ * _ * list string * _ * _ * _ * _ * Z * _ * _ =>
                         let '(_, _, c, _, _, _, _, _, _, _) := t in c) H) as Hc.
  cbn in Hd, Hc. split.
  - rewrite Hd, header_duration_lemma. unfold spec_duration. apply wrap_i64_idem.
  - rewrite Hc, header_comments_lemma. apply dedup_nodup.
Qed.

Lemma merge_fuel_hdr : forall n p0 rest q,
  merge_fuel n (p0 :: rest) = MOk q -> hdr q = hdr (combine_headers p0 (p0 :: rest)).
Proof.
  induction n as [|n IH]; intros p0 rest q H; cbn [merge_fuel] in H;
    destruct (merge_pass (p0 :: rest)) as [p| | |] eqn:E; try discriminate;
    destruct (existsb is_zero_sample (p_sample p)); try discriminate.
  - inversion H; subst. eapply merge_pass_hdr; eauto.
  - pose proof (merge_pass_hdr _ _ _ E) as Hp.
    rewrite (IH _ _ _ H). destruct (hdr_fields_good _ _ _ Hp) as [Hd Hc].
    rewrite combine_single by assumption. exact Hp.
  - inversion H; subst. eapply merge_pass_hdr; eauto.
Qed.

Theorem merge_headers_lemma : forall p0 rest q,
  merge (p0 :: rest) = MOk q ->
  p_timenanos q = spec_time (map p_timenanos (p0 :: rest)) /\
  p_durationnanos q = spec_duration (map p_durationnanos (p0 :: rest)) /\
  (Forall (fun p => 0 <= p_period p) (p0 :: rest) -> p_period q = spec_period (map p_period (p0 :: rest))) /\
  p_comments q = spec_comments (map p_comments (p0 :: rest)) /\
  p_defaultsampletype q = first_nonempty (map p_defaultsampletype (p0 :: rest)) /\
  p_docurl q = first_nonempty (map p_docurl (p0 :: rest)) /\
  p_dropframes q = p_dropframes p0 /\ p_keepframes q = p_keepframes p0 /\
  p_sampletype q = p_sampletype p0 /\ p_periodtype q = p_periodtype p0.
Proof.
  intros p0 rest q H. pose proof (merge_fuel_hdr _ _ _ _ H) as E. unfold hdr in E.
  inversion E as [[H1 H2 H3 H4 H5 H6 H7 H8 H9 H10]]. clear E.
  split; [rewrite H7; exact (header_time_lemma (p0 :: rest))|].
  split; [rewrite H8; exact (header_duration_lemma (p0 :: rest))|].
  split; [intros Hp; rewrite H10; exact (header_period_lemma (p0 :: rest) Hp)|].
  split; [rewrite H3; exact (header_comments_lemma (p0 :: rest))|].
  split; [rewrite H2; exact (header_first_nonempty_lemma p_defaultsampletype (p0 :: rest))|].
  split; [rewrite H4; exact (header_first_nonempty_lemma p_docurl (p0 :: rest))|].
  auto.
Qed.

(* ------------------------------------------------------------------ well-formedness of the result *)
Lemma merge_fuel_ok : forall n ps q, merge_fuel n ps = MOk q -> ok q.
Proof.
  assert (P : forall ps q, merge_pass ps = MOk q -> ok q).
  { intros ps q H. unfold merge_pass in H. destruct ps as [|p0 rest]; [discriminate|].
    destruct (compat_all p0 rest); try discriminate. injection H as <-.
    apply (merge_srcs_spec (p0 :: rest) _ (ok_combine_headers p0 (p0 :: rest))). }
  induction n as [|n IH]; intros ps q H; cbn [merge_fuel] in H;
    destruct (merge_pass ps) as [p| | |] eqn:E; try discriminate;
    destruct (existsb is_zero_sample (p_sample p)); try discriminate.
  - inversion H; subst. eauto.
  - eauto.
  - inversion H; subst. eauto.
Qed.

(* ------------------------------------------------------------------ keys stay pairwise distinct *)
Record keys_ok (st : profile) : Prop := {
  k_fn : NoDup (map fkey_of (p_function st));
  k_mp : NoDup (map mkey_of (p_mapping st));
  k_lc : NoDup (map (lkey_of st) (p_location st));
  k_sm : NoDup (map skey_of_sample (p_sample st))
}.

Lemma map_function_rec_keys : forall st f st' g,
  ok st -> keys_ok st -> map_function_rec st f = (st', g) -> keys_ok st'.
Proof.
  intros st f st' g Hok [K1 K2 K3 K4] H. unfold map_function_rec in H.
  destruct (find (fun g0 => fkey_eqb (fkey_of g0) (fkey_of f)) (p_function st)) as [g0|] eqn:E;
    inversion H; subst; clear H.
  - split; assumption.
  - split; cbn; try assumption.
    apply (nodup_key_snoc fkey_of fkey_eqb _ (new_function (next_id (p_function st)) f) fkey_eqb_spec K1 E).
Qed.

Lemma map_function_keys : forall st src fid st' g,
  ok st -> keys_ok st -> map_function st src fid = (st', g) -> keys_ok st'.
Proof.
  intros st src fid st' g Hok K H. unfold map_function in H.
  destruct (lookup_fn src fid); [eapply map_function_rec_keys; eauto | inversion H; subst; exact K].
Qed.

Lemma lkeys_ext : forall st st',
  ok st -> ext st st' -> map (lkey_of st') (p_location st) = map (lkey_of st) (p_location st).
Proof.
  intros st st' Hok He. apply map_ext_in. intros l Hl. apply lkey_ext; auto.
  pose proof (ok_refs _ Hok) as R. rewrite Forall_forall in R. auto.
Qed.

Lemma map_mapping_rec_keys : forall st m st' r,
  ok st -> keys_ok st -> map_mapping_rec st m = (st', r) -> keys_ok st'.
Proof.
  intros st m st' r Hok [K1 K2 K3 K4] H. unfold map_mapping_rec in H.
  destruct (find (fun g0 => mkey_eqb (mkey_of g0) (mkey_of m)) (p_mapping st)) as [g0|] eqn:E;
    inversion H; subst; clear H.
  - split; assumption.
  - split; cbn; try assumption.
    + apply (nodup_key_snoc mkey_of mkey_eqb _ (new_mapping (next_id (p_mapping st)) m) mkey_eqb_spec K2 E).
    + pose proof (lkeys_ext st (with_mapping st (p_mapping st ++ [new_mapping (next_id (p_mapping st)) m]))
                    Hok (ext_with_mapping st _)) as L. cbn in L. rewrite L. exact K3.
Qed.

Lemma map_mapping_keys : forall st src mid st' r,
  ok st -> keys_ok st -> map_mapping st src mid = (st', r) -> keys_ok st'.
Proof.
  intros st src mid st' r Hok K H. unfold map_mapping in H.
  destruct (lookup_map src mid); [eapply map_mapping_rec_keys; eauto | inversion H; subst; exact K].
Qed.

Lemma map_lines_keys : forall src lns st st' r,
  ok st -> keys_ok st -> map_lines st src lns = (st', r) -> keys_ok st'.
Proof.
  intros src. induction lns as [|ln lns IH]; intros st st' r Hok K H; cbn [map_lines] in H.
  - inversion H; subst. exact K.
  - destruct (map_function st src (ln_fn ln)) as [st1 fid] eqn:E1.
    destruct (map_lines st1 src lns) as [st2 r'] eqn:E2. inversion H; subst.
    destruct (map_function_spec _ _ _ _ _ Hok E1) as (A1 & _).
    exact (IH _ _ _ A1 (map_function_keys _ _ _ _ _ Hok K E1) E2).
Qed.

Lemma map_location_keys : forall st src lid st' g,
  ok st -> keys_ok st -> map_location st src lid = (st', g) -> keys_ok st'.
Proof.
  intros st src lid st' g Hok K H. unfold map_location in H.
  destruct (lookup_loc src lid) as [l|]; [|inversion H; subst; exact K].
  unfold map_location_rec in H.
  destruct (map_mapping st src (l_mapping l)) as [st1 [mid off]] eqn:E1.
  destruct (map_lines st1 src (l_lines l)) as [st2 lines] eqn:E2.
  destruct (map_mapping_spec _ _ _ _ _ _ Hok E1) as (A1 & _).
  pose proof (map_mapping_keys _ _ _ _ _ Hok K E1) as K1.
  pose proof (map_lines_keys _ _ _ _ _ A1 K1 E2) as [L1 L2 L3 L4].
  match type of H with context [find ?f ?l] => destruct (find f l) as [g0|] eqn:E end;
    inversion H; subst; clear H.
  - split; assumption.
  - split; cbn; try assumption.
    match type of E with find (fun g0 => lkey_eqb (lkey_of st2 g0) (lkey_of st2 ?x)) _ = None =>
      exact (nodup_key_snoc (lkey_of st2) lkey_eqb _ x lkey_eqb_spec L3 E) end.
Qed.

Lemma map_locs_keys : forall src ids st st' r,
  ok st -> keys_ok st -> map_locs st src ids = (st', r) -> keys_ok st'.
Proof.
  intros src. induction ids as [|id ids IH]; intros st st' r Hok K H; cbn [map_locs] in H.
  - inversion H; subst. exact K.
  - destruct (map_location st src id) as [st1 id'] eqn:E1.
    destruct (map_locs st1 src ids) as [st2 r'] eqn:E2. inversion H; subst.
    destruct (map_location_spec _ _ _ _ _ Hok E1) as (A1 & _).
    exact (IH _ _ _ A1 (map_location_keys _ _ _ _ _ Hok K E1) E2).
Qed.

Lemma map_skey_upd_first : forall hit v l,
  map skey_of_sample (upd_first hit (add_to_sample v) l) = map skey_of_sample l.
Proof.
  intros hit v. induction l as [|x r IH]; cbn [upd_first map]; [reflexivity|].
  destruct (hit x); cbn [map]; [reflexivity | rewrite IH; reflexivity].
Qed.

Lemma skey_new_sample : forall locs s, skey_of_sample (new_sample locs s) = skey_of locs s.
Proof.
  intros locs s. unfold skey_of_sample, skey_of. rewrite numlabels_new_sample. reflexivity.
Qed.

Lemma map_sample_keys : forall st src s, ok st -> keys_ok st -> keys_ok (map_sample st src s).
Proof.
  intros st src s Hok K. unfold map_sample.
  destruct (map_locs st src (s_loc s)) as [st1 locs] eqn:E.
  pose proof (map_locs_keys _ _ _ _ _ Hok K E) as [K1 K2 K3 K4].
  destruct (existsb _ (p_sample st1)) eqn:Ex.
  - split; cbn; try assumption. rewrite map_skey_upd_first. exact K4.
  - split; cbn; try assumption.
    rewrite existsb_find in Ex.
    match type of Ex with context [find ?f ?l] => destruct (find f l) eqn:F; [discriminate|] end.
    rewrite <- (skey_new_sample locs s) in F.
    exact (nodup_key_snoc skey_of_sample skey_eqb _ (new_sample locs s) skey_eqb_spec K4 F).
Qed.

Lemma merge_samples_keys : forall src l st,
  ok st -> keys_ok st -> keys_ok (fold_left (merge_sample src) l st).
Proof.
  intros src. induction l as [|s l IH]; intros st0 A1 K1; cbn [fold_left]; [exact K1|].
  destruct (merge_sample_spec st0 src s A1) as (B1 & _).
  apply IH; [exact B1|]. unfold merge_sample. destruct (is_zero_sample s); [exact K1|].
  apply map_sample_keys; assumption.
Qed.

Lemma merge_src_keys : forall st src, ok st -> keys_ok st -> keys_ok (merge_src st src).
Proof.
  intros st src Hok K. unfold merge_src.
  destruct (eager_first_mapping_spec st src Hok) as (A1 & _).
  apply merge_samples_keys; [exact A1|].
  unfold eager_first_mapping. destruct (p_mapping st); [|exact K].
  destruct (p_mapping src) as [|m r]; [exact K|].
  destruct (map_mapping_rec st m) as [st1 r1] eqn:E. cbn. exact (map_mapping_rec_keys _ _ _ _ Hok K E).
Qed.

Lemma merge_srcs_keys : forall l st, ok st -> keys_ok st -> keys_ok (fold_left merge_src l st).
Proof.
  induction l as [|p l IH]; intros st O K; cbn [fold_left]; [exact K|].
  destruct (merge_src_spec st p O) as (B1 & _).
  apply IH; [exact B1 | apply merge_src_keys; assumption].
Qed.

Lemma merge_pass_keys : forall ps q, merge_pass ps = MOk q -> keys_ok q.
Proof.
  intros ps q H. unfold merge_pass in H. destruct ps as [|p0 rest]; [discriminate|].
  destruct (compat_all p0 rest); try discriminate. injection H as <-.
  apply (merge_srcs_keys (p0 :: rest)); [apply ok_combine_headers|]. split; cbn; constructor.
Qed.

Lemma merge_fuel_keys : forall n ps q, merge_fuel n ps = MOk q -> keys_ok q.
Proof.
  induction n as [|n IH]; intros ps q H; cbn [merge_fuel] in H;
    destruct (merge_pass ps) as [p| | |] eqn:E; try discriminate;
    destruct (existsb is_zero_sample (p_sample p)); try discriminate.
  - inversion H; subst. eapply merge_pass_keys; eauto.
  - eauto.
  - inversion H; subst. eapply merge_pass_keys; eauto.
Qed.

(* ------------------------------------------------------------------ equal identities => equal keys
   (the direction that needs the tables to be free of duplicates) *)
Lemma fn_ref_inj : forall st a b,
  ok st -> keys_ok st -> inr a (p_function st) -> inr b (p_function st) ->
  option_map fkey_of (lookup_fn st a) = option_map fkey_of (lookup_fn st b) -> a = b.
Proof.
  intros st a b Hok K Ha Hb E.
  exact (ref_inj f_id fkey_of (p_function st) a b (ok_fn _ Hok) (k_fn _ K) Ha Hb E).
Qed.

Lemma map_ref_inj : forall st a b,
  ok st -> keys_ok st -> inr a (p_mapping st) -> inr b (p_mapping st) ->
  option_map mkey_of (lookup_map st a) = option_map mkey_of (lookup_map st b) -> a = b.
Proof.
  intros st a b Hok K Ha Hb E.
  exact (ref_inj m_id mkey_of (p_mapping st) a b (ok_mp _ Hok) (k_mp _ K) Ha Hb E).
Qed.

Lemma line_slots_inj : forall st la lb,
  ok st -> keys_ok st ->
  Forall (fun ln => inr (ln_fn ln) (p_function st)) la ->
  Forall (fun ln => inr (ln_fn ln) (p_function st)) lb ->
  map (line_ident_of st) la = map (line_ident_of st) lb -> map line_slots la = map line_slots lb.
Proof.
  intros st la lb Hok K Ha. revert lb. induction Ha as [|x la Hx Ha IH]; intros lb Hb E.
  - destruct lb; [reflexivity | discriminate].
  - destruct lb as [|y lb]; [discriminate|]. inversion Hb as [|? ? Hy Hb']; subst.
    cbn [map] in *. inversion E as [[E1 E2]]. f_equal; [|apply IH; assumption].
    unfold line_ident_of, line_ident_of_slots, line_slots in *. inversion E1 as [[F1 F2 F3]].
    rewrite (fn_ref_inj st (ln_fn x) (ln_fn y)); auto. congruence.
Qed.

Lemma lkey_of_ident : forall st a b,
  ok st -> keys_ok st -> loc_refs_ok st a -> loc_refs_ok st b ->
  frame_ident_of st a = frame_ident_of st b -> lkey_of st a = lkey_of st b.
Proof.
  intros st a b Hok K [Ha1 Ha2] [Hb1 Hb2] E. unfold frame_ident_of in E.
  inversion E as [[E1 E2 E3 E4]]. unfold lkey_of.
  assert (M : l_mapping a = l_mapping b) by (apply (map_ref_inj st); auto).
  rewrite (line_slots_inj st _ _ Hok K Ha2 Hb2 E3), E4, <- M. rewrite <- M in E2. rewrite E2.
  reflexivity.
Qed.

Lemma frame_idents_nodup : forall st, ok st -> keys_ok st -> NoDup (map (frame_ident_of st) (p_location st)).
Proof.
  intros st Hok K. apply (NoDup_map_inj_on (lkey_of st)); [apply (k_lc _ K)|].
  intros x y Hx Hy E. pose proof (ok_refs _ Hok) as R. rewrite Forall_forall in R.
  apply lkey_of_ident; auto.
Qed.

Lemma loc_ref_inj : forall st a b,
  ok st -> keys_ok st -> inr a (p_location st) -> inr b (p_location st) ->
  frames_of_id st a = frames_of_id st b -> a = b.
Proof.
  intros st a b Hok K Ha Hb E.
  apply (ref_inj l_id (frame_ident_of st) (p_location st) a b (ok_lc _ Hok) (frame_idents_nodup st Hok K) Ha Hb).
  unfold frames_of_id in E. change (lookup0 l_id (p_location st)) with (lookup_loc st).
  destruct (lookup_loc st a); destruct (lookup_loc st b); cbn; congruence.
Qed.

Lemma frames_of_id_single : forall st id, ok st -> 1 <= id <= Z.of_nat (List.length (p_location st)) ->
  exists f, frames_of_id st id = [f].
Proof.
  intros st id Hok Hr. destruct (lookup0_range l_id (p_location st) id (ok_lc _ Hok) Hr) as [x [Hx _]].
  unfold frames_of_id. change (lookup_loc st id) with (lookup0 l_id (p_location st) id). rewrite Hx. eauto.
Qed.

Lemma stack_ident_inj_nz : forall st a b,
  ok st -> keys_ok st ->
  Forall (fun id => 1 <= id <= Z.of_nat (List.length (p_location st))) a ->
  Forall (fun id => 1 <= id <= Z.of_nat (List.length (p_location st))) b ->
  stack_ident_of st a = stack_ident_of st b -> a = b.
Proof.
  intros st a b Hok K Ha. revert b. unfold stack_ident_of.
  induction Ha as [|x a Hx Ha IH]; intros b Hb E.
  - destruct b as [|y b]; [reflexivity|]. inversion Hb as [|? ? Hy _]; subst.
    destruct (frames_of_id_single st y Hok Hy) as [f Hf]. cbn in E. rewrite Hf in E. discriminate.
  - destruct (frames_of_id_single st x Hok Hx) as [fx Hfx].
    destruct b as [|y b]; cbn [flat_map] in E; [rewrite Hfx in E; discriminate|].
    inversion Hb as [|? ? Hy Hb']; subst.
    destruct (frames_of_id_single st y Hok Hy) as [fy Hfy].
    rewrite Hfx, Hfy in E. cbn in E. inversion E as [[E1 E2]].
    f_equal; [|apply IH; assumption].
    apply (loc_ref_inj st); auto; unfold inr; try lia. rewrite Hfx, Hfy, E1. reflexivity.
Qed.

Lemma filter_nz_range : forall {A} (l : list A) ids,
  Forall (fun id => inr id l) ids ->
  Forall (fun id => 1 <= id <= Z.of_nat (List.length l)) (filter (fun id => negb (id =? 0)) ids).
Proof.
  intros A l ids H. induction H as [|x r Hx Hr IH]; cbn; [constructor|].
  destruct (x =? 0) eqn:E; cbn; [exact IH|]. apply Z.eqb_neq in E. constructor; [|exact IH].
  unfold inr in Hx. lia.
Qed.

Lemma skey_of_ident : forall st s1 s2,
  ok st -> keys_ok st -> sample_refs_ok st s1 -> sample_refs_ok st s2 ->
  sample_ident_of st s1 = sample_ident_of st s2 -> skey_of_sample s1 = skey_of_sample s2.
Proof.
  intros st s1 s2 Hok K H1 H2 E. unfold sample_ident_of, labels_ident_of in E.
  inversion E as [[E1 E2 E3]]. unfold skey_of_sample, skey_of. rewrite E2, E3. f_equal. f_equal.
  apply (stack_ident_inj_nz st); auto using filter_nz_range.
  rewrite !stack_ident_filter. exact E1.
Qed.

(* C03, nothing is duplicated: the result has at most one sample per (stack, label set) *)
Theorem merge_distinct_lemma : forall ps q,
  merge ps = MOk q -> NoDup (map (sample_ident_of q) (p_sample q)).
Proof.
  intros ps q H. pose proof (merge_fuel_ok _ _ _ H) as Hok. pose proof (merge_fuel_keys _ _ _ H) as K.
  apply (NoDup_map_inj_on skey_of_sample); [apply (k_sm _ K)|].
  intros x y Hx Hy E. pose proof (ok_smp _ Hok) as R. rewrite Forall_forall in R.
  apply (skey_of_ident q); auto.
Qed.

(* ------------------------------------------------------------------ the headline statement *)
Lemma wt_list_none : forall p l k j,
  (forall s, In s l -> sample_ident_of p s <> k) -> wt_list p l k j = 0.
Proof.
  intros p l k j. induction l as [|x r IH]; intros H; unfold wt_list; cbn [map]; [reflexivity|].
  rewrite sumZ_cons. destruct (sid_eqb (sample_ident_of p x) k) eqn:E.
  - apply sid_eqb_spec in E. exfalso. apply (H x); [left; reflexivity | exact E].
  - fold (wt_list p r k j). rewrite IH; [reflexivity|]. intros s Hs. apply H. right. exact Hs.
Qed.

Lemma wt_list_unique : forall p l k j s,
  NoDup (map (sample_ident_of p) l) -> In s l -> sample_ident_of p s = k ->
  wt_list p l k j = nth j (s_val s) 0.
Proof.
  intros p l k j s. induction l as [|x r IH]; intros Hnd Hin Hk; [contradiction|].
  cbn [map] in Hnd. inversion Hnd as [|? ? Hnot Hnd']; subst.
  unfold wt_list. cbn [map]. rewrite sumZ_cons. fold (wt_list p r (sample_ident_of p s) j).
  destruct Hin as [->|Hin].
  - replace (sid_eqb (sample_ident_of p s) (sample_ident_of p s)) with true
      by (symmetry; apply sid_eqb_spec; reflexivity).
    rewrite wt_list_none; [lia|]. intros t Ht E. apply Hnot. rewrite <- E. apply in_map. exact Ht.
  - destruct (sid_eqb (sample_ident_of p x) (sample_ident_of p s)) eqn:E.
    + apply sid_eqb_spec in E. exfalso. apply Hnot. rewrite E. apply in_map. exact Hin.
    + rewrite IH; auto.
Qed.

Theorem merge_exact_lemma : forall ps q k,
  merge ps = MOk q ->
  (exists s, In s (p_sample q) /\ sample_ident_of q s = k /\ is_zero_sample s = false /\
             (forall s', In s' (p_sample q) -> sample_ident_of q s' = k -> s' = s) /\
             forall j, eq64 (nth j (s_val s) 0) (sumZ (map (fun p => wt p k j) ps)))
  \/ ((forall s, In s (p_sample q) -> sample_ident_of q s <> k) /\
      forall j, eq64 0 (sumZ (map (fun p => wt p k j) ps))).
Proof.
  intros ps q k H. pose proof (merge_distinct_lemma ps q H) as Hnd.
  destruct (in_dec sample_ident_dec k (map (sample_ident_of q) (p_sample q))) as [Hin|Hout].
  - left. apply in_map_iff in Hin. destruct Hin as [s [Hk Hs]]. exists s.
    split; [exact Hs|]. split; [exact Hk|]. split; [eapply merge_no_zero_lemma; eauto|]. split.
    + intros s' Hs' Hk'. apply (nodup_key_inj (sample_ident_of q) (p_sample q)); auto. congruence.
    + intros j. rewrite <- (wt_list_unique q (p_sample q) k j s Hnd Hs Hk).
      apply (merge_conserves_lemma ps q H k j).
  - right. split.
    + intros s Hs E. apply Hout. rewrite <- E. apply in_map. exact Hs.
    + intros j. rewrite <- (wt_list_none q (p_sample q) k j).
      * apply (merge_conserves_lemma ps q H k j).
      * intros s Hs E. apply Hout. rewrite <- E. apply in_map. exact Hs.
Qed.

(* ------------------------------------------------------------------ validity of the result *)
(* what CheckValid guarantees about a source, as far as Merge depends on it *)
Definition src_ok (src : profile) (nst : nat) : Prop :=
  (forall l, In l (p_location src) -> forall ln, In ln (l_lines l) -> lookup_fn src (ln_fn ln) <> None) /\
  (forall s, In s (p_sample src) ->
     (forall id, In id (s_loc s) -> lookup_loc src id <> None) /\ List.length (s_val s) = nst).

(* no nil function in a line, no nil location in a sample, all value vectors of one length *)
Record nn (st : profile) (nst : nat) : Prop := {
  nn_lines : Forall (fun l => Forall (fun ln => ln_fn ln <> 0) (l_lines l)) (p_location st);
  nn_locs : Forall (fun s => Forall (fun id => id <> 0) (s_loc s)) (p_sample st);
  nn_len : Forall (fun s => List.length (s_val s) = nst) (p_sample st)
}.

Lemma lookup_fn_0 : forall p, lookup_fn p 0 = None.
Proof. reflexivity. Qed.
Lemma lookup_loc_0 : forall p, lookup_loc p 0 = None.
Proof. reflexivity. Qed.

Lemma line_idents_nz : forall a b la lb,
  map (line_ident_of a) la = map (line_ident_of b) lb ->
  (forall ln, In ln lb -> lookup_fn b (ln_fn ln) <> None) ->
  Forall (fun ln => ln_fn ln <> 0) la.
Proof.
  intros a b. induction la as [|x la IH]; intros lb E H; [constructor|].
  destruct lb as [|y lb]; [discriminate|]. cbn [map] in E.
  unfold line_ident_of at 1 3, line_ident_of_slots, line_slots in E. injection E as F1 F2 F3 E2.
  constructor.
  - intros Z0. rewrite Z0, lookup_fn_0 in F1. cbn in F1.
    specialize (H y (or_introl eq_refl)). destruct (lookup_fn b (ln_fn y)); [discriminate | congruence].
  - eapply IH; [exact E2|]. intros ln Hin. apply H. right. exact Hin.
Qed.

Lemma nn_same_tables : forall st st' nst,
  nn st nst -> p_location st' = p_location st -> p_sample st' = p_sample st -> nn st' nst.
Proof. intros st st' nst [N1 N2 N3] E1 E2. split; rewrite ?E1, ?E2; assumption. Qed.

Lemma map_mapping_nn : forall st src mid st' r nst,
  ok st -> nn st nst -> map_mapping st src mid = (st', r) -> nn st' nst.
Proof.
  intros st src mid st' [g off] nst Hok N H.
  destruct (map_mapping_spec _ _ _ _ _ _ Hok H) as (_ & _ & A3 & A4 & _).
  eapply nn_same_tables; eauto.
Qed.

Lemma map_lines_nn : forall st src lns st' r nst,
  ok st -> nn st nst -> map_lines st src lns = (st', r) -> nn st' nst.
Proof.
  intros st src lns st' r nst Hok N H.
  destruct (map_lines_spec _ _ _ _ _ Hok H) as (_ & _ & A3 & A4 & _).
  eapply nn_same_tables; eauto.
Qed.

Lemma map_location_nn : forall st src lid st' g nst,
  ok st -> nn st nst -> src_ok src nst -> map_location st src lid = (st', g) ->
  nn st' nst /\ (lookup_loc src lid <> None -> g <> 0).
Proof.
  intros st src lid st' g nst Hok N [S1 S2] H. split.
  - unfold map_location in H. destruct (lookup_loc src lid) as [l|] eqn:EL; [|inversion H; subst; exact N].
    unfold map_location_rec in H.
    destruct (map_mapping st src (l_mapping l)) as [st1 [mid off]] eqn:E1.
    destruct (map_lines st1 src (l_lines l)) as [st2 lines] eqn:E2.
    destruct (map_mapping_spec _ _ _ _ _ _ Hok E1) as (A1 & _).
    pose proof (map_mapping_nn _ _ _ _ _ _ Hok N E1) as N1.
    pose proof (map_lines_nn _ _ _ _ _ _ A1 N1 E2) as [M1 M2 M3].
    destruct (map_lines_spec _ _ _ _ _ A1 E2) as (_ & _ & _ & _ & _ & _ & B7).
    match type of H with context [find ?f ?l] => destruct (find f l) as [g0|] eqn:E end;
      inversion H; subst; clear H.
    + split; assumption.
    + split; cbn; try assumption. apply Forall_app. split; [exact M1|]. constructor; [|constructor]. cbn.
      eapply line_idents_nz; [exact B7|]. apply S1. eapply lookup_loc_in; eauto.
  - intros Hs Z0. destruct (map_location_spec _ _ _ _ _ Hok H) as (_ & _ & _ & _ & A5).
    subst g. unfold frames_of_id in A5. rewrite lookup_loc_0 in A5.
    destruct (lookup_loc src lid); [discriminate | congruence].
Qed.

Lemma map_locs_nn : forall src nst ids st st' r,
  ok st -> nn st nst -> src_ok src nst -> map_locs st src ids = (st', r) ->
  (forall id, In id ids -> lookup_loc src id <> None) ->
  nn st' nst /\ Forall (fun id => id <> 0) r.
Proof.
  intros src nst. induction ids as [|id ids IH]; intros st st' r Hok N S H Hs; cbn [map_locs] in H.
  - inversion H; subst. split; [exact N | constructor].
  - destruct (map_location st src id) as [st1 id'] eqn:E1.
    destruct (map_locs st1 src ids) as [st2 r'] eqn:E2. inversion H; subst.
    destruct (map_location_spec _ _ _ _ _ Hok E1) as (A1 & _).
    destruct (map_location_nn _ _ _ _ _ _ Hok N S E1) as [N1 Hnz].
    destruct (IH _ _ _ A1 N1 S E2) as [N2 F]; [intros x Hx; apply Hs; right; exact Hx|].
    split; [exact N2|]. constructor; [|exact F]. apply Hnz. apply Hs. left. reflexivity.
Qed.

Lemma length_add_vals : forall a b, List.length b = List.length a -> List.length (add_vals a b) = List.length a.
Proof.
  induction a as [|x a IH]; intros b H; destruct b as [|y b]; cbn in *; try discriminate; try reflexivity.
  rewrite IH; [reflexivity | lia].
Qed.

Lemma map_sample_nn : forall st src s nst,
  ok st -> nn st nst -> src_ok src nst -> In s (p_sample src) -> nn (map_sample st src s) nst.
Proof.
  intros st src s nst Hok N S Hin. pose proof S as [S1 S2]. destruct (S2 s Hin) as [Hl Hlen].
  unfold map_sample. destruct (map_locs st src (s_loc s)) as [st1 locs] eqn:E.
  destruct (map_locs_nn _ _ _ _ _ _ Hok N S E Hl) as [[M1 M2 M3] F].
  destruct (existsb _ (p_sample st1)).
  - split; cbn; try assumption.
    + apply Forall_upd_first; [|exact M2]. intros x Hx. exact Hx.
    + apply Forall_upd_first; [|exact M3]. intros x Hx. cbn. rewrite length_add_vals; congruence.
  - split; cbn; try assumption.
    + apply Forall_app. split; [exact M2|]. constructor; [exact F | constructor].
    + apply Forall_app. split; [exact M3|]. constructor; [exact Hlen | constructor].
Qed.

Lemma merge_src_nn : forall st src nst, ok st -> nn st nst -> src_ok src nst -> nn (merge_src st src) nst.
Proof.
  intros st src nst Hok N S. unfold merge_src.
  destruct (eager_first_mapping_spec st src Hok) as (A1 & A2 & A3).
  assert (N1 : nn (eager_first_mapping st src) nst).
  { unfold eager_first_mapping in *. destruct (p_mapping st); [|exact N].
    destruct (p_mapping src) as [|m r]; [exact N|].
    destruct (map_mapping_rec st m) as [st1 [g off]] eqn:E. cbn in *.
    destruct (map_mapping_rec_spec _ _ _ _ _ Hok E) as (_ & _ & B3 & B4 & _).
    eapply nn_same_tables; eauto. }
  assert (G : forall l st0, (forall s, In s l -> In s (p_sample src)) -> ok st0 -> nn st0 nst ->
                            nn (fold_left (merge_sample src) l st0) nst).
  { induction l as [|s l IH]; intros st0 Hsub O0 N0; cbn [fold_left]; [exact N0|].
    destruct (merge_sample_spec st0 src s O0) as (B1 & _).
    apply IH; [intros x Hx; apply Hsub; right; exact Hx | exact B1|].
    unfold merge_sample. destruct (is_zero_sample s); [exact N0|].
    apply map_sample_nn; auto. apply Hsub. left. reflexivity. }
  apply G; auto.
Qed.

Lemma merge_srcs_nn : forall nst l st,
  ok st -> nn st nst -> Forall (fun p => src_ok p nst) l -> nn (fold_left merge_src l st) nst.
Proof.
  intros nst. induction l as [|p l IH]; intros st O N H; cbn [fold_left]; [exact N|].
  inversion H as [|? ? Hp Hl]; subst. destruct (merge_src_spec st p O) as (B1 & _).
  apply IH; [exact B1 | apply merge_src_nn; assumption | exact Hl].
Qed.

Lemma valid_b_src_ok : forall p, valid_b p = true -> src_ok p (List.length (p_sampletype p)).
Proof.
  intros p H. unfold valid_b in H.
  repeat match type of H with (_ && _ = true) => apply andb_true_iff in H; destruct H as [H ?] end.
  match goal with Hs : forallb _ (p_sample p) = true, Hl : forallb _ (p_location p) = true |- _ =>
    rewrite forallb_forall in Hs, Hl; split end.
  - intros l Hl ln Hln. match goal with Hx : forall x, In x (p_location p) -> _ |- _ => specialize (Hx l Hl);
      apply andb_true_iff in Hx; destruct Hx as [_ Hx]; rewrite forallb_forall in Hx; specialize (Hx ln Hln) end.
    destruct (lookup_fn p (ln_fn ln)); [discriminate | discriminate].
  - intros s Hs. match goal with Hx : forall x, In x (p_sample p) -> _ |- _ => specialize (Hx s Hs);
      apply andb_true_iff in Hx; destruct Hx as [Hlen Hx]; rewrite forallb_forall in Hx end.
    split; [|apply Nat.eqb_eq; exact Hlen].
    intros id Hid. match goal with Hx : forall x, In x (s_loc s) -> _ |- _ => specialize (Hx id Hid) end.
    destruct (lookup_loc p id); discriminate.
Qed.

Lemma ids_from_nodupZ : forall {A} (idf : A -> Z) l b, ids_from idf b l -> nodupZ (map idf l) = true.
Proof.
  intros A idf. induction l as [|x r IH]; intros b H; cbn; [reflexivity|].
  apply ids_from_cons_inv in H. destruct H as [Hx Hr]. rewrite (IH _ Hr), andb_true_r.
  apply negb_true_iff. destruct (existsb (Z.eqb (idf x)) (map idf r)) eqn:E; [|reflexivity].
  apply existsb_exists in E. destruct E as [z [Hz Ez]]. apply Z.eqb_eq in Ez. subst z.
  apply in_map_iff in Hz. destruct Hz as [y [Ey Hy]].
  pose proof (ids_from_in idf r (b + 1) y Hr Hy). lia.
Qed.

Lemma ids_seq_nonzero : forall {A} (idf : A -> Z) l, ids_seq idf l -> forallb (fun x => negb (idf x =? 0)) l = true.
Proof.
  intros A idf l H. apply forallb_forall. intros x Hx. pose proof (ids_from_in idf l 1 x H Hx).
  apply negb_true_iff. apply Z.eqb_neq. lia.
Qed.

Lemma lookup_some_of_range : forall {A} (idf : A -> Z) l id,
  ids_seq idf l -> 0 <= id <= Z.of_nat (List.length l) -> id <> 0 -> lookup0 idf l id <> None.
Proof.
  intros A idf l id H Hr Hz. destruct (lookup0_range idf l id H) as [x [Hx _]]; [lia|]. congruence.
Qed.

Lemma ok_nn_valid : forall q,
  ok q -> nn q (List.length (p_sampletype q)) ->
  (p_sample q = [] \/ List.length (p_sampletype q) <> 0%nat) -> valid_b q = true.
Proof.
  intros q Hok [N1 N2 N3] Hne. unfold valid_b.
  repeat (apply andb_true_intro; split).
  - destruct Hne as [->|Hn]; [apply orb_true_r|]. apply orb_true_iff. left.
    apply negb_true_iff. apply Nat.eqb_neq. exact Hn.
  - apply forallb_forall. intros s Hs. rewrite Forall_forall in N2, N3.
    apply andb_true_intro. split; [apply Nat.eqb_eq; apply N3; exact Hs|].
    apply forallb_forall. intros id Hid. pose proof (ok_smp _ Hok) as R. rewrite Forall_forall in R.
    specialize (R s Hs). unfold sample_refs_ok in R. rewrite Forall_forall in R.
    specialize (N2 s Hs). rewrite Forall_forall in N2.
    pose proof (lookup_some_of_range l_id (p_location q) id (ok_lc _ Hok) (R id Hid) (N2 id Hid)) as L.
    change (lookup0 l_id (p_location q) id) with (lookup_loc q id) in L. destruct (lookup_loc q id); congruence.
  - apply ids_seq_nonzero. apply (ok_mp _ Hok).
  - eapply ids_from_nodupZ. apply (ok_mp _ Hok).
  - apply ids_seq_nonzero. apply (ok_fn _ Hok).
  - eapply ids_from_nodupZ. apply (ok_fn _ Hok).
  - apply ids_seq_nonzero. apply (ok_lc _ Hok).
  - eapply ids_from_nodupZ. apply (ok_lc _ Hok).
  - apply forallb_forall. intros l Hl. pose proof (ok_refs _ Hok) as R. rewrite Forall_forall in R.
    destruct (R l Hl) as [R1 R2]. rewrite Forall_forall in N1. specialize (N1 l Hl).
    apply andb_true_intro. split.
    + destruct (l_mapping l =? 0) eqn:E; [reflexivity|]. apply Z.eqb_neq in E. cbn [orb].
      pose proof (lookup_some_of_range m_id (p_mapping q) _ (ok_mp _ Hok) R1 E) as L.
      change (lookup0 m_id (p_mapping q) (l_mapping l)) with (lookup_map q (l_mapping l)) in L.
      destruct (lookup_map q (l_mapping l)); congruence.
    + apply forallb_forall. intros ln Hln. rewrite Forall_forall in R2, N1.
      pose proof (lookup_some_of_range f_id (p_function q) _ (ok_fn _ Hok) (R2 ln Hln) (N1 ln Hln)) as L.
      change (lookup0 f_id (p_function q) (ln_fn ln)) with (lookup_fn q (ln_fn ln)) in L.
      destruct (lookup_fn q (ln_fn ln)); congruence.
Qed.

Lemma ok_nn_src_ok : forall q nst, ok q -> nn q nst -> src_ok q nst.
Proof.
  intros q nst Hok [N1 N2 N3]. split.
  - intros l Hl ln Hln. pose proof (ok_refs _ Hok) as R. rewrite Forall_forall in R, N1.
    destruct (R l Hl) as [_ R2]. specialize (N1 l Hl). rewrite Forall_forall in R2, N1.
    exact (lookup_some_of_range f_id (p_function q) _ (ok_fn _ Hok) (R2 ln Hln) (N1 ln Hln)).
  - intros s Hs. rewrite Forall_forall in N2, N3. split; [|apply N3; exact Hs].
    intros id Hid. pose proof (ok_smp _ Hok) as R. rewrite Forall_forall in R.
    specialize (R s Hs). unfold sample_refs_ok in R. rewrite Forall_forall in R.
    specialize (N2 s Hs). rewrite Forall_forall in N2.
    exact (lookup_some_of_range l_id (p_location q) id (ok_lc _ Hok) (R id Hid) (N2 id Hid)).
Qed.

Lemma merge_pass_nn : forall ps q nst,
  Forall (fun p => src_ok p nst) ps -> merge_pass ps = MOk q -> nn q nst.
Proof.
  intros ps q nst S H. unfold merge_pass in H. destruct ps as [|p0 rest]; [discriminate|].
  destruct (compat_all p0 rest); try discriminate. injection H as <-.
  apply (merge_srcs_nn nst (p0 :: rest)); [apply ok_combine_headers | split; cbn; constructor | exact S].
Qed.

Lemma merge_pass_ok : forall ps q, merge_pass ps = MOk q -> ok q.
Proof.
  intros ps q H. unfold merge_pass in H. destruct ps as [|p0 rest]; [discriminate|].
  destruct (compat_all p0 rest); try discriminate. injection H as <-.
  apply (merge_srcs_spec (p0 :: rest) _ (ok_combine_headers p0 (p0 :: rest))).
Qed.

Lemma merge_fuel_nn : forall n ps q nst,
  Forall (fun p => src_ok p nst) ps -> merge_fuel n ps = MOk q -> nn q nst.
Proof.
  induction n as [|n IH]; intros ps q nst S H; cbn [merge_fuel] in H;
    destruct (merge_pass ps) as [p| | |] eqn:E; try discriminate;
    destruct (existsb is_zero_sample (p_sample p)); try discriminate.
  - inversion H; subst. eapply merge_pass_nn; eauto.
  - eapply IH; [|exact H]. constructor; [|constructor].
    apply ok_nn_src_ok; [eapply merge_pass_ok; eauto | eapply merge_pass_nn; eauto].
  - inversion H; subst. eapply merge_pass_nn; eauto.
Qed.

Lemma vts_eqb_length : forall a b, vts_eqb a b = true -> List.length a = List.length b.
Proof.
  induction a as [|x a IH]; intros b H; destruct b as [|y b]; cbn in *; try discriminate; [reflexivity|].
  apply andb_true_iff in H. destruct H as [_ H]. rewrite (IH _ H). reflexivity.
Qed.

Lemma compat_all_lengths : forall p0 rest,
  compat_all p0 rest = CompatOk ->
  Forall (fun p => List.length (p_sampletype p) = List.length (p_sampletype p0)) rest.
Proof.
  intros p0. induction rest as [|p r IH]; intros H; cbn [compat_all] in H; [constructor|].
  destruct (compatible p0 p) eqn:E; try discriminate. constructor; [|apply IH; exact H].
  unfold compatible in E. destruct (p_periodtype p0); [|discriminate]. destruct (p_periodtype p); [|discriminate].
  destruct (vt_eqb v v0 && vts_eqb (p_sampletype p0) (p_sampletype p)) eqn:F; [|discriminate].
  apply andb_true_iff in F. destruct F as [_ F]. symmetry. apply vts_eqb_length. exact F.
Qed.

(* C03, validity: merging valid profiles yields a profile that passes CheckValid *)
Theorem merge_valid_lemma : forall ps q,
  Forall (fun p => valid_b p = true) ps -> merge ps = MOk q -> valid_b q = true.
Proof.
  intros ps q V H. destruct ps as [|p0 rest].
  { cbn in H. discriminate. }
  destruct (merge_headers_lemma p0 rest q H) as (_ & _ & _ & _ & _ & _ & _ & _ & Hst & _).
  assert (C : compat_all p0 rest = CompatOk).
  { unfold merge in H. cbn [merge_fuel] in H. unfold merge_pass in H.
    destruct (compat_all p0 rest); [reflexivity | discriminate | discriminate]. }
  assert (S : Forall (fun p => src_ok p (List.length (p_sampletype q))) (p0 :: rest)).
  { rewrite Hst. inversion V as [|? ? V0 Vr]; subst. constructor; [apply valid_b_src_ok; exact V0|].
    pose proof (compat_all_lengths p0 rest C) as L. rewrite Forall_forall in *. intros p Hp.
    rewrite <- (L p Hp). apply valid_b_src_ok. apply Vr. exact Hp. }
  apply ok_nn_valid; [eapply merge_fuel_ok; eauto | eapply merge_fuel_nn; eauto |].
  destruct (p_sample q) as [|s r] eqn:Es; [left; reflexivity | right].
  pose proof (merge_no_zero_lemma _ _ H s) as Z. rewrite Es in Z. specialize (Z (or_introl eq_refl)).
  pose proof (merge_fuel_nn _ _ _ _ S H) as [_ _ N3]. rewrite Es in N3. inversion N3 as [|? ? Hl _]; subst.
  intros Z0. rewrite Z0 in Hl. destruct (s_val s) eqn:Ev; [|discriminate].
  unfold is_zero_sample in Z. rewrite Ev in Z. discriminate.
Qed.

(* ------------------------------------------------------------------ the re-merge recursion stops *)
Lemma idents_nodup : forall q, ok q -> keys_ok q -> NoDup (map (sample_ident_of q) (p_sample q)).
Proof.
  intros q Hok K. apply (NoDup_map_inj_on skey_of_sample); [apply (k_sm _ K)|].
  intros x y Hx Hy E. pose proof (ok_smp _ Hok) as R. rewrite Forall_forall in R.
  apply (skey_of_ident q); auto.
Qed.

(* int64 values: fixed points of the wrap *)
Definition vals_ok (p : profile) : Prop :=
  Forall (fun s => Forall (fun v => wrap_i64 v = v) (s_val s)) (p_sample p).

Lemma add_vals_range : forall a b,
  Forall (fun v => wrap_i64 v = v) a -> Forall (fun v => wrap_i64 v = v) (add_vals a b).
Proof.
  induction a as [|x a IH]; intros b H; destruct b as [|y b]; cbn [add_vals].
  - constructor.
  - apply Forall_forall. intros v Hv. apply in_map_iff in Hv. destruct Hv as [w [<- _]]. apply wrap_i64_idem.
  - exact H.
  - inversion H; subst. constructor; [apply wrap_i64_idem | apply IH; assumption].
Qed.

Lemma merge_src_vals : forall src st, ok st -> vals_ok src -> vals_ok st -> vals_ok (merge_src st src).
Proof.
  intros src st Hok Hs H0. unfold merge_src.
  destruct (eager_first_mapping_spec st src Hok) as (A1 & _ & A3).
  assert (E : vals_ok (eager_first_mapping st src)) by (unfold vals_ok; rewrite A3; exact H0).
  assert (G : forall l st0, (forall s, In s l -> In s (p_sample src)) -> ok st0 -> vals_ok st0 ->
                            vals_ok (fold_left (merge_sample src) l st0)).
  { induction l as [|s l IH]; intros st0 Hsub O0 V0; cbn [fold_left]; [exact V0|].
    destruct (merge_sample_spec st0 src s O0) as (B1 & _).
    apply IH; [intros x Hx; apply Hsub; right; exact Hx | exact B1|].
    unfold merge_sample. destruct (is_zero_sample s); [exact V0|]. unfold map_sample.
    destruct (map_locs st0 src (s_loc s)) as [st1 locs] eqn:E1.
    destruct (map_locs_spec _ _ _ _ _ O0 E1) as (_ & _ & C3 & _).
    assert (V1 : vals_ok st1) by (unfold vals_ok; rewrite C3; exact V0).
    destruct (existsb _ (p_sample st1)); unfold vals_ok in *; cbn.
    - apply Forall_upd_first; [|exact V1]. intros x Hx. cbn. apply add_vals_range. exact Hx.
    - apply Forall_app. split; [exact V1|]. constructor; [|constructor]. cbn.
      rewrite Forall_forall in Hs. apply Hs. apply Hsub. left. reflexivity. }
  apply G; auto.
Qed.

Lemma merge_pass_vals : forall ps q, Forall vals_ok ps -> merge_pass ps = MOk q -> vals_ok q.
Proof.
  intros ps q V H. unfold merge_pass in H. destruct ps as [|p0 rest]; [discriminate|].
  destruct (compat_all p0 rest); try discriminate. injection H as <-.
  assert (G : forall l st, ok st -> vals_ok st -> Forall vals_ok l -> vals_ok (fold_left merge_src l st)).
  { induction l as [|p l IH]; intros st O V0 Vl; cbn [fold_left]; [exact V0|].
    inversion Vl; subst. destruct (merge_src_spec st p O) as (B1 & _).
    apply IH; [exact B1 | apply merge_src_vals; assumption | assumption]. }
  apply (G (p0 :: rest)); [apply ok_combine_headers | constructor | exact V].
Qed.

(* every sample of the state stems from a non-zero sample of the (single) source *)
Definition sup (src st : profile) : Prop :=
  Forall (fun ss => exists s, In s (p_sample src) /\ is_zero_sample s = false /\
                              sample_ident_of src s = sample_ident_of st ss) (p_sample st).

Lemma map_sample_sup : forall st src s,
  ok st -> sup src st -> In s (p_sample src) -> is_zero_sample s = false -> sup src (map_sample st src s).
Proof.
  intros st src s Hok U Hin Hz. unfold map_sample.
  destruct (map_locs st src (s_loc s)) as [st1 locs] eqn:E.
  destruct (map_locs_spec _ _ _ _ _ Hok E) as (A1 & A2 & A3 & A4 & A5).
  assert (U1 : Forall (fun ss => exists s0, In s0 (p_sample src) /\ is_zero_sample s0 = false /\
                                 sample_ident_of src s0 = sample_ident_of st1 ss) (p_sample st1)).
  { rewrite A3. unfold sup in U. pose proof (ok_smp _ Hok) as R. rewrite Forall_forall in *.
    intros ss Hss. destruct (U ss Hss) as [s0 [H1 [H2 H3]]]. exists s0. split; [exact H1|]. split; [exact H2|].
    rewrite (sample_ident_ext st st1); auto. }
  destruct (existsb _ (p_sample st1)); unfold sup; cbn [p_sample with_sample].
  - apply Forall_upd_first; [|exact U1]. intros x Hx. exact Hx.
  - apply Forall_app. split; [exact U1|]. constructor; [|constructor].
    exists s. split; [exact Hin|]. split; [exact Hz|].
    change (sample_ident_of (with_sample st1 (p_sample st1 ++ [new_sample locs s])) (new_sample locs s))
      with (sample_ident_of st1 (new_sample locs s)).
    unfold sample_ident_of, labels_ident_of. rewrite numlabels_new_sample. cbn [s_loc s_label new_sample].
    rewrite A5. reflexivity.
Qed.

Lemma merge_single_sup : forall src q, merge_pass [src] = MOk q -> sup src q.
Proof.
  intros src q H. unfold merge_pass in H. cbn [compat_all] in H. injection H as <-.
  cbn [fold_left]. unfold merge_src.
  pose proof (ok_combine_headers src [src]) as O0.
  destruct (eager_first_mapping_spec _ src O0) as (A1 & _ & A3).
  assert (U0 : sup src (eager_first_mapping (combine_headers src [src]) src)).
  { unfold sup. rewrite A3. cbn. constructor. }
  assert (G : forall l st0, (forall s, In s l -> In s (p_sample src)) -> ok st0 -> sup src st0 ->
                            sup src (fold_left (merge_sample src) l st0)).
  { induction l as [|s l IH]; intros st0 Hsub O U; cbn [fold_left]; [exact U|].
    destruct (merge_sample_spec st0 src s O) as (B1 & _).
    apply IH; [intros x Hx; apply Hsub; right; exact Hx | exact B1|].
    unfold merge_sample. destruct (is_zero_sample s) eqn:Z; [exact U|].
    apply map_sample_sup; auto. apply Hsub. left. reflexivity. }
  apply G; auto.
Qed.

Lemma eq64_zero_range : forall x, wrap_i64 x = x -> eq64 0 x -> x = 0.
Proof. intros x Hx H. unfold eq64 in H. rewrite Hx in H. rewrite <- H. reflexivity. Qed.

Lemma second_pass_no_zero : forall p1 p2,
  ok p1 -> keys_ok p1 -> vals_ok p1 -> merge_pass [p1] = MOk p2 ->
  existsb is_zero_sample (p_sample p2) = false.
Proof.
  intros p1 p2 O1 K1 V1 H.
  destruct (existsb is_zero_sample (p_sample p2)) eqn:Ex; [|reflexivity]. exfalso.
  apply existsb_exists in Ex. destruct Ex as [s2 [Hs2 Z2]].
  pose proof (merge_pass_ok _ _ H) as O2. pose proof (merge_pass_keys _ _ H) as K2.
  pose proof (merge_single_sup _ _ H) as U. unfold sup in U. rewrite Forall_forall in U.
  destruct (U s2 Hs2) as [s1 [Hs1 [Z1 Ek]]].
  assert (C : forall j, nth j (s_val s1) 0 = 0).
  { intros j.
    pose proof (merge_pass_ws _ _ H (fun i => sid_eqb i (sample_ident_of p2 s2)) j) as W.
    cbn [map] in W. rewrite sumZ_cons in W. cbn [sumZ fold_right] in W.
    rewrite Z.add_0_r in W. rewrite <- !wt_ws in W. unfold wt in W.
    rewrite (wt_list_unique p2 (p_sample p2) _ j s2 (idents_nodup p2 O2 K2) Hs2 eq_refl) in W.
    rewrite (wt_list_unique p1 (p_sample p1) _ j s1 (idents_nodup p1 O1 K1) Hs1 Ek) in W.
    rewrite (zero_sample_nth s2 j Z2) in W.
    apply eq64_zero_range; [|exact W].
    unfold vals_ok in V1. rewrite Forall_forall in V1. specialize (V1 s1 Hs1). rewrite Forall_forall in V1.
    destruct (nth_in_or_default j (s_val s1) 0) as [Hin|Hd]; [apply V1; exact Hin | rewrite Hd; reflexivity]. }
  assert (is_zero_sample s1 = true).
  { unfold is_zero_sample. apply forallb_forall. intros v Hv. apply Z.eqb_eq.
    destruct (In_nth _ _ 0 Hv) as [j [_ Hj]]. rewrite <- Hj. apply C. }
  congruence.
Qed.

(* C03, termination of the re-merge: Merge calls itself at most once *)
Theorem remerge_terminates_lemma : forall ps, Forall vals_ok ps -> merge ps <> MFuel.
Proof.
  intros ps V. unfold merge. cbn [merge_fuel].
  destruct (merge_pass ps) as [p1| | |] eqn:E1; try discriminate.
  - destruct (existsb is_zero_sample (p_sample p1)); [|discriminate].
    destruct (merge_pass [p1]) as [p2| | |] eqn:E2; try discriminate.
    rewrite (second_pass_no_zero p1 p2); try discriminate; auto.
    + eapply merge_pass_ok; eauto.
    + eapply merge_pass_keys; eauto.
    + eapply merge_pass_vals; eauto.
  - unfold merge_pass in E1. destruct ps as [|p0 rest]; [discriminate|].
    destruct (compat_all p0 rest); discriminate.
Qed.

Lemma merge_fuel_vals : forall n ps q, Forall vals_ok ps -> merge_fuel n ps = MOk q -> vals_ok q.
Proof.
  induction n as [|n IH]; intros ps q V H; cbn [merge_fuel] in H;
    destruct (merge_pass ps) as [p| | |] eqn:E; try discriminate;
    destruct (existsb is_zero_sample (p_sample p)); try discriminate.
  - inversion H; subst. eapply merge_pass_vals; eauto.
  - eapply IH; [|exact H]. constructor; [eapply merge_pass_vals; eauto | constructor].
  - inversion H; subst. eapply merge_pass_vals; eauto.
Qed.

(* C03, compaction is idempotent -- the part proved here: compacting a merge result succeeds in
   one pass and changes neither any weight nor the header *)
Theorem compact_idempotent_partial_lemma : forall ps q,
  Forall vals_ok ps -> merge ps = MOk q ->
  exists q', compact q = MOk q' /\ (forall k j, eq64 (wt q' k j) (wt q k j)) /\ hdr q' = hdr q /\
             NoDup (map (sample_ident_of q') (p_sample q')).
Proof.
  intros ps q V H.
  pose proof (merge_fuel_ok _ _ _ H) as O. pose proof (merge_fuel_keys _ _ _ H) as K.
  pose proof (merge_fuel_vals _ _ _ V H) as Vq.
  destruct (merge_pass [q]) as [q'| | |] eqn:E; try (unfold merge_pass in E; cbn in E; discriminate).
  pose proof (second_pass_no_zero q q' O K Vq E) as Z.
  assert (C : compact q = MOk q').
  { unfold compact, merge. cbn [merge_fuel]. rewrite E, Z. reflexivity. }
  exists q'. split; [exact C|]. split; [|split].
  - intros k j. pose proof (merge_conserves_lemma [q] q' C k j) as W. cbn [map] in W.
    rewrite sumZ_cons in W. cbn [sumZ fold_right] in W. rewrite Z.add_0_r in W. exact W.
  - rewrite (merge_fuel_hdr _ _ _ _ C).
    destruct ps as [|p0 rest]; [cbn in H; discriminate|].
    destruct (hdr_fields_good p0 (p0 :: rest) q (merge_fuel_hdr _ _ _ _ H)) as [Hd Hc].
    apply combine_single; assumption.
  - eapply merge_distinct_lemma; eauto.
Qed.

(* the period rule under the complement of the F25 class *)
Lemma in_F25_false : forall ps, in_F25 ps = false -> Forall (fun p => 0 <= p_period p) ps.
Proof.
  intros ps H. apply Forall_forall. intros p Hp. unfold in_F25 in H.
  destruct (p_period p <? 0) eqn:E; [|apply Z.ltb_ge in E; exact E].
  assert (existsb (fun p => p_period p <? 0) ps = true) by (apply existsb_exists; eauto). congruence.
Qed.

Theorem merge_period_max_lemma : forall p0 rest q,
  in_F25 (p0 :: rest) = false -> merge (p0 :: rest) = MOk q ->
  p_period q = spec_period (map p_period (p0 :: rest)).
Proof.
  intros p0 rest q F H. destruct (merge_headers_lemma p0 rest q H) as (_ & _ & P & _).
  apply P. apply in_F25_false. exact F.
Qed.

(* ------------------------------------------------------------------ the symmetric header fields do
   not depend on the order of the inputs *)
Lemma min_list_perm : forall l l', Permutation l l' -> forall x, min_list x l = min_list x l'.
Proof.
  intros l l' H. induction H as [| y l l' _ IH | y z l | l l' l'' _ IH1 _ IH2]; intros x; cbn [min_list].
  - reflexivity.
  - apply IH.
  - f_equal. lia.
  - rewrite IH1. apply IH2.
Qed.

Lemma filter_perm : forall {A} (f : A -> bool) l l', Permutation l l' -> Permutation (filter f l) (filter f l').
Proof.
  intros A f l l' H. induction H as [| y l l' _ IH | y z l | l l' l'' _ IH1 _ IH2]; cbn [filter].
  - constructor.
  - destruct (f y); [constructor|]; exact IH.
  - destruct (f y); destruct (f z); try apply Permutation_refl. apply perm_swap.
  - eapply Permutation_trans; eauto.
Qed.

Lemma spec_time_perm : forall l l', Permutation l l' -> spec_time l = spec_time l'.
Proof.
  intros l l' H. unfold spec_time. pose proof (filter_perm (fun t => negb (t =? 0)) l l' H) as P.
  revert P. generalize (filter (fun t => negb (t =? 0)) l) (filter (fun t => negb (t =? 0)) l').
  intros a b P. induction P as [| y a b P IH | y z a | a b c _ IH1 _ IH2].
  - reflexivity.
  - apply min_list_perm. exact P.
  - cbn [min_list]. f_equal. lia.
  - congruence.
Qed.

Lemma spec_period_perm : forall l l', Permutation l l' -> spec_period l = spec_period l'.
Proof.
  intros l l' H. unfold spec_period.
  induction H as [| y l l' _ IH | y z l | l l' l'' _ IH1 _ IH2]; cbn [fold_right]; lia.
Qed.

Theorem merge_perm_headers_lemma : forall ps ps' q q',
  Permutation ps ps' -> merge ps = MOk q -> merge ps' = MOk q' ->
  p_timenanos q = p_timenanos q' /\ p_durationnanos q = p_durationnanos q' /\
  (in_F25 ps = false -> p_period q = p_period q') /\
  (forall c, In c (p_comments q) <-> In c (p_comments q')).
Proof.
  intros ps ps' q q' P H H'.
  destruct ps as [|p0 rest]; [cbn in H; discriminate|].
  destruct ps' as [|p0' rest']; [cbn in H'; discriminate|].
  destruct (merge_headers_lemma _ _ _ H) as (T & D & Pd & C & _).
  destruct (merge_headers_lemma _ _ _ H') as (T' & D' & Pd' & C' & _).
  split; [rewrite T, T'; apply spec_time_perm; apply Permutation_map; exact P|].
  split; [rewrite D, D'; unfold spec_duration; f_equal; apply sumZ_perm; apply Permutation_map; exact P|].
  split.
  - intros F. pose proof (in_F25_false _ F) as G.
    rewrite Pd by exact G. rewrite Pd'.
    + apply spec_period_perm. apply Permutation_map. exact P.
    + rewrite Forall_forall in *. intros x Hx. apply G. eapply Permutation_in; [apply Permutation_sym; exact P | exact Hx].
  - intros c. rewrite C, C'. unfold spec_comments. rewrite !dedup_in, !in_concat.
    split; intros [l [Hl Hc]]; exists l; (split; [|exact Hc]);
      apply in_map_iff in Hl; destruct Hl as [p [<- Hp]]; apply in_map.
    + eapply Permutation_in; eauto.
    + eapply Permutation_in; [apply Permutation_sym; exact P | exact Hp].
Qed.

(* ------------------------------------------------------------------ Merge succeeds on compatible
   int64 inputs *)
Theorem merge_total_lemma : forall p0 rest,
  compat_all p0 rest = CompatOk -> Forall vals_ok (p0 :: rest) -> exists q, merge (p0 :: rest) = MOk q.
Proof.
  intros p0 rest C V. unfold merge. cbn [merge_fuel].
  destruct (merge_pass (p0 :: rest)) as [p1| | |] eqn:E1;
    try (unfold merge_pass in E1; rewrite C in E1; discriminate).
  destruct (existsb is_zero_sample (p_sample p1)); [|eauto].
  destruct (merge_pass [p1]) as [p2| | |] eqn:E2; try (unfold merge_pass in E2; cbn in E2; discriminate).
  rewrite (second_pass_no_zero p1 p2); eauto.
  - eapply merge_pass_ok; eauto.
  - eapply merge_pass_keys; eauto.
  - eapply merge_pass_vals; eauto.
Qed.

(* the only panic of Merge that the model knows (nil PeriodType dereferenced by compatible) cannot
   happen when every input has a period type *)
Theorem merge_no_panic_lemma : forall ps,
  Forall (fun p => p_periodtype p <> None) ps -> merge ps <> MPanic.
Proof.
  intros ps F.
  assert (C : forall p0 rest, p_periodtype p0 <> None -> Forall (fun p => p_periodtype p <> None) rest ->
                              compat_all p0 rest <> CompatPanic).
  { intros p0. induction rest as [|p r IH]; intros H0 Fr; cbn [compat_all]; [discriminate|].
    inversion Fr as [|? ? Hp Fr']; subst. unfold compatible.
    destruct (p_periodtype p0); [|congruence]. destruct (p_periodtype p); [|congruence].
    destruct (vt_eqb v v0 && vts_eqb (p_sampletype p0) (p_sampletype p)); [|discriminate].
    apply IH; [discriminate | exact Fr']. }
  assert (P : forall qs, Forall (fun p => p_periodtype p <> None) qs -> merge_pass qs <> MPanic).
  { intros qs Fq. unfold merge_pass. destruct qs as [|p0 rest]; [discriminate|].
    inversion Fq; subst. destruct (compat_all p0 rest) eqn:E; try discriminate. exfalso. eapply C; eauto. }
  assert (S1 : forall p, merge_pass [p] <> MPanic) by (intros p; unfold merge_pass; cbn; discriminate).
  unfold merge. cbn [merge_fuel].
  destruct (merge_pass ps) as [p1| | |] eqn:E1; try discriminate; [|exfalso; eapply P; eauto].
  destruct (existsb is_zero_sample (p_sample p1)); [|discriminate].
  destruct (merge_pass [p1]) as [p2| | |] eqn:E2; try discriminate; try (exfalso; eapply S1; eauto; fail).
  destruct (existsb is_zero_sample (p_sample p2)); [|discriminate].
  destruct (merge_pass [p2]) as [p3| | |] eqn:E3; try discriminate; try (exfalso; eapply S1; eauto; fail).
  destruct (existsb is_zero_sample (p_sample p3)); discriminate.
Qed.

(* ------------------------------------------------------------------ histories: Merge / Compact are
   functions of what their inputs contain NOW.  An input may be the result of an earlier Merge that
   was edited in place by an arbitrary [edit] (Aggregate, demangling, ...): stacks are grouped by the
   identities of the edited profile, not by those it had when it was produced. *)
Theorem compact_conserves_lemma : forall q q2,
  compact q = MOk q2 ->
  (forall k j, eq64 (wt q2 k j) (wt q k j)) /\
  NoDup (map (sample_ident_of q2) (p_sample q2)) /\
  (forall s, In s (p_sample q2) -> is_zero_sample s = false).
Proof.
  intros q q2 H. unfold compact in H. split; [|split].
  - intros k j. pose proof (merge_conserves_lemma [q] q2 H k j) as W. cbn [map] in W.
    rewrite sumZ_cons in W. cbn [sumZ fold_right] in W. rewrite Z.add_0_r in W. exact W.
  - eapply merge_distinct_lemma; eauto.
  - eapply merge_no_zero_lemma; eauto.
Qed.

Theorem merge_after_edit_lemma : forall (edit : profile -> profile) ps q rest q2,
  merge ps = MOk q -> merge (edit q :: rest) = MOk q2 ->
  (forall k j, eq64 (wt q2 k j) (wt (edit q) k j + sumZ (map (fun p => wt p k j) rest))) /\
  NoDup (map (sample_ident_of q2) (p_sample q2)).
Proof.
  intros edit ps q rest q2 _ H. split.
  - intros k j. exact (merge_conserves_lemma (edit q :: rest) q2 H k j).
  - eapply merge_distinct_lemma; eauto.
Qed.

(* ------------------------------------------------------------------ addresses below the mapping start.
   The relative address is computed in uint64 arithmetic: a location whose address A lies below the
   start S of its mapping (typically 0: "no address") has the relative address A - S + 2^64, which is
   never the relative address A of the frame at S + A.  The two are different frames, whatever else
   they share, so Merge keeps their weights apart (merge_exact). *)
Lemma below_start_reladdr : forall S A, 0 <= A < S -> S < two64 ->
  wrap_u64 (A - S) <> wrap_u64 (S + A - S).
Proof.
  intros S A HA HS. unfold wrap_u64. replace (S + A - S) with A by lia.
  rewrite (Z.mod_small A) by (unfold two64 in *; lia).
  replace (A - S) with (A - S + two64 + (-1) * two64) by lia. rewrite Z_mod_plus_full.
  rewrite Z.mod_small by (unfold two64 in *; lia). unfold two64 in *. lia.
Qed.

Theorem below_start_distinct_lemma : forall p l1 l2 m,
  lookup_map p (l_mapping l1) = Some m -> l_mapping l2 = l_mapping l1 ->
  0 <= l_addr l1 < m_start m -> m_start m < two64 -> l_addr l2 = m_start m + l_addr l1 ->
  frame_ident_of p l1 <> frame_ident_of p l2.
Proof.
  intros p l1 l2 m Hm H2 HA HS Ha E. unfold frame_ident_of in E. rewrite H2 in E.
  injection E as E2 _ _. unfold start_of in E2. rewrite Hm, Ha in E2.
  exact (below_start_reladdr (m_start m) (l_addr l1) HA HS E2).
Qed.

(* ------------------------------------------------------------------ the function key separates every
   attribute, also when a value is empty or repeats another field (system name = name vs none) *)
Theorem fkey_separates_lemma : forall f g,
  fkey_of f = fkey_of g <->
  f_name f = f_name g /\ f_sysname f = f_sysname g /\ f_file f = f_file g /\ f_startline f = f_startline g.
Proof.
  intros f g. unfold fkey_of. split.
  - intros H. injection H as H1 H2 H3 H4. auto.
  - intros (H1 & H2 & H3 & H4). rewrite H1, H2, H3, H4. reflexivity.
Qed.
