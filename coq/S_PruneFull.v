(* C11, "fully matches": the rule of RemoveUninteresting stated with a FULL-MATCH predicate
   [F expr name] (the whole simplified name matches expr) instead of the anchored expression string
   the code compiles.  How the anchoring is spelled is then a property of the model that a theorem
   (P_C11.remove_uninteresting_full_match) connects to this statement, and that every correspondence
   case re-checks against Go's regexp engine (R_C11.oracle_consistent). *)
From PV Require Export M_Prune S_Filter S_Prune.
Open Scope Z_scope.

Section FullMatch.
  Variable F : string -> string -> bool.     (* expression -> subject -> matches from first to last byte *)

  (* "whose simplified function name fully matches drop_frames but not keep_frames" *)
  Definition frame_uninteresting (p : profile) (fr : frame) : bool :=
    match frame_fn p fr with
    | Some f =>
        negb (String.eqb (f_name f) "")
        && F (p_dropframes p) (simplify_func (f_name f))
        && negb (negb (String.eqb (p_keepframes p) "") && F (p_keepframes p) (simplify_func (f_name f)))
    | None => false
    end.

  Definition spec_remove_uninteresting (p : profile) (ss : list fsample) : list fsample :=
    if String.eqb (p_dropframes p) "" then ss
    else map (on_frames (prune_frames (frame_uninteresting p))) ss.
End FullMatch.
