(* Property C11: frame-dropping rules remove only the frames they name.
   Statements only; proofs are in L_Prune.v.  M is ANY match predicate (regexp engine abstract). *)
From PV Require Import M_Filter M_Prune M_TagFilter M_Driver S_Filter S_Prune S_PruneFull L_FilterBase L_Prune L_PruneFull L_Driver.
Open Scope Z_scope.
Open Scope string_scope.

(* drop_frames / keep_frames: every sample's frames are exactly what the rule leaves (the first frame,
   scanning from the root after at least one non-matching frame, that matches drop and not keep, goes
   with everything leaf-side of it); number of samples, values and labels unchanged.  Holds outside the
   class of known finding F14. *)
Theorem prune_meets_spec : forall M p drop keep,
  wf_profile p = true -> in_F14 M p drop keep = false ->
  fsamples (prune M p drop keep) = spec_prune M p drop keep (fsamples p).
Proof. exact prune_meets_spec_l. Qed.
Print Assumptions prune_meets_spec.

(* prune_from keeps the lowest matching frame and drops only what lies on its leaf side; outside F15 *)
Theorem prune_from_meets_spec : forall M p re,
  wf_profile p = true -> in_F15 M p re = false ->
  fsamples (prune_from M p re) = spec_prune_from M p re (fsamples p).
Proof. exact prune_from_meets_spec_l. Qed.
Print Assumptions prune_from_meets_spec.

(* frame condition, unconditional (also inside F14 / F15): the number of samples, their values and
   labels are unchanged *)
Theorem prune_frame_condition : forall M p drop keep re,
  map payload (p_sample (prune M p drop keep)) = map payload (p_sample p)
  /\ map payload (p_sample (prune_from M p re)) = map payload (p_sample p).
Proof. intros. split; [apply prune_payload|apply prune_from_payload]. Qed.
Print Assumptions prune_frame_condition.

(* a sample that had frames never becomes empty, unconditional *)
Theorem prune_never_empties_sample : forall M p drop keep s,
  wf_profile p = true -> In s (p_sample p) -> s_loc s <> [] ->
  sample_frames (prune M p drop keep)
    (set_sample_locs s (rev (prune_scan (id_flag (fun l => snd (prune_loc M p drop keep l)) (p_location p))
                                        (id_flag (fun l => snd (fst (prune_loc M p drop keep l))) (p_location p))
                                        false (rev (s_loc s))))) <> [].
Proof. exact prune_never_empties. Qed.
Print Assumptions prune_never_empties_sample.

Theorem prune_from_never_empties_sample : forall M p re s,
  wf_profile p = true -> In s (p_sample p) -> s_loc s <> [] ->
  sample_frames (prune_from M p re)
    (match from_first (id_flag (fun l => is_some (prune_from_loc M p re l)) (p_location p)) (s_loc s) with
     | Some locs => set_sample_locs s locs | None => s end) <> [].
Proof. exact prune_from_never_empties. Qed.
Print Assumptions prune_from_never_empties_sample.

(* a profile without drop expression is left untouched (keep_frames alone does nothing) *)
Theorem no_expressions_identity : forall M V p,
  p_dropframes p = "" -> remove_uninteresting M V p = Some p.
Proof. exact remove_uninteresting_identity. Qed.
Print Assumptions no_expressions_identity.

(* RemoveUninteresting = the anchored expressions ^(..)$ handed to Prune, or an error (None) that
   leaves the profile alone, or nothing to do *)
Theorem remove_uninteresting_anchored : forall M V p,
  p_dropframes p <> "" -> V (anchor (p_dropframes p)) = true ->
  (p_keepframes p = "" \/ V (anchor (p_keepframes p)) = true) ->
  wf_profile p = true -> in_F14 M p (anchor (p_dropframes p)) (ru_keep p) = false ->
  exists p', remove_uninteresting M V p = Some p'
             /\ fsamples p' = spec_prune M p (anchor (p_dropframes p)) (ru_keep p) (fsamples p).
Proof.
  intros M V p Hd Hv Hk Hwf Hc. eexists. split.
  - apply remove_uninteresting_prunes; assumption.
  - now apply prune_meets_spec_l.
Qed.
Print Assumptions remove_uninteresting_anchored.

Theorem remove_uninteresting_total : forall M V p,
  remove_uninteresting M V p = Some p \/ remove_uninteresting M V p = None
  \/ remove_uninteresting M V p = Some (prune M p (anchor (p_dropframes p)) (ru_keep p)).
Proof. exact remove_uninteresting_cases. Qed.
Print Assumptions remove_uninteresting_total.

(* name simplification only cuts a suffix (after removing one leading dot) *)
Theorem simplify_func_is_prefix : forall f, has_prefix (simplify_func f) (trim_prefix "." f) = true.
Proof. exact simplify_func_prefix. Qed.
Print Assumptions simplify_func_is_prefix.

(* the executable rule cut_root used in spec_prune is exactly the relational reading of the statement:
   the result is the prefix (from the root) before the FIRST position k such that frame k matches and
   some earlier frame does not; without such a position nothing is removed *)
Theorem cut_root_is_drop_rule : forall (m : frame -> bool) (fs : list frame),
  drop_rule m fs (cut_root m false fs).
Proof. intros m fs. exact (cut_root_drop_rule m fs). Qed.
Print Assumptions cut_root_is_drop_rule.

(* "fully matches": for ANY full-match predicate F, if the anchored expressions ^(e)$ the code compiles
   behave as F on the profile's two expressions (re-checked against Go's regexp engine on every
   correspondence case), RemoveUninteresting leaves exactly what the rule stated with F leaves: a frame
   goes only if its WHOLE simplified name matches drop_frames, and keep_frames protects only names it
   matches as a whole.  The statement does not mention how the anchoring is spelled. *)
Theorem remove_uninteresting_full_match : forall M V F p,
  (forall s, M (anchor (p_dropframes p)) s = F (p_dropframes p) s) ->
  (forall s, M (anchor (p_keepframes p)) s = F (p_keepframes p) s) ->
  p_dropframes p <> "" -> V (anchor (p_dropframes p)) = true ->
  (p_keepframes p = "" \/ V (anchor (p_keepframes p)) = true) ->
  wf_profile p = true -> in_F14 M p (anchor (p_dropframes p)) (ru_keep p) = false ->
  exists p', remove_uninteresting M V p = Some p'
             /\ fsamples p' = spec_remove_uninteresting F p (fsamples p).
Proof. exact remove_uninteresting_full_match_l. Qed.
Print Assumptions remove_uninteresting_full_match.

(* histories: any sequence of Prune / PruneFrom / RemoveUninteresting applied to the SAME profile (the
   command-line path: fetchProfiles applies drop_frames, generateReport applies prune_from to the object
   it was handed) leaves exactly what the COMPOSITION of the frame rules leaves -- each rule read on the
   frames the previous one left, with nothing else carried over from earlier operations.  The finding
   classes F14 / F15 are read on the profile each step receives. *)
Theorem history_meets_spec : forall M V p sts,
  wf_profile p = true -> steps_classes M V p sts = [] ->
  fsamples (run_steps M V p sts) = spec_steps M V p sts (fsamples p).
Proof. exact history_meets_spec_l. Qed.
Print Assumptions history_meets_spec.

(* every operation hands a valid profile to the next one *)
Theorem history_preserves_validity : forall M V p st,
  wf_profile p = true -> wf_profile (run_step M V p st) = true.
Proof. exact run_step_wf. Qed.
Print Assumptions history_preserves_validity.

(* ---- the glue of the driver (model M_Driver, tied to driver.PProf / sessions / web by the e2e cases) *)

(* several sources: the merged profile carries ONE pair of expressions, the first source's *)
Theorem fetch_uses_first_source_expressions : forall p0 r,
  p_dropframes (merge_sources (p0 :: r)) = p_dropframes p0
  /\ p_keepframes (merge_sources (p0 :: r)) = p_keepframes p0.
Proof. exact merge_sources_expressions. Qed.
Print Assumptions fetch_uses_first_source_expressions.

(* "applied once after fetching": the fetched profile is what the drop/keep rule leaves of the merged
   sources (outside F14) *)
Theorem fetch_meets_spec : forall M V srcs,
  wf_profile (merge_sources srcs) = true ->
  steps_classes M V (merge_sources srcs) [SRemoveUn] = [] ->
  fsamples (fetch_model M V srcs)
  = spec_steps M V (merge_sources srcs) [SRemoveUn] (fsamples (merge_sources srcs)).
Proof. exact fetch_model_meets_spec_l. Qed.
Print Assumptions fetch_meets_spec.

(* prune_from is the LAST stage of applyFocus: with it the result is exactly PruneFrom of the result
   without it, so it never changes which samples the other filters select ... *)
Theorem prune_from_is_applied_last : forall M V uts p units c re,
  c_prunefrom c = "" -> re <> "" -> V re = true ->
  fst (fst (apply_focus M V uts p units c)) = "" ->
  fst (fst (apply_focus M V uts p units (with_prunefrom c re))) = ""
  /\ snd (fst (apply_focus M V uts p units (with_prunefrom c re)))
     = prune_from M (snd (fst (apply_focus M V uts p units c))) re.
Proof. exact prune_from_is_last_l. Qed.
Print Assumptions prune_from_is_applied_last.

(* ... and the number of samples, their values and labels are unchanged by it *)
Theorem prune_from_keeps_every_sample_thm : forall M p re,
  map payload (p_sample (prune_from M p re)) = map payload (p_sample p).
Proof. exact prune_from_keeps_every_sample. Qed.
Print Assumptions prune_from_keeps_every_sample_thm.

(* ---------------------------------------------------------------- witnesses *)
Definition Meq (rx s : string) : bool := String.eqb rx s.
Definition mkf (id : Z) (n : string) : function :=
  {| f_id := id; f_name := n; f_sysname := n; f_file := "a.c"; f_startline := 0 |}.
Definition mkl (id : Z) (fns : list Z) : location :=
  {| l_id := id; l_mapping := 0; l_addr := id;
     l_lines := map (fun f => {| ln_fn := f; ln_line := 1; ln_col := 0 |}) fns; l_folded := false |}.
Definition mks (locs : list Z) : sample :=
  {| s_loc := locs; s_val := [1]; s_label := []; s_numlabel := []; s_numunit := [] |}.
Definition mkp (fs : list function) (ls : list location) (ss : list sample) : profile :=
  {| p_sampletype := [{| vt_type := "samples"; vt_unit := "count" |}]; p_defaultsampletype := "";
     p_sample := ss; p_mapping := []; p_location := ls; p_function := fs; p_comments := [];
     p_docurl := ""; p_dropframes := ""; p_keepframes := ""; p_timenanos := 0; p_durationnanos := 0;
     p_periodtype := None; p_period := 0 |}.
Definition fns4 := [mkf 1 "f1"; mkf 2 "m1"; mkf 3 "f3"; mkf 4 "x"].

(* F14: root location [f1 m1 f3] (leaf..root) is mixed; Prune("m1") yields f3 <- x *)
Definition w14 := mkp fns4 [mkl 1 [1; 2; 3]; mkl 2 [4]] [mks [2; 1]].
Theorem prune_meets_spec_refuted : exists M p drop keep,
  wf_profile p = true /\ in_F14 M p drop keep = true
  /\ fsamples_eqb (fsamples (prune M p drop keep)) (spec_prune M p drop keep (fsamples p)) = false.
Proof. exists Meq, w14, "m1", None. vm_compute. auto. Qed.
Print Assumptions prune_meets_spec_refuted.

(* F15: leaf location [f1 m1 f3], root-side location [f1 m1]; PruneFrom("m1") also trims the second *)
Definition w15 := mkp fns4 [mkl 1 [1; 2; 3]; mkl 3 [1; 2]] [mks [1; 3]].
Theorem prune_from_meets_spec_refuted : exists M p re,
  wf_profile p = true /\ in_F15 M p re = true
  /\ fsamples_eqb (fsamples (prune_from M p re)) (spec_prune_from M p re (fsamples p)) = false.
Proof. exists Meq, w15, "m1". vm_compute. auto. Qed.
Print Assumptions prune_from_meets_spec_refuted.

(* the hypotheses are satisfiable, and non-trivially: a match inside an inlined location shared by a
   sample where the rule applies and one where it does not *)
Definition wok := mkp fns4 [mkl 1 [1; 2; 3]; mkl 2 [4]] [mks [1; 2]; mks [2]; mks [1; 2; 2]].
Example prune_hyps_satisfiable :
  wf_profile wok = true /\ in_F14 Meq wok "m1" None = false /\ in_F15 Meq wok "m1" = false
  /\ fsamples_eqb (fsamples (prune Meq wok "m1" None)) (fsamples wok) = false
  /\ fsamples_eqb (fsamples (prune_from Meq wok "m1")) (fsamples wok) = false.
Proof. vm_compute. auto. Qed.

(* a history whose hypotheses hold: drop_frames "^(rt)$" matches only the ROOT frame, which therefore
   survives; a prune_from that matches nothing must then leave both samples whole, and one that
   matches f1 must cut only the first *)
Definition wroot :=
  let p := mkp [mkf 1 "f1"; mkf 2 "f2"; mkf 3 "rt"] [mkl 1 [1]; mkl 2 [2]; mkl 3 [3]] [mks [1; 2; 3]; mks [2; 3]] in
  {| p_sampletype := p_sampletype p; p_defaultsampletype := ""; p_sample := p_sample p; p_mapping := [];
     p_location := p_location p; p_function := p_function p; p_comments := []; p_docurl := "";
     p_dropframes := "rt"; p_keepframes := ""; p_timenanos := 0; p_durationnanos := 0;
     p_periodtype := None; p_period := 0 |}.
Definition Manch (rx s : string) : bool := String.eqb rx s || String.eqb rx ("^(" ++ s ++ ")$").
Example history_hyps_satisfiable :
  wf_profile wroot = true
  /\ steps_classes Manch (fun _ => true) wroot [SRemoveUn; SPruneFrom "nomatch"; SPrune "f1" None; SPruneFrom "f2"] = []
  /\ fsamples_eqb (fsamples (run_steps Manch (fun _ => true) wroot [SRemoveUn; SPruneFrom "nomatch"])) (fsamples wroot) = true
  /\ fsamples_eqb (fsamples (run_steps Manch (fun _ => true) wroot [SRemoveUn; SPruneFrom "f2"])) (fsamples wroot) = false.
Proof. vm_compute. auto. Qed.
