From PV Require Import M_Prune S_Prune.
