(* Specification of C19 (saved view configurations), written against the property text and not
   against the control flow of the model, with decidable checkers that bin/check evaluates on the
   implementation's observables. *)
From PV Require Import M_Config M_Settings M_Fs.
Open Scope string_scope.
Open Scope Z_scope.

(* "an option cleared to the empty string counts as unset and takes its default" *)
Definition canon (f : field) (v : string) : string :=
  if String.eqb v "" then f_default f else v.

(* ---- URL <-> configuration *)
(* c' is what came back from the URL made of c: every SAVED option is intact *)
Definition roundtrip_ok (fs : list field) (c c' : config) : bool :=
  forallb (fun f => negb (f_saved f) || String.eqb (c' (f_name f)) (canon f (c (f_name f)))) fs.

Definition url_field (f : field) : bool := f_saved f && negb (String.eqb (f_url f) "").

(* defaults are not spelled out in the URL *)
Definition elides_defaults (fs : list field) (c : config) (q : values) : bool :=
  forallb (fun f => if url_field f && String.eqb (c (f_name f)) (f_default f)
                    then String.eqb (vget q (f_url f)) "" else true) fs.

(* applying a URL leaves alone every option the URL does not mention *)
Definition untouched_ok (fs : list field) (c0 : config) (q : values) (c' : config) : bool :=
  forallb (fun f => if String.eqb (f_url f) "" || String.eqb (vget q (f_url f)) ""
                    then String.eqb (c' (f_name f)) (c0 (f_name f)) else true) fs.

(* F26: a saved option that has no URL parameter (tagroot, tagleaf) is set *)
(* configs the code can hold: ints/bools/floats are printed Go values, a multi-choice option
   holds one of its choices or nothing *)
Definition wf_value (pf : string -> option string) (f : field) (v : string) : bool :=
  match f_kind f with
  | KStr => match f_choices f with [] => true | ch => String.eqb v "" || existsb (String.eqb v) ch end
  | KInt => match atoi v with Some z => String.eqb (print_int z) v | None => false end
  | KFloat => match pf v with Some s => String.eqb s v | None => false end
  | KBool => String.eqb v "true" || String.eqb v "false"
  end.
Definition wf_cfgb (pf : string -> option string) (fs : list field) (c : config) : bool :=
  forallb (fun f => wf_value pf f (c (f_name f))) fs.

Definition in_F26 (fs : list field) (c : config) : bool :=
  existsb (fun f => f_saved f && String.eqb (f_url f) ""
                    && negb (String.eqb (canon f (c (f_name f))) (f_default f))) fs.

(* ---- settings: equality of what is SAVED *)
(* float options are compared as numbers: -0 and 0 are the same value *)
Definition norm_val (k : kind) (v : string) : string :=
  match k with KFloat => if String.eqb v "-0" then "0" else v | _ => v end.
Definition saved_eqb (fs : list field) (c1 c2 : config) : bool :=
  forallb (fun f => negb (f_saved f)
                    || String.eqb (norm_val (f_kind f) (c1 (f_name f))) (norm_val (f_kind f) (c2 (f_name f)))) fs.
Definition saved_eq (fs : list field) (c1 c2 : config) : Prop :=
  forall f, In f fs -> f_saved f = true -> c1 (f_name f) = c2 (f_name f).

Fixpoint settings_eqb (fs : list field) (a b : settings) : bool :=
  match a, b with
  | [], [] => true
  | (n1, c1) :: ra, (n2, c2) :: rb => String.eqb n1 n2 && saved_eqb fs c1 c2 && settings_eqb fs ra rb
  | _, _ => false
  end.

Definition others (name : string) (ss : settings) : settings :=
  filter (fun nc => negb (String.eqb (fst nc) name)) ss.
Definition count_name (name : string) (ss : settings) : nat :=
  List.length (filter (fun nc => String.eqb (fst nc) name) ss).
Fixpoint lookup_first (ss : settings) (name : string) : option config :=
  match ss with
  | [] => None
  | (n, c) :: r => if String.eqb n name then Some c else lookup_first r name
  end.

(* saving [name := c]: afterwards name is present and restores c on every saved option, and
   every other named configuration is what it was (same order, same saved options) *)
Definition save_ok (fs : list field) (name : string) (c : config) (before aft : settings) : bool :=
  settings_eqb fs (others name before) (others name aft)
  && match lookup_first aft name with Some c' => saved_eqb fs c c' | None => false end
  && Nat.eqb (count_name name aft) (Nat.max 1 (count_name name before)).

(* deleting [name]: one entry of that name goes away, nothing else changes *)
Definition delete_ok (fs : list field) (name : string) (before aft : settings) : bool :=
  settings_eqb fs (others name before) (others name aft)
  && Nat.eqb (S (count_name name aft)) (count_name name before).

(* the Config menu: Default first, then the user configurations in file order; each link carries
   the configuration's saved options (defaults elided); at most one entry is current *)
Definition menu_entry := (string * values * bool * bool)%type.
Definition link_ok (fs : list field) (c : config) (q : values) : bool :=
  forallb (fun f => negb (url_field f) || String.eqb (vget q (f_url f)) (url_value f c)) fs.
Definition menu_ok (fs : list field) (u : values) (st : option settings) (m : list menu_entry) : bool :=
  let configs := ("Default", default_cfg fs) :: match st with Some ss => ss | None => [] end in
  Nat.eqb (List.length m) (List.length configs)
  && forallb (fun ec => match ec with ((n, q, _, _), (n', c)) => String.eqb n n' && link_ok fs c q end)
             (combine m configs)
  && match m with (_, _, _, user0) :: r => negb user0 && forallb (fun e => snd e) r | [] => false end
  && Nat.leb (List.length (filter (fun e => snd (fst e)) m)) 1.

(* ---- crash atomicity (Prop level; M_Fs has the executable protocol recogniser) *)
(* the state the disk is in when the process is killed at some point of [ops]: between two
   system calls, or inside a write after any number of its bytes *)
Definition crashed (s0 : fsys) (ops : list fop) (s : fsys) : Prop :=
  exists pre rest, ops = (pre ++ rest)%list /\
    (s = run s0 pre \/
     exists fd d d' r, rest = FWrite fd d :: r /\ has_prefix d' d = true /\ s = step (run s0 pre) (FWrite fd d')).

Definition atomic_at (target : string) (s0 : fsys) (ops : list fop) : Prop :=
  forall s, crashed s0 ops s ->
    content s target = content s0 target \/ content s target = content (run s0 ops) target.

(* ---- serializability of concurrent edits (Prop level is in L_Settings: schedules) *)
