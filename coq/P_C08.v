From PV Require Import M_Order S_Order Gen.Gen_Comparators.
Open Scope Z_scope.

Theorem generated_chains_ok : forallb (fun e => chain_ok (snd e)) comparators = true.
Proof. vm_compute. reflexivity. Qed.
Print Assumptions generated_chains_ok.
