(* C08 -- Identical inputs and options give byte-identical output.
   Property theorems only: each is closed by [exact] of a lemma (or by computation on the tables
   REGENERATED from /repo on every run: Gen/Gen_Comparators.v, Gen/Gen_MapRange.v) and followed by
   Print Assumptions. *)
From Coq Require Import Sorting.Permutation Floats.
From PV Require Import M_Glue08 L_Glue08 M_Config Gen.Gen_ConfigTable.
From PV Require Import M_Order S_Order L_Order L_Sprint S_MapRange L_MapRange Gen.Gen_Comparators Gen.Gen_MapRange.
Open Scope string_scope.
Open Scope Z_scope.

Definition chains_of (car : carrier) : list chain :=
  map snd (filter (fun e => match snd (fst e), car with
                            | CNode, CNode | CEdge, CEdge | CTag, CTag | CString, CString => true
                            | _, _ => false end) comparators).
Definition chain_named (n : string) : chain :=
  match find (fun e => String.eqb (fst (fst e)) n) comparators with Some e => snd e | None => [] end.

(* ---------------- (a) the comparators the code has NOW (re-proved whenever graph.go changes) -------- *)

(* every step of every Less on the output paths decides on the very key it guards on *)
Theorem generated_chains_ok : forallb (fun e => chain_ok (snd e)) comparators = true.
Proof. vm_compute. reflexivity. Qed.
Print Assumptions generated_chains_ok.

(* the model interprets every key expression the translator found *)
Theorem generated_keys_interpreted :
  forallb (keys_known node_key dummy_node) (chains_of CNode)
  && forallb (keys_known edge_key dummy_edge) (chains_of CEdge)
  && forallb (keys_known tag_key dummy_tag) (chains_of CTag) = true.
Proof. vm_compute. reflexivity. Qed.
Print Assumptions generated_keys_interpreted.

(* every order ends on a key that identifies the thing ordered; all the expected orders exist *)
Theorem generated_chains_end_on_identity :
  forallb (has_key sprint_key) (chains_of CNode)
  && forallb (fun c => has_key weight_key c && has_key src_name_key c && has_key dst_name_key c) (chains_of CEdge)
  && forallb (has_key tag_name_key) (chains_of CTag)
  && (8 <=? Z.of_nat (List.length (chains_of CNode))) && (1 <=? Z.of_nat (List.length (chains_of CEdge)))
  && (2 <=? Z.of_nat (List.length (chains_of CTag))) = true.
Proof. vm_compute. reflexivity. Qed.
Print Assumptions generated_chains_end_on_identity.

(* ---------------- general theorems about chains (all carriers, all chains, all elements) ------------ *)

Theorem chain_is_strict_weak_order : forall (A : Type) (kv : string -> A -> val) (c : chain),
  chain_ok c = true -> strict_weak_order (less kv c).
Proof. exact (@chain_strict_weak_order). Qed.
Print Assumptions chain_is_strict_weak_order.

(* node orders: strict total order on every list of nodes outside the classes F8 and F19 *)
Theorem node_order_strict_total : forall c l,
  chain_ok c = true -> has_key sprint_key c = true ->
  in_F8 l = false -> in_F19 l = false ->
  strict_total_order_on (less node_kv c) node_same l.
Proof. exact node_chain_total. Qed.
Print Assumptions node_order_strict_total.

(* edge order: strict total order on every list of edges outside the class F9 *)
Theorem edge_order_strict_total : forall c l,
  chain_ok c = true -> has_key weight_key c = true ->
  has_key src_name_key c = true -> has_key dst_name_key c = true ->
  in_F9 l = false ->
  strict_total_order_on (less edge_kv c) edge_same l.
Proof. exact edge_chain_total. Qed.
Print Assumptions edge_order_strict_total.

(* tag order: strict total order on tags (identified by name, as TagMap does), unconditionally *)
Theorem tag_order_strict_total : forall c l,
  chain_ok c = true -> has_key tag_name_key c = true ->
  strict_total_order_on (less tag_kv c) tag_same l.
Proof. exact tag_chain_total. Qed.
Print Assumptions tag_order_strict_total.

(* the three together, for the chains regenerated from the source *)
Theorem every_output_ordering_is_strict_total :
  (forall c l, In c (chains_of CNode) -> in_F8 l = false -> in_F19 l = false ->
               strict_total_order_on (less node_kv c) node_same l)
  /\ (forall c l, In c (chains_of CEdge) -> in_F9 l = false ->
               strict_total_order_on (less edge_kv c) edge_same l)
  /\ (forall c l, In c (chains_of CTag) -> strict_total_order_on (less tag_kv c) tag_same l).
Proof.
  pose proof generated_chains_ok as OK. pose proof generated_chains_end_on_identity as ID.
  rewrite forallb_forall in OK.
  apply andb_true_iff in ID. destruct ID as [ID _]. apply andb_true_iff in ID. destruct ID as [ID _].
  apply andb_true_iff in ID. destruct ID as [ID _].
  apply andb_true_iff in ID. destruct ID as [ID IT]. apply andb_true_iff in ID. destruct ID as [IN IE].
  rewrite forallb_forall in IN, IE, IT.
  assert (OKc : forall car c, In c (chains_of car) -> chain_ok c = true).
  { intros car c Hc. unfold chains_of in Hc. apply in_map_iff in Hc. destruct Hc as [e [E Hin]].
    apply filter_In in Hin. destruct Hin as [Hin _]. subst c. now apply OK. }
  split; [|split].
  - intros c l Hc F8 F19. apply node_chain_total; [exact (OKc CNode c Hc) | exact (IN c Hc) | exact F8 | exact F19].
  - intros c l Hc F. specialize (IE c Hc).
    apply andb_true_iff in IE. destruct IE as [IE D]. apply andb_true_iff in IE. destruct IE as [W S].
    apply edge_chain_total; [exact (OKc CEdge c Hc) | exact W | exact S | exact D | exact F].
  - intros c l Hc. apply tag_chain_total; [exact (OKc CTag c Hc) | exact (IT c Hc)].
Qed.
Print Assumptions every_output_ordering_is_strict_total.

(* ---------------- the hypotheses are needed: the recorded findings ---------------- *)

(* F19: in a call tree two nodes may share NodeInfo and values; NO chain over these keys separates them *)
Theorem node_order_total_refuted_F19 : forall c, exists x y,
  node_same x y = false /\ in_F19 [x; y] = true /\ less node_kv c x y = false /\ less node_kv c y x = false.
Proof.
  intro c. destruct (F19_tie c dummy_node) as [A [B [C D]]]. eexists. eexists. repeat split; eassumption.
Qed.
Print Assumptions node_order_total_refuted_F19.

(* F8: fmt.Sprint(NodeInfo) is not injective; compareNodes and NameOrder tie on the witness *)
Theorem node_order_total_refuted_F8 : exists x y,
  info_eqb (n_info x) (n_info y) = false /\ in_F8 [x; y] = true /\
  forallb (fun n => negb (less node_kv (chain_named n) x y) && negb (less node_kv (chain_named n) y x))
          ["compareNodes"; "NameOrder"] = true.
Proof.
  exists {| n_id := 1; n_info := {| ni_name := "f"; ni_orig := ""; ni_addr := 0; ni_file := "a 0 0 0 b"; ni_startline := 0;
              ni_lineno := 0; ni_colno := 0; ni_objfile := "" |}; n_flat := 1; n_cum := 1; n_score := 3 |},
         {| n_id := 2; n_info := {| ni_name := "f"; ni_orig := ""; ni_addr := 0; ni_file := "a"; ni_startline := 0;
              ni_lineno := 0; ni_colno := 0; ni_objfile := "b 0 0 0 " |}; n_flat := 1; n_cum := 1; n_score := 3 |}.
  vm_compute. repeat split; reflexivity.
Qed.
Print Assumptions node_order_total_refuted_F8.

(* F9: two edges from different nodes with one printable name tie under edgeList.Less *)
Theorem edge_order_total_refuted_F9 : exists x y,
  edge_same x y = false /\ in_F9 [x; y] = true /\
  less edge_kv (chain_named "edgeList.Less") x y = false /\ less edge_kv (chain_named "edgeList.Less") y x = false.
Proof.
  pose (f1 := {| n_id := 1; n_info := {| ni_name := "f"; ni_orig := ""; ni_addr := 0; ni_file := ""; ni_startline := 1;
              ni_lineno := 0; ni_colno := 0; ni_objfile := "/bin/x" |}; n_flat := 0; n_cum := 0; n_score := 0 |}).
  pose (f2 := {| n_id := 2; n_info := {| ni_name := "f"; ni_orig := ""; ni_addr := 0; ni_file := ""; ni_startline := 2;
              ni_lineno := 0; ni_colno := 0; ni_objfile := "/bin/y" |}; n_flat := 0; n_cum := 0; n_score := 0 |}).
  pose (g := {| n_id := 3; n_info := {| ni_name := "g"; ni_orig := ""; ni_addr := 0; ni_file := ""; ni_startline := 0;
              ni_lineno := 0; ni_colno := 0; ni_objfile := "" |}; n_flat := 0; n_cum := 0; n_score := 0 |}).
  exists {| e_src := f1; e_dst := g; e_weight := 5 |}, {| e_src := f2; e_dst := g; e_weight := 5 |}.
  vm_compute. repeat split; reflexivity.
Qed.
Print Assumptions edge_order_total_refuted_F9.

(* the graph-level class used for whole reports is implied by the edge-level one *)
Theorem F9_edges_need_same_named_nodes : forall (es : list edge) (ns : list node),
  (forall e, In e es -> In (e_src e) ns /\ In (e_dst e) ns) ->
  in_F9 es = true -> in_F9_nodes ns = true.
Proof. exact F9_edges_need_same_named_nodes_lemma. Qed.
Print Assumptions F9_edges_need_same_named_nodes.

Theorem sprint_not_injective : exists a b, info_eqb a b = false /\ sprint_info a = sprint_info b.
Proof. eexists. eexists. exact sprint_not_injective_witness. Qed.
Print Assumptions sprint_not_injective.

(* ... and F8 is confined to names with spaces: without them fmt.Sprint(NodeInfo) is injective *)
Theorem sprint_injective_if_no_spaces : forall a b,
  info_no_spaces a = true -> info_no_spaces b = true -> sprint_info a = sprint_info b -> a = b.
Proof. exact sprint_injective_if_no_spaces_lemma. Qed.
Print Assumptions sprint_injective_if_no_spaces.

Theorem no_spaces_not_F8 : forall l,
  forallb (fun n => info_no_spaces (n_info n)) l = true -> in_F8 l = false.
Proof. exact no_spaces_not_F8_lemma. Qed.
Print Assumptions no_spaces_not_F8.

(* ---------------- sorting leaves no freedom ---------------- *)

(* a strict total order has exactly one sorted arrangement of a collection: neither the order in
   which a map handed over the elements nor sort.Sort's instability can show *)
Theorem sorted_unique : forall (A : Type) (lt same : A -> A -> bool) (l : list A),
  total_on lt same l -> (forall x y, In x l -> In y l -> same x y = true -> x = y) ->
  sort_deterministic lt l.
Proof. exact (@L_Order.sorted_unique). Qed.
Print Assumptions sorted_unique.

Theorem sort_strings_deterministic : forall l : list string, sort_deterministic str_ltb l.
Proof. exact L_Order.sort_strings_deterministic. Qed.
Print Assumptions sort_strings_deterministic.

Theorem sort_ints_deterministic : forall l : list Z, sort_deterministic Z.ltb l.
Proof. exact L_Order.sort_ints_deterministic. Qed.
Print Assumptions sort_ints_deterministic.

(* what is rendered from a sorted collection is a function of the collection (emitters themselves
   are not modelled here; see the det stream of the correspondence) *)
Theorem sorted_rendering_deterministic : forall (A B : Type) (lt same : A -> A -> bool) (render : list A -> B) l,
  total_on lt same l -> (forall x y, In x l -> In y l -> same x y = true -> x = y) ->
  forall l1 l2, Permutation l l1 -> Permutation l l2 -> sorted_by lt l1 -> sorted_by lt l2 ->
  render l1 = render l2.
Proof. exact (@sorted_rendering_deterministic_lemma). Qed.
Print Assumptions sorted_rendering_deterministic.

(* the model's insertion sort is a sorted permutation, hence THE result of any correct sort *)
Theorem model_sort_is_the_sorted_order : forall (A : Type) (kv : string -> A -> val) (same : A -> A -> bool) c l,
  chain_ok c = true -> total_on (less kv c) same l ->
  (forall x y, In x l -> In y l -> same x y = true -> x = y) ->
  forall l', Permutation l l' -> sorted_by (less kv c) l' -> l' = sort_by kv c l.
Proof. exact (@model_sort_is_the_sorted_order_lemma). Qed.
Print Assumptions model_sort_is_the_sorted_order.


(* ---------------- representatives of groups (list: one node per function name / per source file) ------- *)

(* a slice holding ONE representative per group, chosen in iteration (map) order, is sorted by a
   comparator whose first step is the group key -- for every such sort in the source now *)
Theorem representative_sorts_keyed_by_group : forallb (rep_sort_ok chain_named) rep_sort_sites = true.
Proof. vm_compute. reflexivity. Qed.
Print Assumptions representative_sorts_keyed_by_group.

(* then the order of the groups is independent of the choice of representatives (all carriers,
   all chains with an ok first step, all lists) *)
Theorem representative_order_independent : forall (A : Type) (kv : string -> A -> val) s r,
  step_ok s = true -> group_order_independent (kv (guard s)) (less kv (s :: r)).
Proof. exact (@representative_order_independent_lemma). Qed.
Print Assumptions representative_order_independent.

(* the condition is needed: with a weight-first order the file order follows the representative *)
Theorem representative_order_dependent_if_not_keyed : exists (c : chain) (l1 l2 : list node),
  map (fun n => ni_file (n_info n)) l1 = map (fun n => ni_file (n_info n)) l2 /\
  map (node_kv ".Info.File") (sort_by node_kv c l1) <> map (node_kv ".Info.File") (sort_by node_kv c l2).
Proof.
  eexists. eexists. eexists. split; [|exact representative_order_dependent_witness]. reflexivity.
Qed.
Print Assumptions representative_order_dependent_if_not_keyed.

(* ---------------- (b) map iteration ---------------- *)

(* every `range` over a map (or unresolved operand) in the output-path packages is classified *)
Theorem all_map_ranges_classified : forallb site_classified map_range_sites = true.
Proof. vm_compute. reflexivity. Qed.
Print Assumptions all_map_ranges_classified.

(* "sorted before use" sites name comparators that exist (and are therefore covered above) *)
Theorem sorted_sites_name_generated_comparators :
  forallb (fun e => sorted_by_known (map (fun c => fst (fst c)) comparators) (snd e)) maprange_table = true.
Proof. vm_compute. reflexivity. Qed.
Print Assumptions sorted_sites_name_generated_comparators.

(* a site that relies on sorting still has its sorting call *)
Theorem sorted_sites_still_sort :
  forallb (sorted_site_has_sort_call map_range_sites sort_sites) maprange_table = true.
Proof. vm_compute. reflexivity. Qed.
Print Assumptions sorted_sites_still_sort.

(* every sort.* call site is known *)
Theorem all_sort_sites_known : forallb sort_site_known sort_sites = true.
Proof. vm_compute. reflexivity. Qed.
Print Assumptions all_sort_sites_known.

(* no map range on an output path is order-sensitive: the float accumulation of edgeEntropyScore (F28)
   now ranges over the sorted edge list, so no site carries the class MRFloat any more *)
Theorem only_entropy_score_is_order_sensitive :
  forallb (fun g => let '(f, fn, e, n, k) := g in
             match class_of (f, fn, e, n) with
             | Some MRFloat => false
             | _ => true end) map_range_sites = true.
Proof. vm_compute. reflexivity. Qed.
Print Assumptions only_entropy_score_is_order_sensitive.

(* class MRAccum: int64 `+=` over the entries *)
Theorem sum_order_insensitive : forall (A : Type) (f : A -> Z) (b : Z),
  order_insensitive (fun l => fold_left (acc_i64 f) l b).
Proof. exact (@sum_i64_order_insensitive). Qed.
Print Assumptions sum_order_insensitive.

(* class MRSearch / boolean accumulation *)
Theorem any_order_insensitive : forall (A : Type) (p : A -> bool) (b : bool),
  order_insensitive (fun l => fold_left (fun acc x => acc || p x) l b).
Proof. exact (@L_Order.any_order_insensitive). Qed.
Print Assumptions any_order_insensitive.

(* class MRFill: filling a map from entries with distinct keys *)
Theorem map_fill_order_insensitive : forall (A V : Type) (key : A -> string) (value : A -> V) (l l' : list A) m0,
  NoDup (map key l) -> Permutation l l' ->
  forall k, fold_left (fun m e => upd m (key e) (value e)) l m0 k
          = fold_left (fun m e => upd m (key e) (value e)) l' m0 k.
Proof. exact (@L_Order.map_fill_order_insensitive). Qed.
Print Assumptions map_fill_order_insensitive.

(* any accumulation whose steps commute on the entries at hand *)
Theorem commuting_fold_order_insensitive : forall (A B : Type) (g : B -> A -> B) (l l' : list A),
  Permutation l l' -> (forall b x y, In x l -> In y l -> g (g b x) y = g (g b y) x) ->
  forall b, fold_left g l b = fold_left g l' b.
Proof. exact (@fold_commute_perm). Qed.
Print Assumptions commuting_fold_order_insensitive.

(* class MRFloat (F25): a float64 sum in iteration order is NOT a function of the set of terms *)
Theorem float_sum_order_insensitive_refuted_F25 : exists l l' : list float,
  Permutation l l' /\ PrimFloat.eqb (fsum l) (fsum l') = false.
Proof.
  exists [0x1.999999999999ap-4; 0x1.999999999999ap-3; 0x1.3333333333333p-2]%float,
         [0x1.3333333333333p-2; 0x1.999999999999ap-3; 0x1.999999999999ap-4]%float.
  split; [|exact float_sum_order_sensitive_witness].
  eapply perm_trans; [apply perm_swap|]. eapply perm_trans; [apply perm_skip, perm_swap|]. apply perm_swap.
Qed.
Print Assumptions float_sum_order_insensitive_refuted_F25.

(* ---------------- (c) serialization: labels are emitted in sorted key order ---------------- *)
Theorem encode_label_order_deterministic : forall keys1 keys2 sorted1 sorted2 : list string,
  Permutation keys1 keys2 ->
  Permutation keys1 sorted1 -> sorted_by str_ltb sorted1 ->
  Permutation keys2 sorted2 -> sorted_by str_ltb sorted2 ->
  sorted1 = sorted2.
Proof.
  intros k1 k2 s1 s2 P P1 S1 P2 S2.
  apply (L_Order.sort_strings_deterministic k1); try assumption.
  exact (Permutation_trans P P2).
Qed.
Print Assumptions encode_label_order_deterministic.

(* the hypotheses of the conditional theorems are satisfiable *)
Example hypotheses_satisfiable :
  in_F8 [dummy_node] = false /\ in_F19 [dummy_node] = false /\ in_F9 [dummy_edge] = false.
Proof. vm_compute. repeat split; reflexivity. Qed.

(* ---------------- end-to-end layer: the glue between the user's input and the report functions -------- *)

(* installConfigFlags collects the flags of a multi-choice group by ranging over a map; the outcome
   (default / value / "conflicting options") is a function of the SET of flags *)
Theorem choice_resolution_order_insensitive : forall s s' : list string,
  Permutation s s' -> resolve_choice s = resolve_choice s'.
Proof. exact resolve_choice_perm_lemma. Qed.
Print Assumptions choice_resolution_order_insensitive.

(* every pair of flags of one group (groups regenerated from config.go) is rejected, in both orders *)
Theorem conflicting_choice_flags_rejected :
  forallb (fun f => forallb (fun c1 => forallb (fun c2 =>
     String.eqb c1 c2 || negb (cli_accepts ["-top"; "-" ++ c1; "-" ++ c2; "-output=rep"]%string))
     (f_choices f)) (f_choices f)) config_fields = true.
Proof. vm_compute. reflexivity. Qed.
Print Assumptions conflicting_choice_flags_rejected.

(* the lenient rule "the last flag that departs from the default wins" would depend on the order *)
Theorem lenient_choice_resolution_refuted : exists default s s',
  Permutation s s' /\ resolve_lenient default s <> resolve_lenient default s'.
Proof.
  exists ""%string, ["functions"; "lines"]%string, ["lines"; "functions"]%string.
  split; [apply perm_swap | exact resolve_lenient_order_sensitive_witness].
Qed.
Print Assumptions lenient_choice_resolution_refuted.

(* a command repeated in a session with no option assignment in between issues the same request
   (same command, same options, the pristine profile), hence produces the same bytes whatever
   deterministic function of the request renders them *)
Theorem session_repeat_same_output : forall (B : Type) (render : string * list string -> B) c1 c2 mid rest hist,
  is_assignment c1 = false -> is_assignment c2 = false ->
  forallb (fun l => negb (is_assignment l)) mid = true ->
  strip_redirect c1 = strip_redirect c2 ->
  let outs := map (option_map render) (session_requests (c1 :: mid ++ c2 :: rest) hist) in
  nth (S (List.length mid)) outs None = nth 0 outs None.
Proof. exact (@session_repeat_same_output_lemma). Qed.
Print Assumptions session_repeat_same_output.

(* ---------------- round 5: helpers on the way into the reports ---------------- *)

(* cpuProfile's handler-frame search ranges over a map and stops at the first qualifying address:
   harmless, because at most one address can be the second frame of n - n/32 of n samples *)
Theorem cpu_handler_frame_at_most_one : forall n c1 c2 : Z,
  0 < c1 -> 0 < c2 -> c1 + c2 <= n ->
  handler_frame_qualifies n c1 = true -> handler_frame_qualifies n c2 = false.
Proof. exact handler_frame_unique_lemma. Qed.
Print Assumptions cpu_handler_frame_at_most_one.

(* the bound matters: counted against the stacks that have a second frame, two addresses qualify *)
Theorem cpu_handler_frame_against_deep_stacks_refuted : exists n stacks c1 c2 : Z,
  c1 + c2 <= stacks /\ (stacks - n / 32 <=? c1) = true /\ (stacks - n / 32 <=? c2) = true.
Proof. exists 64, 4, 2, 2. exact handler_frame_against_deep_stacks_not_unique_witness. Qed.
Print Assumptions cpu_handler_frame_against_deep_stacks_refuted.
