(* C01: the normalisation is idempotent and preserves validity, so a written-and-parsed profile is a
   fixpoint: parsing what it serializes to yields the same profile, and so the same bytes again. *)
From Coq Require Import Lia ZifyBool.
From PV Require Import M_Codec S_Codec L_Codec_Assoc L_Codec_Regroup L_Codec_Main L_Codec_Parsed.
Open Scope string_scope.
Open Scope list_scope.
Open Scope Z_scope.

(* ---------- filters ---------- *)
Lemma filter_idem {A} (f : A -> bool) l : filter f (filter f l) = filter f l.
Proof.
  induction l as [|a r IH]; [reflexivity|]. cbn [filter]. destruct (f a) eqn:E; [|exact IH].
  cbn [filter]. rewrite E, IH. reflexivity.
Qed.

Lemma norm_strlabels_idem l : norm_strlabels (norm_strlabels l) = norm_strlabels l.
Proof.
  induction l as [|[k vs] r IH]; [reflexivity|].
  rewrite norm_strlabels_cons. destruct (filter nonempty vs) as [|v0 vr] eqn:EF; cbn [opt_entry app]; [exact IH|].
  rewrite norm_strlabels_cons, <- EF, filter_idem, EF. cbn [opt_entry app]. rewrite IH. reflexivity.
Qed.

(* ---------- strictly increasing keys survive filtering and mapping ---------- *)
Lemma keys_sorted_flat {V W} (f : string * V -> list W) (l : list (string * V)) :
  keys_sorted l = true -> keys_sorted (flat_map (fun e => opt_entry (fst e) (f e)) l) = true.
Proof.
  induction l as [|[k v] r IH]; intros H; [reflexivity|]. cbn [keys_sorted] in H. apply andb_true_iff in H as [H1 H2].
  cbn [flat_map fst]. destruct (f (k, v)) as [|w ws]; cbn [opt_entry app]; [apply IH, H2|].
  cbn [keys_sorted]. rewrite (IH H2), andb_true_r.
  rewrite forallb_forall in *. intros e He. apply in_flat_map in He as (e0 & He0 & Hin).
  destruct (f e0); cbn [opt_entry] in Hin; [destruct Hin|]. destruct Hin as [<-|[]]. cbn [fst]. apply H1, He0.
Qed.

Lemma norm_strlabels_flat l :
  norm_strlabels l = flat_map (fun e => opt_entry (fst e) (filter nonempty (snd e))) l.
Proof. induction l as [|[k vs] r IH]; [reflexivity|]. rewrite norm_strlabels_cons, IH. reflexivity. Qed.

(* ---------- numeric labels ---------- *)
Lemma filter_all {A} (f : A -> bool) l : forallb f l = true -> filter f l = l.
Proof.
  induction l as [|a r IH]; intros H; [reflexivity|]. cbn [forallb] in H. apply andb_true_iff in H as [H1 H2].
  cbn [filter]. rewrite H1, (IH H2). reflexivity.
Qed.

Lemma forallb_filter {A} (f : A -> bool) l : forallb f (filter f l) = true.
Proof. induction l as [|a r IH]; [reflexivity|]. cbn [filter]. destruct (f a) eqn:E; [cbn [forallb]; rewrite E, IH; reflexivity|exact IH]. Qed.

Lemma num_pairs_split K : num_pairs (map fst K) (map snd K) = K.
Proof. induction K as [|[v u] K IH]; [reflexivity|]. cbn [map num_pairs fst snd List.tl]. rewrite IH. reflexivity. Qed.

Lemma num_pairs_nil_units K : all_empty K = true -> num_pairs (map fst K) [] = K.
Proof.
  induction K as [|[v u] K IH]; intros H; [reflexivity|]. cbn [all_empty forallb snd] in H. apply andb_true_iff in H as [H1 H2].
  apply String.eqb_eq in H1. subst u. cbn [map num_pairs fst List.tl]. rewrite (IH H2). reflexivity.
Qed.

(* entries of the normalised tables, as optional entries *)
Definition uentry units (e : string * list Z) : list string :=
  if all_empty (Kof units e) then [] else map snd (Kof units e).

Lemma UKp_flat units l : UKp units l = flat_map (fun e => opt_entry (fst e) (uentry units e)) l.
Proof.
  induction l as [|e r IH]; [reflexivity|]. cbn [UKp flat_map]. fold (UKp units r). rewrite IH. f_equal.
  unfold uentry. destruct (all_empty (Kof units e)) eqn:AE; [reflexivity|].
  destruct (Kof units e) as [|p0 pr]; [discriminate|]. reflexivity.
Qed.

Lemma above_flat {V W} k (f : string * V -> list W) (l : list (string * V)) :
  forallb (fun e => str_ltb k (fst e)) l = true ->
  above k (flat_map (fun e => opt_entry (fst e) (f e)) l).
Proof.
  intros H. unfold above. apply Forall_forall. intros x Hx. apply in_flat_map in Hx as (e0 & He0 & Hin).
  destruct (f e0); cbn [opt_entry] in Hin; [destruct Hin|]. destruct Hin as [<-|[]]. cbn [fst].
  rewrite forallb_forall in H. apply H, He0.
Qed.

Lemma flat_lookup {V W} (f : string * V -> list W) : forall (l : list (string * V)) e,
  keys_sorted l = true -> In e l ->
  odef [] (assoc (fst e) (flat_map (fun e => opt_entry (fst e) (f e)) l)) = f e.
Proof.
  induction l as [|[k v] r IH]; intros e KS He; [destruct He|].
  cbn [keys_sorted] in KS. apply andb_true_iff in KS as [K1 K2]. cbn [flat_map fst].
  destruct He as [<-|He].
  - cbn [fst]. destruct (f (k, v)) as [|w ws] eqn:EF; cbn [opt_entry app].
    + rewrite (assoc_none_above k _ (above_flat k f r K1)). reflexivity.
    + rewrite assoc_cons, String.eqb_refl. reflexivity.
  - assert (NE : String.eqb k (fst e) = false).
    { rewrite forallb_forall in K1. specialize (K1 e He). apply String.eqb_neq. intros ->.
      rewrite str_ltb_irrefl in K1. discriminate. }
    destruct (f (k, v)) as [|w ws]; cbn [opt_entry app]; [apply IH; assumption|].
    rewrite assoc_cons, NE. apply IH; assumption.
Qed.

Lemma Kof_filtered units e : forallb keep_pair (Kof units e) = true.
Proof. unfold Kof. apply forallb_filter. Qed.

Lemma all_empty_map_snd K : all_empty K = false -> map snd K <> [].
Proof. destruct K; [discriminate|]. discriminate. Qed.

(* normalising twice = normalising once, for the numeric tables of one sample *)
Lemma norm_num_idem units lfull : keys_sorted lfull = true ->
  forall l, (forall e, In e l -> In e lfull) ->
  NK (UKp units lfull) (NK units l) = NK units l /\ UKp (UKp units lfull) (NK units l) = UKp units l.
Proof.
  intros KS. induction l as [|e r IH]; intros SUB; [split; reflexivity|].
  destruct (IH (fun x Hx => SUB x (or_intror Hx))) as [IH1 IH2].
  cbn [NK UKp flat_map]. fold (NK units r) (UKp units r).
  destruct (Kof units e) as [|p0 pr] eqn:EK.
  - cbn [map opt_entry app all_empty forallb]. split; assumption.
  - cbn [map opt_entry app]. cbn [NK UKp flat_map fst snd].
    fold (NK (UKp units lfull) (NK units r)) (UKp (UKp units lfull) (NK units r)).
    (* the units looked up for this key in the normalised table *)
    assert (LK : ulook (UKp units lfull) (fst e) = uentry units e).
    { unfold ulook. rewrite UKp_flat.
      pose proof (flat_lookup (uentry units) lfull e KS (SUB e (or_introl eq_refl))) as FL.
      destruct (assoc (fst e) _); exact FL. }
    assert (KE : Kof (UKp units lfull) (fst e, fst p0 :: map fst pr) = p0 :: pr).
    { unfold Kof at 1. cbn [fst snd]. rewrite LK. unfold uentry. rewrite EK.
      change (fst p0 :: map fst pr) with (map fst (p0 :: pr)).
      destruct (all_empty (p0 :: pr)) eqn:AE.
      - rewrite num_pairs_nil_units by exact AE. rewrite <- EK. apply filter_all, Kof_filtered.
      - rewrite num_pairs_split. rewrite <- EK. apply filter_all, Kof_filtered. }
    rewrite KE. cbn [map opt_entry app]. rewrite IH1, IH2. split; reflexivity.
Qed.

Lemma norm_sample_idem s : keys_sorted (s_numlabel s) = true -> norm_sample (norm_sample s) = norm_sample s.
Proof.
  intros KS. rewrite (norm_sample_shape s). rewrite norm_sample_shape.
  cbn [s_loc s_val s_label s_numlabel s_numunit].
  destruct (norm_num_idem (s_numunit s) (s_numlabel s) KS (s_numlabel s) (fun _ H => H)) as [A B].
  rewrite norm_strlabels_idem, A, B. reflexivity.
Qed.

Lemma map_ext_in' {A B} (f g : A -> B) l : (forall a, In a l -> f a = g a) -> map f l = map g l.
Proof. apply map_ext_in. Qed.

Lemma normalize_idem p :
  forallb (fun s => keys_sorted (s_numlabel s)) (p_sample p) = true -> normalize (normalize p) = normalize p.
Proof.
  intros H. unfold normalize. cbn [p_sampletype p_defaultsampletype p_sample p_mapping p_location p_function p_comments
    p_docurl p_dropframes p_keepframes p_timenanos p_durationnanos p_periodtype p_period].
  f_equal. rewrite map_map. apply map_ext_in. intros s Hs. apply norm_sample_idem.
  rewrite forallb_forall in H. apply H, Hs.
Qed.

(* ---------- normalisation preserves validity and the NumUnit contract ---------- *)
Lemma num_pairs_fst_in vs us v u : In (v, u) (num_pairs vs us) -> In v vs.
Proof.
  revert us. induction vs as [|x r IH]; intros us H; [destruct H|]. cbn [num_pairs] in H.
  destruct H as [E|H]; [inversion E; now left|right; eapply IH; eauto].
Qed.

Lemma Kof_values_in units e v : In v (map fst (Kof units e)) -> In v (snd e).
Proof.
  intros H. apply in_map_iff in H as ([v' u] & <- & H). unfold Kof in H. apply filter_In in H as [H _].
  eapply num_pairs_fst_in; eauto.
Qed.

Lemma norm_strlabels_sorted l : keys_sorted l = true -> keys_sorted (norm_strlabels l) = true.
Proof. intros H. rewrite norm_strlabels_flat. apply (keys_sorted_flat (fun e => filter nonempty (snd e))), H. Qed.

Lemma sample_valid_norm nst locids s :
  sample_valid nst locids s = true -> sample_valid nst locids (norm_sample s) = true.
Proof.
  unfold sample_valid. intros H. repeat (apply andb_true_iff in H as [H ?]).
  rewrite norm_sample_shape. cbn [s_val s_loc s_label s_numlabel s_numunit].
  match goal with H0 : keys_sorted (s_label s) = true |- _ => rename H0 into K1 end.
  match goal with H0 : keys_sorted (s_numlabel s) = true |- _ => rename H0 into K2 end.
  match goal with H0 : forallb (fun e => forallb S_Codec.is_i64 (snd e)) (s_numlabel s) = true |- _ => rename H0 into NV end.
  repeat (apply andb_true_iff; split); try assumption.
  - apply norm_strlabels_sorted, K1.
  - apply (keys_sorted_flat (fun e => map fst (Kof (s_numunit s) e))), K2.
  - rewrite UKp_flat. apply (keys_sorted_flat (uentry (s_numunit s))), K2.
  - apply forallb_forall. intros [k vs] Hk. cbn [snd]. apply forallb_forall. intros v Hv.
    unfold NK in Hk. apply in_flat_map in Hk as (e & He & Hin).
    destruct (map fst (Kof (s_numunit s) e)) as [|n0 nr] eqn:EM; cbn [opt_entry] in Hin; [destruct Hin|].
    destruct Hin as [E|[]]. inversion E; subst k vs. rewrite <- EM in Hv.
    apply Kof_values_in in Hv. rewrite forallb_forall in NV. specialize (NV e He). rewrite forallb_forall in NV. apply NV, Hv.
Qed.

Lemma valid_normalize p : valid_b p = true -> valid_b (normalize p) = true.
Proof.
  unfold valid_b. cbn zeta. intros H.
  unfold normalize at 1 2 3 4 5 6 7 8 9 10 11 12 13 14 15.
  cbn [p_sampletype p_defaultsampletype p_sample p_mapping p_location p_function p_comments p_docurl p_dropframes
       p_keepframes p_timenanos p_durationnanos p_periodtype p_period].
  repeat (apply andb_true_iff in H as [H ?]).
  repeat (apply andb_true_iff; split); try assumption.
  - rewrite map_length. exact H.
  - match goal with H0 : forallb (sample_valid _ _) (p_sample p) = true |- _ => rename H0 into VS end.
    rewrite forallb_forall in *. intros s Hs. apply in_map_iff in Hs as (s0 & <- & Hs0).
    apply sample_valid_norm, VS, Hs0.
  - unfold normalize; cbn [p_timenanos]. unfold S_Codec.is_i64 in *. lia.
  - unfold normalize; cbn [p_timenanos]. unfold S_Codec.is_i64 in *. lia.
  - unfold normalize; cbn [p_durationnanos]. unfold S_Codec.is_i64 in *. lia.
  - unfold normalize; cbn [p_durationnanos]. unfold S_Codec.is_i64 in *. lia.
  - unfold normalize; cbn [p_period]. unfold S_Codec.is_i64 in *. lia.
  - unfold normalize; cbn [p_period]. unfold S_Codec.is_i64 in *. lia.
Qed.

Lemma units_wf_normalize p :
  forallb (fun s => keys_sorted (s_numlabel s)) (p_sample p) = true -> units_wf_b (normalize p) = true.
Proof.
  intros KS. unfold units_wf_b, normalize. cbn [p_sample].
  apply forallb_forall. intros s Hs. apply in_map_iff in Hs as (s0 & <- & Hs0).
  rewrite forallb_forall in KS. specialize (KS s0 Hs0).
  rewrite norm_sample_shape. cbn [s_numlabel s_numunit].
  apply forallb_forall. intros [k vs] Hk. cbn zeta. cbn [fst snd].
  unfold NK in Hk. apply in_flat_map in Hk as (e & He & Hin).
  destruct (map fst (Kof (s_numunit s0) e)) as [|n0 nr] eqn:EM; cbn [opt_entry] in Hin; [destruct Hin|].
  destruct Hin as [E|[]]. inversion E; subst k vs.
  unfold units_of. cbn [s_numunit].
  change (match assoc_s (fst e) (UKp (s_numunit s0) (s_numlabel s0)) with Some u => u | None => [] end)
    with (ulook (UKp (s_numunit s0) (s_numlabel s0)) (fst e)).
  assert (LK : ulook (UKp (s_numunit s0) (s_numlabel s0)) (fst e) = uentry (s_numunit s0) e).
  { unfold ulook. rewrite UKp_flat. pose proof (flat_lookup (uentry (s_numunit s0)) (s_numlabel s0) e KS He) as FL.
    destruct (assoc (fst e) _); exact FL. }
  rewrite LK. unfold uentry. destruct (all_empty (Kof (s_numunit s0) e)); [reflexivity|].
  apply orb_true_iff. right. apply Nat.eqb_eq. rewrite <- EM, !map_length. reflexivity.
Qed.

(* a written-and-parsed profile is a fixpoint of write-then-parse, hence re-serializes identically *)
Lemma reparse_fixpoint p r' :
  valid_b p = true -> pre_encode (normalize p) = Ok r' -> size_ok r' ->
  parse_uncompressed (enc_profile r') = Ok (normalize p) /\ serialize (normalize p) = Ok (enc_profile r').
Proof.
  intros V H SZ.
  assert (KS : forallb (fun s => keys_sorted (s_numlabel s)) (p_sample p) = true).
  { unfold valid_b in V. cbn zeta in V. repeat (apply andb_true_iff in V as [V ?]).
    match goal with H0 : forallb (sample_valid _ _) (p_sample p) = true |- _ => rename H0 into VS end.
    rewrite forallb_forall in *. intros s Hs. specialize (VS s Hs). unfold sample_valid in VS.
    repeat (apply andb_true_iff in VS as [VS ?]). assumption. }
  destruct (write_parse_roundtrip_lemma (normalize p) r' (valid_normalize p V) (units_wf_normalize p KS) H SZ) as [S P].
  rewrite (normalize_idem p KS) in P. split; assumption.
Qed.
