(* C18 case transport: long byte strings are shipped as lists of primitive 63-bit integers
   (a 0x01 marker byte followed by up to seven data bytes each) because a Coq string literal
   costs ~75 us per byte to elaborate and graph texts are long.  [PK] rebuilds the string inside
   vm_compute.  Used by the case runner only -- no theorem depends on primitive integers. *)
From Coq Require Export Uint63.
From PV Require Import Base.Term.
Open Scope Z_scope.

(* bytes of z (marker 1 on top), most significant first *)
Fixpoint unpack_go (fuel : nat) (z : Z) (acc : string) : string :=
  match fuel with
  | O => acc
  | S f =>
      if z <=? 1 then acc
      else unpack_go f (Z.shiftr z 8) (String (ascii_of_N (Z.to_N (Z.land z 255))) acc)
  end.

Fixpoint PK (l : list int) : string :=
  match l with
  | [] => EmptyString
  | i :: r => unpack_go 8 (Uint63.to_Z i) (PK r)
  end.
