(* Case runner for C11. *)
From PV Require Import M_Prune S_Prune R_Filter R_Driver.
Open Scope Z_scope.
Open Scope string_scope.

Definition needed_ok (tbl : term) (p : profile) : bool :=
  forallb (fun f => String.eqb (f_name f) "" || tbl_has tbl (simplify_func (f_name f))) (p_function p).

(* The specification's "fully matches": the harness ships, for drop_frames / keep_frames, a FULL-MATCH
   ORACLE entry "=full=<expr>" computed from the expression itself (leftmost-longest match spanning the
   whole subject), independent of any anchoring string.  The spec side reads an anchored expression
   ^(e)$ through that oracle when it is there (e compiles on its own); the model keeps compiling the
   string the code builds. *)
Definition strip_anchor (rx : string) : option string :=
  if has_prefix "^(" rx && has_suffix ")$" rx
  then Some (take (String.length rx - 4)%nat (drop 2 rx)) else None.
Definition full_key (e : string) : string := "=full=" ++ e.
Definition tbl_Mfull (tbl : term) (rx s : string) : bool :=
  match strip_anchor rx with
  | Some e => if tbl_V tbl (full_key e) then tbl_M tbl (full_key e) s else tbl_M tbl rx s
  | None => tbl_M tbl rx s
  end.
(* the anchoring the model performs realises "fully matches" on every subject of the case *)
Definition oracle_consistent (tbl : term) (e : string) : bool :=
  negb (tbl_V tbl (full_key e))
  || forallb (fun t => Bool.eqb (tbl_M tbl (anchor e) (gs t)) (tbl_M tbl (full_key e) (gs t))) (gl (gn tbl 0)).

(* id-free rendering of frame samples, for observables that went through the driver (fetchProfiles
   may renumber / compact): a frame is (function name, file, line) or an address *)
Definition free_frame (p : profile) (fr : frame) : term :=
  match fr_line fr with
  | Some ln => match find_function p (ln_fn ln) with
               | Some f => TL [TS (f_name f); TS (f_file f); TZ (ln_line ln)]
               | None => TL [TS "?"]
               end
  | None => match find_location p (fr_loc fr) with Some l => TL [TZ (l_addr l)] | None => TL [] end
  end.
Definition free_fsample (p : profile) (s : fsample) : term :=
  TL [of_zs (fs_val s); of_kss (fs_label s); of_kzs (fs_numlabel s); of_kss (fs_numunit s);
      TL (map (free_frame p) (fs_frames s))].
Definition free_fsamples (p : profile) (ss : list fsample) : term := TL (map (free_fsample p) ss).

(* steps of a history: prune d k | prunefrom re | removeun | fetch (the driver's fetchProfiles =
   RemoveUninteresting once, error ignored) | report re (generateRawReport with prune_from=re) *)
Definition step_of (t : term) : pstep :=
  let k := gs (gn t 0) in
  if String.eqb k "prune" then SPrune (gs (gn t 1)) (opt_s (gn t 2))
  else if String.eqb k "prunefrom" || String.eqb k "report" then SPruneFrom (gs (gn t 1))
  else SRemoveUn.
Definition steps_of (t : term) : list pstep := map step_of (gl t).

Definition run_C11 (i : term) : term :=
  let op := gs (gn i 0) in
  if String.eqb op "e2e" then run_e2e i else
  if String.eqb op "legacy" then
    let t := gn i 3 in
    let '(d, k) := legacy_frame_info (gs (gn t 0)) (gs (gn t 1)) (gs (gn t 2)) (gs (gn t 3)) (gss (gn i 2)) in
    TL [TS "ok"; TS d; TS k] else
  if String.eqb op "simplify" then TS (simplify_func (gs (gn i 1)))
  else
    let p := profile_of (gn i 1) in
    if String.eqb op "prune" then
      let tbl := gn i 4 in
      if negb (needed_ok tbl p) then TL [TS "table-miss"] else
      TL (TS "ok" :: obs_profile (prune (tbl_M tbl) p (gs (gn i 2)) (opt_s (gn i 3))))
    else if String.eqb op "prunefrom" then
      let tbl := gn i 3 in
      if negb (needed_ok tbl p) then TL [TS "table-miss"] else
      TL (TS "ok" :: obs_profile (prune_from (tbl_M tbl) p (gs (gn i 2))))
    else if String.eqb op "removeun" then
      let tbl := gn i 2 in
      if negb (needed_ok tbl p) then TL [TS "table-miss"] else
      match remove_uninteresting (tbl_M tbl) (tbl_V tbl) p with
      | Some p' => TL (TS "ok" :: obs_profile p')
      | None => TL (TS "err" :: obs_profile p)
      end
    else if String.eqb op "fetch" then
      (* fetchProfiles on one in-memory source: RemoveUninteresting applied exactly once, its error ignored *)
      let tbl := gn i 2 in
      if negb (needed_ok tbl p) then TL [TS "table-miss"] else
      let p' := match remove_uninteresting (tbl_M tbl) (tbl_V tbl) p with Some q => q | None => p end in
      TL [TS "ok"; free_fsamples p' (fsamples p')]
    else if String.eqb op "history" then
      let tbl := gn i 3 in
      if negb (needed_ok tbl p) then TL [TS "table-miss"] else
      let p' := run_steps (tbl_M tbl) (tbl_V tbl) p (steps_of (gn i 2)) in
      TL [TS "ok"; free_fsamples p' (fsamples p')]
    else TL [TS "bad-op"].

Definition eqv_C11 (i m o : term) : bool :=
  if String.eqb (gs (gn i 0)) "e2e" then eqv_e2e i m o else term_eqb m o.

(* drop / keep actually in force for a removeun case *)
Definition ru_drop (p : profile) : string := anchor (p_dropframes p).
Definition ru_keep (p : profile) : option string :=
  if String.eqb (p_keepframes p) "" then None else Some (anchor (p_keepframes p)).

Definition spec_C11 (i o : term) : bool :=
  let op := gs (gn i 0) in
  if String.eqb op "e2e" then existsb (Z.eqb 900) (cls_e2e i) || spec_e2e i o else
  if String.eqb op "legacy" then
    (* a legacy profile always carries a built-in drop expression, the one its sample types prescribe *)
    term_eqb o (run_C11 i) && negb (String.eqb (gs (gn o 1)) "") else
  if String.eqb op "simplify" then
    (* the simplified name is a prefix of the name without its leading dot *)
    (* ... and no argument list is left: scanning the result again finds no bare "(" to cut at *)
    has_prefix (gs o) (trim_prefix "." (gs (gn i 1))) && String.eqb (simp_scan (gs o) 0) (gs o)
  else
    let p := profile_of (gn i 1) in
    let p' := with_obs p o 1 in
    if String.eqb op "prune" then
      String.eqb (gs (gn o 0)) "ok" && check_prune (tbl_M (gn i 4)) p (gs (gn i 2)) (opt_s (gn i 3)) p'
    else if String.eqb op "prunefrom" then
      String.eqb (gs (gn o 0)) "ok" && check_prune_from (tbl_M (gn i 3)) p (gs (gn i 2)) p'
    else if String.eqb op "removeun" then
      let tbl := gn i 2 in
      if String.eqb (p_dropframes p) "" then
        (* a profile without such expressions is left untouched *)
        String.eqb (gs (gn o 0)) "ok" && term_eqb (TL (obs_profile p')) (TL (obs_profile p))
      else if String.eqb (gs (gn o 0)) "ok" then
        check_prune (tbl_Mfull tbl) p (ru_drop p) (ru_keep p) p'
        && oracle_consistent tbl (p_dropframes p) && oracle_consistent tbl (p_keepframes p)
      else (* an expression that does not compile: error, profile untouched *)
        (negb (tbl_V tbl (ru_drop p)) || match ru_keep p with Some k => negb (tbl_V tbl k) | None => false end)
        && term_eqb (TL (obs_profile p')) (TL (obs_profile p))
    else if String.eqb op "fetch" then
      let tbl := gn i 2 in
      let compiles := tbl_V tbl (ru_drop p) && match ru_keep p with Some k => tbl_V tbl k | None => true end in
      let want := if String.eqb (p_dropframes p) "" || negb compiles then fsamples p
                  else spec_prune (tbl_Mfull tbl) p (ru_drop p) (ru_keep p) (fsamples p) in
      String.eqb (gs (gn o 0)) "ok" && term_eqb (gn o 1) (free_fsamples p want)
      && oracle_consistent tbl (p_dropframes p) && oracle_consistent tbl (p_keepframes p)
    else if String.eqb op "history" then
      let tbl := gn i 3 in
      String.eqb (gs (gn o 0)) "ok"
      && term_eqb (gn o 1) (free_fsamples p (spec_steps (tbl_Mfull tbl) (tbl_V tbl) p (steps_of (gn i 2)) (fsamples p)))
    else false.

Definition cls_C11 (i : term) : list Z :=
  let op := gs (gn i 0) in
  if String.eqb op "e2e" then cls_e2e i else
  if String.eqb op "legacy" then [] else
  if String.eqb op "simplify" then []
  else
    let p := profile_of (gn i 1) in
    if String.eqb op "prune" then
      if in_F14 (tbl_M (gn i 4)) p (gs (gn i 2)) (opt_s (gn i 3)) then [14] else []
    else if String.eqb op "prunefrom" then
      if in_F15 (tbl_M (gn i 3)) p (gs (gn i 2)) then [15] else []
    else if String.eqb op "removeun" || String.eqb op "fetch" then
      if negb (String.eqb (p_dropframes p) "") && tbl_V (gn i 2) (ru_drop p)
         && match ru_keep p with Some k => tbl_V (gn i 2) k | None => true end
         && in_F14 (tbl_M (gn i 2)) p (ru_drop p) (ru_keep p) then [14] else []
    else if String.eqb op "history" then
      let tbl := gn i 3 in
      nodup Z.eq_dec (steps_classes (tbl_M tbl) (tbl_V tbl) p (steps_of (gn i 2)))
    else [].

Definition judge_C11 := judge_all run_C11 eqv_C11 spec_C11 cls_C11 0%Z.
