(* Declarative specification of C16, written from the property text:
     "pprof ... reports on the merge of exactly those [sources] that could be fetched and parsed,
      combined in command-line order, printing one error per failed source; it fails only if no
      source - or no base when bases were requested - could be obtained.  The report is the same
      whatever order the fetches complete in and whichever of the other sources fail."
   The specification never mentions the completion order, the chunking or the slots: it is a
   function of the command-line lists and the per-source outcomes only.  Profiles are compared
   up to an equivalence [eqv] ("same report": equal sample types and equal weight per stack). *)
From PV Require Import M_Profile M_Fetch.
Open Scope Z_scope.

Section Spec.
  Variable P : Type.
  Variable combine : list P -> option P.
  Variable eqv : P -> P -> Prop.

  (* the profiles of the sources that could be fetched and parsed, in command-line order *)
  Definition successes (l : list (source P)) : list P :=
    flat_map (fun s => match s_res s with GOk p _ => [p] | GErr _ => [] end) l.

  (* one line per failed source, in command-line order *)
  Definition failure_lines (l : list (source P)) : list string :=
    flat_map (fun s => match s_res s with GErr e => [err_line (s_addr s) e] | GOk _ _ => [] end) l.

  Definition any_remote (l : list (source P)) : bool :=
    existsb (fun s => match s_res s with GOk _ r => r | GErr _ => false end) l.

  (* the statement presupposes that what was fetched can be merged at all (common sample type, ...) *)
  Definition mergeable (l : list (source P)) : Prop :=
    successes l = [] \/ combine (successes l) <> None.

  Definition opt_eqv (a b : option P) : Prop :=
    match a, b with
    | Some x, Some y => eqv x y
    | None, None => True
    | _, _ => False
    end.

  (* the merge of exactly the successes, in command-line order; None when there is nothing *)
  Definition merged (l : list (source P)) : option P :=
    match successes l with [] => None | ps => combine ps end.

  Record spec_holds (srcs bases : list (source P)) (o : gsb_out P) : Prop := {
    (* it fails only if no source -- or no base when bases were requested -- could be obtained *)
    sp_ok       : g_status o = StOk <-> successes srcs <> [] /\ (bases = [] \/ successes bases <> []);
    sp_no_src   : g_status o = StNoSrc <-> successes srcs = [];
    sp_no_base  : g_status o = StNoBase <-> successes srcs <> [] /\ bases <> [] /\ successes bases = [];
    (* the merge of exactly those that could be fetched, combined in command-line order *)
    sp_src      : g_status o = StOk -> opt_eqv (g_src o) (merged srcs);
    sp_base     : g_status o = StOk -> opt_eqv (g_base o) (merged bases);
    (* one error per failed source (per group, in command-line order) *)
    sp_err_src  : g_err_src o = failure_lines srcs;
    sp_err_base : g_err_base o = failure_lines bases
  }.
End Spec.

Arguments successes {P}. Arguments failure_lines {P}. Arguments any_remote {P}.

(* The laws of combineProfiles that the merge-dependent theorems of C16 assume (named; to be
   discharged by the C03/C07 merge model; proved for the toy instance in L_FetchToy). *)
Definition combine_laws (P : Type) (combine : list P -> option P) (eqv : P -> P -> Prop) : Prop :=
  (forall a, eqv a a) /\ (forall a b, eqv a b -> eqv b a) /\ (forall a b c, eqv a b -> eqv b c -> eqv a c) /\
  (forall a a' b, eqv a a' -> opt_eqv P eqv (combine [a; b]) (combine [a'; b])) /\
  (forall A B, A <> [] -> B <> [] ->
    opt_eqv P eqv (match combine A, combine B with Some a, Some b => combine [a; b] | _, _ => None end) (combine (A ++ B)%list)).


(* ---------------- decidable checker on the toy instance ---------------- *)
Fixpoint tp_weight (l : list (string * Z)) (k : string) : Z :=
  match l with
  | [] => 0
  | (k', v) :: r => if String.eqb k' k then wrap_i64 (v + tp_weight r k) else tp_weight r k
  end.

(* "same report": same sample type, same contributing profiles in the same order (comments), same
   weight on every stack (zero = absent) *)
Definition toy_eqv (a b : tprof) : Prop :=
  (tp_type a = tp_type b /\ tp_comments a = tp_comments b)
  /\ forall k, tp_weight (tp_samples a) k = tp_weight (tp_samples b) k.

Fixpoint list_eqb {A} (eqb : A -> A -> bool) (a b : list A) : bool :=
  match a, b with
  | [], [] => true
  | x :: a', y :: b' => eqb x y && list_eqb eqb a' b'
  | _, _ => false
  end.

Definition toy_eqvb (a b : tprof) : bool :=
  (String.eqb (tp_type a) (tp_type b) && list_eqb String.eqb (tp_comments a) (tp_comments b)) &&
  forallb (fun k => tp_weight (tp_samples a) k =? tp_weight (tp_samples b) k)
          (map fst (tp_samples a) ++ map fst (tp_samples b)).

Definition toy_opt_eqvb (a b : option tprof) : bool :=
  match a, b with
  | Some x, Some y => toy_eqvb x y
  | None, None => true
  | _, _ => false
  end.

Definition status_eqb (a b : status) : bool :=
  match a, b with
  | StOk, StOk | StErrSrc, StErrSrc | StErrBase, StErrBase | StNoSrc, StNoSrc | StNoBase, StNoBase | StPanic, StPanic => true
  | _, _ => false
  end.

Definition is_nil {A} (l : list A) : bool := match l with [] => true | _ => false end.

(* [spec_check srcs bases st psrc pbase errs_s errs_b]: the observable (status, the two profiles,
   the two per-group error-line lists) is what the statement demands for these command-line lists.
   When the fetched profiles are not mergeable the statement demands nothing. *)
Definition spec_check (srcs bases : list (source tprof)) (st : status) (psrc pbase : option tprof)
           (errs_s errs_b : list string) : bool :=
  let ss := successes srcs in
  let sb := successes bases in
  let mergeable_s := is_nil ss || match toy_combine ss with Some _ => true | None => false end in
  let mergeable_b := is_nil sb || match toy_combine sb with Some _ => true | None => false end in
  if negb (mergeable_s && mergeable_b) then true
  else
    let want := if is_nil ss then StNoSrc
                else if negb (is_nil bases) && is_nil sb then StNoBase else StOk in
    status_eqb st want
    && (if status_eqb want StOk
        then toy_opt_eqvb psrc (merged tprof toy_combine srcs) && toy_opt_eqvb pbase (merged tprof toy_combine bases)
        else true)
    && list_eqb String.eqb errs_s (failure_lines srcs)
    && list_eqb String.eqb errs_b (failure_lines bases).

(* [proj]: what of a profile the output format at hand lets one read back (identity for a re-read
   proto of fetchProfiles' result).
   through fetchProfiles: the profile reported on is the merge of the fetched sources minus the
   merge of the fetched bases (when both merges and the difference exist) *)
Definition spec_fetch_check_gen (proj : tprof -> tprof) (srcs bases : list (source tprof)) (st_ok : bool) (st : status) (final : option tprof)
           (errs_s errs_b : list string) : bool :=
  let ss := successes srcs in
  let sb := successes bases in
  let mergeable_s := is_nil ss || match toy_combine ss with Some _ => true | None => false end in
  let mergeable_b := is_nil sb || match toy_combine sb with Some _ => true | None => false end in
  if negb (mergeable_s && mergeable_b) then true
  else
    let want := if is_nil ss then StNoSrc
                else if negb (is_nil bases) && is_nil sb then StNoBase else StOk in
    list_eqb String.eqb errs_s (failure_lines srcs)
    && list_eqb String.eqb errs_b (failure_lines bases)
    && (if status_eqb want StOk
        then match merged tprof toy_combine srcs, merged tprof toy_combine bases with
             | Some p, None => st_ok && toy_opt_eqvb (option_map proj final) (Some (proj p))
             | Some p, Some b =>
                 match toy_combine [p; toy_neg b] with
                 | Some d => st_ok && toy_opt_eqvb (option_map proj final) (Some (proj d))
                 | None => true       (* sources and bases cannot be compared: outside the statement *)
                 end
             | None, _ => false
             end
        else negb st_ok && status_eqb st want).

Definition spec_fetch_check := spec_fetch_check_gen (fun p => p).
