(* Case runner of the END-TO-END op "e2e" shared by C06 and C11: the same generated inputs pushed
   through driver.PProf (command line), an interactive session or the web handlers; what is printed
   is parsed back by the harness into id-free observables that the glue model M_Driver predicts.
     input  = TL [TS "e2e"; TS mode; TL sources; units; TL reports; table]
     report = TL [TS kind; TL (10 option strings); TL tagroot keys; TL tagleaf keys; TZ relative]
     obs    = TL [ TL [TS "ok"; rendering] | TL [TS "error"] ... ]   one entry per report
   kinds: proto (all values, labels, frames), traces (value, text labels, function names of samples
   with frames), top (total and flat/cum per function name). *)
From Coq Require Import QArith.
From PV Require Import M_Filter M_Prune M_TagFilter M_Driver S_Filter S_Prune S_TagFilter R_Filter Gen.Gen_UnitTable.
Open Scope Z_scope.
Open Scope string_scope.

Definition d_uts := unit_types.

Definition d_cfg_of (t : term) : af_cfg :=
  {| c_focus := gs (gn t 0); c_ignore := gs (gn t 1); c_hide := gs (gn t 2); c_show := gs (gn t 3);
     c_showfrom := gs (gn t 4); c_tagfocus := gs (gn t 5); c_tagignore := gs (gn t 6);
     c_tagshow := gs (gn t 7); c_taghide := gs (gn t 8); c_prunefrom := gs (gn t 9) |}.
Definition d_units_of (t : term) : list (string * string) := map (fun e => (gs (gn e 0), gs (gn e 1))) (gl t).
Definition d_rc_of (t : term) : report_cfg :=
  {| rc_cfg := d_cfg_of (gn t 1); rc_tagroot := gss (gn t 2); rc_tagleaf := gss (gn t 3) |}.

Definition d_all_rx_ok (tbl : term) (c : af_cfg) : bool :=
  let V := tbl_V tbl in
  let tag_ok := fun v => String.eqb v "" ||
    (let x := match cut_first "=" v with Some (_, x) => x | None => v end in
     match parse_tag_filter_range d_uts x with
     | Some _ => true
     | None => forallb V (split_on "," x)
     end) in
  rx_ok V (c_focus c) && rx_ok V (c_ignore c) && rx_ok V (c_hide c) && rx_ok V (c_show c) && rx_ok V (c_showfrom c)
  && rx_ok V (c_tagshow c) && rx_ok V (c_taghide c) && rx_ok V (c_prunefrom c)
  && tag_ok (c_tagfocus c) && tag_ok (c_tagignore c).

(* ---------------------------------------------------------------- renderings (no ids) *)
Definition d_frame_name (p : profile) (fr : frame) : string :=
  match fr_line fr with
  | Some ln => match find_function p (ln_fn ln) with Some f => f_name f | None => "?" end
  | None => "?addr"
  end.
Definition d_free_frame (p : profile) (fr : frame) : term :=
  match fr_line fr with
  | Some ln => match find_function p (ln_fn ln) with
               | Some f => TL [TS (f_name f); TS (f_file f); TZ (ln_line ln)]
               | None => TL [TS "?"]
               end
  | None => match find_location p (fr_loc fr) with Some l => TL [TZ (l_addr l)] | None => TL [] end
  end.
Definition d_render_proto (p : profile) (ss : list fsample) : term :=
  (* the wire format carries units only next to numeric label values: units left behind by tagshow /
     taghide for a removed numeric label are not written *)
  TL (map (fun s => TL [of_zs (fs_val s); of_kss (fs_label s); of_kzs (fs_numlabel s);
                        of_kss (filter (fun ku => existsb (fun kv => String.eqb (fst kv) (fst ku)) (fs_numlabel s)) (fs_numunit s));
                        TL (map (d_free_frame p) (fs_frames s))]) ss).

Definition d_value (s : fsample) : Z := last (fs_val s) 0.       (* default sample_index: the last type *)

Definition d_render_traces (p : profile) (ss : list fsample) : term :=
  TL (map (fun s => TL [TZ (d_value s); of_kss (fs_label s); of_ss (map (d_frame_name p) (fs_frames s))])
          (filter (fun s => negb (is_nil (fs_frames s))) ss)).

Fixpoint d_insert (x : string) (l : list string) : list string :=
  match l with
  | [] => [x]
  | y :: r => if String.eqb x y then l else if str_leb x y then x :: l else y :: d_insert x r
  end.
Definition d_sorted_names (l : list string) : list string := fold_left (fun acc x => d_insert x acc) l [].
Definition d_sum (l : list Z) : Z := fold_left Z.add l 0.

(* total: over the samples the report was CONFIGURED on: the filtered ones with relative_percentages,
   all of them otherwise *)
Definition d_render_top (p : profile) (total_on ss : list fsample) : term :=
  let names_of := fun s => map (d_frame_name p) (fs_frames s) in
  let names := d_sorted_names (flat_map names_of ss) in
  TL [TZ (d_sum (map d_value total_on));
      TL (map (fun n =>
                 TL [TS n;
                     TZ (d_sum (map d_value (filter (fun s => match names_of s with x :: _ => String.eqb x n | [] => false end) ss)));
                     TZ (d_sum (map d_value (filter (fun s => existsb (String.eqb n) (names_of s)) ss)))])
              names)].

Definition d_render (kind : string) (rel : bool) (p : profile) (unfiltered ss : list fsample) : term :=
  if String.eqb kind "proto" then d_render_proto p ss
  else if String.eqb kind "traces" then d_render_traces p ss
  else d_render_top p (if rel then ss else unfiltered) ss.

(* ---------------------------------------------------------------- model / spec / classes *)
Definition d_fetched (i : term) : profile :=
  let tbl := gn i 5 in
  fetch_model (tbl_M tbl) (tbl_V tbl) (map profile_of (gl (gn i 2))).

Definition d_run_report (tbl : term) (q : profile) (units : list (string * string)) (r : term) : term :=
  let rc := d_rc_of r in
  let p1 := with_label_nodes q rc in
  let '(err, p') := report_model (tbl_M tbl) (tbl_V tbl) d_uts q units rc in
  if String.eqb err "" then TL [TS "ok"; d_render (gs (gn r 0)) (gb (gn r 4)) p' (fsamples p1) (fsamples p')]
  else TL [TS "error"].

Definition run_e2e (i : term) : term :=
  let tbl := gn i 5 in
  let q := d_fetched i in
  TL (map (d_run_report tbl q (num_label_units q)) (gl (gn i 4))).

Definition d_spec_report (tbl : term) (q : profile) (units : list (string * string)) (r o : term) : bool :=
  let rc := d_rc_of r in
  let p1 := with_label_nodes q rc in
  if String.eqb (gs (gn o 0)) "ok" then
    term_eqb (gn o 1)
      (d_render (gs (gn r 0)) (gb (gn r 4)) p1 (fsamples p1)
                (spec_apply_focus (tbl_M tbl) (tbl_V tbl) d_uts p1 units (rc_cfg rc)))
  else negb (d_all_rx_ok tbl (rc_cfg rc)).

Fixpoint d_forallb2 {A B} (f : A -> B -> bool) (a : list A) (b : list B) : bool :=
  match a, b with
  | [], [] => true
  | x :: a', y :: b' => f x y && d_forallb2 f a' b'
  | _, _ => false
  end.

Definition spec_e2e (i o : term) : bool :=
  let tbl := gn i 5 in
  let q := d_fetched i in
  d_forallb2 (d_spec_report tbl q (num_label_units q)) (gl (gn i 4)) (gl o).

Definition d_cls_report (tbl : term) (q : profile) (units : list (string * string)) (r : term) : list Z :=
  let rc := d_rc_of r in let c := rc_cfg rc in let M := tbl_M tbl in
  let p1 := with_label_nodes q rc in
  (* a tag root / leaf key that also carries numeric labels is outside the model (formatting of numbers) *)
  (if existsb (fun k => existsb (fun s => existsb (fun kv => String.eqb (fst kv) k) (s_numlabel s)) (p_sample q))
              (rc_tagroot rc ++ rc_tagleaf rc)%list then [900] else [])
  ++ (if negb (d_all_rx_ok tbl c) then [] else
      let '(pa, pd) := af_stages M (tbl_V tbl) d_uts p1 units c in
      (if in_F16 p1 (opt_rx (c_focus c)) (opt_rx (c_ignore c)) (opt_rx (c_hide c)) (opt_rx (c_show c)) then [16] else [])
      ++ (if in_F24 M p1 (opt_rx (c_show c)) then [24] else [])
      ++ (if in_F25 M pa (opt_rx (c_showfrom c)) then [25] else [])
      ++ (match opt_rx (c_prunefrom c) with Some re => if in_F15 M pd re then [15] else [] | None => [] end))%list.

Definition cls_e2e (i : term) : list Z :=
  let tbl := gn i 5 in
  let q := d_fetched i in
  nodup Z.eq_dec (flat_map (d_cls_report tbl q (num_label_units q)) (gl (gn i 4))).

(* comparison skipped for class 900 *)
Definition eqv_e2e (i m o : term) : bool :=
  existsb (Z.eqb 900) (cls_e2e i) || term_eqb m o.
