(* C18 specification side for callgrind: a reference reader of the Callgrind profile format,
   independent of the emitter.
   Reading of the format (Callgrind manual, "Name Compression" / "Subposition Compression"):
   * "(n) name" defines id n in the table of its kind (ob/cob; fl/fi/fe/cfi/cfl; fn/cfn), "(n)"
     alone refers to a name defined EARLIER in that table; leading blanks of the name are skipped
     and a blank name is no name (this is how callgrind_annotate reads it);
   * subpositions: a number is absolute, "*" is the current position, "+d"/"-d" is relative to
     the current position; the current position is the position of the last COST line (the cost
     line after calls= included); the target position of a calls= line is read against the current
     position and does not change it.  [ASSUMPTION labelled F11 in the notes: this is the reading
     under which callee positions written by pprof do not decode.]
   No proofs in this file. *)
From PV Require Export M_Callgrind.
Open Scope string_scope.
Open Scope Z_scope.

Inductive cgev :=
| EvCost (ob fl fn : string) (addr line cost : Z)
| EvCall (ob fl fn cfl cfn : string) (taddr tline saddr sline cost : Z).

Definition tbl := list (Z * string).
Fixpoint tlookup (t : tbl) (id : Z) : option string :=
  match t with [] => None | (k, v) :: r => if k =? id then Some v else tlookup r id end.

(* None = the reference is not defined / defined twice *)
Definition resolve (t : tbl) (r : nref) : option (string * tbl) :=
  match r with
  | NEmpty => Some ("", t)
  | NDef id name => match tlookup t id with Some _ => None | None => Some (name, (id, name) :: t) end
  | NRef id => match tlookup t id with Some name => Some (name, t) | None => None end
  end.

Definition dpos (reg : Z) (p : apos) : Z :=
  match p with PAbs z => z | PSame => reg | PRel d => wrap_u64 (reg + d) end.

Record dstate := {
  d_tabs : tbl * tbl * tbl;                                   (* ob, fl (files), fn (functions) *)
  d_cur : string * string * string;                           (* current ob / fl / fn *)
  d_pend : option string * option string * option (Z * Z);    (* pending cfl, cfn, calls= target *)
  d_pos : Z * Z;                                              (* current position: address, line *)
  d_out : list cgev }.                                        (* reversed *)

Definition d_init : dstate :=
  {| d_tabs := ([], [], []); d_cur := ("", "", ""); d_pend := (None, None, None); d_pos := (0, 0); d_out := [] |}.

Definition dstep (s : dstate) (l : cgline) : option dstate :=
  let '(tob, tfl, tfn) := d_tabs s in
  let '(cob, cfl, cfn) := d_cur s in
  let '(pfl, pfn, call) := d_pend s in
  let '(addr, line0) := d_pos s in
  match l with
  | GHeader _ | GBlank => Some s
  | GOb r => match resolve tob r with
             | Some (n, t) => Some {| d_tabs := (t, tfl, tfn); d_cur := (n, cfl, cfn); d_pend := d_pend s; d_pos := d_pos s; d_out := d_out s |}
             | None => None end
  | GFl r => match resolve tfl r with
             | Some (n, t) => Some {| d_tabs := (tob, t, tfn); d_cur := (cob, n, cfn); d_pend := d_pend s; d_pos := d_pos s; d_out := d_out s |}
             | None => None end
  | GFn r => match resolve tfn r with
             | Some (n, t) => Some {| d_tabs := (tob, tfl, t); d_cur := (cob, cfl, n); d_pend := d_pend s; d_pos := d_pos s; d_out := d_out s |}
             | None => None end
  | GCfl r => match resolve tfl r with
              | Some (n, t) => Some {| d_tabs := (tob, t, tfn); d_cur := d_cur s; d_pend := (Some n, pfn, call); d_pos := d_pos s; d_out := d_out s |}
              | None => None end
  | GCfn r => match resolve tfn r with
              | Some (n, t) => Some {| d_tabs := (tob, tfl, t); d_cur := d_cur s; d_pend := (pfl, Some n, call); d_pos := d_pos s; d_out := d_out s |}
              | None => None end
  | GCost p line cost =>
      match call with
      | Some _ => None
      | None =>
          let a := dpos addr p in
          Some {| d_tabs := d_tabs s; d_cur := d_cur s; d_pend := d_pend s; d_pos := (a, line);
                  d_out := EvCost cob cfl cfn a line cost :: d_out s |}
      end
  | GCalls p line =>
      match call, pfn with
      | None, Some _ =>
          Some {| d_tabs := d_tabs s; d_cur := d_cur s; d_pend := (pfl, pfn, Some (dpos addr p, line)); d_pos := d_pos s; d_out := d_out s |}
      | _, _ => None
      end
  | GCallCost cost =>
      match call, pfn with
      | Some (ta, tl), Some n =>
          let f := match pfl with Some f => f | None => cfl end in
          Some {| d_tabs := d_tabs s; d_cur := d_cur s; d_pend := (None, None, None); d_pos := d_pos s;
                  d_out := EvCall cob cfl cfn f n ta tl addr line0 cost :: d_out s |}
      | _, _ => None
      end
  end.

Fixpoint drun (s : dstate) (ls : list cgline) : option dstate :=
  match ls with
  | [] => Some s
  | l :: r => match dstep s l with Some s' => drun s' r | None => None end
  end.

Definition decode (ls : list cgline) : option (list cgev) :=
  match drun d_init ls with Some s => Some (rev (d_out s)) | None => None end.

(* what the graph says, the declarative side *)
Definition edge_events (n : cgnode) : list cgev :=
  map (fun e => EvCall (cn_obj n) (cn_file n) (cn_name n) (ce_file e) (ce_name e) (ce_addr e) (ce_line e)
                       (cn_addr n) (cn_line n) (ce_cost e)) (cn_out n).
Definition node_events (n : cgnode) : list cgev :=
  EvCost (cn_obj n) (cn_file n) (cn_name n) (cn_addr n) (cn_line n) (cn_cost n) :: edge_events n.
Definition expected_events (ns : list cgnode) : list cgev := flat_map node_events ns.

(* ---------------- F11 class: a callee position that is relative to a stale base ---------------- *)
Definition stale_edge (prev n : cgnode) (e : cgedge) : bool :=
  match cg_addr (Some (cn_addr prev)) (ce_addr e) with
  | PAbs _ => false
  | _ => negb (cn_addr prev =? cn_addr n)
  end.
Fixpoint in_F11_from (prev : cgnode) (ns : list cgnode) : bool :=
  match ns with
  | [] => false
  | n :: r => existsb (stale_edge prev n) (cn_out n) || in_F11_from n r
  end.
Definition in_F11 (ns : list cgnode) : bool :=
  match ns with [] => false | n :: r => in_F11_from n r end.

(* ---------------- text level ---------------- *)
Definition is_blank (c : ascii) : bool := Ascii.eqb c " " || Ascii.eqb c (ascii_of_N 9).
Fixpoint ltrim (s : string) : string :=
  match s with String c r => if is_blank c then ltrim r else s | EmptyString => s end.
(* the name a reader gets for a written name *)
Definition cg_view (s : string) : string := ltrim s.

Fixpoint has_nl (s : string) : bool :=
  match s with String c r => Ascii.eqb c (ascii_of_N 10) || has_nl r | EmptyString => false end.
(* F20 class: a name that cannot be written on a callgrind line *)
Definition name_ok (s : string) : bool :=
  negb (has_nl s) && (String.eqb s "" || negb (String.eqb (cg_view s) "")).

Definition dig (c : ascii) : option Z :=
  let n := Z.of_N (N_of_ascii c) in if (48 <=? n) && (n <=? 57) then Some (n - 48) else None.
Definition hexdig (c : ascii) : option Z :=
  let n := Z.of_N (N_of_ascii c) in
  if (48 <=? n) && (n <=? 57) then Some (n - 48)
  else if (97 <=? n) && (n <=? 102) then Some (n - 87) else None.
Fixpoint parse_num (d : ascii -> option Z) (base : Z) (s : string) (acc : Z) (any : bool) : option (Z * string) :=
  match s with
  | String c r => match d c with
                  | Some v => parse_num d base r (acc * base + v) true
                  | None => if any then Some (acc, s) else None
                  end
  | EmptyString => if any then Some (acc, s) else None
  end.
Definition parse_all (d : ascii -> option Z) (base : Z) (s : string) : option Z :=
  match parse_num d base s 0 false with Some (v, EmptyString) => Some v | _ => None end.
Definition parse_int (s : string) : option Z :=
  match s with
  | String c r => if Ascii.eqb c "-" then match parse_all dig 10 r with Some v => Some (- v) | None => None end
                  else parse_all dig 10 s
  | EmptyString => None
  end.

Definition parse_ref (v : string) : option nref :=
  match v with
  | EmptyString => Some NEmpty
  | String c r =>
      if Ascii.eqb c "(" then
        match parse_num dig 10 r 0 false with
        | Some (id, String c2 rest) =>
            if Ascii.eqb c2 ")" then
              let name := ltrim rest in
              if String.eqb name "" then Some (NRef id) else Some (NDef id name)
            else None
        | _ => None
        end
      else None
  end.

Definition parse_pos (t : string) : option apos :=
  match t with
  | String c r =>
      if Ascii.eqb c "*" then (match r with EmptyString => Some PSame | _ => None end)
      else if Ascii.eqb c "+" then match parse_all dig 10 r with Some v => Some (PRel v) | None => None end
      else if Ascii.eqb c "-" then match parse_all dig 10 r with Some v => Some (PRel (- v)) | None => None end
      else if has_prefix "0x" t then match parse_all hexdig 16 (drop 2 t) with Some v => Some (PAbs v) | None => None end
      else match parse_all dig 10 t with Some v => Some (PAbs v) | None => None end
  | EmptyString => None
  end.

Fixpoint split_sp (s : string) (rcur : string) : list string :=
  match s with
  | EmptyString => [rev_string rcur]
  | String c r => if Ascii.eqb c " " then rev_string rcur :: split_sp r "" else split_sp r (String c rcur)
  end.

Definition parse_line (l : string) : option cgline :=
  if String.eqb l "" then Some GBlank
  else if has_prefix "positions:" l || has_prefix "events:" l then Some (GHeader l)
  else if has_prefix "ob=" l then option_map GOb (parse_ref (drop 3 l))
  else if has_prefix "fl=" l then option_map GFl (parse_ref (drop 3 l))
  else if has_prefix "fn=" l then option_map GFn (parse_ref (drop 3 l))
  else if has_prefix "cfl=" l then option_map GCfl (parse_ref (drop 4 l))
  else if has_prefix "cfn=" l then option_map GCfn (parse_ref (drop 4 l))
  else if has_prefix "calls=" l then
    match split_sp (drop 6 l) "" with
    | [cnt; p; ln] =>
        match parse_int cnt, parse_pos p, parse_int ln with
        | Some _, Some p', Some ln' => Some (GCalls p' ln')
        | _, _, _ => None
        end
    | _ => None
    end
  else
    match split_sp l "" with
    | [p; ln; c] =>
        match parse_pos p, parse_int c with
        | Some p', Some c' =>
            match parse_int ln with
            | Some ln' => Some (GCost p' ln' c')
            | None => if String.eqb p "*" && String.eqb ln "*" then Some (GCallCost c') else None
            end
        | _, _ => None
        end
    | _ => None
    end.

Fixpoint text_lines (s : string) (rcur : string) : list string :=
  match s with
  | EmptyString => match rcur with EmptyString => [] | _ => [rev_string rcur] end
  | String c r => if Ascii.eqb c (ascii_of_N 10) then rev_string rcur :: text_lines r "" else text_lines r (String c rcur)
  end.

Fixpoint parse_lines (ls : list string) : option (list cgline) :=
  match ls with
  | [] => Some []
  | l :: r => match parse_line l, parse_lines r with Some x, Some y => Some (x :: y) | _, _ => None end
  end.
Definition parse_text (s : string) : option (list cgline) := parse_lines (text_lines s "").

Definition ev_eqb (a b : cgev) : bool :=
  match a, b with
  | EvCost o1 f1 n1 a1 l1 c1, EvCost o2 f2 n2 a2 l2 c2 =>
      String.eqb o1 o2 && String.eqb f1 f2 && String.eqb n1 n2 && (a1 =? a2) && (l1 =? l2) && (c1 =? c2)
  | EvCall o1 f1 n1 cf1 cn1 ta1 tl1 sa1 sl1 c1, EvCall o2 f2 n2 cf2 cn2 ta2 tl2 sa2 sl2 c2 =>
      String.eqb o1 o2 && String.eqb f1 f2 && String.eqb n1 n2 && String.eqb cf1 cf2 && String.eqb cn1 cn2 &&
      (ta1 =? ta2) && (tl1 =? tl2) && (sa1 =? sa2) && (sl1 =? sl2) && (c1 =? c2)
  | _, _ => false
  end.
Fixpoint evs_eqb (a b : list cgev) : bool :=
  match a, b with
  | [], [] => true
  | x :: a', y :: b' => ev_eqb x y && evs_eqb a' b'
  | _, _ => false
  end.

Definition view_edge (e : cgedge) : cgedge :=
  {| ce_file := cg_view (ce_file e); ce_name := cg_view (ce_name e); ce_addr := ce_addr e; ce_line := ce_line e; ce_cost := ce_cost e |}.
Definition view_node (n : cgnode) : cgnode :=
  {| cn_obj := cg_view (cn_obj n); cn_file := cg_view (cn_file n); cn_name := cg_view (cn_name n);
     cn_addr := cn_addr n; cn_line := cn_line n; cn_cost := cn_cost n; cn_out := map view_edge (cn_out n) |}.

(* the clause of the property for callgrind, judged on the text the implementation wrote:
   it reads (no undefined or redefined back-reference, every line well-formed) and what it reads
   is the graph: each name reference resolves to the intended name, positions to the intended
   addresses and lines *)
Definition callgrind_ok (ns : list cgnode) (text : string) : bool :=
  match parse_text text with
  | Some ls => match decode ls with
               | Some evs => evs_eqb evs (expected_events (map view_node ns))
               | None => false
               end
  | None => false
  end.

Definition names_ok (sample_type output_unit : string) (ns : list cgnode) : bool :=
  negb (has_nl sample_type) && negb (has_nl output_unit) &&
  forallb (fun n => name_ok (cn_obj n) && name_ok (cn_file n) && name_ok (cn_name n) &&
                    forallb (fun e => name_ok (ce_file e) && name_ok (ce_name e)) (cn_out n)) ns.
