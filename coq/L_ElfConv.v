(* Lemmas and proofs for C13 (conversations with the symbolizer tools): request and answer stay
   paired -- after every request the pipe is empty again, so the k-th answer is the tool's answer
   for the k-th address minus base, whatever was asked before. *)
From Coq Require Import Lia.
From PV Require Import M_Elf S_Elf L_ElfNm.
Open Scope Z_scope.

Definition flat_pairs (l : list (string * string)) : list string := flat_map (fun p => [fst p; snd p]) l.
Definition keep_nonempty (l : list frame) : list frame := filter (fun f => negb (frame_empty f)) l.

Lemma read_frames_pairs : forall pairs fuel acc a b rest,
  (forall p, In p pairs -> has_prefix "0x" (fst p) = false) ->
  (List.length pairs < fuel)%nat ->
  a2l_read_frames fuel (flat_pairs pairs ++ "0x"%string :: a :: b :: rest) acc
  = (rev acc ++ keep_nonempty (map a2l_parse_pair pairs), rest)%list.
Proof.
  induction pairs as [|p ps IH]; intros fuel acc a b rest Hok Hf.
  - destruct fuel as [|f]; [cbn in Hf; lia|].
    cbn. rewrite app_nil_r. reflexivity.
  - destruct fuel as [|f]; [cbn in Hf; lia|].
    destruct p as [fn fl].
    assert (Hfn : has_prefix "0x" fn = false) by (apply (Hok (fn, fl)); left; reflexivity).
    cbn [flat_pairs flat_map app a2l_read_frames a2l_read_frame fst snd]. rewrite Hfn.
    fold (flat_pairs ps).
    rewrite IH; [| intros q Hq; apply Hok; right; exact Hq | cbn in Hf; lia].
    cbn [map keep_nonempty filter].
    destruct (frame_empty (a2l_parse_pair (fn, fl))); cbn [negb rev]; [reflexivity|].
    rewrite <- app_assoc. reflexivity.
Qed.

Lemma tool_pairs_ok : forall tool x, a2l_tool_ok tool ->
  forall p, In p (a2l_tool_pairs tool x) -> has_prefix "0x" (fst p) = false.
Proof.
  intros tool x [_ Hok] p Hp. unfold a2l_tool_pairs in Hp.
  destruct (tool x) as [|q l] eqn:Et.
  - destruct Hp as [<-|[]]. reflexivity.
  - apply (Hok x). rewrite Et. exact Hp.
Qed.

Lemma length_flat_pairs : forall l, List.length (flat_pairs l) = (2 * List.length l)%nat.
Proof. induction l as [|p l IH]; cbn [flat_pairs flat_map app List.length]; [reflexivity|]. fold (flat_pairs l). rewrite IH. lia. Qed.

(* one request on a drained pipe: the tool's frames for addr - base, and the pipe is drained again *)
Lemma raw_addr_info_drained : forall tool base addr, a2l_tool_ok tool ->
  a2l_raw_addr_info tool base [] addr = (Ok (a2l_expected tool (tool_addr base addr)), []).
Proof.
  intros tool base addr Hok. pose proof Hok as [Hs _].
  unfold a2l_raw_addr_info, a2l_answer. rewrite app_nil_l.
  unfold a2l_tool_pairs at 2. rewrite Hs.
  cbn [flat_map app fst snd has_prefix Ascii.eqb andb negb].
  change (flat_map (fun p : string * string => [fst p; snd p]) (a2l_tool_pairs tool (tool_addr base addr)))
    with (flat_pairs (a2l_tool_pairs tool (tool_addr base addr))).
  change (has_prefix "0x" "0x") with true. cbn [negb].
  rewrite read_frames_pairs.
  - reflexivity.
  - apply tool_pairs_ok. exact Hok.
  - rewrite app_length, length_flat_pairs. cbn [List.length]. lia.
Qed.

Definition conv_answer (tool : a2l_tool) (base : Z) (nm : option (list sym)) (a : Z) : res (list frame) :=
  let e := a2l_expected tool (tool_addr base a) in
  Ok (set_funcs e (a2l_addr_info base nm a (map fr_func e))).

Lemma conversation_paired_lemma : forall tool base nm addrs, a2l_tool_ok tool ->
  a2l_conversation tool base nm [] addrs = (map (conv_answer tool base nm) addrs, []).
Proof.
  intros tool base nm addrs Hok. induction addrs as [|a r IH]; [reflexivity|].
  cbn [a2l_conversation map]. unfold a2l_full_addr_info.
  rewrite (raw_addr_info_drained tool base a Hok). rewrite IH. reflexivity.
Qed.

(* ---- the paired answers satisfy the specification ---- *)
Lemma removelast_length : forall (l : list string) y, List.length (removelast (y :: l)) = List.length l.
Proof.
  induction l as [|z l IHl]; intros y; [reflexivity|].
  change (removelast (y :: z :: l)) with (y :: removelast (z :: l)). cbn [List.length]. rewrite IHl. reflexivity.
Qed.

Lemma replace_last_length : forall l x, l <> [] -> List.length (replace_last l x) = List.length l.
Proof.
  intros l x Hl. unfold replace_last. rewrite app_length. cbn [List.length].
  destruct l as [|y l]; [congruence|]. rewrite removelast_length. cbn [List.length]. lia.
Qed.

Lemma a2l_apply_nm_length : forall r stack, List.length (a2l_apply_nm r stack) = List.length stack.
Proof.
  intros r stack. unfold a2l_apply_nm. destruct stack as [|x s]; [reflexivity|].
  destruct r as [n|]; [|reflexivity].
  destruct (Z.of_nat (String.length (last (x :: s) ""%string)) + 1 <? Z.of_nat (String.length n)); [|reflexivity].
  apply replace_last_length. discriminate.
Qed.

Lemma a2l_addr_info_length : forall base nm a stack,
  List.length (a2l_addr_info base nm a stack) = List.length stack.
Proof.
  intros base nm a stack. unfold a2l_addr_info. destruct nm as [tab|]; [|reflexivity].
  destruct stack as [|x s]; [reflexivity|]. apply a2l_apply_nm_length.
Qed.

Lemma set_funcs_names : forall st names, List.length names = List.length st ->
  map fr_func (set_funcs st names) = names /\ frames_loc_eqb (set_funcs st names) st = true.
Proof.
  induction st as [|f st IH]; intros names Hl; destruct names as [|n names]; try discriminate; [split; reflexivity|].
  cbn [List.length] in Hl. destruct (IH names ltac:(lia)) as [H1 H2].
  cbn [set_funcs map frames_loc_eqb fr_func]. rewrite H1, H2.
  unfold frame_loc_eqb. cbn [fr_file fr_line]. rewrite String.eqb_refl, Z.eqb_refl. split; reflexivity.
Qed.

Lemma conv_answer_meets_spec : forall tool base raw hasnm a,
  let nm := if hasnm : bool then Some (shift_syms base raw) else None in
  spec_conv_answer tool base nm a (conv_answer tool base nm a) = true.
Proof.
  intros tool base raw hasnm a nm. unfold spec_conv_answer, conv_answer.
  set (e := a2l_expected tool (tool_addr base a)).
  destruct (set_funcs_names e (a2l_addr_info base nm a (map fr_func e))) as [Hn Hl].
  { rewrite a2l_addr_info_length, map_length. reflexivity. }
  rewrite Hl, Hn. cbn [andb].
  destruct hasnm; subst nm.
  - apply a2l_fixup_meets_spec_lemma.
  - cbn [a2l_addr_info]. apply strs_eqb_refl.
Qed.

Lemma conversation_meets_spec_lemma : forall tool base raw hasnm addrs, a2l_tool_ok tool ->
  let nm := if hasnm : bool then Some (shift_syms base raw) else None in
  spec_conv tool base nm addrs (fst (a2l_conversation tool base nm [] addrs)) = true /\
  snd (a2l_conversation tool base nm [] addrs) = [].
Proof.
  intros tool base raw hasnm addrs Hok nm.
  rewrite (conversation_paired_lemma tool base nm addrs Hok). cbn [fst snd]. split; [|reflexivity].
  induction addrs as [|a r IH]; [reflexivity|].
  cbn [map spec_conv]. rewrite IH. rewrite andb_true_r.
  apply (conv_answer_meets_spec tool base raw hasnm a).
Qed.

(* llvm-symbolizer: one line per request *)
Lemma frame_eqb_refl : forall f, frame_eqb f f = true.
Proof. intros f. unfold frame_eqb, frame_loc_eqb. rewrite !String.eqb_refl, Z.eqb_refl. reflexivity. Qed.
Lemma frames_eqb_refl : forall l, frames_eqb l l = true.
Proof. induction l as [|f l IH]; cbn [frames_eqb]; [reflexivity|]. rewrite frame_eqb_refl, IH. reflexivity. Qed.

Lemma llvm_conversation_paired_lemma : forall tool base addrs,
  llvm_conversation tool base [] addrs = (map (fun a => Ok (llvm_answer tool (tool_addr base a))) addrs, []) /\
  spec_conv_llvm tool base addrs (fst (llvm_conversation tool base [] addrs)) = true.
Proof.
  intros tool base addrs.
  assert (H : llvm_conversation tool base [] addrs = (map (fun a => Ok (llvm_answer tool (tool_addr base a))) addrs, [])).
  { induction addrs as [|a r IH]; [reflexivity|]. cbn [llvm_conversation llvm_addr_info app map]. rewrite IH. reflexivity. }
  split; [exact H|]. rewrite H. cbn [fst].
  induction addrs as [|a r IH]; [reflexivity|].
  cbn [map spec_conv_llvm]. rewrite frames_eqb_refl, IH; [reflexivity|].
  clear IH H. induction r as [|b r IH]; [reflexivity|]. cbn [llvm_conversation llvm_addr_info app map]. rewrite IH. reflexivity.
Qed.
