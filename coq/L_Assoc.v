(* Generic lemmas about the interning tables of the Go code: a slice to which entities are appended
   with id = len+1, searched by id or by a key ("find or insert").  Used by L_Merge (functions,
   mappings, locations, samples); independent of profiles. *)
From Coq Require Import List ZArith Lia Bool.
Import ListNotations.
Open Scope Z_scope.

Section Find.
  Context {A : Type}.

  Lemma find_app_some : forall (f : A -> bool) l l' x,
    find f l = Some x -> find f (l ++ l') = Some x.
  Proof.
    intros f l l' x. induction l as [|y r IH]; simpl; intros H.
    - discriminate.
    - destruct (f y); [exact H | auto].
  Qed.

  Lemma find_app_none : forall (f : A -> bool) l l',
    find f l = None -> find f (l ++ l') = find f l'.
  Proof.
    intros f l l'. induction l as [|y r IH]; simpl; intros H.
    - reflexivity.
    - destruct (f y); [discriminate | auto].
  Qed.

  Lemma find_in_not_none : forall (f : A -> bool) l x,
    In x l -> f x = true -> find f l <> None.
  Proof.
    intros f l x Hin Hf Hn. pose proof (find_none f l Hn x Hin) as H. congruence.
  Qed.

  Lemma find_ext_pred : forall (f g : A -> bool) l,
    (forall x, In x l -> f x = g x) -> find f l = find g l.
  Proof.
    intros f g l. induction l as [|y r IH]; simpl; intros H.
    - reflexivity.
    - rewrite (H y (or_introl eq_refl)). destruct (g y); [reflexivity|].
      apply IH. intros x Hx. apply H. right. exact Hx.
  Qed.

  Lemma existsb_find : forall (f : A -> bool) l,
    existsb f l = match find f l with Some _ => true | None => false end.
  Proof.
    intros f l. induction l as [|y r IH]; simpl.
    - reflexivity.
    - destruct (f y); simpl; auto.
  Qed.
End Find.

(* ---------------------------------------------------------------- ids are positions *)
Section Ids.
  Context {A : Type} (idf : A -> Z).

  (* the element at index i carries id b + i *)
  Definition ids_from (b : Z) (l : list A) : Prop :=
    forall i x, nth_error l i = Some x -> idf x = b + Z.of_nat i.
  Definition ids_seq (l : list A) : Prop := ids_from 1 l.

  Lemma ids_from_nil : forall b, ids_from b [].
  Proof. intros b i x H. destruct i; discriminate. Qed.

  Lemma ids_from_cons_inv : forall b y r,
    ids_from b (y :: r) -> idf y = b /\ ids_from (b + 1) r.
  Proof.
    intros b y r H. split.
    - specialize (H O y eq_refl). simpl in H. lia.
    - intros i x Hi. specialize (H (S i) x Hi). lia.
  Qed.

  Lemma ids_from_cons : forall b y r,
    idf y = b -> ids_from (b + 1) r -> ids_from b (y :: r).
  Proof.
    intros b y r Hy Hr i x Hi. destruct i as [|i]; simpl in Hi.
    - inversion Hi; subst. lia.
    - specialize (Hr i x Hi). lia.
  Qed.

  Lemma ids_from_in : forall l b x,
    ids_from b l -> In x l -> b <= idf x < b + Z.of_nat (length l).
  Proof.
    intros l b x H Hin. apply In_nth_error in Hin. destruct Hin as [i Hi].
    pose proof (H i x Hi) as E.
    assert (i < length l)%nat by (apply nth_error_Some; congruence). lia.
  Qed.

  Lemma ids_from_snoc : forall l b x,
    ids_from b l -> idf x = b + Z.of_nat (length l) -> ids_from b (l ++ [x]).
  Proof.
    intros l b x H Hx i y Hi.
    destruct (Nat.lt_ge_cases i (length l)) as [Hlt|Hge].
    - rewrite nth_error_app1 in Hi by exact Hlt. apply H. exact Hi.
    - rewrite nth_error_app2 in Hi by exact Hge.
      destruct (i - length l)%nat as [|k] eqn:E; simpl in Hi.
      + inversion Hi; subst. assert (i = length l) by lia. subst. exact Hx.
      + destruct k; discriminate.
  Qed.

  (* searching the id of a member returns that member *)
  Lemma find_id_in : forall l b x,
    ids_from b l -> In x l -> find (fun y => idf y =? idf x) l = Some x.
  Proof.
    induction l as [|y r IH]; intros b x H Hin.
    - contradiction.
    - apply ids_from_cons_inv in H. destruct H as [Hy Hr]. simpl.
      destruct Hin as [->|Hin].
      + rewrite Z.eqb_refl. reflexivity.
      + pose proof (ids_from_in r (b + 1) x Hr Hin) as Hx.
        destruct (idf y =? idf x) eqn:E.
        * apply Z.eqb_eq in E. lia.
        * eapply IH; eauto.
  Qed.

  Lemma find_id_range : forall l b id,
    ids_from b l -> b <= id < b + Z.of_nat (length l) ->
    exists x, find (fun y => idf y =? id) l = Some x /\ In x l /\ idf x = id.
  Proof.
    intros l b id H Hr.
    destruct (nth_error l (Z.to_nat (id - b))) as [x|] eqn:E.
    - pose proof (H _ _ E) as Hid. rewrite Z2Nat.id in Hid by lia.
      assert (Hin : In x l) by (eapply nth_error_In; eauto).
      exists x. split; [|split; [exact Hin | lia]].
      replace id with (idf x) by lia. eapply find_id_in; eauto.
    - apply nth_error_None in E. lia.
  Qed.

  Lemma find_id_out : forall l b id,
    ids_from b l -> (id < b \/ b + Z.of_nat (length l) <= id) ->
    find (fun y => idf y =? id) l = None.
  Proof.
    intros l b id H Hr.
    destruct (find (fun y => idf y =? id) l) as [x|] eqn:E; [|reflexivity].
    apply find_some in E. destruct E as [Hin Hx]. apply Z.eqb_eq in Hx.
    pose proof (ids_from_in l b x H Hin). lia.
  Qed.

  (* the freshly appended element is found under the next id *)
  Lemma find_id_snoc_new : forall l x,
    ids_seq l -> idf x = Z.of_nat (length l) + 1 ->
    find (fun y => idf y =? idf x) (l ++ [x]) = Some x.
  Proof.
    intros l x H Hx. rewrite find_app_none.
    - simpl. rewrite Z.eqb_refl. reflexivity.
    - eapply find_id_out; eauto. lia.
  Qed.

  (* an id that resolves in a table resolves to the same element in every extension *)
  Lemma find_id_ext : forall l l' id,
    ids_seq l -> 1 <= id <= Z.of_nat (length l) ->
    find (fun y => idf y =? id) (l ++ l') = find (fun y => idf y =? id) l.
  Proof.
    intros l l' id H Hr.
    destruct (find_id_range l 1 id H) as [x [Hf _]]; [lia|].
    rewrite Hf. apply find_app_some. exact Hf.
  Qed.
End Ids.

(* ---------------------------------------------------------------- keys *)
Section Keys.
  Context {A K : Type} (key : A -> K).

  Lemma nodup_key_inj : forall l a b,
    NoDup (map key l) -> In a l -> In b l -> key a = key b -> a = b.
  Proof.
    induction l as [|y r IH]; intros a b Hnd Ha Hb Hk.
    - contradiction.
    - simpl in Hnd. inversion Hnd as [|? ? Hnot Hnd']; subst.
      destruct Ha as [->|Ha]; destruct Hb as [->|Hb].
      + reflexivity.
      + exfalso. apply Hnot. rewrite Hk. apply in_map. exact Hb.
      + exfalso. apply Hnot. rewrite <- Hk. apply in_map. exact Ha.
      + eapply IH; eauto.
  Qed.

  (* insert-after-failed-lookup keeps keys distinct *)
  Lemma nodup_key_snoc : forall (eqb : K -> K -> bool) l x,
    (forall a b, eqb a b = true <-> a = b) ->
    NoDup (map key l) -> find (fun y => eqb (key y) (key x)) l = None ->
    NoDup (map key (l ++ [x])).
  Proof.
    intros eqb l x Hspec. induction l as [|y r IH]; simpl; intros Hnd Hf.
    - constructor; [intros []|constructor].
    - inversion Hnd as [|? ? Hnot Hnd']; subst.
      destruct (eqb (key y) (key x)) eqn:E; [discriminate|].
      constructor.
      + rewrite map_app, in_app_iff. simpl. intros [H|[H|[]]].
        * contradiction.
        * assert (eqb (key y) (key x) = true) by (apply Hspec; congruence). congruence.
      + apply IH; assumption.
  Qed.

  Lemma find_key_some : forall (eqb : K -> K -> bool) l k y,
    (forall a b, eqb a b = true <-> a = b) ->
    find (fun y => eqb (key y) k) l = Some y -> In y l /\ key y = k.
  Proof.
    intros eqb l k y Hspec H. apply find_some in H. destruct H as [Hin He].
    split; [exact Hin | apply Hspec; exact He].
  Qed.
End Keys.

(* ---------------------------------------------------------------- references and identities *)
Section Refs.
  Context {A K : Type} (idf : A -> Z) (key : A -> K).

  (* pointer dereference by id, 0 = nil *)
  Definition lookup0 (l : list A) (id : Z) : option A :=
    if id =? 0 then None else find (fun y => idf y =? id) l.

  Lemma lookup0_range : forall l id,
    ids_seq idf l -> 1 <= id <= Z.of_nat (length l) ->
    exists x, lookup0 l id = Some x /\ In x l /\ idf x = id.
  Proof.
    intros l id H Hr. unfold lookup0.
    replace (id =? 0) with false by (symmetry; apply Z.eqb_neq; lia).
    apply (find_id_range idf l 1 id H). lia.
  Qed.

  (* with pairwise distinct keys, a reference is determined by the key of what it points to *)
  Lemma ref_inj : forall l a b,
    ids_seq idf l -> NoDup (map key l) ->
    0 <= a <= Z.of_nat (length l) -> 0 <= b <= Z.of_nat (length l) ->
    option_map key (lookup0 l a) = option_map key (lookup0 l b) -> a = b.
  Proof.
    intros l a b H Hnd Ha Hb E.
    destruct (Z.eq_dec a 0) as [->|Na]; destruct (Z.eq_dec b 0) as [->|Nb].
    - reflexivity.
    - destruct (lookup0_range l b H) as [x [Hx _]]; [lia|]. rewrite Hx in E. discriminate.
    - destruct (lookup0_range l a H) as [x [Hx _]]; [lia|]. rewrite Hx in E. discriminate.
    - destruct (lookup0_range l a H) as [x [Hx [Hinx Hidx]]]; [lia|].
      destruct (lookup0_range l b H) as [y [Hy [Hiny Hidy]]]; [lia|].
      rewrite Hx, Hy in E. cbn in E. inversion E as [E'].
      assert (x = y) by (eapply (nodup_key_inj key); eauto). subst. congruence.
  Qed.
End Refs.

Lemma NoDup_map_inj_on : forall {A B C} (f : A -> B) (g : A -> C) l,
  NoDup (map f l) -> (forall x y, In x l -> In y l -> g x = g y -> f x = f y) -> NoDup (map g l).
Proof.
  intros A B C f g. induction l as [|x r IH]; intros Hnd Hinj; cbn.
  - constructor.
  - cbn in Hnd. inversion Hnd as [|? ? Hnot Hnd']; subst. constructor.
    + rewrite in_map_iff. intros [y [Hy Hin]]. apply Hnot. rewrite in_map_iff.
      exists y. split; [|exact Hin]. apply Hinj; [right; exact Hin | left; reflexivity | exact Hy].
    + apply IH; [exact Hnd'|]. intros a b Ha Hb. apply Hinj; right; assumption.
Qed.

(* ---------------------------------------------------------------- replaying a table into a prefix
   of itself: an element of L = l ++ t is found in l by its key when its id is within l, and is
   the head of t (and not found) when its id is the next one *)
Section Replay.
  Context {A K : Type} (idf : A -> Z) (key : A -> K) (eqb : K -> K -> bool).
  Hypothesis eqb_spec : forall a b, eqb a b = true <-> a = b.

  Lemma ids_nth : forall l x, ids_seq idf l -> In x l -> nth_error l (Z.to_nat (idf x - 1)) = Some x.
  Proof.
    intros l x H Hin. apply In_nth_error in Hin. destruct Hin as [i Hi].
    pose proof (H i x Hi) as E. replace (Z.to_nat (idf x - 1)) with i by lia. exact Hi.
  Qed.

  Lemma replay_found : forall l t x,
    ids_seq idf (l ++ t) -> NoDup (map key (l ++ t)) -> In x (l ++ t) ->
    1 <= idf x <= Z.of_nat (length l) ->
    find (fun y => eqb (key y) (key x)) l = Some x.
  Proof.
    intros l t x Hids Hnd Hin Hr.
    assert (Hl : In x l).
    { pose proof (ids_nth (l ++ t) x Hids Hin) as N.
      rewrite nth_error_app1 in N by lia. eapply nth_error_In; eauto. }
    destruct (find (fun y => eqb (key y) (key x)) l) as [g0|] eqn:E.
    - apply find_some in E. destruct E as [Hg Hk]. apply eqb_spec in Hk.
      f_equal. apply (nodup_key_inj key (l ++ t)); auto; apply in_or_app; left; assumption.
    - exfalso. eapply (find_in_not_none _ l x Hl); [|exact E]. apply eqb_spec. reflexivity.
  Qed.

  Lemma replay_next : forall l t x,
    ids_seq idf (l ++ t) -> NoDup (map key (l ++ t)) -> In x (l ++ t) ->
    idf x = Z.of_nat (length l) + 1 ->
    find (fun y => eqb (key y) (key x)) l = None /\ exists t', t = x :: t'.
  Proof.
    intros l t x Hids Hnd Hin Hr. split.
    - destruct (find (fun y => eqb (key y) (key x)) l) as [g0|] eqn:E; [|reflexivity]. exfalso.
      apply find_some in E. destruct E as [Hg Hk]. apply eqb_spec in Hk.
      assert (g0 = x) by (apply (nodup_key_inj key (l ++ t)); auto; apply in_or_app; left; assumption).
      subst g0. assert (Hl : ids_seq idf l).
      { intros i y Hi. apply (Hids i y). rewrite nth_error_app1; [exact Hi|]. apply nth_error_Some. congruence. }
      pose proof (ids_from_in idf l 1 x Hl Hg). lia.
    - pose proof (ids_nth (l ++ t) x Hids Hin) as N.
      rewrite nth_error_app2 in N by lia.
      replace (Z.to_nat (idf x - 1) - length l)%nat with 0%nat in N by lia.
      destruct t as [|y t']; [discriminate|]. cbn in N. inversion N; subst. eauto.
  Qed.
End Replay.
