(* C08 (b) -- the one order-SENSITIVE accumulation (finding F25): IEEE-754 binary64 addition is not
   associative, so a float64 sum taken in map-iteration order is not a function of the map.
   Coq's primitive floats are binary64 with round-to-nearest-even, evaluated by the kernel. *)
From Coq Require Import Floats List.
Import ListNotations.
Open Scope float_scope.

Definition fsum (l : list float) : float := fold_left add l 0.

Lemma float_sum_order_sensitive_witness :
  let l  := [0x1.999999999999ap-4; 0x1.999999999999ap-3; 0x1.3333333333333p-2] in
  let l' := [0x1.3333333333333p-2; 0x1.999999999999ap-3; 0x1.999999999999ap-4] in
  PrimFloat.eqb (fsum l) (fsum l') = false.
Proof. vm_compute. reflexivity. Qed.
