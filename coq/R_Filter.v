(* Helpers shared by the case runners R_C06 / R_C11: the match table shipped in every case,
   observables of a filtered profile. *)
From PV Require Export M_Filter.
Open Scope Z_scope.

(* table = TL [ TL universe ; TL [ TL [TS rx; TZ valid; TL matching subjects] ... ] ] *)
Definition tbl_entry (tbl : term) (rx : string) : option term :=
  find (fun e => String.eqb (gs (gn e 0)) rx) (gl (gn tbl 1)).
Definition tbl_M (tbl : term) (rx s : string) : bool :=
  match tbl_entry tbl rx with
  | Some e => existsb (fun t => String.eqb (gs t) s) (gl (gn e 2))
  | None => false
  end.
Definition tbl_V (tbl : term) (rx : string) : bool :=
  match tbl_entry tbl rx with Some e => gb (gn e 1) | None => false end.
Definition tbl_has (tbl : term) (s : string) : bool :=
  existsb (fun t => String.eqb (gs t) s) (gl (gn tbl 0)).

Definition opt_s (t : term) : option string := match gl t with [TS s] => Some s | _ => None end.

(* observable part of a profile after a filter: samples and locations *)
Definition obs_profile (p : profile) : list term :=
  [TL (map of_sample (p_sample p)); TL (map of_location (p_location p))].
Definition with_obs (p : profile) (o : term) (k : nat) : profile :=
  set_samples (set_locations p (map location_of (gl (gn o (S k))))) (map sample_of (gl (gn o k))).
