(* C04: conservation -- the flat values of the entries add up to the sum of the sample values
   (every sample with a non-empty stack is counted at exactly one entry, its leaf), which is what
   makes the flat percentages of a complete listing add up to 100%.  Over the specification sums,
   for any duplicate-free list of entries that contains every leaf. *)
From Coq Require Import Lia.
From PV Require Import M_Graph S_Graph L_Graph.
Open Scope list_scope.
Open Scope Z_scope.

Section Conserve.
  Variable K : Type.
  Variable keqb : K -> K -> bool.
  Hypothesis keqb_spec : forall a b, keqb a b = true <-> a = b.

  Definition sumk (f : K -> Z) (ks : list K) : Z := fold_right (fun k acc => f k + acc) 0 ks.

  Definition leaf (s : gsample K) : option K := match rev (keys K s) with x :: _ => Some x | [] => None end.

  Lemma sumk_add : forall f g ks, sumk (fun k => f k + g k) ks = sumk f ks + sumk g ks.
  Proof. intros f g ks. unfold sumk. induction ks as [|k r IH]; cbn [fold_right]; [reflexivity|]. rewrite IH. lia. Qed.

  Lemma sumk_zero : forall ks, sumk (fun _ => 0) ks = 0.
  Proof. intros ks. unfold sumk. induction ks as [|k r IH]; cbn [fold_right]; [reflexivity|]. rewrite IH. reflexivity. Qed.

  Lemma sumk_ext : forall f g ks, (forall k, In k ks -> f k = g k) -> sumk f ks = sumk g ks.
  Proof.
    intros f g ks. unfold sumk. induction ks as [|k r IH]; cbn [fold_right]; intros H; [reflexivity|].
    rewrite (H k (or_introl eq_refl)). rewrite IH; [reflexivity|]. intros x Hx. apply H. right. exact Hx.
  Qed.

  Lemma sumk_indicator_out : forall x w ks, ~ In x ks -> sumk (fun n => if keqb x n then w else 0) ks = 0.
  Proof.
    intros x w ks. unfold sumk. induction ks as [|k r IH]; cbn [fold_right]; intros H; [reflexivity|].
    destruct (keqb x k) eqn:E.
    - apply keqb_spec in E. subst k. exfalso. apply H. left. reflexivity.
    - rewrite IH; [reflexivity|]. intros Hx. apply H. right. exact Hx.
  Qed.

  Lemma sumk_indicator_in : forall x w ks, NoDup ks -> In x ks -> sumk (fun n => if keqb x n then w else 0) ks = w.
  Proof.
    intros x w ks. induction ks as [|k r IH]; intros Hnd Hin; [contradiction|].
    inversion Hnd as [|k' r' Hnot Hr]; subst. unfold sumk. cbn [fold_right]. fold (sumk (fun n => if keqb x n then w else 0) r).
    destruct (keqb x k) eqn:E.
    - apply keqb_spec in E. subst k. rewrite sumk_indicator_out by exact Hnot. lia.
    - destruct Hin as [Hin|Hin]; [subst k; rewrite (proj2 (keqb_spec x x) eq_refl) in E; discriminate|].
      rewrite IH by assumption. lia.
  Qed.

  (* the contribution of one sample to the flat values of all listed entries *)
  Lemma one_sample : forall div ks s, NoDup ks ->
    (forall x, leaf s = Some x -> In x ks) ->
    sumk (fun n => if lastb K keqb n (keys K s) then pick K div s else 0) ks =
    match leaf s with Some _ => pick K div s | None => 0 end.
  Proof.
    intros div ks s Hnd Hcov. unfold lastb, leaf in *. destruct (rev (keys K s)) as [|x r].
    - apply sumk_zero.
    - apply sumk_indicator_in; [exact Hnd|apply Hcov; reflexivity].
  Qed.

  Theorem flat_conservation_lemma : forall div ss ks, NoDup ks ->
    (forall s x, In s ss -> leaf s = Some x -> In x ks) ->
    sumk (flat_spec K keqb div None ss) ks =
    sumf K (fun s => match leaf s with Some _ => pick K div s | None => 0 end) ss.
  Proof.
    intros div ss ks Hnd. induction ss as [|s r IH]; intros Hcov.
    - unfold flat_spec, sumf. cbn [fold_right]. apply sumk_zero.
    - unfold flat_spec in *. unfold sumf in *. cbn [fold_right].
      rewrite sumk_add. rewrite IH by (intros s0 x H0 H1; apply (Hcov s0 x); [right; exact H0|exact H1]).
      f_equal. unfold keptb. cbn [andb].
      apply one_sample; [exact Hnd|]. intros x Hx. apply (Hcov s x); [left; reflexivity|exact Hx].
  Qed.

  (* an entry that occurs in every sample (the common root) has cum = the sum of all values *)
  Theorem cum_of_common_entry_lemma : forall div ss r,
    (forall s, In s ss -> memK K keqb r (keys K s) = true) ->
    cum_spec K keqb div None ss r = sumf K (pick K div) ss.
  Proof.
    intros div ss r H. unfold cum_spec, sumf. induction ss as [|s rest IH]; cbn [fold_right]; [reflexivity|].
    rewrite IH by (intros s0 H0; apply H; right; exact H0).
    unfold vis. replace (filter (keptb K keqb None) (keys K s)) with (keys K s).
    - rewrite (H s (or_introl eq_refl)). reflexivity.
    - unfold keptb. induction (keys K s) as [|x l IHl]; cbn [filter]; [reflexivity|]. rewrite <- IHl. reflexivity.
  Qed.
End Conserve.
