(* Case runner for C14.
   input  = TL [TS kind; TS fmt; doc; TS bytes; TL oracle; TL [TZ proto_ok; TZ approx]]
     kind "doc": bytes were printed by the harness's printer from doc (the Coq printer must give the same bytes)
     kind "var": doc + a layout variation of its print (spacing, comments, CRLF) with the same meaning
     kind "mut": bytes only (token-level mutations, error paths): model-vs-implementation only
   observable = TL [TS "ok"; profile] | TL [TS "unrec"] | TL [TS "err"] | TL [TS "panic"; ..] *)
From PV Require Import M_LegacyDoc S_Legacy M_LegacyGlue.
Open Scope Z_scope.

(* math.Exp oracle: table of (count, size, rate) -> (count', size') computed by the harness with
   math/big (independent of math.Exp) *)
Definition oracle_dflt (dflt : Z) (t : term) (c s r : Z) : Z * Z :=
  match find (fun e => (gz (gn e 0) =? c) && (gz (gn e 1) =? s) && (gz (gn e 2) =? r)) (gl t) with
  | Some e => (gz (gn e 3), gz (gn e 4))
  | None => (dflt, dflt)
  end.
Definition oracle_of := oracle_dflt 0.

Definition i_kind (i : term) := gs (gn i 0).
Definition i_fmt (i : term) := gs (gn i 1).
Definition i_doc (i : term) := gn i 2.
Definition i_data (i : term) := gs (gn i 3).
Definition i_un (i : term) := oracle_of (gn i 4).
Definition i_proto_ok (i : term) := gb (gn (gn i 5) 0).
Definition i_approx (i : term) := gb (gn (gn i 5) 1).

(* ParseData around parseLegacy: empty input is errNoData; gzip is outside the model; the protobuf
   decoder is assumed to reject the text (the harness checks and flags the case otherwise) *)
Definition parse_data (un : Z -> Z -> Z -> Z * Z) (data : string) : res profile :=
  match data with
  | EmptyString => Err
  | String a (String b _) => if (N.eqb (code a) 31 && N.eqb (code b) 139)%bool then Unk else parse_legacy un data
  | _ => parse_legacy un data
  end.

Definition enc (r : res profile) : term :=
  match r with
  | Ok p => TL [TS "ok"; of_profile p]
  | Unrec => TL [TS "unrec"]
  | Err => TL [TS "err"]
  | Unk => TL [TS "unk"]
  end.

Definition printed (i : term) : string :=
  let f := i_fmt i in
  if String.eqb f "count" then print_count (cdoc_of (i_doc i))
  else if String.eqb f "heap" then print_heap (hdoc_of (i_doc i))
  else if String.eqb f "contention" then print_contention (kdoc_of (i_doc i))
  else if String.eqb f "thread" then print_thread (tdoc_of (i_doc i))
  else if String.eqb f "cpu" then print_cpu (pdoc_of (i_doc i))
  else EmptyString.

Definition run_C14 (i : term) : term :=
  if String.eqb (i_kind i) "doc" && negb (String.eqb (printed i) (i_data i)) then TL [TS "printer-mismatch"]
  else enc (parse_data (i_un i) (i_data i)).

Definition is_unk (t : term) : bool := match t with TL [TS s] => String.eqb s "unk" | _ => false end.

(* 900: outside the model's domain (Java formats, gzip, regexp back-tracking corners, "$attr="
   replacers in the memory map, or the bytes happen to decode as a protobuf) *)
(* a mutated heap document may need exp for a triple the harness did not tabulate: detected by
   running the model with two different defaults for missing entries *)
Definition oracle_missing (i : term) : bool :=
  String.eqb (i_kind i) "mut" && (String.eqb (i_fmt i) "heap" || String.eqb (i_fmt i) "fixed") &&
  negb (term_eqb (enc (parse_data (oracle_dflt 0 (gn i 4)) (i_data i))) (enc (parse_data (oracle_dflt 1 (gn i 4)) (i_data i)))).

Definition cls_C14 (i : term) : list Z :=
  if i_proto_ok i || is_unk (run_C14 i) || oracle_missing i then [900] else [].

Definition strip_vals (p : profile) : profile :=
  {| p_sampletype := p_sampletype p; p_defaultsampletype := p_defaultsampletype p;
     p_sample := map (fun s => {| s_loc := s_loc s; s_val := []; s_label := s_label s; s_numlabel := s_numlabel s;
                                  s_numunit := s_numunit s |}) (p_sample p);
     p_mapping := p_mapping p; p_location := p_location p; p_function := p_function p; p_comments := p_comments p;
     p_docurl := p_docurl p; p_dropframes := p_dropframes p; p_keepframes := p_keepframes p; p_timenanos := p_timenanos p;
     p_durationnanos := p_durationnanos p; p_periodtype := p_periodtype p; p_period := p_period p |}.
Fixpoint vals_close (tol : bool) (a b : list sample) : bool :=
  match a, b with
  | [], [] => true
  | x :: a', y :: b' => zs_close tol (s_val x) (s_val y) && vals_close tol a' b'
  | _, _ => false
  end.

Definition eqv_C14 (i m o : term) : bool :=
  if i_proto_ok i || is_unk m || oracle_missing i then true else
      match m, o with
      | TL [TS "ok"; pm], TL [TS "ok"; po] =>
          if i_approx i then
            let a := profile_of pm in let b := profile_of po in
            term_eqb (of_profile (strip_vals a)) (of_profile (strip_vals b)) && vals_close true (p_sample a) (p_sample b)
          else term_eqb pm po
      | _, _ => term_eqb m o
      end.

Definition spec_of (i : term) (p : profile) : bool :=
  let f := i_fmt i in let tol := i_approx i in let d := i_doc i in
  if String.eqb f "count" then
    let d := cdoc_of d in
    legacy_spec tol (count_view d) [mk_vt (cd_type d) "count"] (mk_vt (cd_type d) "count") 1 (mapsec_files (cd_map d)) p
  else if String.eqb f "heap" then
    let d := hdoc_of d in
    legacy_spec tol (heap_view (i_un i) d) (heap_sample_types (hd_has_alloc d)) (mk_vt "space" "bytes") (hd_period d)
                (mapsec_files (hd_map d)) p
  else if String.eqb f "contention" then
    let d := kdoc_of d in
    legacy_spec tol (contention_view d) [mk_vt "contentions" "count"; mk_vt "delay" "nanoseconds"] (mk_vt "contentions" "count")
                (kd_period d) (mapsec_files (kd_map d)) p
  else if String.eqb f "thread" then
    let d := tdoc_of d in
    legacy_spec tol (thread_view d) [mk_vt "thread" "count"] (mk_vt "thread" "count") 1 (mapsec_files (td_map d)) p
  else if String.eqb f "cpu" then
    let d := pdoc_of d in
    legacy_spec tol (cpu_view d) [mk_vt "samples" "count"; mk_vt "cpu" "nanoseconds"] (mk_vt "cpu" "nanoseconds")
                (wrap_i64 (wrap_i64 (pd_period d) * 1000)) (map dm_file (pd_maps d)) p
  else false.

(* mappings clause, strict form: the mapping table and the mapping given to every location are the
   ones the documented conversion convert_* derives from the document's trailing memory map *)
Definition convert_of (i : term) : profile :=
  let f := i_fmt i in let d := i_doc i in
  if String.eqb f "count" then convert_count (cdoc_of d)
  else if String.eqb f "heap" then convert_heap (i_un i) (hdoc_of d)
  else if String.eqb f "contention" then convert_contention (kdoc_of d)
  else if String.eqb f "thread" then convert_thread (tdoc_of d)
  else convert_cpu (pdoc_of d).
Definition mapping_view (p : profile) : term :=
  TL [TL (map of_mapping (p_mapping p)); TL (map (fun l => TL [TZ (l_addr l); TZ (l_mapping l)]) (p_location p))].
Definition mappings_as_documented (i : term) (p : profile) : bool :=
  term_eqb (mapping_view (convert_of i)) (mapping_view p).

Definition spec_C14 (i o : term) : bool :=
  if String.eqb (i_kind i) "mut" || i_proto_ok i then true
  else match o with
       | TL [TS "ok"; po] => let p := profile_of po in spec_of i p && mappings_as_documented i p
       | _ => false
       end.

(* ---------------- end-to-end layer ----------------
   input = TL [TS kind; TS fmt; doc; TS ""; TL oracle; flags; steps]
     kind "e2e-cli": driver.PProf -traces -addresses on the printed document (plain or gzip file) with the option
                     steps on the command line; observable TL [report]
     kind "e2e-int": one interactive session; steps are input lines, a ("traces", _) step is a report; TL [report ...]
     kind "e2e-web": -http session; steps is a list of requests (each a list of URL-parameter steps) to /top; TL [report ...]
   report = TL [TS "ok"; TS type-legend; TL rows] | TL [TS "err"].  The expectation is computed from the DOCUMENTED
   conversion of the document (the convert functions) and the glue model (M_LegacyGlue): it is the specification. *)
Definition is_e2e (i : term) : bool := has_prefix "e2e" (i_kind i).
Definition steps_of (t : term) : list (string * string) := map (fun e => (gs (gn e 0), gs (gn e 1))) (gl t).
Definition enc_traces (o : option (string * list (Z * list Z))) : term :=
  match o with
  | None => TL [TS "err"]
  | Some (ty, rows) => TL [TS "ok"; TS ty; TL (map (fun r => TL [TZ (fst r); of_zs (snd r)]) rows)]
  end.
Definition enc_top (o : option (string * list (Z * Z))) : term :=
  match o with
  | None => TL [TS "err"]
  | Some (ty, rows) => TL [TS "ok"; TS ty; TL (map (fun r => TL [TZ (fst r); TZ (snd r)]) rows)]
  end.
Fixpoint int_reports (p : profile) (steps : list (string * string)) (st : gstate) : list term :=
  match steps with
  | [] => []
  | kv :: r =>
      if String.eqb (fst kv) "traces" then enc_traces (traces_view p st) :: int_reports p r st
      else int_reports p r (int_step (type_names p) (p_defaultsampletype p) st kv)
  end.
Definition e2e_expected (i : term) : term :=
  let p := convert_of i in
  let k := i_kind i in
  if String.eqb k "e2e-cli" then TL [enc_traces (traces_view p (cli_state (steps_of (gn i 6))))]
  else if String.eqb k "e2e-int" then TL (int_reports p (steps_of (gn i 6)) g0)
  else TL (map (fun rq => enc_top (top_view p (cli_config (steps_of rq) g0))) (gl (gn i 6))).

(* kind "e2e-java": fmt "java"; doc = TL [TZ contention; TS period; TL recs (TL [TS a; TS b; TL addrs]); TL locs (TL [TS addr; TS name]);
   TL droppable names]; observable TL [TL [TZ value; TL names] ...] from pprof -traces on the printed Java document *)
Definition jdoc_of (t : term) : jdoc :=
  {| jd_contention := gb (gn t 0); jd_period := gs (gn t 1);
     jd_recs := map (fun r => {| jr_a := gs (gn r 0); jr_b := gs (gn r 1); jr_addrs := gss (gn r 2) |}) (gl (gn t 2));
     jd_locs := map (fun e => (gs (gn e 0), gs (gn e 1))) (gl (gn t 3)) |}.
Definition java_expected (i : term) : term :=
  let d := i_doc i in
  let drop := gss (gn d 4) in
  TL (map (fun r => TL [TZ (fst r); of_ss (snd r)])
          (java_traces (fun n => existsb (String.eqb n) drop) (jdoc_of d))).

Definition e2e_any (i : term) : term := if String.eqb (i_kind i) "e2e-java" then java_expected i else e2e_expected i.
Definition run_all (i : term) : term := if is_e2e i then e2e_any i else run_C14 i.
Definition eqv_all (i m o : term) : bool := if is_e2e i then term_eqb m o else eqv_C14 i m o.
Definition spec_all (i o : term) : bool := if is_e2e i then term_eqb (e2e_any i) o else spec_C14 i o.
Definition cls_all (i : term) : list Z := if is_e2e i then [] else cls_C14 i.

Definition judge_C14 := judge_all run_all eqv_all spec_all cls_all 0%Z.
