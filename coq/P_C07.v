(* C07 -- property theorems (filled in below) *)
From PV Require Import M_Combine.
Theorem placeholder_c07 : True.
Proof. exact I. Qed.
Print Assumptions placeholder_c07.
