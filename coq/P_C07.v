(* C07 -- Combining and subtracting profiles is linear in every entry.
   Property theorems only: each is closed by [exact] of a lemma from L_Combine and followed by
   Print Assumptions.  [lin g i ss] is the sum of column i over the samples selected by g; with
   g = "entry e is the leaf" / "entry e is on the stack" it is the flat / cum number of entry e. *)
From Coq Require Import QArith Qabs.
From PV Require Import M_Combine M_CombineCli S_Measure L_Measure S_Combine L_Combine L_CombineCli Gen.Gen_UnitTable.
Open Scope Z_scope.

(* -- the numbers a -top report prints are the entry-level sums, in int64 -- *)
Theorem report_flat_is_sum : forall p i e, flat_of p i e = wrap_i64 (flatZ p i e).
Proof. exact flat_of_spec. Qed.
Print Assumptions report_flat_is_sum.

Theorem report_cum_is_sum : forall p i e, cum_of p i e = wrap_i64 (cumZ p i e).
Proof. exact cum_of_spec. Qed.
Print Assumptions report_cum_is_sum.

(* -- merge: weights are additive per stack identity (the conservation law of profile.Merge that
      C07 relies on; proved here for the keyed merge of profiles that share their symbol tables,
      discharged for the real interning Merge by C03's merge_conserves) -- *)
Theorem merge_conserves_weights : forall g i n ss,
  respects_key g -> uniform n ss -> eq64 (lin g i (merge_samples ss)) (lin g i ss).
Proof. exact merge_samples_conserves. Qed.
Print Assumptions merge_conserves_weights.

(* -- several sources: every entry of the combined report is the sum of the entries of the
      individual reports (modulo 2^64, as the code adds int64s) -- *)
Theorem report_additive : forall ps r g i,
  merge ps = Ok r -> (forall p, In p ps -> wf_profile p) -> respects_key g ->
  eq64 (lin g i (p_sample r)) (fold_right (fun p acc => lin g i (p_sample p) + acc) 0 ps).
Proof. exact merge_additive_lemma. Qed.
Print Assumptions report_additive.

(* -- -base / -diff_base: Scale(-1) negates every entry exactly ... -- *)
Theorem negation_exact : forall p g i,
  wf_profile p -> ignores_values g ->
  lin g i (p_sample (scale_all keep_written (-1) p)) = - lin g i (p_sample p).
Proof. exact scale_neg_lemma. Qed.
Print Assumptions negation_exact.

(* ... and merging source with negated base gives source minus base for every entry *)
Theorem diff_is_subtraction : forall p pb r g i,
  merge [p; scale_all keep_written (-1) pb] = Ok r ->
  wf_profile p -> wf_profile pb -> respects_key g ->
  eq64 (lin g i (p_sample r)) (lin g i (p_sample p) - lin g i (p_sample pb)).
Proof. exact diff_subtracts_lemma. Qed.
Print Assumptions diff_is_subtraction.

(* a profile minus itself: every entry is 0 (with -diff_base the samples remain, labelled) *)
Theorem self_diff_entries_zero : forall p r g i,
  merge [p; scale_all keep_written (-1) p] = Ok r -> wf_profile p -> respects_key g ->
  eq64 (lin g i (p_sample r)) 0.
Proof. exact self_diff_zero_lemma. Qed.
Print Assumptions self_diff_entries_zero.

(* -- unit harmonisation: "values are converted, never dropped" --
   ScaleN keeps a sample only if one of the SCALED columns is non-zero (F4); outside that class
   every entry-level sum of the result equals the sum over all samples with their scaled values *)
Theorem scale_n_keeps_nonzero : forall rs p g i,
  in_F4 rs p = false ->
  lin g i (p_sample (scale_n keep_written rs p)) = lin g i (map (scale_sample rs) (p_sample p)).
Proof. exact scale_n_keeps_nonzero_lemma. Qed.
Print Assumptions scale_n_keeps_nonzero.

(* F4: on the unchanged tree the statement does not hold without the hypothesis:
   ratios (1, 10^6) (count stays, ms -> ns), one sample (5, 0): column 0 loses its 5 *)
Definition f4_witness : profile :=
  set_samples empty_profile
    [{| s_loc := [1]; s_val := [5; 0]; s_label := []; s_numlabel := []; s_numunit := [] |}].
Theorem scale_n_keep_refuted :
  in_F4 [1%Q; 1000000%Q] f4_witness = true /\
  lin (fun _ => true) 0 (p_sample (scale_n keep_written [1%Q; 1000000%Q] f4_witness)) = 0 /\
  lin (fun _ => true) 0 (map (scale_sample [1%Q; 1000000%Q]) (p_sample f4_witness)) = 5.
Proof. vm_compute. repeat split. Qed.
Print Assumptions scale_n_keep_refuted.

(* with the documented rule ("at least one non-zero value") the statement is unconditional, and
   outside F4 the code's rule is the documented one *)
Theorem scale_n_documented_rule_ok : forall rs p g i,
  lin g i (p_sample (scale_n keep_documented rs p)) = lin g i (map (scale_sample rs) (p_sample p)).
Proof. exact scale_n_documented_lemma. Qed.
Print Assumptions scale_n_documented_rule_ok.

Theorem scale_n_rules_agree_outside_F4 : forall rs p,
  in_F4 rs p = false -> scale_n keep_written rs p = scale_n keep_documented rs p.
Proof. exact scale_n_rules_agree. Qed.
Print Assumptions scale_n_rules_agree_outside_F4.

(* an integer conversion ratio k multiplies every entry exactly by k (no rounding, no loss) *)
Theorem unit_harmonise_exact : forall g rs i k ss,
  ignores_values g -> nth_error rs i = Some (inject_Z k) ->
  lin g i (map (scale_sample rs) ss) = k * lin g i ss.
Proof. exact lin_map_scale. Qed.
Print Assumptions unit_harmonise_exact.

(* -- permuted / partially overlapping sample types: CompatibilizeSampleTypes keeps every sample
      (same order, same stack identity) and carries each common type's column by NAME -- *)
Theorem compat_aligns_columns : forall st p p',
  compat_one st p = Ok p' ->
  exists f, p_sample p' = map f (p_sample p)
    /\ (forall s, key_eqb (f s) s = true)
    /\ forall j t, nth_error st j = Some t ->
         exists i, index_of t (type_names p) 0%nat = Some i
                   /\ (forall s, val_at j (f s) = val_at i s)
                   /\ nth j (p_sampletype p') dummy_vt = nth i (p_sampletype p) dummy_vt.
Proof. exact compat_aligns_lemma. Qed.
Print Assumptions compat_aligns_columns.

(* -- -normalize: ScaleN on a scaled column changes the column total to ratio * total within half a
      unit per sample (no F4 hypothesis: a dropped sample has 0 in every scaled column); with the ratio
      Normalize uses (base total / source total) the source total becomes the base total +- n/2 -- *)
Theorem scale_n_total_close : forall rs p i r,
  nth_error rs i = Some r -> is_one r = false ->
  (Qabs (inject_Z (lin (fun _ => true) i (p_sample (scale_n keep_written rs p))) - r * inject_Z (lin (fun _ => true) i (p_sample p)))
   <= inject_Z (Z.of_nat (List.length (p_sample p))) / 2)%Q.
Proof. exact L_Combine.scale_n_total_close. Qed.
Print Assumptions scale_n_total_close.

Theorem normalize_total_partial : forall rs p i B,
  let S := lin (fun _ => true) i (p_sample p) in
  S <> 0 -> nth_error rs i = Some (inject_Z B / inject_Z S)%Q -> is_one (inject_Z B / inject_Z S) = false ->
  (Qabs (inject_Z (lin (fun _ => true) i (p_sample (scale_n keep_written rs p))) - inject_Z B)
   <= inject_Z (Z.of_nat (List.length (p_sample p))) / 2)%Q.
Proof. exact normalize_total_partial_lemma. Qed.
Print Assumptions normalize_total_partial.

(* -- -diff_base ... -proto, reopened: the saved profile is the report's profile with its labels,
      so the reopened report has the same total (the base total) and the same entries.  The model's
      -proto step is the identity (serialization is C01); what ties it to the code is the
      correspondence stream that saves through the driver's real "proto" command and reopens -- *)
Theorem diff_base_roundtrip : forall p i,
  print_proto (report_new p i) = p /\ snd (report_new (print_proto (report_new p i)) i) = snd (report_new p i).
Proof. exact proto_roundtrip_lemma. Qed.
Print Assumptions diff_base_roundtrip.

(* why the label has to survive: dropping it before saving changes the percentage base
   (base -40 labelled, source 60: total 40 with the label, 100 without) *)
Definition roundtrip_witness : profile :=
  set_samples empty_profile
    [{| s_loc := [1]; s_val := [60]; s_label := []; s_numlabel := []; s_numunit := [] |};
     {| s_loc := [1]; s_val := [-40]; s_label := [(base_key, ["true"%string])]; s_numlabel := []; s_numunit := [] |}].
Theorem roundtrip_needs_label :
  compute_total 0 (p_sample roundtrip_witness) = 40 /\
  compute_total 0 (p_sample (remove_base_label roundtrip_witness)) = 100.
Proof. vm_compute. split; reflexivity. Qed.
Print Assumptions roundtrip_needs_label.

(* -- the glue in front of the pipeline (cli.go parseFlags): which positional arguments are
      sources.  "Given several source profiles the report equals the sum of their reports" is about
      EVERY profile named on the command line: the only argument that may be taken out of the
      list is a first one that the ObjTool opens as an executable, and only when more follow.
      Tied to the code by the end-to-end streams (driver.PProf on files named by content hashes,
      ordinary names, names needing escaping, the same file twice, an executable first). -- *)
Theorem cli_sources_only_drops_leading_binary : forall is_binary args,
  cli_sources is_binary args = args \/
  exists a0 a1 r, args = a0 :: a1 :: r /\ is_binary a0 = true /\ cli_sources is_binary args = a1 :: r.
Proof. exact cli_sources_shape_lemma. Qed.
Print Assumptions cli_sources_only_drops_leading_binary.

Theorem cli_sources_keeps_every_profile : forall is_binary args,
  (forall a, In a args -> is_binary a = false) -> cli_sources is_binary args = args.
Proof. exact cli_sources_all_lemma. Qed.
Print Assumptions cli_sources_keeps_every_profile.

(* the comparison flags reach fetchProfiles unchanged: sources as above, -normalize as given,
   -diff_base wins the role of base list and sets the labelling, never both kinds of base *)
Theorem cli_plan_passes_flags : forall is_binary c pl,
  cli_plan is_binary c = Ok pl ->
  pl_srcs pl = cli_sources is_binary (c_args c)
  /\ pl_normalize pl = c_normalize c
  /\ pl_diffbase pl = negb (match drop_empty (c_diffbase c) with [] => true | _ => false end)
  /\ pl_bases pl = (if pl_diffbase pl then drop_empty (c_diffbase c) else drop_empty (c_base c))
  /\ (drop_empty (c_base c) = [] \/ drop_empty (c_diffbase c) = [])
  /\ (c_normalize c = true -> pl_bases pl <> []).
Proof. exact cli_plan_ok_lemma. Qed.
Print Assumptions cli_plan_passes_flags.

(* `pprof [report flags] src...` without an executable: what is fetched is the combination of
   every positional argument in order (to which report_additive then applies) *)
Theorem cli_fetch_plain_is_fetch_of_all : forall keep uts is_binary files c,
  c_args c <> [] -> c_base c = [] -> c_diffbase c = [] -> c_normalize c = false ->
  (forall a, In a (c_args c) -> is_binary a = false) ->
  cli_fetch keep uts is_binary files c =
  match resolve files (c_args c) with
  | [] => Err "src:none-fetched"%string
  | srcs => fetch keep uts false false srcs []
  end.
Proof. exact cli_fetch_plain_lemma. Qed.
Print Assumptions cli_fetch_plain_is_fetch_of_all.

(* -- chunkedGrab: the profiles of one side are combined 128 at a time; the chunks are consecutive
      pieces that together are the whole list (no source is left out, none twice, order kept), and up
      to 128 profiles there is one chunk, combined by combineProfiles.  Tied to the code by the
      deterministic tuples with 127, 128, 129, 130, 256, 257 profiles on the source / base side. -- *)
Theorem chunks_cover_every_source : forall (n : nat) (l : list profile), (0 < n)%nat -> List.concat (chunks n l) = l.
Proof. exact (fun n l => chunks_concat_lemma n l). Qed.
Print Assumptions chunks_cover_every_source.

Theorem chunked_grab_is_combine_up_to_128 : forall keep uts ps,
  (List.length ps <= chunk_size)%nat -> chunked_grab keep uts ps = combine_profiles keep uts ps.
Proof. exact chunked_grab_small_lemma. Qed.
Print Assumptions chunked_grab_is_combine_up_to_128.

(* -- statements kept in full but NOT proved here (fallback ladder of DESIGN 5.22): each is covered on
      every run by the correspondence of the executable model with the implementation and by the
      evaluated specification checker S_Combine.spec_ok; the theorems above are their proved parts -- *)
Definition sum_lin (g : sample -> bool) (i : nat) (ps : list profile) : Z :=
  fold_right (fun p acc => lin g i (p_sample p) + acc) 0 ps.

(* end to end through fetchProfiles for tuples with one common sample-type list: proved parts are
   compat_aligns_columns, unit_harmonise_exact, scale_n_keeps_nonzero, report_additive, negation_exact and
   diff_is_subtraction; missing: that CompatibilizeSampleTypes and ScaleProfiles are the identity on
   such tuples (needs the counting argument of commonSampleTypes and Scale(1,u,u) = 1) *)
Definition full_statement_fetch_linear : Prop :=
  forall uts db srcs bases r g i,
    L_Measure.table_ok uts = true ->
    fetch keep_written uts db false srcs bases = Ok r ->
    (forall p, In p (srcs ++ bases) -> wf_profile p) ->
    (forall p q, In p (srcs ++ bases) -> In q (srcs ++ bases) ->
                 p_sampletype p = p_sampletype q /\ p_periodtype p = p_periodtype q) ->
    (forall p v, In p (srcs ++ bases) -> In v (p_sampletype p) -> is_auto (vt_unit v) = false) ->
    respects_key g -> (forall s l, g (set_label_of s l) = g s) ->
    eq64 (lin g i (p_sample r)) (sum_lin g i srcs - sum_lin g i bases).

(* -normalize: the source is scaled so that its total equals the base total (within half a unit
   per sample, because every value is rounded) *)
Definition full_statement_normalize_total : Prop :=
  forall p pb p' i r,
    normalize keep_written p pb = Ok p' -> wf_profile p ->
    let n := List.length (p_sampletype p) in
    let S := lin (fun _ => true) i (p_sample p) in
    let B := lin (fun _ => true) i (p_sample pb) in
    nth_error (norm_ratios (col_sums n (p_sample pb)) (col_sums n (p_sample p))) i = Some r ->
    is_one r = false -> S <> 0 -> in_i64 S = true -> in_i64 B = true ->
    2 * Z.abs (lin (fun _ => true) i (p_sample p') - B) <= Z.of_nat (List.length (p_sample p)).

(* -diff_base: the percentage base is the total of the (merged) base alone *)
Definition full_statement_diff_base_total : Prop :=
  forall p pb r i,
    merge [p; scale_all keep_written (-1) (set_base_label pb)] = Ok r ->
    wf_profile p -> wf_profile pb ->
    (forall s, In s (p_sample p) -> is_base_sample s = false) ->
    (forall s, In s (p_sample pb) -> existsb (fun kv => String.eqb (fst kv) base_key) (s_label s) = false) ->
    (forall s v, In s (p_sample pb) -> In v (s_val s) -> - two63 < v < two63) ->
    0 < compute_total i (merge_samples (p_sample pb)) ->
    compute_total i (p_sample r) = compute_total i (merge_samples (p_sample pb)).

(* -- non-vacuity -- *)
Example flat_selector_respects_key : forall p e, respects_key (flat_g p e).
Proof. exact flat_g_respects. Qed.
Example cum_selector_respects_key : forall p e, respects_key (cum_g p e).
Proof. exact cum_g_respects. Qed.
Example hash_named_first_argument_is_a_source :
  cli_sources (fun _ => false) ["5d41402abc4b2a76"; "7d793037a0760186"; "cafe"]%string
  = ["5d41402abc4b2a76"; "7d793037a0760186"; "cafe"]%string.
Proof. reflexivity. Qed.
Example ms_to_ns_is_integer : (fst (scale unit_types 1 "ms" "ns") == inject_Z 1000000)%Q.
Proof. vm_compute. reflexivity. Qed.
