(* Executable model of the driver's pipeline around symbolization (internal/driver/fetch.go):
   grabProfile's locateBinaries (with an object tool that finds no binary: only the fake mapping for
   mapping-less profiles) and collectMappingSources, then Symbolizer.Symbolize (M_Symbolize), then
   unsourceMappings and the final CheckValid of fetchProfiles -- for ONE fetched profile, no base,
   empty DropFrames (RemoveUninteresting is then the identity) and no comment.
   [absurl f] = "url.Parse(f) succeeds and the URL is absolute" (net/url is an oracle).
   No proofs in this file. *)
From PV Require Import M_Prune.
From PV Require Export M_Symbolize.
Open Scope Z_scope.

Definition set_file (m : mapping) (f : string) : mapping :=
  {| m_id := m_id m; m_start := m_start m; m_limit := m_limit m; m_offset := m_offset m; m_file := f;
     m_buildid := m_buildid m; m_hasfn := m_hasfn m; m_hasfile := m_hasfile m; m_hasline := m_hasline m;
     m_hasinline := m_hasinline m |}.
Definition set_mapping (l : location) (mid : Z) : location :=
  {| l_id := l_id l; l_mapping := mid; l_addr := l_addr l; l_lines := l_lines l; l_folded := l_folded l |}.
Definition with_maps_locs (p : profile) (ms : list mapping) (ls : list location) : profile :=
  {| p_sampletype := p_sampletype p; p_defaultsampletype := p_defaultsampletype p; p_sample := p_sample p;
     p_mapping := ms; p_location := ls; p_function := p_function p; p_comments := p_comments p;
     p_docurl := p_docurl p; p_dropframes := p_dropframes p; p_keepframes := p_keepframes p;
     p_timenanos := p_timenanos p; p_durationnanos := p_durationnanos p; p_periodtype := p_periodtype p;
     p_period := p_period p |}.

(* locateBinaries (fetch.go:461): a profile without mappings gets the fake mapping {ID: 1} and every
   location is put into it *)
Definition fake_mapping : mapping :=
  {| m_id := 1; m_start := 0; m_limit := 0; m_offset := 0; m_file := ""; m_buildid := "";
     m_hasfn := false; m_hasfile := false; m_hasline := false; m_hasinline := false |}.
Definition add_fake (p : profile) : profile :=
  if is_nil (p_mapping p) then with_maps_locs p [fake_mapping] (map (fun l => set_mapping l 1) (p_location p)) else p.

(* ms[key] = append(ms[key], src) *)
Fixpoint ms_add (ms : sources_t) (k : string) (v : string * Z) : sources_t :=
  match ms with
  | [] => [(k, [v])]
  | e :: r => if String.eqb (fst e) k then (fst e, (snd e ++ [v])%list) :: r else e :: ms_add r k v
  end.

(* body of the loop of collectMappingSources (fetch.go:361): a mapping with neither build id nor
   file is given the source URL as its file *)
Definition collect_step (source : string) (acc : sources_t) (m : mapping) : sources_t * mapping :=
  let key := if str_empty (m_buildid m) then m_file m else m_buildid m in
  if str_empty key then (ms_add acc source (source, m_start m), set_file m source)
  else (ms_add acc key (source, m_start m), m).
Definition collect_sources (source : string) (maps : list mapping) : sources_t * list mapping :=
  mapacc (collect_step source) [] maps.

(* unsourceMappings (fetch.go:390); filepath.VolumeName is "" on Unix *)
Definition unsource (absurl : string -> bool) (m : mapping) : mapping :=
  if str_empty (m_buildid m) && absurl (m_file m) then set_file m "" else m.

Definition with_srcs (e : env) (s : sources_t) : env :=
  {| e_http := e_http e; e_symz := e_symz e; e_filt := e_filt e; e_srcs := s |}.

Inductive foutcome :=
| FOut (p : profile) (calls : list call)     (* fetchProfiles returned this profile *)
| FErr (calls : list call)                   (* fetchProfiles returned an error *)
| FPanic.

(* fetchProfiles for one source whose fetcher reports the URL [src] ("" = a local file) *)
Definition fetch_symbolize (mode : string) (e : env) (absurl : string -> bool) (script : list answer)
                           (src : string) (p : profile) : foutcome :=
  let p0 := add_fake p in
  let cm := if str_empty src then ([], p_mapping p0) else collect_sources src (p_mapping p0) in
  let p1 := with_maps_locs p0 (snd cm) (p_location p0) in
  match symbolize mode (with_srcs e (fst cm)) script p1 with
  | OPanic => FPanic
  | Out p2 true calls => FErr calls
  | Out p2 false calls =>
      let p3 := with_maps_locs p2 (map (unsource absurl) (p_mapping p2)) (p_location p2) in
      if check_valid p3 then FOut p3 calls else FErr calls
  end.

(* ------------------------------------------------------------------ any symbolizer plug-in
   driver.Options.Sym is a plug-in: fetchProfiles must cope with whatever it does to the profile.
   A plug-in is an arbitrary function of (mode, mapping sources, profile) giving: the profile as it
   left it, whether it returned an error, whether the pointers it left are consistent with the
   tables (what ids cannot express: a Function object that is not the one registered under its id),
   the plug-in calls it made; None = it panicked. *)
Definition plugin_t := string -> sources_t -> profile -> option (profile * bool * bool * list call).

Definition fetch_generic (plug : plugin_t) (mode : string) (absurl : string -> bool) (src : string) (p : profile) : foutcome :=
  let p0 := add_fake p in
  let cm := if str_empty src then ([], p_mapping p0) else collect_sources src (p_mapping p0) in
  let p1 := with_maps_locs p0 (snd cm) (p_location p0) in
  match plug mode (fst cm) p1 with
  | None => FPanic
  | Some (p2, err, ptr_ok, calls) =>
      if err then FErr calls
      else
        let p3 := with_maps_locs p2 (map (unsource absurl) (p_mapping p2)) (p_location p2) in
        (* THE guard: validity is re-checked AFTER symbolization *)
        if check_valid p3 && ptr_ok then FOut p3 calls else FErr calls
  end.

(* the built-in Symbolizer as a plug-in *)
Definition builtin_plugin (e : env) (script : list answer) : plugin_t :=
  fun mode srcs p1 =>
    match symbolize mode (with_srcs e srcs) script p1 with
    | OPanic => None
    | Out p2 err calls => Some (p2, err, true, calls)
    end.

(* ------------------------------------------------------------------ the command line (driver.PProf)
   `pprof [-symbolize=mode] [-buildid=id] [-add_comment=text] [executable] source`:
   parseFlags (cli.go:96) takes the first of two or more positional arguments as the executable when
   ObjTool.Open accepts it; locateBinaries (fetch.go:473) then makes it the file of Mapping[0] (the
   main binary, after the fake mapping was added) and applies the build id override when Mapping[0]
   has none; fetchProfiles appends the comment after symbolization.  Naming the executable touches
   NOTHING else: in particular not the has-symbols flags. *)
Record cliopts := { c_exec : string; c_buildid : string; c_comment : string }.

Definition set_buildid (m : mapping) (b : string) : mapping :=
  {| m_id := m_id m; m_start := m_start m; m_limit := m_limit m; m_offset := m_offset m; m_file := m_file m;
     m_buildid := b; m_hasfn := m_hasfn m; m_hasfile := m_hasfile m; m_hasline := m_hasline m;
     m_hasinline := m_hasinline m |}.

Definition override_main (c : cliopts) (m : mapping) : mapping :=
  let m1 := if str_empty (c_exec c) then m else set_file m (c_exec c) in
  if negb (str_empty (c_buildid c)) && str_empty (m_buildid m1) then set_buildid m1 (c_buildid c) else m1.

Definition cli_overrides (c : cliopts) (p : profile) : profile :=
  match p_mapping p with
  | m :: r => with_maps_locs p (override_main c m :: r) (p_location p)
  | [] => p
  end.

Definition add_comment (c : cliopts) (p : profile) : profile :=
  if str_empty (c_comment c) then p else
  {| p_sampletype := p_sampletype p; p_defaultsampletype := p_defaultsampletype p; p_sample := p_sample p;
     p_mapping := p_mapping p; p_location := p_location p; p_function := p_function p;
     p_comments := (p_comments p ++ [c_comment c])%list;
     p_docurl := p_docurl p; p_dropframes := p_dropframes p; p_keepframes := p_keepframes p;
     p_timenanos := p_timenanos p; p_durationnanos := p_durationnanos p; p_periodtype := p_periodtype p;
     p_period := p_period p |}.

(* the profile as the command line presents it to symbolization *)
Definition cli_input (c : cliopts) (p : profile) : profile := cli_overrides c (add_fake p).

Definition fetch_cli (plug : plugin_t) (c : cliopts) (mode : string) (absurl : string -> bool) (src : string) (p : profile) : foutcome :=
  match fetch_generic plug mode absurl src (cli_input c p) with
  | FOut p3 calls => FOut (add_comment c p3) calls
  | FErr calls => FErr calls
  | FPanic => FPanic
  end.

(* what -traces -addresses prints, as far as symbolization is concerned: one block per sample with a
   non-empty stack; per location one row per line (one row when it has none); every row but the last
   of a location is marked (inline); a row of a named function shows that name *)
Definition fn_name (p : profile) (id : Z) : string :=
  match find_function p id with Some f => f_name f | None => EmptyString end.
Definition loc_rows (p : profile) (lid : Z) : list (string * bool) :=
  match find_location p lid with
  | None => []
  | Some l =>
      match l_lines l with
      | [] => [(EmptyString, false)]
      | ls => let n := List.length ls in
              map (fun e => (fn_name p (ln_fn (snd e)), negb (Nat.eqb (S (fst e)) n))) (combine (seq 0 n) ls)
      end
  end.
Definition traces_view (p : profile) : list (list (string * bool)) :=
  filter (fun t => negb (is_nil t)) (map (fun s => flat_map (loc_rows p) (s_loc s)) (p_sample p)).

(* ------------------------------------------------------------------ drop_frames / keep_frames
   fetchProfiles calls Profile.RemoveUninteresting right after Symbolize (fetch.go:84; its error is
   ignored): frames whose WHOLE simplified function name matches drop_frames (and not keep_frames)
   are cut off together with everything they call (M_Prune.remove_uninteresting, C11's model of
   profile/prune.go).  Names only exist after symbolization, so this step is where symbolizing can
   change stack depths -- legitimately only for names that match as a whole.  In the C12 streams the
   expressions are bare alternations of literal names (general regexps are C11's), for which "matches
   as a whole" is decided here without any regexp oracle: *)
Definition alt_match (e n : string) : bool := existsb (String.eqb n) (split_on "|"%char e).

(* the two expressions are handed to C11's Prune under the keys "D" and "K" *)
Definition ru_M (p : profile) (rx n : string) : bool :=
  if String.eqb rx "D" then alt_match (p_dropframes p) n else alt_match (p_keepframes p) n.

Definition remove_uninteresting_alt (p : profile) : profile :=
  if str_empty (p_dropframes p) then p
  else M_Prune.prune (ru_M p) p "D" (if str_empty (p_keepframes p) then None else Some "K"%string).

(* some function of the profile may be dropped: its simplified name is an alternative of drop_frames
   and not one of keep_frames *)
Definition droppable (p : profile) : bool :=
  negb (str_empty (p_dropframes p)) &&
  existsb (fun f => negb (str_empty (f_name f)) && alt_match (p_dropframes p) (M_Prune.simplify_func (f_name f)) &&
                    negb (negb (str_empty (p_keepframes p)) && alt_match (p_keepframes p) (M_Prune.simplify_func (f_name f))))
          (p_function p).

(* the pipeline with the step in place *)
Definition fetch_generic_ru (plug : plugin_t) (mode : string) (absurl : string -> bool) (src : string) (p : profile) : foutcome :=
  let p0 := add_fake p in
  let cm := if str_empty src then ([], p_mapping p0) else collect_sources src (p_mapping p0) in
  let p1 := with_maps_locs p0 (snd cm) (p_location p0) in
  match plug mode (fst cm) p1 with
  | None => FPanic
  | Some (p2, err, ptr_ok, calls) =>
      if err then FErr calls
      else
        let p2r := remove_uninteresting_alt p2 in
        let p3 := with_maps_locs p2r (map (unsource absurl) (p_mapping p2r)) (p_location p2r) in
        if check_valid p3 && ptr_ok then FOut p3 calls else FErr calls
  end.

Definition fetch_cli_ru (plug : plugin_t) (c : cliopts) (mode : string) (absurl : string -> bool) (src : string) (p : profile) : foutcome :=
  match fetch_generic_ru plug mode absurl src (cli_input c p) with
  | FOut p3 calls => FOut (add_comment c p3) calls
  | FErr calls => FErr calls
  | FPanic => FPanic
  end.

(* a profile with the samples of another one (what pruning may legitimately change) *)
Definition with_stacks_of (p q : profile) : profile :=
  {| p_sampletype := p_sampletype p; p_defaultsampletype := p_defaultsampletype p; p_sample := p_sample q;
     p_mapping := p_mapping p; p_location := p_location p; p_function := p_function p; p_comments := p_comments p;
     p_docurl := p_docurl p; p_dropframes := p_dropframes p; p_keepframes := p_keepframes p;
     p_timenanos := p_timenanos p; p_durationnanos := p_durationnanos p; p_periodtype := p_periodtype p;
     p_period := p_period p |}.
