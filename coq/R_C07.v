(* Case runner for C07: decodes harness cases, runs the model of the fetch/combine/diff pipeline
   and of the -top numbers, judges the implementation's observable with the S_Combine checker. *)
From Coq Require Import QArith Qround Qabs.
From PV Require Import M_Combine M_CombineCli S_Measure S_Combine Gen.Gen_UnitTable.
Open Scope Z_scope.

Definition uts := unit_types.

Definition in_flags (i : term) : bool * bool := (gb (gn (gn i 0) 0), gb (gn (gn i 0) 1)).
Definition in_srcs (i : term) : list profile := map profile_of (gl (gn i 1)).
Definition in_bases (i : term) : list profile := map profile_of (gl (gn i 2)).

(* ---- encoding of the observable (must match harness/cmd/c07.go c07DumpMerged / top) ---- *)
Definition of_frames (p : profile) (s : sample) : term :=
  TL (map (fun id => match find_location p id with
                     | Some l => TL [TZ (l_addr l); of_ss (loc_names p id); of_ss (loc_files p id)]
                     | None => TL [TZ 0; TL []; TL []]
                     end) (s_loc s)).

Definition of_merged_sample (p : profile) (s : sample) : term :=
  TL [of_frames p s; of_zs (s_val s); of_kss (s_label s); of_kzs (s_numlabel s)].

Definition of_merged (p : profile) : term :=
  TL [TL (map of_vt (p_sampletype p)); TS (p_defaultsampletype p); of_opt of_vt (p_periodtype p); TZ (p_period p);
      TL (map (of_merged_sample p) (p_sample p)); TZ (default_index p)].

Definition of_report (p : profile) (i : nat) : term :=
  TL [TZ (compute_total i (p_sample p));
      TL (map (fun e => TL [TS (fst (fst e)); TZ (snd (fst e)); TZ (snd e)]) (report_entries p i))].

Definition of_reports (p : profile) : term :=
  TL (map (of_report p) (seq 0 (List.length (p_sampletype p)))).

Definition obs_of (r : res profile) : term :=
  match r with
  | Err e => TL [TS "err"; TS e]
  | Ok p => let r := of_reports p in TL [TS "ok"; of_merged p; r; r]
  end.

(* ---- end-to-end cases (driver.PProf on a command line / an interactive session / the web
   handlers): element 3 = [kind; positional args; -base values; -diff_base values; names the
   ObjTool opens as binaries; files (name, profile)].  Elements 1 and 2 then hold what the
   generator MEANT (every positional non-binary argument is a source): the specification checker
   reads those, the model reads the command line. ---- *)
Definition e2e_part (i : term) : term := gn i 3.
Definition is_e2e (i : term) : bool := match gl (e2e_part i) with [] => false | _ => true end.
Definition e2e_cli (i : term) : cli :=
  let e := e2e_part i in
  {| c_args := gss (gn e 1); c_base := gss (gn e 2); c_diffbase := gss (gn e 3); c_normalize := snd (in_flags i) |}.
Definition e2e_is_binary (i : term) (n : string) : bool := existsb (String.eqb n) (gss (gn (e2e_part i) 4)).
Definition e2e_files (i : term) : list (string * profile) :=
  map (fun t => (gs (gn t 0), profile_of (gn t 1))) (gl (gn (e2e_part i) 5)).

Definition fetch_with (keep : list Q -> list Z -> bool) (i : term) : res profile :=
  if is_e2e i then cli_fetch keep uts (e2e_is_binary i) (e2e_files i) (e2e_cli i)
  else let '(db, nm) := in_flags i in fetch keep uts db nm (in_srcs i) (in_bases i).

Definition run_with (keep : list Q -> list Z -> bool) (i : term) : term := obs_of (fetch_with keep i).

Definition run_C07 (i : term) : term := run_with keep_written i.

(* ---- float comparability ---- *)
Definition two50 : Z := 1125899906842624.
Definition all_profiles (i : term) : list profile := in_srcs i ++ in_bases i.
Definition max_abs (i : term) : Z :=
  fold_left Z.max (flat_map (fun p => flat_map (fun s => map Z.abs (s_val s)) (p_sample p)) (all_profiles i)) 1.
Definition n_samples (i : term) : Z := Z.of_nat (List.length (flat_map p_sample (all_profiles i))) + 1.
Definition all_units (i : term) : list string :=
  flat_map (fun p => map vt_unit (p_sampletype p)) (all_profiles i).
Definition unit_factor (u : string) : Q :=
  match family_of uts u with Some (_, w) => u_factor w | None => 1%Q end.
(* upper bound of every conversion ratio that can occur: largest quotient of the factors of two
   units given to the same sample type *)
Definition max_ratio (i : term) : Q :=
  let tu := flat_map (fun p => map (fun v => (vt_type v, unit_factor (vt_unit v))) (p_sampletype p)) (all_profiles i) in
  fold_left (fun acc a =>
    fold_left (fun acc b =>
      if String.eqb (fst a) (fst b) then (let q := (snd a / snd b)%Q in if Qle_bool acc q then q else acc) else acc) tu acc) tu 1%Q.
Definition same_spelling (i : term) : bool :=
  let tu := flat_map (fun p => map (fun v => (vt_type v, vt_unit v)) (p_sampletype p)) (all_profiles i) in
  forallb (fun a => forallb (fun b => negb (String.eqb (fst a) (fst b)) || String.eqb (snd a) (snd b)) tu) tu.
Definition float_out_of_range (i : term) : bool :=
  let '(db, nm) := in_flags i in
  let has_base := match in_bases i with [] => false | _ => true end in
  if negb has_base && same_spelling i then false
  else
    let b := (inject_Z (max_abs i * n_samples i) * max_ratio i)%Q in
    let b := if nm then (b * b)%Q else b in
    Qle_bool (inject_Z two50) b.

Definition frac_near_half (q : Q) : bool :=
  let a := Qabs q in
  let r := (a - inject_Z (Qfloor a))%Q in
  Qle_bool (Qabs (r - (1 # 2))%Q) (1 # 1073741824).
Fixpoint is_pow2 (fuel : nat) (p : positive) : bool :=
  match p with xH => true | xO q => is_pow2 fuel q | xI _ => false end.
Definition float_exact_ratio (r : Q) : bool :=
  let r := Qred r in is_pow2 0%nat (Qden r) && (Z.abs (Qnum r) <? 9007199254740992).
Definition normalize_near_half (i : term) : bool :=
  let '(db, nm) := in_flags i in
  if negb nm then false else
  match fetch_pre keep_written uts db (in_srcs i) (in_bases i) with
  | Ok (p, Some pb) =>
      let n := List.length (p_sampletype p) in
      let rs := norm_ratios (col_sums n (p_sample pb)) (col_sums n (p_sample p)) in
      existsb (fun s => existsb (fun vr => negb (float_exact_ratio (snd vr)) && frac_near_half (inject_Z (fst vr) * snd vr))
                                (List.combine (s_val s) rs)) (p_sample p)
  | _ => false
  end.

(* ---- classes ----
   4   = F4: ScaleN's keep rule (only the scaled columns decide) changes the result: the pipeline
         run with the documented rule ("some value non-zero") gives a different observable
   901 = a -normalize product v*B/S sits on a rounding boundary while B/S is not a float64
   902 = float64 arithmetic is used on magnitudes beyond 2^50 (exact-rational model not comparable) *)
Definition skip_cls (i : term) : list Z :=
  (if normalize_near_half i then [901] else []) ++ (if float_out_of_range i then [902] else []).

Definition res_eqb (a b : res profile) : bool :=
  match a, b with
  | Ok p, Ok q => term_eqb (of_profile p) (of_profile q)
  | Err e, Err f => String.eqb e f
  | _, _ => false
  end.

Definition cls_C07 (i : term) : list Z :=
  (if res_eqb (fetch_with keep_written i) (fetch_with keep_documented i) then [] else [4]) ++ skip_cls i.

Definition skipped (i : term) : bool := match skip_cls i with [] => false | _ => true end.

Definition eqv_C07 (i m o : term) : bool := if skipped i then true else term_eqb m o.

(* ---- decoding the implementation's observable for the specification checker ---- *)
Definition report_of_term (t : term) : Z * list (string * Z * Z) :=
  (gz (gn t 0), map (fun e => (gs (gn e 0), gz (gn e 1), gz (gn e 2))) (gl (gn t 1))).
Definition observed_of (o : term) : option observed :=
  if String.eqb (gs (gn o 0)) "ok" then
    let d := gn o 1 in
    Some {| o_types := map vt_of (gl (gn d 0));
            o_nsamples := List.length (gl (gn d 4));
            o_reports := map report_of_term (gl (gn o 2));
            o_reports2 := map report_of_term (gl (gn o 3));
            o_frames := flat_map (fun sm => map (fun fr => (gz (gn fr 0), gss (gn fr 1), gss (gn fr 2))) (gl (gn sm 0))) (gl (gn d 4)) |}
  else None.

Definition spec_C07 (i o : term) : bool :=
  if skipped i then true
  else if is_e2e i && match cli_plan (e2e_is_binary i) (e2e_cli i) with Err _ => true | Ok _ => false end then true
  else let '(db, nm) := in_flags i in spec_ok uts db nm (in_srcs i) (in_bases i) (observed_of o).

Definition judge_C07 := judge_all run_C07 eqv_C07 spec_C07 cls_C07 0%Z.
