(* Lemmas and proofs about the glue model of C13 (M_ElfGlue): the file chosen by locateBinaries,
   the address rebasing of profile.Merge, and the per-mapping fast symbolization. *)
From Coq Require Import Lia ZifyBool.
From PV Require Import M_Elf S_Elf L_Elf L_ElfNm L_ElfSess M_ElfGlue S_ElfGlue.
Open Scope Z_scope.

(* ---------------- locateBinaries ---------------- *)
Lemma locate_file_cases : forall files m,
  (In (locate_file files m) (gm_cands m) /\ cand_ok files m (locate_file files m) = true) \/
  (locate_file files m = gm_rec m /\ forall c, In c (gm_cands m) -> cand_ok files m c = false).
Proof.
  intros files m. unfold locate_file.
  destruct (find (cand_ok files m) (gm_cands m)) as [c|] eqn:Ef.
  - left. apply find_some in Ef. exact Ef.
  - right. split; [reflexivity|]. intros c Hc. apply (find_none _ _ Ef c Hc).
Qed.

(* a candidate of the search path replaces the recorded file only if it carries the build id the
   profile recorded *)
Lemma locate_build_id_lemma : forall files m,
  gm_buildid m <> ""%string ->
  locate_file files m = gm_rec m \/
  gf_buildid (file_at files (locate_file files m)) = gm_buildid m.
Proof.
  intros files m Hid. destruct (locate_file_cases files m) as [[_ Hok]|[Hr _]]; [right | left; exact Hr].
  unfold cand_ok in Hok. apply andb_true_iff in Hok. destruct Hok as [_ Hb].
  apply orb_true_iff in Hb. destruct Hb as [Hb|Hb].
  - apply String.eqb_eq in Hb. congruence.
  - apply String.eqb_eq in Hb. symmetry. exact Hb.
Qed.

(* ---------------- profile.Merge: mapMapping ---------------- *)
Lemma idkey_eqb_refl : forall k, idkey_eqb k k = true.
Proof. destruct k; cbn; [apply String.eqb_refl | apply Z.eqb_refl]. Qed.
Lemma key_eqb_refl : forall k, key_eqb k k = true.
Proof. intros [[s o] k]. cbn. rewrite !Z.eqb_refl, idkey_eqb_refl. reflexivity. Qed.

Lemma find_index_some : forall (A : Type) (f : A -> bool) (l : list A) (i0 i : nat) (d : A),
  find_index f l i0 = Some i -> (i0 <= i)%nat /\ nth_error l (i - i0) = Some (nth (i - i0) l d) /\ f (nth (i - i0) l d) = true.
Proof.
  intros A f l. induction l as [|x l IH]; intros i0 i d H; cbn [find_index] in H; [discriminate|].
  destruct (f x) eqn:Ef.
  - inversion H. subst i. rewrite Nat.sub_diag. cbn. auto.
  - destruct (IH (S i0) i d H) as (Hle & Hn & Hf).
    replace (i - i0)%nat with (S (i - S i0)) by lia. cbn [nth_error nth]. split; [lia|]. split; assumption.
Qed.

(* the merged mapping a source mapping lands in has the same key; the rebase offset is the
   difference of the starts *)
Lemma map_mapping_spec : forall ms src ms' i d,
  map_mapping ms src = (ms', i, d) ->
  exists g, nth_error ms' i = Some g /\ key_eqb (mm_key g) (mm_key src) = true /\ d = mm_start g - mm_start src.
Proof.
  intros ms src ms' i d H. unfold map_mapping in H.
  destruct (find_index (fun m => key_eqb (mm_key m) (mm_key src)) ms 0) as [j|] eqn:Ef.
  - inversion H. subst ms' i d.
    destruct (find_index_some _ _ _ _ _ src Ef) as (_ & Hn & Hk). rewrite Nat.sub_0_r in *.
    exists (nth j ms src). auto.
  - inversion H. subst ms' i d. exists src. split.
    + rewrite nth_error_app2 by lia. rewrite Nat.sub_diag. reflexivity.
    + split; [apply key_eqb_refl | lia].
Qed.

Lemma key_eqb_offset : forall g src, key_eqb (mm_key g) (mm_key src) = true -> mm_offset g = mm_offset src.
Proof.
  intros g src H. unfold mm_key, key_eqb in H.
  apply andb_true_iff in H. destruct H as [H _]. apply andb_true_iff in H. destruct H as [_ H]. lia.
Qed.

Definition emap_of_mm (m : mmapping) : emap :=
  {| em_start := mm_start m; em_limit := mm_limit m; em_offset := mm_offset m; em_koff := None |}.

(* Two runs of one object: the mapping of run s is folded into the mapping of run g (same segment,
   same file offset).  The rebased address denotes the same link-time address in g's address space. *)
Lemma rebase_preserves_link_lemma : forall p bg bs g src a,
  pieceb (emap_of_mm g) (image p bg) = true -> pieceb (emap_of_mm src) (image p bs) = true ->
  mm_offset g = mm_offset src ->
  (a + (mm_start g - mm_start src)) - bg = a - bs.
Proof.
  intros p bg bs g src a Hg Hs Ho.
  unfold pieceb, image, emap_of_mm in *. cbn [em_start em_limit em_offset em_koff] in *. lia.
Qed.

(* ---------------- fast symbolization of one mapping ---------------- *)
Definition syms_fit (bias : Z) (syms : list sym) : Prop :=
  forall s, In s syms -> 0 <= sy_addr s /\ 0 <= sy_size s /\ sy_addr s + sy_size s + bias < two64.

Lemma uadd_small : forall a b, 0 <= a -> 0 <= b -> a + b < two64 -> uadd a b = a + b.
Proof. intros a b Ha Hb Hlt. unfold uadd, wrap_u64. apply Z.mod_small. lia. Qed.

Lemma shift_sorted : forall bias syms, 0 <= bias -> syms_fit bias syms ->
  sortedb syms = true -> sortedb (shift_syms bias syms) = true.
Proof.
  intros bias syms Hb. induction syms as [|x r IH]; intros Hf Hs; [reflexivity|].
  destruct r as [|y r']; [reflexivity|].
  cbn [sortedb] in Hs. apply andb_true_iff in Hs. destruct Hs as [Hxy Hr].
  change (shift_syms bias (x :: y :: r')) with
    ({| sy_addr := uadd (sy_addr x) bias; sy_size := sy_size x; sy_name := sy_name x; sy_type := sy_type x |} ::
     shift_syms bias (y :: r')).
  assert (Hfr : syms_fit bias (y :: r')) by (intros s Hin; apply Hf; right; exact Hin).
  specialize (IH Hfr Hr).
  change (shift_syms bias (y :: r')) with
    ({| sy_addr := uadd (sy_addr y) bias; sy_size := sy_size y; sy_name := sy_name y; sy_type := sy_type y |} ::
     shift_syms bias r') in *.
  cbn [sortedb sy_addr]. cbn [sortedb sy_addr] in IH. rewrite IH. rewrite andb_true_r.
  destruct (Hf x (or_introl eq_refl)) as (Hx0 & Hxs & Hxl).
  destruct (Hf y (or_intror (or_introl eq_refl))) as (Hy0 & Hys & Hyl).
  rewrite !uadd_small by lia. lia.
Qed.

(* the name found in the table shifted by the bias is a symbol with the greatest start not above
   the LINK-TIME address a - bias (data symbols: within their size) *)
Lemma fast_lookup_link_address_lemma : forall bias syms a n,
  0 <= bias -> syms_fit bias syms -> sortedb syms = true ->
  addr_info (shift_syms bias syms) a = Some n ->
  exists s, In s syms /\ sy_name s = n /\ sy_addr s <= a - bias /\
            (forall s', In s' syms -> sy_addr s' <= a - bias -> sy_addr s' <= sy_addr s) /\
            (sym_is_data s = true -> a - bias < sy_addr s + sy_size s).
Proof.
  intros bias syms a n Hb Hf Hs Hn.
  pose proof (shift_sorted bias syms Hb Hf Hs) as Hss.
  destruct (addr_info_greatest_le_lemma _ _ _ Hss Hn) as (t & Hin & Hname & Hle & Hmax & Hdata).
  unfold shift_syms in Hin. apply in_map_iff in Hin. destruct Hin as (s & Hts & Hins). subst t.
  cbn [sy_addr sy_name sy_size] in *.
  destruct (Hf s Hins) as (Hs0 & Hsz & Hsl).
  rewrite uadd_small in Hle by lia.
  exists s. split; [exact Hins|]. split; [exact Hname|]. split; [lia|]. split.
  - intros s' Hin' Hle'. destruct (Hf s' Hin') as (H0 & Hz & Hl).
    specialize (Hmax {| sy_addr := uadd (sy_addr s') bias; sy_size := sy_size s'; sy_name := sy_name s'; sy_type := sy_type s' |}).
    cbn [sy_addr] in Hmax. rewrite !uadd_small in Hmax by lia.
    assert (Hin2 : In {| sy_addr := sy_addr s' + bias; sy_size := sy_size s'; sy_name := sy_name s'; sy_type := sy_type s' |}
                      (shift_syms bias syms)).
    { unfold shift_syms. apply in_map_iff. exists s'. rewrite uadd_small by lia. split; [reflexivity | exact Hin']. }
    specialize (Hmax Hin2 ltac:(lia)). lia.
  - intros Hd. unfold sym_is_data in *. cbn [sy_type] in Hdata. specialize (Hdata Hd).
    unfold sym_end in Hdata. cbn [sy_addr sy_size] in Hdata.
    rewrite (uadd_small (sy_addr s) bias) in Hdata by lia. rewrite uadd_small in Hdata by lia. lia.
Qed.

(* the mapping of a process, asked first about an own byte of its (sole) owner segment: the base
   is the load bias and every location is looked up in the table shifted by the bias *)
Lemma symbolize_mapping_bias_lemma : forall files m f bias p a0 rest,
  0 <= mm_file m -> f = file_at files (mm_file m) ->
  (mm_buildid m = ""%string \/ gf_buildid f = ""%string \/ gf_buildid f = mm_buildid m) ->
  In p (e_progs (gf_elf f)) -> loaded_at (gf_elf f) bias (emap_of_mm m) a0 p = true ->
  in_F23 (gf_elf f) p bias (emap_of_mm m) = false -> sole_owner (gf_elf f) p bias a0 = true ->
  symbolize_mapping files m (a0 :: rest) =
  map (fun a => (a, addr_info (shift_syms bias (gf_syms f)) a)) (a0 :: rest).
Proof.
  intros files m f bias p a0 rest Hfile Hf Hid Hin Hl HF Hs.
  unfold symbolize_mapping. replace (mm_file m <? 0) with false by lia. rewrite <- Hf.
  assert (Hopen : open_elf (gf_elf f) (mm_start m) (mm_limit m) (mm_offset m) = Ok (emap_of_mm m)).
  { destruct (loaded_at_facts _ _ _ _ _ Hl) as (V & O & r & k & AUf & F). destruct F.
    cbn [emap_of_mm em_start em_limit em_offset] in *.
    assert (Hu : user_elfb (gf_elf f) = true).
    { pose proof Hl as Hl2. unfold loaded_at in Hl2.
      repeat (apply andb_true_iff in Hl2; destruct Hl2 as [Hl2 ?]). exact Hl2. }
    destruct (open_elf_user_ok_lemma (gf_elf f) (mm_start m) (mm_limit m) (mm_offset m) Hu) as [em Hem].
    { rewrite two63_val. lia. }
    rewrite Hem. f_equal. unfold open_elf in Hem.
    destruct (get_base (e_type (gf_elf f)) (find_text_prog_header (gf_elf f)) None (mm_start m) (mm_limit m) (mm_offset m));
      [inversion Hem; reflexivity | discriminate]. }
  rewrite Hopen.
  assert (Hmis : negb (String.eqb (mm_buildid m) "") && negb (String.eqb (gf_buildid f) "") &&
                 negb (String.eqb (gf_buildid f) (mm_buildid m)) = false).
  { destruct Hid as [H|[H|H]]; rewrite H; rewrite ?String.eqb_refl; cbn;
      rewrite ?andb_false_r; reflexivity. }
  rewrite Hmis.
  rewrite (compute_base_sole _ _ _ _ _ Hl Hin HF Hs). reflexivity.
Qed.

(* ---------------- legacy profiles: massageMappings ---------------- *)
Definition emap_of_gm (m : gmapping) : emap :=
  {| em_start := gm_start m; em_limit := gm_limit m; em_offset := gm_offset m; em_koff := None |}.

(* two adjacent map entries that are pieces of ONE segment image are merged into a piece of that
   image: start and file offset of the first part, limit of the second (so start - offset, hence
   the base computed for the merged mapping, is that of the image) *)
Lemma merge_adjacent_piece_lemma : forall lm m img,
  pieceb (emap_of_gm lm) img = true -> pieceb (emap_of_gm m) img = true -> gm_limit lm = gm_start m ->
  pieceb (emap_of_gm (merge_adjacent lm m)) img = true /\
  gm_start (merge_adjacent lm m) - gm_offset (merge_adjacent lm m) = gm_start lm - gm_offset lm /\
  gm_start (merge_adjacent lm m) - gm_offset (merge_adjacent lm m) = gm_start m - gm_offset m.
Proof.
  intros lm m img Hl Hm Hadj.
  unfold pieceb, emap_of_gm, merge_adjacent in *. cbn [em_start em_limit em_offset em_koff gm_start gm_limit gm_offset] in *.
  repeat split; lia.
Qed.

(* and such entries ARE adjacent for the code (same file): consecutive pieces have consistent offsets *)
Lemma pieces_adjacent_lemma : forall lm m img,
  pieceb (emap_of_gm lm) img = true -> pieceb (emap_of_gm m) img = true -> gm_limit lm = gm_start m ->
  gm_name lm = gm_name m -> gm_buildid lm = gm_buildid m ->
  0 <= gm_offset lm -> gm_offset lm + (gm_limit lm - gm_start lm) < two64 -> 0 <= gm_limit lm - gm_start lm < two64 ->
  adjacent lm m = true.
Proof.
  intros lm m img Hl Hm Hadj Hn Hb Ho Hsz Hlen.
  unfold adjacent. rewrite Hn, Hb, String.eqb_refl, orb_true_r.
  assert (Hname : match gm_name m, gm_name m with Some a, Some b => a =? b | _, _ => true end = true).
  { destruct (gm_name m); [apply Z.eqb_refl | reflexivity]. }
  rewrite Hname. cbn [andb].
  unfold pieceb, emap_of_gm in *. cbn [em_start em_limit em_offset em_koff] in *.
  unfold uadd, usub, wrap_u64.
  rewrite (Z.mod_small (gm_limit lm - gm_start lm)) by lia.
  rewrite (Z.mod_small (gm_offset lm + (gm_limit lm - gm_start lm))) by lia.
  lia.
Qed.
