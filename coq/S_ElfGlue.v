(* Specification of the end-to-end observable of C13: every frame pprof prints for a sampled
   address is the function of the binary REALLY loaded that contains address - bias; a frame stays
   unsymbolized ("?") only when that binary cannot be identified from what the profile records
   and what the binary search path holds.  Independent of how the driver searches, merges and
   symbolizes. *)
From PV Require Export M_ElfGlue S_Elf.
Open Scope Z_scope.

(* the function whose [start, start+size) contains the link-time address *)
Definition sym_containing (syms : list sym) (x : Z) : option string :=
  match find (fun s => (sy_addr s <=? x) && (x <? sy_addr s + sy_size s)) syms with
  | Some s => Some (sy_name s)
  | None => None
  end.

(* file c is the build that was loaded (the same file, or a copy with the same non-empty build id) *)
Definition same_build (files : list gfile) (c t : Z) : bool :=
  (0 <=? c) && ((c =? t) ||
                (negb (String.eqb (gf_buildid (file_at files c)) "") &&
                 String.eqb (gf_buildid (file_at files c)) (gf_buildid (file_at files t)))).

Definition identifiable (files : list gfile) (m : gmapping) : bool :=
  same_build files (gm_rec m) (gm_truth m) || existsb (fun c => same_build files c (gm_truth m)) (gm_cands m).

Definition truth_name (files : list gfile) (maps : list gmapping) (fr : nat * Z) : string :=
  let m := nth (fst fr) maps gmapping0 in
  if identifiable files m then
    match sym_containing (gf_syms (file_at files (gm_truth m))) (snd fr - gm_bias m) with
    | Some n => n
    | None => "?"%string
    end
  else "?"%string.

Definition truth_samples (files : list gfile) (ps : list gprofile) : list (list string * Z) :=
  flat_map (fun p => map (fun s => (map (truth_name files (gp_maps p)) (fst s), gp_scale p * snd s)) (gp_samples p)) ps.

(* The statement speaks about addresses whose owning segment is identifiable: an own byte of a
   linker-made segment of the loaded file, the only PT_LOAD header whose file range contains its file
   offset (otherwise an error -- an unsymbolized mapping -- is the allowed answer). *)
Definition frame_in_scope (files : list gfile) (maps : list gmapping) (fr : nat * Z) : bool :=
  let m := nth (fst fr) maps gmapping0 in
  let ef := gf_elf (file_at files (gm_truth m)) in
  existsb (fun p => seg_okb p && load_okb p (gm_bias m) && ownb p (gm_bias m) (snd fr) &&
                    sole_owner ef p (gm_bias m) (snd fr)) (e_progs ef).
Definition world_in_scope (files : list gfile) (ps : list gprofile) : bool :=
  forallb (fun p => forallb (fun s => forallb (frame_in_scope files (gp_maps p)) (fst s)) (gp_samples p)) ps.

Fixpoint agg_eqb (a b : list (string * Z)) : bool :=
  match a, b with
  | [], [] => true
  | (k, v) :: a', (k', v') :: b' => String.eqb k k' && (v =? v') && agg_eqb a' b'
  | _, _ => false
  end.
