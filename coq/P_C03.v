From PV Require Import M_Merge.
