(* C03 -- Merging conserves every stack's weight and symbol information.
   Property theorems only: each is closed by [exact] of a lemma from L_Merge / L_SampleKey and
   followed by Print Assumptions.  The model [merge] (M_Merge) is tied to profile.Merge of /repo's
   current tree by the correspondence check on full result dumps (R_C03). *)
From Coq Require Import List ZArith String Bool Permutation.
From PV Require Import M_Merge S_Merge L_Assoc L_Merge L_SampleKey L_LocKey L_Compact M_MergeMemo L_MergeMemo M_MergeGlue L_MergeGlue.
Import ListNotations.
Open Scope Z_scope.

(* -- conservation: for every (stack, label set) identity -- frames compared by binary, relative
   address, function name / system name / file / start line, line, column, inline nesting and
   folded flag, never by ids -- and every sample-type column, the result's weight is the int64 sum
   of the inputs' weights.  Holds for ALL input lists (no validity hypothesis is needed by the
   model; validity is what makes the model faithful to the Go code). *)
Theorem merge_conserves : forall ps q,
  merge ps = MOk q -> forall k j, eq64 (wt q k j) (sumZ (map (fun p => wt p k j) ps)).
Proof. exact merge_conserves_lemma. Qed.
Print Assumptions merge_conserves.

(* -- per-type totals are conserved -- *)
Theorem totals_conserved : forall ps q,
  merge ps = MOk q -> forall j, eq64 (total q j) (sumZ (map (fun p => total p j) ps)).
Proof. exact totals_conserved_lemma. Qed.
Print Assumptions totals_conserved.

(* -- stacks whose sum is all zero disappear: the result has no all-zero sample -- *)
Theorem merge_no_zero_sample : forall ps q,
  merge ps = MOk q -> forall s, In s (p_sample q) -> is_zero_sample s = false.
Proof. exact merge_no_zero_lemma. Qed.
Print Assumptions merge_no_zero_sample.

(* -- the weights do not depend on the order of the inputs -- *)
Theorem merge_perm : forall ps ps' q q',
  Permutation ps ps' -> merge ps = MOk q -> merge ps' = MOk q' ->
  forall k j, eq64 (wt q k j) (wt q' k j).
Proof. exact merge_perm_lemma. Qed.
Print Assumptions merge_perm.

(* -- ... and neither do the header fields documented as symmetric -- *)
Theorem merge_perm_headers : forall ps ps' q q',
  Permutation ps ps' -> merge ps = MOk q -> merge ps' = MOk q' ->
  p_timenanos q = p_timenanos q' /\ p_durationnanos q = p_durationnanos q' /\
  (in_F25 ps = false -> p_period q = p_period q') /\
  (forall c, In c (p_comments q) <-> In c (p_comments q')).
Proof. exact merge_perm_headers_lemma. Qed.
Print Assumptions merge_perm_headers.

(* -- header fields combine as documented: earliest non-zero time, int64 sum of durations, maximum
   period (for non-negative periods), de-duplicated union of comments in order of first occurrence,
   first non-empty default sample type / doc URL, everything else from the first profile -- *)
Theorem merge_headers : forall p0 rest q,
  merge (p0 :: rest) = MOk q ->
  p_timenanos q = spec_time (map p_timenanos (p0 :: rest)) /\
  p_durationnanos q = spec_duration (map p_durationnanos (p0 :: rest)) /\
  (Forall (fun p => 0 <= p_period p) (p0 :: rest) -> p_period q = spec_period (map p_period (p0 :: rest))) /\
  p_comments q = spec_comments (map p_comments (p0 :: rest)) /\
  p_defaultsampletype q = first_nonempty (map p_defaultsampletype (p0 :: rest)) /\
  p_docurl q = first_nonempty (map p_docurl (p0 :: rest)) /\
  p_dropframes q = p_dropframes p0 /\ p_keepframes q = p_keepframes p0 /\
  p_sampletype q = p_sampletype p0 /\ p_periodtype q = p_periodtype p0.
Proof. exact merge_headers_lemma. Qed.
Print Assumptions merge_headers.

(* period = maximum, outside the known-finding class F25 (a negative period among the inputs) *)
Theorem merge_period_max : forall p0 rest q,
  in_F25 (p0 :: rest) = false -> merge (p0 :: rest) = MOk q ->
  p_period q = spec_period (map p_period (p0 :: rest)).
Proof. exact merge_period_max_lemma. Qed.
Print Assumptions merge_period_max.

(* what "de-duplicated union in order" means *)
Theorem comments_dedup_is_union : forall l, NoDup (dedup l) /\ forall x, In x (dedup l) <-> In x l.
Proof. intros l. split; [apply dedup_nodup | apply dedup_in]. Qed.
Print Assumptions comments_dedup_is_union.

(* -- Merge of compatible profiles (same period type and sample types as the first) succeeds:
   no error, no panic, no unbounded recursion -- *)
Theorem merge_total : forall p0 rest,
  compat_all p0 rest = CompatOk -> Forall vals_ok (p0 :: rest) -> exists q, merge (p0 :: rest) = MOk q.
Proof. exact merge_total_lemma. Qed.
Print Assumptions merge_total.

Theorem merge_no_panic : forall ps,
  Forall (fun p => p_periodtype p <> None) ps -> merge ps <> MPanic.
Proof. exact merge_no_panic_lemma. Qed.
Print Assumptions merge_no_panic.

(* -- valid: merging profiles that pass CheckValid yields a profile that passes CheckValid
   (ids are exactly 1..n in creation order; every reference resolves) -- *)
Theorem merge_valid : forall ps q,
  Forall (fun p => valid_b p = true) ps -> merge ps = MOk q -> valid_b q = true.
Proof. exact merge_valid_lemma. Qed.
Print Assumptions merge_valid.

(* -- nothing is duplicated: at most one sample per (stack, label set) identity.  This is where
   the identity keys of the code must separate exactly the frame identities (F1/F2 regressions
   break it) -- *)
Theorem merge_distinct : forall ps q,
  merge ps = MOk q -> NoDup (map (sample_ident_of q) (p_sample q)).
Proof. exact merge_distinct_lemma. Qed.
Print Assumptions merge_distinct.

(* -- the headline: for every identity k, either the result has exactly one sample of identity k,
   it is not all-zero and each of its values is the int64 sum over the inputs; or it has none and
   that sum is zero in every column.  Nothing else is added, dropped or altered. -- *)
Theorem merge_exact : forall ps q k,
  merge ps = MOk q ->
  (exists s, In s (p_sample q) /\ sample_ident_of q s = k /\ is_zero_sample s = false /\
             (forall s', In s' (p_sample q) -> sample_ident_of q s' = k -> s' = s) /\
             forall j, eq64 (nth j (s_val s) 0) (sumZ (map (fun p => wt p k j) ps)))
  \/ ((forall s, In s (p_sample q) -> sample_ident_of q s <> k) /\
      forall j, eq64 0 (sumZ (map (fun p => wt p k j) ps))).
Proof. exact merge_exact_lemma. Qed.
Print Assumptions merge_exact.

(* -- the one recursion in Merge (re-merge while an all-zero sample is left) stops after one
   extra pass: the model never runs out of fuel on int64 values -- *)
Theorem remerge_terminates : forall ps, Forall vals_ok ps -> merge ps <> MFuel.
Proof. exact remerge_terminates_lemma. Qed.
Print Assumptions remerge_terminates.

(* -- compacting twice equals compacting once: Compact (= Merge of the singleton list) returns a
   merge result unchanged -- same entities under the same ids in the same order, same samples, same
   header.  (Proof: every merge state numbers its entities in order of first use; replaying such a
   profile re-creates each entity under its own id, L_Compact.) -- *)
Theorem compact_idempotent : forall ps q, merge ps = MOk q -> compact q = MOk q.
Proof. exact compact_idempotent_lemma. Qed.
Print Assumptions compact_idempotent.

(* -- histories.  Merge and Compact are judged on what their inputs contain at the time of the call:
   for ANY profile q -- in particular the result of an earlier Merge that has since been edited in
   place (Profile.Aggregate, demangling, ...) -- compaction regroups by the current frame identities,
   and merging the edited result with further profiles sums by them.  (The model is a function of the
   dump; the harness's hist-* streams present the implementation with objects that HAVE such a past,
   so state kept on objects or in the package between operations shows as a difference.) -- *)
Theorem compact_conserves : forall q q2,
  compact q = MOk q2 ->
  (forall k j, eq64 (wt q2 k j) (wt q k j)) /\
  NoDup (map (sample_ident_of q2) (p_sample q2)) /\
  (forall s, In s (p_sample q2) -> is_zero_sample s = false).
Proof. exact compact_conserves_lemma. Qed.
Print Assumptions compact_conserves.

Theorem merge_after_edit : forall (edit : profile -> profile) ps q rest q2,
  merge ps = MOk q -> merge (edit q :: rest) = MOk q2 ->
  (forall k j, eq64 (wt q2 k j) (wt (edit q) k j + sumZ (map (fun p => wt p k j) rest))) /\
  NoDup (map (sample_ident_of q2) (p_sample q2)).
Proof. exact merge_after_edit_lemma. Qed.
Print Assumptions merge_after_edit.

(* -- END TO END.  M_MergeGlue models the driver code between profile.Merge and what `pprof ... -proto`,
   `-raw`, the interactive `proto` / `raw` commands and /download write: sources that cannot be fetched
   are left out, a profile without mappings gets a fake one, the fetched sources are combined in chunks
   of 128, one profile is handed on unmerged, bases are negated (and marked for -diff_base) and merged
   in, -add_comment is appended; proto / raw run at address granularity where only noinlines
   (+showcolumns) and divide_by change what is written; every command of a session and every web
   request starts from the fetched profile.  The e2e-* streams drive driver.PProf with real command
   lines, sessions and web requests, parse the outputs back and compare them with this model.  What the
   pipeline hands on conserves every stack's weight: -- *)
Theorem chunked_grab_conserves : forall l q,
  chunked_grab l = GOk q -> forall k j, eq64 (wt q k j) (wsum (successes l) k j).
Proof. exact chunked_grab_conserves_lemma. Qed.
Print Assumptions chunked_grab_conserves.

Theorem fetch_conserves : forall srcs comment q,
  fetch_profiles srcs [] false comment = MOk q ->
  forall k j, eq64 (wt q k j) (wsum (successes srcs) k j).
Proof. exact fetch_conserves_lemma. Qed.
Print Assumptions fetch_conserves.

Theorem fetch_base_subtracts : forall srcs bases q,
  bases <> [] -> fetch_profiles srcs bases false "" = MOk q ->
  forall k j, eq64 (wt q k j) (wsum (successes srcs) k j - wsum (successes bases) k j).
Proof. exact fetch_base_subtracts_lemma. Qed.
Print Assumptions fetch_base_subtracts.

(* the display options do not reach what proto / raw / download write; a later command does not see
   what an earlier one did *)
Theorem written_ignores_display_options : forall c name value f,
  name <> "noinlines"%string -> name <> "showcolumns"%string -> name <> "divide_by"%string ->
  written_proto (gcfg_set c name value) f = written_proto c f /\
  written_raw (gcfg_set c name value) f = written_raw c f.
Proof. exact written_ignores_lemma. Qed.
Print Assumptions written_ignores_display_options.

Theorem written_default_exact : forall f,
  written_proto gcfg0 f = f /\ written_raw gcfg0 f = f /\ written_download f = f.
Proof. exact written_default_exact_lemma. Qed.
Print Assumptions written_default_exact.

(* -- a location that carries a mapping but an address BELOW the mapping's start (typically 0) is
   not the frame at Start + address: their mapping-relative addresses differ in uint64 arithmetic, so
   they are different identities and merge_exact keeps their weights apart -- *)
Theorem below_start_distinct : forall p l1 l2 m,
  lookup_map p (l_mapping l1) = Some m -> l_mapping l2 = l_mapping l1 ->
  0 <= l_addr l1 < m_start m -> m_start m < two64 -> l_addr l2 = m_start m + l_addr l1 ->
  frame_ident_of p l1 <> frame_ident_of p l2.
Proof. exact below_start_distinct_lemma. Qed.
Print Assumptions below_start_distinct.

(* -- the function key is the four attributes, nothing abbreviated: two functions have one key iff
   name, system name, file and start line all agree -- so "system name = name" and "no system name"
   are different functions (merge_distinct / merge_exact then keep their stacks apart) -- *)
Theorem function_key_separates : forall f g,
  fkey_of f = fkey_of g <->
  f_name f = f_name g /\ f_sysname f = f_sysname g /\ f_file f = f_file g /\ f_startline f = f_startline g.
Proof. exact fkey_separates_lemma. Qed.
Print Assumptions function_key_separates.

(* -- the model compares sample keys as tuples, the Go code as varint byte strings: the byte
   encoding (compared with the real sampleKey byte for byte on every run) is injective on keys whose
   ids are non-zero uint64, numeric values int64 and lengths < 2^64 -- *)
Theorem sample_key_injective : forall a b,
  skey_ok a -> skey_ok b -> skey_bytes a = skey_bytes b -> a = b.
Proof. exact skey_bytes_injective_lemma. Qed.
Print Assumptions sample_key_injective.

(* -- the theorems above are about the model without the per-source memo tables
   (functionsByID / mappingsByID / locationsByID); the transcription WITH them (M_MergeMemo) computes
   the same result for every input, so they hold for it as well -- *)
Theorem merge_memo_equiv : forall ps, merge_m ps = merge ps.
Proof. exact merge_memo_equiv_lemma. Qed.
Print Assumptions merge_memo_equiv.

(* -- likewise for locationKey.lines: the string of hex numbers joined by "|" (three slots per
   inline line; compared with the real Location.key on every run) determines the slots, for uint64
   function ids and int64 line / column numbers -- *)
Theorem location_key_lines_injective : forall a b,
  Forall slot_ok a -> Forall slot_ok b -> lines_key a = lines_key b -> a = b.
Proof. exact lines_key_injective_lemma. Qed.
Print Assumptions location_key_lines_injective.

(* -- non-vacuity -- *)
Definition ex_vt := {| vt_type := "samples"; vt_unit := "count" |}.
Definition ex_fn (id : Z) (n : string) := {| f_id := id; f_name := n; f_sysname := n; f_file := "a.go"; f_startline := 1 |}.
Definition ex_loc (id fid : Z) := {| l_id := id; l_mapping := 0; l_addr := 16; l_lines := [{| ln_fn := fid; ln_line := 3; ln_col := 1 |}]; l_folded := false |}.
Definition ex_sample (lid v : Z) := {| s_loc := [lid]; s_val := [v]; s_label := []; s_numlabel := []; s_numunit := [] |}.
Definition ex_prof (fid lid v t : Z) : profile :=
  {| p_sampletype := [ex_vt]; p_defaultsampletype := ""; p_sample := [ex_sample lid v]; p_mapping := [];
     p_location := [ex_loc lid fid]; p_function := [ex_fn fid "main"]; p_comments := ["c"]; p_docurl := "";
     p_dropframes := ""; p_keepframes := ""; p_timenanos := t; p_durationnanos := 1;
     p_periodtype := Some ex_vt; p_period := 10 |}.
(* the same stack under different ids in two inputs is summed; the earliest non-zero time wins *)
Example merge_example :
  match merge [ex_prof 7 9 5 0; ex_prof 2 3 6 40; ex_prof 1 1 (-11) 30] with
  | MOk q => True | _ => False end /\
  match merge [ex_prof 7 9 5 0; ex_prof 2 3 6 40] with
  | MOk q => map s_val (p_sample q) = [[11]] /\ p_timenanos q = 40 /\ p_durationnanos q = 2 /\ p_comments q = ["c"%string]
  | _ => False end.
Proof. vm_compute. repeat split. Qed.
Example hypotheses_satisfiable :
  Forall (fun p => valid_b p = true) [ex_prof 7 9 5 0; ex_prof 2 3 6 40] /\
  Forall vals_ok [ex_prof 7 9 5 0; ex_prof 2 3 6 40] /\
  compat_all (ex_prof 7 9 5 0) [ex_prof 2 3 6 40] = CompatOk.
Proof.
  split; [|split]; repeat constructor.
Qed.
(* F25: inside the class the documented rule is not what the code computes: periods [0; -5]
   give -5, the maximum is 0 (merge.go:490 treats a zero running value as "unset") *)
Definition f25_prof (pd : Z) : profile :=
  {| p_sampletype := [ex_vt]; p_defaultsampletype := ""; p_sample := []; p_mapping := []; p_location := [];
     p_function := []; p_comments := []; p_docurl := ""; p_dropframes := ""; p_keepframes := "";
     p_timenanos := 0; p_durationnanos := 0; p_periodtype := Some ex_vt; p_period := pd |}.
Theorem merge_period_max_refuted :
  exists ps q, Forall (fun p => valid_b p = true) ps /\ merge ps = MOk q /\
               p_period q <> spec_period (map p_period ps).
Proof.
  exists [f25_prof 0; f25_prof (-5)]. eexists. split; [repeat constructor|].
  split; [vm_compute; reflexivity|]. vm_compute. discriminate.
Qed.
Print Assumptions merge_period_max_refuted.

(* a history: two functions that differ only in their file name are kept apart by Merge; after the
   file names are dropped in place (what Aggregate does) compaction makes one stack of them: 3 + 4 *)
Definition hist_fn (id : Z) (file : string) := {| f_id := id; f_name := "f"; f_sysname := "f"; f_file := file; f_startline := 10 |}.
Definition hist_prof : profile :=
  {| p_sampletype := [ex_vt]; p_defaultsampletype := ""; p_sample := [ex_sample 1 3; ex_sample 2 4]; p_mapping := [];
     p_location := [ex_loc 1 1; ex_loc 2 2]; p_function := [hist_fn 1 "a.go"; hist_fn 2 "b.go"]; p_comments := [];
     p_docurl := ""; p_dropframes := ""; p_keepframes := ""; p_timenanos := 0; p_durationnanos := 0;
     p_periodtype := Some ex_vt; p_period := 1 |}.
Definition drop_files (p : profile) : profile :=
  with_function p (map (fun f => {| f_id := f_id f; f_name := f_name f; f_sysname := f_sysname f; f_file := "";
                                    f_startline := f_startline f |}) (p_function p)).
Example history_example :
  match merge [hist_prof] with
  | MOk q => map s_val (p_sample q) = [[3]; [4]] /\
             match compact (drop_files q) with
             | MOk q2 => map s_val (p_sample q2) = [[7]] /\ List.length (p_function q2) = 1%nat
             | _ => False end
  | _ => False end.
Proof. vm_compute. repeat split. Qed.

(* a sum that cancels takes the re-merge path and disappears *)
Example cancel_example :
  match merge [ex_prof 7 9 5 0; ex_prof 2 3 (-5) 40] with MOk q => p_sample q = [] | _ => False end.
Proof. vm_compute. reflexivity. Qed.
