(* C08 -- lemmas: a comparator chain whose steps decide on the key they guard on is a strict weak
   order; with an identity key it is total; a strict total order has exactly one sorted
   arrangement of a given collection; accumulations that commute do not see map order. *)
From Coq Require Import Lia Sorting.Permutation Sorting.Sorted OrderedTypeEx RelationClasses.
From PV Require Import M_Order S_Order.
Open Scope Z_scope.

(* ---------------------------------------------------------------- strings and values *)
Lemma str_ltb_lt a b : str_ltb a b = true <-> String_as_OT.lt a b.
Proof.
  unfold str_ltb. rewrite <- String_as_OT.cmp_lt. unfold String_as_OT.cmp.
  destruct (String.compare a b); split; intro H; congruence.
Qed.

Lemma str_ltb_irrefl a : str_ltb a a = false.
Proof.
  destruct (str_ltb a a) eqn:E; [|reflexivity].
  apply str_ltb_lt in E. exfalso. exact (String_as_OT.lt_not_eq _ _ E eq_refl).
Qed.

Lemma str_ltb_trans a b c : str_ltb a b = true -> str_ltb b c = true -> str_ltb a c = true.
Proof. rewrite !str_ltb_lt. apply String_as_OT.lt_trans. Qed.

Lemma str_ltb_total a b : a <> b -> str_ltb a b = true \/ str_ltb b a = true.
Proof.
  intro N. unfold str_ltb. rewrite (String.compare_antisym b a).
  destruct (String.compare a b) eqn:E; cbn; auto.
  exfalso. apply N. now apply String.compare_eq_iff.
Qed.

Lemma val_eqb_eq a b : val_eqb a b = true <-> a = b.
Proof.
  destruct a as [x|x], b as [y|y]; cbn; split; intro H; try discriminate.
  - apply Z.eqb_eq in H. now subst.
  - inversion H. apply Z.eqb_refl.
  - apply String.eqb_eq in H. now subst.
  - inversion H. apply String.eqb_refl.
Qed.

Lemma val_eqb_refl a : val_eqb a a = true.
Proof. now apply val_eqb_eq. Qed.

Lemma val_eqb_neq a b : val_eqb a b = false <-> a <> b.
Proof.
  split; intro H.
  - intro E. apply val_eqb_eq in E. congruence.
  - destruct (val_eqb a b) eqn:E; [|reflexivity]. apply val_eqb_eq in E. contradiction.
Qed.

Lemma val_ltb_irrefl a : val_ltb a a = false.
Proof. destruct a; cbn. apply Z.ltb_irrefl. apply str_ltb_irrefl. Qed.

Lemma val_ltb_trans a b c : val_ltb a b = true -> val_ltb b c = true -> val_ltb a c = true.
Proof.
  destruct a, b, c; cbn; intros H1 H2; try discriminate; try reflexivity.
  - apply Z.ltb_lt in H1, H2. apply Z.ltb_lt. lia.
  - eapply str_ltb_trans; eassumption.
Qed.

Lemma val_ltb_total a b : a <> b -> val_ltb a b = true \/ val_ltb b a = true.
Proof.
  destruct a as [x|x], b as [y|y]; cbn; intro N; auto.
  - assert (x <> y) by congruence. destruct (Z.ltb_spec x y); auto. right. apply Z.ltb_lt. lia.
  - apply str_ltb_total. congruence.
Qed.

Lemma vlt_irrefl d a : vlt d a a = false.
Proof. destruct d; apply val_ltb_irrefl. Qed.
Lemma vlt_trans d a b c : vlt d a b = true -> vlt d b c = true -> vlt d a c = true.
Proof. destruct d; cbn; intros; eapply val_ltb_trans; eassumption. Qed.
Lemma vlt_total d a b : a <> b -> vlt d a b = true \/ vlt d b a = true.
Proof. destruct d; cbn; intro N; [apply val_ltb_total | apply or_comm, val_ltb_total]; assumption. Qed.
Lemma vlt_asym d a b : vlt d a b = true -> vlt d b a = false.
Proof.
  intro H. destruct (vlt d b a) eqn:E; [|reflexivity].
  pose proof (vlt_trans _ _ _ _ H E) as T. rewrite vlt_irrefl in T. discriminate.
Qed.

(* ---------------------------------------------------------------- chains *)
Section Chains.
  Context {A : Type}.
  Variable kv : string -> A -> val.
  Notation lessc := (less kv).

  Lemma less_irrefl c x : lessc c x x = false.
  Proof. induction c as [|s r IH]; cbn; [reflexivity|]. now rewrite val_eqb_refl. Qed.

  Lemma chain_ok_cons s r : chain_ok (s :: r) = true -> guard s = decide s /\ chain_ok r = true.
  Proof.
    unfold chain_ok. cbn. intro H. apply andb_true_iff in H. destruct H as [H1 H2].
    split; [now apply String.eqb_eq in H1 | exact H2].
  Qed.

  Lemma less_trans c : chain_ok c = true ->
    forall x y z, lessc c x y = true -> lessc c y z = true -> lessc c x z = true.
  Proof.
    induction c as [|s r IH]; intros OK x y z H1 H2; cbn in *; [discriminate|].
    apply chain_ok_cons in OK. destruct OK as [G OK]. rewrite <- G in *.
    destruct (val_eqb (kv (guard s) x) (kv (guard s) y)) eqn:E1;
    destruct (val_eqb (kv (guard s) y) (kv (guard s) z)) eqn:E2.
    - apply val_eqb_eq in E1, E2. rewrite E1, E2, val_eqb_refl. eapply IH; eassumption.
    - apply val_eqb_eq in E1. rewrite E1, E2. exact H2.
    - apply val_eqb_eq in E2. rewrite <- E2, E1. exact H1.
    - pose proof (vlt_trans _ _ _ _ H1 H2) as T.
      destruct (val_eqb (kv (guard s) x) (kv (guard s) z)) eqn:E3; [|exact T].
      apply val_eqb_eq in E3. rewrite E3 in T. rewrite vlt_irrefl in T. discriminate.
  Qed.

  Lemma less_negtrans c : chain_ok c = true ->
    forall x y z, lessc c x y = false -> lessc c y z = false -> lessc c x z = false.
  Proof.
    induction c as [|s r IH]; intros OK x y z H1 H2; cbn in *; [reflexivity|].
    apply chain_ok_cons in OK. destruct OK as [G OK]. rewrite <- G in *.
    destruct (val_eqb (kv (guard s) x) (kv (guard s) y)) eqn:E1;
    destruct (val_eqb (kv (guard s) y) (kv (guard s) z)) eqn:E2.
    - apply val_eqb_eq in E1, E2. rewrite E1, E2, val_eqb_refl. eapply IH; eassumption.
    - apply val_eqb_eq in E1. rewrite E1, E2. exact H2.
    - apply val_eqb_eq in E2. rewrite <- E2, E1. exact H1.
    - apply val_eqb_neq in E1, E2.
      destruct (vlt_total (sdir s) _ _ E1) as [T1|T1]; [congruence|].
      destruct (vlt_total (sdir s) _ _ E2) as [T2|T2]; [congruence|].
      pose proof (vlt_trans _ _ _ _ T2 T1) as T.
      destruct (val_eqb (kv (guard s) x) (kv (guard s) z)) eqn:E3.
      + apply val_eqb_eq in E3. rewrite E3 in T. rewrite vlt_irrefl in T. discriminate.
      + now apply vlt_asym.
  Qed.

  Lemma less_asym c : chain_ok c = true -> forall x y, lessc c x y = true -> lessc c y x = false.
  Proof.
    intros OK x y H. destruct (lessc c y x) eqn:E; [|reflexivity].
    pose proof (less_trans c OK _ _ _ H E) as T. rewrite less_irrefl in T. discriminate.
  Qed.

  (* two elements that the chain does not separate agree on every key of the chain *)
  Lemma less_tied_keys c : chain_ok c = true ->
    forall x y, lessc c x y = false -> lessc c y x = false -> keys_equal kv c x y = true.
  Proof.
    induction c as [|s r IH]; intros OK x y H1 H2; cbn in *; [reflexivity|].
    apply chain_ok_cons in OK. destruct OK as [G OK]. rewrite <- G in *.
    destruct (val_eqb (kv (guard s) x) (kv (guard s) y)) eqn:E1.
    - cbn. apply IH; try assumption.
      apply val_eqb_eq in E1. rewrite E1, val_eqb_refl in H2. exact H2.
    - exfalso. assert (E2 : val_eqb (kv (guard s) y) (kv (guard s) x) = false).
      { apply val_eqb_neq. apply val_eqb_neq in E1. congruence. }
      rewrite E2 in H2. apply val_eqb_neq in E1.
      destruct (vlt_total (sdir s) _ _ E1); congruence.
  Qed.

  Lemma keys_equal_key c k x y :
    keys_equal kv c x y = true -> has_key k c = true -> kv k x = kv k y.
  Proof.
    unfold keys_equal, has_key, chain_keys. intros H K.
    rewrite existsb_exists in K. destruct K as [g [Hin Hg]].
    apply String.eqb_eq in Hg. subst g. apply in_map_iff in Hin. destruct Hin as [s [Hs Hin]].
    rewrite forallb_forall in H. specialize (H s Hin). rewrite Hs in H. now apply val_eqb_eq.
  Qed.

  Theorem chain_strict_weak_order c : chain_ok c = true -> strict_weak_order (lessc c).
  Proof.
    intro OK. repeat split.
    - intro x. apply less_irrefl.
    - intros x y. now apply less_asym.
    - intros x y z. now apply less_trans.
    - intros x y z. now apply less_negtrans.
  Qed.

  (* totality from the keys: if agreeing on all keys of the chain forces identity *)
  Theorem chain_total_on c (same : A -> A -> bool) l : chain_ok c = true ->
    (forall x y, In x l -> In y l -> keys_equal kv c x y = true -> same x y = true) ->
    total_on (lessc c) same l.
  Proof.
    intros OK ID x y Hx Hy NS.
    destruct (lessc c x y) eqn:E1; [now left|].
    destruct (lessc c y x) eqn:E2; [now right|].
    exfalso. pose proof (ID x y Hx Hy (less_tied_keys c OK x y E1 E2)). congruence.
  Qed.
End Chains.

(* ---------------------------------------------------------------- pairs of a list *)
Lemma exists_pair_false {A} (p : A -> A -> bool) l :
  (forall a, p a a = false) -> (forall a b, p a b = p b a) ->
  exists_pair p l = false -> forall x y, In x l -> In y l -> p x y = false.
Proof.
  intros Irr Sym. induction l as [|a r IH]; intros H x y Hx Hy; [destruct Hx|].
  cbn in H. apply orb_false_iff in H. destruct H as [H1 H2].
  assert (Q : forall z, In z r -> p a z = false).
  { intros z Hz. destruct (p a z) eqn:E; [|reflexivity].
    assert (existsb (p a) r = true) by (apply existsb_exists; eauto). congruence. }
  destruct Hx as [Hx|Hx], Hy as [Hy|Hy]; subst.
  - apply Irr.
  - now apply Q.
  - rewrite Sym. now apply Q.
  - now apply IH.
Qed.

Lemma exists_pair_true {A} (p : A -> A -> bool) l :
  exists_pair p l = true -> exists x y, In x l /\ In y l /\ p x y = true.
Proof.
  induction l as [|a r IH]; cbn; [discriminate|]. intro H. apply orb_true_iff in H. destruct H as [H|H].
  - apply existsb_exists in H. destruct H as [y [Hy P]]. exists a, y. auto.
  - destruct (IH H) as [x [y [Hx [Hy P]]]]. exists x, y. auto.
Qed.

Lemma exists_pair_intro {A} (p : A -> A -> bool) l x y :
  (forall a, p a a = false) -> (forall a b, p a b = p b a) ->
  In x l -> In y l -> p x y = true -> exists_pair p l = true.
Proof.
  intros Irr Sym Hx Hy P. destruct (exists_pair p l) eqn:E; [reflexivity|].
  rewrite (exists_pair_false p l Irr Sym E x y Hx Hy) in P. discriminate.
Qed.

(* ---------------------------------------------------------------- the three carriers *)
Definition sprint_key := "fmt.Sprint(.Info)"%string.
Definition src_name_key := ".Src.Info.PrintableName()"%string.
Definition dst_name_key := ".Dest.Info.PrintableName()"%string.
Definition weight_key := "abs64(.Weight)"%string.
Definition tag_name_key := ".Name"%string.

Lemma info_eqb_refl i : info_eqb i i = true.
Proof.
  unfold info_eqb. now rewrite !String.eqb_refl, !Z.eqb_refl.
Qed.
Lemma info_eqb_sym a b : info_eqb a b = info_eqb b a.
Proof.
  unfold info_eqb.
  rewrite (String.eqb_sym (ni_name a)), (String.eqb_sym (ni_orig a)), (String.eqb_sym (ni_file a)),
          (String.eqb_sym (ni_objfile a)), (Z.eqb_sym (ni_addr a)), (Z.eqb_sym (ni_startline a)),
          (Z.eqb_sym (ni_lineno a)), (Z.eqb_sym (ni_colno a)). reflexivity.
Qed.

Lemma node_kv_sprint n : node_kv sprint_key n = VS (sprint_info (n_info n)).
Proof. reflexivity. Qed.
Lemma edge_kv_weight e : edge_kv weight_key e = VZ (abs64 (e_weight e)).
Proof. reflexivity. Qed.
Lemma edge_kv_src e : edge_kv src_name_key e = VS (printable_name (n_info (e_src e))).
Proof. reflexivity. Qed.
Lemma edge_kv_dst e : edge_kv dst_name_key e = VS (printable_name (n_info (e_dst e))).
Proof. reflexivity. Qed.
Lemma tag_kv_name t : tag_kv tag_name_key t = VS (t_name t).
Proof. reflexivity. Qed.

Theorem node_chain_total c l :
  chain_ok c = true -> has_key sprint_key c = true ->
  in_F8 l = false -> in_F19 l = false ->
  strict_total_order_on (less node_kv c) node_same l.
Proof.
  intros OK K F8 F19. split; [now apply chain_strict_weak_order|].
  apply chain_total_on; [exact OK|]. intros x y Hx Hy KE.
  pose proof (keys_equal_key node_kv c sprint_key x y KE K) as S.
  rewrite !node_kv_sprint in S.
  assert (S' : sprint_info (n_info x) = sprint_info (n_info y)) by congruence.
  pose (p8 := fun a b : node => negb (info_eqb (n_info a) (n_info b))
                   && String.eqb (sprint_info (n_info a)) (sprint_info (n_info b))).
  assert (P8 : p8 x y = false).
  { apply (exists_pair_false p8 l); try assumption.
    - intro a. unfold p8. now rewrite info_eqb_refl.
    - intros a b. unfold p8. now rewrite info_eqb_sym, String.eqb_sym. }
  unfold p8 in P8.
  rewrite S', String.eqb_refl, andb_true_r in P8. apply negb_false_iff in P8.
  pose (p19 := fun a b : node => negb (node_same a b) && info_eqb (n_info a) (n_info b)).
  assert (P19 : p19 x y = false).
  { apply (exists_pair_false p19 l); try assumption.
    - intro a. unfold p19, node_same. now rewrite Z.eqb_refl.
    - intros a b. unfold p19, node_same. now rewrite info_eqb_sym, Z.eqb_sym. }
  unfold p19 in P19.
  rewrite P8, andb_true_r in P19. now apply negb_false_iff in P19.
Qed.

Theorem edge_chain_total c l :
  chain_ok c = true -> has_key weight_key c = true ->
  has_key src_name_key c = true -> has_key dst_name_key c = true ->
  in_F9 l = false ->
  strict_total_order_on (less edge_kv c) edge_same l.
Proof.
  intros OK KW KS KD F9. split; [now apply chain_strict_weak_order|].
  apply chain_total_on; [exact OK|]. intros x y Hx Hy KE.
  pose proof (keys_equal_key edge_kv c _ x y KE KW) as W.
  pose proof (keys_equal_key edge_kv c _ x y KE KS) as S.
  pose proof (keys_equal_key edge_kv c _ x y KE KD) as D.
  rewrite !edge_kv_weight in W.
  assert (W' : abs64 (e_weight x) = abs64 (e_weight y)) by congruence.
  rewrite !edge_kv_src in S.
  assert (S' : printable_name (n_info (e_src x)) = printable_name (n_info (e_src y))) by congruence.
  rewrite !edge_kv_dst in D.
  assert (D' : printable_name (n_info (e_dst x)) = printable_name (n_info (e_dst y))) by congruence.
  pose (p9 := fun a b : edge => negb (edge_same a b)
                          && (abs64 (e_weight a) =? abs64 (e_weight b))
                          && String.eqb (printable_name (n_info (e_src a))) (printable_name (n_info (e_src b)))
                          && String.eqb (printable_name (n_info (e_dst a))) (printable_name (n_info (e_dst b)))).
  assert (P : p9 x y = false).
  { apply (exists_pair_false p9 l); try assumption.
    - intro a. unfold p9, edge_same, node_same. now rewrite !Z.eqb_refl.
    - intros a b. unfold p9, edge_same, node_same.
      now rewrite (Z.eqb_sym (abs64 (e_weight a))), (Z.eqb_sym (n_id (e_src a))),
                  (Z.eqb_sym (n_id (e_dst a))),
                  (String.eqb_sym (printable_name (n_info (e_src a)))),
                  (String.eqb_sym (printable_name (n_info (e_dst a)))). }
  unfold p9 in P. rewrite W', S', D', Z.eqb_refl, !String.eqb_refl, !andb_true_r in P.
  now apply negb_false_iff in P.
Qed.

Theorem tag_chain_total c l :
  chain_ok c = true -> has_key tag_name_key c = true ->
  strict_total_order_on (less tag_kv c) tag_same l.
Proof.
  intros OK K. split; [now apply chain_strict_weak_order|].
  apply chain_total_on; [exact OK|]. intros x y _ _ KE.
  pose proof (keys_equal_key tag_kv c _ x y KE K) as N.
  rewrite !tag_kv_name in N.
  assert (N' : t_name x = t_name y) by congruence.
  unfold tag_same. rewrite N'. apply String.eqb_refl.
Qed.

(* ---------------------------------------------------------------- uniqueness of the sorted order *)
Lemma sorted_perm_eq {A} (lt : A -> A -> bool) (l1 : list A) : forall l2,
  Permutation l1 l2 ->
  (forall x y, In x l1 -> In y l1 -> lt x y = false -> lt y x = false -> x = y) ->
  sorted_by lt l1 -> sorted_by lt l2 -> l1 = l2.
Proof.
  induction l1 as [|a r1 IH]; intros l2 P T S1 S2.
  - apply Permutation_nil in P. now subst.
  - destruct l2 as [|b r2]; [apply Permutation_sym, Permutation_nil in P; discriminate|].
    apply StronglySorted_inv in S1. destruct S1 as [S1 M1].
    apply StronglySorted_inv in S2. destruct S2 as [S2 M2].
    rewrite Forall_forall in M1, M2.
    assert (Hb : In b (a :: r1)) by (eapply Permutation_in; [apply Permutation_sym; exact P | now left]).
    assert (Ha : In a (b :: r2)) by (eapply Permutation_in; [exact P | now left]).
    assert (E : a = b).
    { destruct Hb as [Hb|Hb]; [assumption|]. destruct Ha as [Ha|Ha]; [now symmetry|].
      apply T; [now left | now right | | ].
      - now apply M2.
      - now apply M1. }
    subst b. f_equal. apply IH.
    + eapply Permutation_cons_inv. exact P.
    + intros x y Hx Hy. apply T; now right.
    + exact S1.
    + exact S2.
Qed.

(* a strict total order (on identities that identify the elements) leaves no freedom to the
   sorting algorithm or to the order in which the elements were collected *)
Theorem sorted_unique {A} (lt : A -> A -> bool) (same : A -> A -> bool) (l : list A) :
  total_on lt same l ->
  (forall x y, In x l -> In y l -> same x y = true -> x = y) ->
  sort_deterministic lt l.
Proof.
  intros T ID l1 l2 P1 P2 S1 S2.
  apply (sorted_perm_eq lt); try assumption.
  - eapply Permutation_trans; [apply Permutation_sym; exact P1 | exact P2].
  - intros x y Hx Hy L1 L2.
    assert (Hx' : In x l) by (eapply Permutation_in; [apply Permutation_sym; exact P1 | exact Hx]).
    assert (Hy' : In y l) by (eapply Permutation_in; [apply Permutation_sym; exact P1 | exact Hy]).
    destruct (same x y) eqn:E; [now apply ID|].
    destruct (T x y Hx' Hy' E); congruence.
Qed.

(* Go's own notion (no adjacent inversion) coincides with sorted_by for a strict weak order *)
Lemma adjacent_sorted {A} (lt : A -> A -> bool) l :
  neg_transitive lt -> Sorted (fun x y => lt y x = false) l -> sorted_by lt l.
Proof.
  intros NT S. apply Sorted_StronglySorted; [|exact S].
  intros x y z H1 H2. exact (NT z y x H2 H1).
Qed.

(* sort.Strings / sort.Ints: bytewise order on strings is total on ALL strings *)
Theorem sort_strings_deterministic (l : list string) : sort_deterministic str_ltb l.
Proof.
  intros l1 l2 P1 P2 S1 S2. apply (sorted_perm_eq str_ltb); try assumption.
  - eapply Permutation_trans; [apply Permutation_sym; exact P1 | exact P2].
  - intros x y _ _ L1 L2. destruct (String.string_dec x y) as [E|N]; [exact E|].
    destruct (str_ltb_total x y N); congruence.
Qed.

Theorem sort_ints_deterministic (l : list Z) : sort_deterministic Z.ltb l.
Proof.
  intros l1 l2 P1 P2 S1 S2. apply (sorted_perm_eq Z.ltb); try assumption.
  - eapply Permutation_trans; [apply Permutation_sym; exact P1 | exact P2].
  - intros x y _ _ L1 L2. apply Z.ltb_ge in L1, L2. lia.
Qed.

(* ---------------------------------------------------------------- the model's insertion sort *)
Section InsertionSort.
  Context {A : Type}.
  Variable kv : string -> A -> val.

  Lemma insert_perm c x l : Permutation (x :: l) (insert_sorted kv c x l).
  Proof.
    induction l as [|y r IH]; cbn; [apply Permutation_refl|].
    destruct (less kv c x y); [apply Permutation_refl|].
    eapply Permutation_trans; [apply perm_swap|]. now apply perm_skip.
  Qed.

  Lemma sort_by_perm c l : Permutation l (sort_by kv c l).
  Proof.
    induction l as [|x r IH]; cbn; [apply Permutation_refl|].
    eapply Permutation_trans; [apply perm_skip; exact IH|]. apply insert_perm.
  Qed.

  Lemma insert_sorted_sorted c x l : chain_ok c = true ->
    sorted_by (less kv c) l -> sorted_by (less kv c) (insert_sorted kv c x l).
  Proof.
    intros OK. induction l as [|y r IH]; intro S; cbn.
    - constructor; constructor.
    - apply StronglySorted_inv in S. destruct S as [S M].
      destruct (less kv c x y) eqn:E.
      + constructor; [constructor; assumption|].
        constructor; [now apply less_asym|].
        rewrite Forall_forall in *. intros z Hz. specialize (M z Hz).
        (* z is not less than y, y is not less than x (asymmetry) *)
        apply (less_negtrans kv c OK z y x M). now apply less_asym.
      + constructor; [now apply IH|].
        rewrite Forall_forall in *. intros z Hz.
        eapply Permutation_in in Hz; [|apply Permutation_sym, insert_perm].
        destruct Hz as [Hz|Hz]; [now subst | now apply M].
  Qed.

  Theorem sort_by_sorted c l : chain_ok c = true -> sorted_by (less kv c) (sort_by kv c l).
  Proof.
    intro OK. induction l as [|x r IH]; cbn; [constructor|]. now apply insert_sorted_sorted.
  Qed.
End InsertionSort.

(* ---------------------------------------------------------------- map iteration *)
(* an accumulation whose steps commute on the entries at hand gives the same result for every
   iteration order *)
Lemma fold_commute_perm {A B} (g : B -> A -> B) (l l' : list A) :
  Permutation l l' ->
  (forall b x y, In x l -> In y l -> g (g b x) y = g (g b y) x) ->
  forall b, fold_left g l b = fold_left g l' b.
Proof.
  induction 1 as [|x l l' P IH|x y l|l l' l'' P1 IH1 P2 IH2]; intros C b; cbn.
  - reflexivity.
  - apply IH. intros b' u v Hu Hv. apply C; now right.
  - f_equal. apply C; [now left | now right; left].
  - rewrite IH1 by exact C. apply IH2. intros b' u v Hu Hv.
    apply C; eapply Permutation_in; try (apply Permutation_sym; exact P1); assumption.
Qed.

(* int64 accumulation `sum += f(entry)` *)
Definition acc_i64 {A} (f : A -> Z) (b : Z) (x : A) : Z := wrap_i64 (b + f x).

Lemma wrap_i64_add_l a b : wrap_i64 (wrap_i64 a + b) = wrap_i64 (a + b).
Proof.
  unfold wrap_i64. f_equal.
  replace ((a + two63) mod two64 - two63 + b + two63) with ((a + two63) mod two64 + b) by lia.
  rewrite Zplus_mod_idemp_l. f_equal. lia.
Qed.

Theorem sum_i64_order_insensitive {A} (f : A -> Z) (b : Z) :
  order_insensitive (fun l => fold_left (acc_i64 f) l b).
Proof.
  intros l l' P. apply fold_commute_perm; [exact P|].
  intros b' x y _ _. unfold acc_i64. rewrite !wrap_i64_add_l. f_equal. lia.
Qed.

(* `found = found || p(entry)` and counting *)
Theorem any_order_insensitive {A} (p : A -> bool) (b : bool) :
  order_insensitive (fun l => fold_left (fun acc x => acc || p x) l b).
Proof.
  intros l l' P. apply fold_commute_perm; [exact P|].
  intros b' x y _ _. destruct b', (p x), (p y); reflexivity.
Qed.

(* building a map / set from the entries of another map: `m[key(e)] = val(e)` with distinct keys.
   The model of the target map is a function key -> option value. *)
Definition upd {V} (m : string -> option V) (k : string) (v : V) : string -> option V :=
  fun k' => if String.eqb k' k then Some v else m k'.

Theorem map_fill_order_insensitive {A V} (key : A -> string) (value : A -> V) (l l' : list A) m0 :
  NoDup (map key l) -> Permutation l l' ->
  forall k, fold_left (fun m e => upd m (key e) (value e)) l m0 k
          = fold_left (fun m e => upd m (key e) (value e)) l' m0 k.
Proof.
  intros ND P.
  (* pointwise statement as a fold over functions compared extensionally *)
  revert m0. induction P as [|x l l' P IH|x y l|l l' l'' P1 IH1 P2 IH2]; intros m0 k; cbn.
  - reflexivity.
  - cbn in ND. apply NoDup_cons_iff in ND. apply IH. tauto.
  - cbn in ND. apply NoDup_cons_iff in ND. destruct ND as [N1 N2].
    assert (K : key y <> key x) by (intro E; apply N1; left; symmetry; exact E).
    assert (Ext : forall (m1 m2 : string -> option V) (ll : list A),
              (forall q, m1 q = m2 q) ->
              forall q, fold_left (fun m e => upd m (key e) (value e)) ll m1 q
                      = fold_left (fun m e => upd m (key e) (value e)) ll m2 q).
    { intros m1 m2 ll. revert m1 m2. induction ll as [|e ll IHl]; intros m1 m2 H q; cbn; [apply H|].
      apply IHl. intro q'. unfold upd. destruct (String.eqb q' (key e)); [reflexivity|apply H]. }
    apply Ext. intro q. unfold upd.
    destruct (String.eqb q (key x)) eqn:E1, (String.eqb q (key y)) eqn:E2; try reflexivity.
    apply String.eqb_eq in E1, E2. congruence.
  - rewrite IH1 by exact ND. apply IH2.
    eapply Permutation_NoDup; [apply Permutation_map; exact P1 | exact ND].
Qed.

(* ---------------------------------------------------------------- fmt.Sprint(NodeInfo) *)
Lemma sprint_not_injective_witness :
  let a := {| ni_name := "f"; ni_orig := ""; ni_addr := 0; ni_file := "a 0 0 0 b"; ni_startline := 0;
              ni_lineno := 0; ni_colno := 0; ni_objfile := "" |}%string in
  let b := {| ni_name := "f"; ni_orig := ""; ni_addr := 0; ni_file := "a"; ni_startline := 0;
              ni_lineno := 0; ni_colno := 0; ni_objfile := "b 0 0 0 " |}%string in
  info_eqb a b = false /\ sprint_info a = sprint_info b.
Proof. vm_compute. split; reflexivity. Qed.

(* ---------------------------------------------------------------- consequences *)
(* whatever is computed from the sorted list is the same for every arrival order / algorithm *)
Theorem sorted_rendering_deterministic_lemma {A B} (lt same : A -> A -> bool) (render : list A -> B) l :
  total_on lt same l -> (forall x y, In x l -> In y l -> same x y = true -> x = y) ->
  forall l1 l2, Permutation l l1 -> Permutation l l2 -> sorted_by lt l1 -> sorted_by lt l2 ->
  render l1 = render l2.
Proof.
  intros T ID l1 l2 P1 P2 S1 S2. f_equal. eapply sorted_unique; eassumption.
Qed.

(* the model's insertion sort returns THE sorted arrangement *)
Theorem model_sort_is_the_sorted_order_lemma {A} (kv : string -> A -> val) (same : A -> A -> bool) c l :
  chain_ok c = true -> total_on (less kv c) same l ->
  (forall x y, In x l -> In y l -> same x y = true -> x = y) ->
  forall l', Permutation l l' -> sorted_by (less kv c) l' -> l' = sort_by kv c l.
Proof.
  intros OK T ID l' P S.
  eapply (sorted_unique (less kv c) same l T ID); try eassumption.
  - apply sort_by_perm.
  - now apply sort_by_sorted.
Qed.

(* elements that agree on every key are never separated, whatever the chain *)
Lemma less_same_keys {A} (kv : string -> A -> val) c x y :
  (forall k, kv k x = kv k y) -> less kv c x y = false.
Proof.
  intro H. induction c as [|s r IH]; cbn; [reflexivity|]. now rewrite H, val_eqb_refl.
Qed.

(* F19: a second node with the same NodeInfo and values is tied with the first under EVERY chain *)
Lemma F19_tie c (n : node) :
  let n' := {| n_id := n_id n + 1; n_info := n_info n; n_flat := n_flat n; n_cum := n_cum n; n_score := n_score n |} in
  node_same n n' = false /\ less node_kv c n n' = false /\ less node_kv c n' n = false /\ in_F19 [n; n'] = true.
Proof.
  intro n'. repeat split.
  - unfold node_same, n'. cbn. apply Z.eqb_neq. lia.
  - apply less_same_keys. intro k. reflexivity.
  - apply less_same_keys. intro k. reflexivity.
  - unfold in_F19. cbn. unfold node_same. cbn.
    replace (n_id n =? n_id n + 1) with false by (symmetry; apply Z.eqb_neq; lia).
    now rewrite info_eqb_refl.
Qed.

(* F9 on the edges of a graph needs two different nodes of that graph with one printable name *)
Lemma F9_edges_need_same_named_nodes_lemma (es : list edge) (ns : list node) :
  (forall e, In e es -> In (e_src e) ns /\ In (e_dst e) ns) ->
  in_F9 es = true -> in_F9_nodes ns = true.
Proof.
  intros W F. unfold in_F9 in F. apply exists_pair_true in F. destruct F as [x [y [Hx [Hy P]]]].
  apply andb_true_iff in P. destruct P as [P PD]. apply andb_true_iff in P. destruct P as [P PS].
  apply andb_true_iff in P. destruct P as [PE _]. apply negb_true_iff in PE.
  destruct (W x Hx) as [Sx Dx]. destruct (W y Hy) as [Sy Dy].
  unfold edge_same in PE. apply andb_false_iff in PE.
  assert (Irr : forall a : node, (fun a b => negb (node_same a b)
             && String.eqb (printable_name (n_info a)) (printable_name (n_info b))) a a = false).
  { intro a. cbv beta. unfold node_same. now rewrite Z.eqb_refl. }
  assert (Sym : forall a b : node, (fun a b => negb (node_same a b)
             && String.eqb (printable_name (n_info a)) (printable_name (n_info b))) a b =
           (fun a b => negb (node_same a b)
             && String.eqb (printable_name (n_info a)) (printable_name (n_info b))) b a).
  { intros a b. cbv beta. unfold node_same. now rewrite Z.eqb_sym, String.eqb_sym. }
  unfold in_F9_nodes. destruct PE as [PE|PE].
  - apply (exists_pair_intro _ ns (e_src x) (e_src y) Irr Sym Sx Sy). cbv beta. now rewrite PE, PS.
  - apply (exists_pair_intro _ ns (e_dst x) (e_dst y) Irr Sym Dx Dy). cbv beta. now rewrite PE, PD.
Qed.

(* ---------------------------------------------------------------- representatives of groups *)
Lemma less_first_key {A} (kv : string -> A -> val) s r x y :
  step_ok s = true -> kv (guard s) x <> kv (guard s) y ->
  less kv (s :: r) x y = vlt (sdir s) (kv (guard s) x) (kv (guard s) y).
Proof.
  intros OK N. cbn. apply String.eqb_eq in OK. rewrite <- OK.
  apply val_eqb_neq in N. now rewrite N.
Qed.

Lemma sorted_by_map_first_key {A} (kv : string -> A -> val) s r (l : list A) :
  step_ok s = true -> NoDup (map (kv (guard s)) l) ->
  sorted_by (less kv (s :: r)) l -> sorted_by (vlt (sdir s)) (map (kv (guard s)) l).
Proof.
  intros OK. induction l as [|x l IH]; intros ND S; cbn; [constructor|].
  cbn in ND. apply NoDup_cons_iff in ND. destruct ND as [NI ND].
  apply StronglySorted_inv in S. destruct S as [S M].
  constructor; [now apply IH|].
  rewrite Forall_forall in *. intros b Hb. apply in_map_iff in Hb. destruct Hb as [y [E Hy]]. subst b.
  rewrite <- (less_first_key kv s r y x OK).
  - now apply M.
  - intro E. apply NI. rewrite <- E. now apply in_map.
Qed.

(* if the comparator's first step is on the key that defines the groups, the order of the groups
   does not depend on which member represents each group *)
Theorem representative_order_independent_lemma {A} (kv : string -> A -> val) s r :
  step_ok s = true -> group_order_independent (kv (guard s)) (less kv (s :: r)).
Proof.
  intros OK l1 l2 ND P S1 S2.
  assert (ND2 : NoDup (map (kv (guard s)) l2)) by (eapply Permutation_NoDup; eassumption).
  apply (sorted_perm_eq (vlt (sdir s))); try assumption.
  - intros x y _ _ L1 L2. destruct (val_eqb x y) eqn:E; [now apply val_eqb_eq|].
    apply val_eqb_neq in E. destruct (vlt_total (sdir s) x y E); congruence.
  - now apply (sorted_by_map_first_key kv s r).
  - now apply (sorted_by_map_first_key kv s r).
Qed.

(* and without it the order of the groups CAN depend on the representative: two files, the first
   represented by either of two lines, sorted by a weight-first order *)
Lemma representative_order_dependent_witness :
  let c := [{| guard := "abs64(.Flat)"; decide := "abs64(.Flat)"; sdir := Desc |};
            {| guard := ".Info.File"; decide := ".Info.File"; sdir := Asc |}]%string in
  let nd := fun id file flat => {| n_id := id; n_info := {| ni_name := "helper"; ni_orig := ""; ni_addr := 0; ni_file := file;
               ni_startline := 0; ni_lineno := id; ni_colno := 0; ni_objfile := "" |}; n_flat := flat; n_cum := flat; n_score := 0 |}%string in
  map (node_kv ".Info.File") (sort_by node_kv c [nd 1 "a.c" 1; nd 4 "b.c" 10])
  <> map (node_kv ".Info.File") (sort_by node_kv c [nd 2 "a.c" 50; nd 4 "b.c" 10]).
Proof. vm_compute. intro H. discriminate H. Qed.
