(* C18 lemmas for DOT, part 4: the emitters of M_Dot write statements the recogniser reads;
   compose_dot_valid (well-formedness and declared edge endpoints) for all graphs. *)
From Coq Require Import Lia.
From PV Require Import M_Dot S_Dot S_DotClass L_Dot L_Dot2 L_Dot3.
Open Scope string_scope.
Open Scope Z_scope.

Lemma fmt_value_safe : forall t v, qsafe (fmt_value t v) = true.
Proof. intros t v. apply escape_safe. Qed.

Lemma append_nil_l : forall s : string, "" ++ s = s.
Proof. reflexivity. Qed.

Lemma Nsub_good : forall s i, good_id s = true -> 0 <= i -> good_id ("N" ++ s ++ "_" ++ zs i) = true.
Proof. intros s i Hs Hi. exact (sub_good ("N" ++ s) i (N_good s Hs) Hi). Qed.
Lemma nidsub_good : forall id i, 0 <= id -> 0 <= i -> good_id ("N" ++ zs id ++ "_" ++ zs i) = true.
Proof. intros id i H1 H2. exact (sub_good (nid id) i (nid_good id H1) H2). Qed.

Ltac stmt_app d1 e1 d2 e2 :=
  match goal with |- StmtText (?a ++ ?b) _ _ => apply (Stmt_app a b d1 e1 d2 e2) end.

Lemma nodelet_stmt : forall src nm tag w attr,
  good_id src = true -> good_id nm = true -> qsafe w = true ->
  (attr = "" \/ attr = " style=" ++ q "dotted") ->
  StmtText (emit_nodelet src nm tag w attr) [nm] [src; nm].
Proof.
  intros src nm tag w attr Hs Hn Hw Ha.
  unfold emit_nodelet.
  match goal with |- StmtText (nm ++ ?A ++ ?B ++ ?C ++ ?D ++ ?E ++ ?F ++ ?G ++ ?H ++ ?Rest) _ _ =>
    replace (nm ++ A ++ B ++ C ++ D ++ E ++ F ++ G ++ H ++ Rest)
      with ((nm ++ A ++ B ++ C ++ D ++ E ++ F ++ G ++ H) ++ Rest)
      by (rewrite !append_assoc; reflexivity)
  end.
  apply (Stmt_app _ _ [nm] [] [] [src; nm]).
  - apply Stmt_nodeO; [exact Hn | reflexivity |].
    eapply PO_q; [reflexivity | reflexivity | reflexivity | apply escape_tag_safe |].
    eapply P_q; [reflexivity | reflexivity | reflexivity | now apply good_id_safe |].
    eapply P_q; [reflexivity | reflexivity | reflexivity | exact Hw |].
    apply P_end. reflexivity.
  - apply Stmt_edgeO; [exact Hs | exact Hn | reflexivity |].
    eapply PO_q; [reflexivity | reflexivity | reflexivity | qs |].
    eapply P_q; [reflexivity | reflexivity | reflexivity | exact Hw |].
    eapply P_q; [reflexivity | reflexivity | reflexivity | exact Hw |].
    destruct Ha as [Ha|Ha]; subst attr.
    + apply P_end. reflexivity.
    + rewrite append_assoc. eapply P_q; [reflexivity | reflexivity | reflexivity | reflexivity |].
      apply P_end. reflexivity.
Qed.

(* edges used by a block of statements are declared in the block or are the given context *)
Definition closed_in (ctx : list string) (d e : list string) : Prop :=
  forall x, In x e -> In x ctx \/ In x d.

Lemma numeric_stmt : forall g ft source nts j,
  good_id source = true -> 0 <= j ->
  exists d e, StmtText (emit_numeric g ft source nts j) d e /\ closed_in [source] d e.
Proof.
  intros g ft source nts. induction nts as [|t r IH]; intros j Hs Hj.
  - exists [], []. split; [apply Stmt_nil | intros x []].
  - destruct (IH (j + 1) Hs ltac:(lia)) as [d [e [St Cl]]].
    simpl.
    set (nm := "N" ++ source ++ "_" ++ zs j).
    assert (Hnm : good_id nm = true) by (apply Nsub_good; assumption).
    destruct (ft || (nt_flat t =? nt_cum t)).
    + destruct (nt_flat t =? 0).
      * exists d, e. split; [exact St | exact Cl].
      * exists ([nm] ++ d)%list, ([source; nm] ++ e)%list. split.
        -- stmt_app [nm] [source; nm] d e; [|exact St]. apply nodelet_stmt; auto using fmt_value_safe.
        -- intros x Hx. simpl in Hx. destruct Hx as [Hx|[Hx|Hx]].
           ++ left. left. exact Hx.
           ++ right. left. exact Hx.
           ++ destruct (Cl x Hx) as [H|H]; [left; exact H | right; right; exact H].
    + destruct (nt_cum t =? 0).
      * exists d, e. split; [exact St | exact Cl].
      * exists ([nm] ++ d)%list, ([source; nm] ++ e)%list. split.
        -- stmt_app [nm] [source; nm] d e; [|exact St]. apply nodelet_stmt; auto using fmt_value_safe.
        -- intros x Hx. simpl in Hx. destruct Hx as [Hx|[Hx|Hx]].
           ++ left. left. exact Hx.
           ++ right. left. exact Hx.
           ++ destruct (Cl x Hx) as [H|H]; [left; exact H | right; right; exact H].
Qed.

Lemma emit_tags_cons : forall g ft id t r i,
  emit_tags g ft id (t :: r) i =
  (if (if ft then lt_flat t else lt_cum t) =? 0 then ""
   else emit_nodelet (nid id) ("N" ++ zs id ++ "_" ++ zs i) (lt_name t) (fmt_value (dg_fv g) (if ft then lt_flat t else lt_cum t)) ""
        ++ match lt_num t with Some nts => emit_numeric g ft ("N" ++ zs id ++ "_" ++ zs i) nts 0 | None => "" end)
  ++ emit_tags g ft id r (i + 1).
Proof. reflexivity. Qed.

Lemma tags_stmt : forall g ft id ts i,
  0 <= id -> 0 <= i ->
  exists d e, StmtText (emit_tags g ft id ts i) d e /\ closed_in [nid id] d e.
Proof.
  intros g ft id ts. induction ts as [|t r IH]; intros i Hid Hi.
  - exists [], []. split; [apply Stmt_nil | intros x []].
  - destruct (IH (i + 1) Hid ltac:(lia)) as [d [e [St Cl]]].
    rewrite emit_tags_cons.
    set (nm := "N" ++ zs id ++ "_" ++ zs i).
    assert (Hnm : good_id nm = true) by (apply nidsub_good; assumption).
    destruct ((if ft then lt_flat t else lt_cum t) =? 0).
    + exists d, e. split; [exact St | exact Cl].
    + assert (Hn : exists d1 e1, StmtText (match lt_num t with Some nts => emit_numeric g ft nm nts 0 | None => "" end) d1 e1
                                 /\ closed_in [nm] d1 e1).
      { destruct (lt_num t) as [nts|].
        - apply numeric_stmt; [exact Hnm | lia].
        - exists [], []. split; [apply Stmt_nil | intros x []]. }
      destruct Hn as [d1 [e1 [St1 Cl1]]].
      exists (([nm] ++ d1) ++ d)%list, (([nid id; nm] ++ e1) ++ e)%list. split.
      * stmt_app ([nm] ++ d1)%list ([nid id; nm] ++ e1)%list d e; [|exact St].
        stmt_app [nm] [nid id; nm] d1 e1; [|exact St1].
        apply nodelet_stmt; auto using fmt_value_safe, nid_good.
      * intros x Hx. apply in_app_or in Hx. destruct Hx as [Hx|Hx].
        -- simpl in Hx. destruct Hx as [Hx|[Hx|Hx]].
           ++ left. left. exact Hx.
           ++ right. apply in_or_app. left. left. exact Hx.
           ++ destruct (Cl1 x Hx) as [H|H].
              ** destruct H as [H|[]]. right. apply in_or_app. left. left. exact H.
              ** right. apply in_or_app. left. right. exact H.
        -- destruct (Cl x Hx) as [H|H]; [left; exact H | right; apply in_or_app; right; exact H].
Qed.

Lemma nodelets_stmt : forall g n id, 0 <= id ->
  exists d e, StmtText (emit_nodelets g n id) d e /\ closed_in [nid id] d e.
Proof.
  intros g n id Hid. unfold emit_nodelets.
  destruct (tags_stmt g (dn_hasout n) id (dn_tags n) 0 Hid ltac:(lia)) as [d [e [St Cl]]].
  assert (Hn : exists d1 e1, StmtText (match dn_rootnum n with Some nts => emit_numeric g (dn_hasout n) ("N" ++ zs id) nts 0 | None => "" end) d1 e1
                               /\ closed_in [nid id] d1 e1).
  { destruct (dn_rootnum n) as [nts|].
    - apply (numeric_stmt g (dn_hasout n) (nid id) nts 0 (nid_good id Hid)). lia.
    - exists [], []. split; [apply Stmt_nil | intros x []]. }
  destruct Hn as [d1 [e1 [St1 Cl1]]].
  exists (d ++ d1)%list, (e ++ e1)%list. split; [stmt_app d e d1 e1; assumption|].
  intros x Hx. apply in_app_or in Hx. destruct Hx as [Hx|Hx].
  - destruct (Cl x Hx) as [H|H]; [left; exact H | right; apply in_or_app; left; exact H].
  - destruct (Cl1 x Hx) as [H|H]; [left; exact H | right; apply in_or_app; right; exact H].
Qed.

(* ---------------- node statement ---------------- *)
Lemma name_components_safe : forall name file obj addr line col,
  qsafe name = true -> forallb qsafe (name_tail name file obj line col) = true ->
  forallb qsafe (name_components name file obj addr line col) = true.
Proof.
  intros name file obj addr line col Hn Ht. unfold name_components.
  rewrite List.forallb_app. apply andb_true_intro. split.
  - destruct (addr =? 0); simpl; [reflexivity | now rewrite hex16_safe].
  - rewrite List.forallb_app. apply andb_true_intro. split; [|exact Ht].
    destruct (String.eqb name ""); simpl; [reflexivity | now rewrite Hn].
Qed.

(* ---------------- filepath.Base and escaping ---------------- *)
Fixpoint noslash (s : string) : bool :=
  match s with EmptyString => true | String c r => negb (Ascii.eqb c "/") && noslash r end.

Lemma take_until_noslash : forall r acc, noslash acc = true -> noslash (take_until_slash r acc) = true.
Proof.
  induction r as [|c r IH]; intros acc H; [exact H|]. cbn [take_until_slash].
  destruct (Ascii.eqb c "/") eqn:E; [exact H|]. apply IH. cbn [noslash]. now rewrite E.
Qed.
Lemma take_until_all : forall r acc, noslash r = true -> take_until_slash r acc = rev_string_acc r acc.
Proof.
  induction r as [|c r IH]; intros acc H; [reflexivity|]. cbn [noslash] in H.
  apply andb_prop in H. destruct H as [Hc Hr]. apply Bool.negb_true_iff in Hc.
  cbn [take_until_slash rev_string_acc]. rewrite Hc. now apply IH.
Qed.
Lemma take_until_nonempty : forall r acc, acc <> "" -> take_until_slash r acc <> "".
Proof.
  induction r as [|c r IH]; intros acc H; [exact H|]. cbn [take_until_slash].
  destruct (Ascii.eqb c "/"); [exact H | apply IH; discriminate].
Qed.
Lemma strip_head : forall r, strip_trailing_slashes_rev r = "" \/
  exists c r', strip_trailing_slashes_rev r = String c r' /\ Ascii.eqb c "/" = false.
Proof.
  induction r as [|c r IH]; [left; reflexivity|]. cbn [strip_trailing_slashes_rev].
  destruct (Ascii.eqb c "/") eqn:E; [exact IH|]. right. exists c, r. split; [reflexivity | exact E].
Qed.
Lemma noslash_rev_acc : forall s acc, noslash s = true -> noslash acc = true -> noslash (rev_string_acc s acc) = true.
Proof.
  induction s as [|c r IH]; intros acc Hs Ha; [exact Ha|]. cbn [noslash] in Hs. apply andb_prop in Hs. destruct Hs as [Hc Hr].
  cbn [rev_string_acc]. apply IH; [exact Hr|]. cbn [noslash]. now rewrite Hc.
Qed.

(* the base name is ".", "/" or a non-empty text without a slash *)
Lemma path_base_shape : forall p, path_base p = "." \/ path_base p = "/" \/ (noslash (path_base p) = true /\ path_base p <> "").
Proof.
  intro p. unfold path_base. destruct p as [|c0 p0]; [left; reflexivity|].
  destruct (strip_head (rev_string (String c0 p0))) as [E|[c [r' [E Hc]]]]; rewrite E.
  - right. left. reflexivity.
  - right. right. cbn [take_until_slash]. rewrite Hc. split.
    + apply take_until_noslash. cbn [noslash]. now rewrite Hc.
    + apply take_until_nonempty. discriminate.
Qed.

(* applying Base once more changes nothing *)
Lemma path_base_noslash : forall y, noslash y = true -> y <> "" -> path_base y = y.
Proof.
  intros y Hn Hne. unfold path_base. destruct y as [|c0 y0]; [congruence|].
  assert (Hr : noslash (rev_string (String c0 y0)) = true) by (apply noslash_rev_acc; [exact Hn | reflexivity]).
  destruct (rev_string (String c0 y0)) as [|c r] eqn:E.
  - exfalso. assert (H : rev_string (rev_string (String c0 y0)) = String c0 y0) by apply rev_string_involutive.
    rewrite E in H. discriminate H.
  - cbn [noslash] in Hr. apply andb_prop in Hr. destruct Hr as [Hc Hr']. apply Bool.negb_true_iff in Hc.
    cbn [strip_trailing_slashes_rev]. rewrite Hc. cbn [take_until_slash]. rewrite Hc.
    rewrite take_until_all by exact Hr'.
    change (rev_string_acc r (String c "")) with (rev_string_acc (String c r) ""). rewrite <- E.
    apply (rev_string_involutive (String c0 y0)).
Qed.

Lemma escape_noslash : forall s, noslash s = true -> noslash (escape_for_dot s) = true.
Proof.
  induction s as [|c r IH]; intro H; [reflexivity|]. cbn [noslash] in H. apply andb_prop in H. destruct H as [Hc Hr].
  rewrite escape_cons. 
  assert (Ha : forall a b, noslash (a ++ b) = noslash a && noslash b).
  { induction a as [|x a' IHa]; intro b; [reflexivity|]. cbn [append noslash]. now rewrite IHa, Bool.andb_assoc. }
  rewrite Ha, (IH Hr), Bool.andb_true_r. unfold esc_char.
  destruct (Ascii.eqb c (ascii_of_N 92)); [reflexivity|]. destruct (Ascii.eqb c (ascii_of_N 34)); [reflexivity|].
  destruct (Ascii.eqb c (ascii_of_N 10)); [reflexivity|]. cbn [noslash]. now rewrite Hc.
Qed.
Lemma escape_nonempty : forall s, s <> "" -> escape_for_dot s <> "".
Proof.
  intros s H. destruct s as [|c r]; [congruence|]. rewrite escape_cons. unfold esc_char.
  destruct (Ascii.eqb c (ascii_of_N 92)); [discriminate|]. destruct (Ascii.eqb c (ascii_of_N 34)); [discriminate|].
  destruct (Ascii.eqb c (ascii_of_N 10)); discriminate.
Qed.

Lemma base_of_escaped_base : forall p, path_base (escape_for_dot (path_base p)) = escape_for_dot (path_base p).
Proof.
  intro p. destruct (path_base_shape p) as [E|[E|[Hn Hne]]].
  - rewrite E. reflexivity.
  - rewrite E. reflexivity.
  - apply path_base_noslash; [now apply escape_noslash | now apply escape_nonempty].
Qed.

Lemma label_tail_safe : forall i,
  forallb qsafe (name_tail (ml_name (ni_short i)) (ml_file (ni_file i)) (ml_obj (ni_obj i)) (ni_line i) (ni_col i)) = true.
Proof.
  intro i. unfold name_tail, ml_file, ml_obj.
  assert (Hf : qsafe (if String.eqb (ni_file i) "" then "" else escape_for_dot (path_base (ni_file i))) = true)
    by (destruct (String.eqb (ni_file i) ""); [reflexivity | apply escape_safe]).
  destruct (negb (ni_line i =? 0)).
  - cbn [forallb]. rewrite Bool.andb_true_r. destruct (ni_col i =? 0); qs.
  - destruct (String.eqb (ni_file i) "") eqn:Ef; cbn [negb String.eqb].
    + simpl negb. cbn iota.
      destruct (negb (String.eqb (ml_name (ni_short i)) "")); [reflexivity|].
      destruct (String.eqb (ni_obj i) "") eqn:Eo.
      * reflexivity.
      * destruct (negb (String.eqb (escape_for_dot (path_base (ni_obj i))) "")); [|reflexivity].
        cbn [forallb]. rewrite Bool.andb_true_r, base_of_escaped_base. qs.
    + destruct (negb (String.eqb (escape_for_dot (path_base (ni_file i))) "")).
      * cbn [forallb]. now rewrite escape_safe.
      * destruct (negb (String.eqb (ml_name (ni_short i)) "")); [reflexivity|].
        destruct (String.eqb (ni_obj i) "") eqn:Eo; [reflexivity|].
        destruct (negb (String.eqb (escape_for_dot (path_base (ni_obj i))) "")); [|reflexivity].
        cbn [forallb]. rewrite Bool.andb_true_r, base_of_escaped_base. qs.
Qed.

Lemma multiline_safe : forall i, qsafe (multiline_printable_name i) = true.
Proof.
  intro i. unfold multiline_printable_name. apply qsafe_app; [|reflexivity].
  apply qsafe_concat_with; [reflexivity|].
  apply name_components_safe; [apply ml_name_safe | apply label_tail_safe].
Qed.

Lemma node_label_safe : forall g n,
  tab_safe (dg_pct g) = true -> attrs_safe n = true ->
  qsafe (fst (node_label g n)) = true /\ qsafe (snd (node_label g n)) = true.
Proof.
  intros g n Hpct Hattr. unfold node_label.
  set (l0 := match dn_attrs n with
             | Some a => match na_fmt a with Some f => f | None => multiline_printable_name (dn_info n) end
             | None => multiline_printable_name (dn_info n)
             end).
  assert (Hl0 : qsafe l0 = true).
  { unfold l0. unfold attrs_safe in Hattr.
    destruct (dn_attrs n) as [a|].
    - destruct (na_fmt a) as [f|].
      + apply andb_prop in Hattr. destruct Hattr as [Hattr _]. apply andb_prop in Hattr. destruct Hattr as [Hattr _].
        apply andb_prop in Hattr. destruct Hattr as [Hf _]. exact Hf.
      + apply multiline_safe.
    - apply multiline_safe. }
  pose proof (fmt_value_safe (dg_fv g) (dn_flat n)) as Hf.
  pose proof (fmt_value_safe (dg_fv g) (dn_cum n)) as Hc.
  pose proof (zlookup_safe (dg_pct g) (dn_flat n) Hpct) as Hpf.
  pose proof (zlookup_safe (dg_pct g) (dn_cum n) Hpct) as Hpc.
  assert (Hl1 : qsafe (if dn_flat n =? 0 then l0 ++ "0"
                       else l0 ++ fmt_value (dg_fv g) (dn_flat n) ++ " (" ++ zlookup (dg_pct g) (dn_flat n) ++ ")") = true).
  { destruct (dn_flat n =? 0); qs. }
  destruct (dn_cum n =? dn_flat n); simpl; [split; assumption|].
  split; [|exact Hc].
  destruct (dn_flat n =? 0); qs.
Qed.

Lemma node_stmt : forall g n id,
  tab_safe (dg_pct g) = true -> attrs_safe n = true ->
  0 <= id -> StmtText (emit_node g n id) [nid id] [].
Proof.
  intros g n id Hpct Hattr Hid.
  destruct (node_label_safe g n Hpct Hattr) as [Hl Hc].
  unfold emit_node. destruct (node_label g n) as [label cumv]. simpl in Hl, Hc.
  change ("N" ++ zs id ++ " [label=" ++ q label ++ " id=" ++ q ("node" ++ zs id) ++ " fontsize=0 shape=" ++ node_shape n ++
          " tooltip=" ++ q (escape_for_dot (printable_name (dn_info n)) ++ " (" ++ cumv ++ ")") ++
          " color=" ++ q "#000000" ++ " fillcolor=" ++ q "#000000" ++ node_extras n ++ "]" ++ s_nl)
    with (nid id ++ " [label=" ++ q label ++ " id=" ++ q ("node" ++ zs id) ++ " fontsize=0 shape=" ++ node_shape n ++
          " tooltip=" ++ q (escape_for_dot (printable_name (dn_info n)) ++ " (" ++ cumv ++ ")") ++
          " color=" ++ q "#000000" ++ " fillcolor=" ++ q "#000000" ++ node_extras n ++ "]" ++ s_nl).
  apply Stmt_nodeO; [now apply nid_good | reflexivity |].
  eapply PO_q; [reflexivity | reflexivity | reflexivity | exact Hl |].
  eapply P_q; [reflexivity | reflexivity | reflexivity | qs |].
  assert (Hshape : ident_ok (node_shape n) = true).
  { unfold node_shape. unfold attrs_safe in Hattr. destruct (dn_attrs n) as [a|]; [|reflexivity].
    destruct (String.eqb (na_shape a) "") eqn:E; [reflexivity|].
    apply andb_prop in Hattr. destruct Hattr as [Hattr _]. apply andb_prop in Hattr. destruct Hattr as [Hattr _].
    apply andb_prop in Hattr. destruct Hattr as [_ Hs]. simpl in Hs. exact Hs. }
  eapply P_idk; [reflexivity | reflexivity | reflexivity | exact Hshape | reflexivity |].
  eapply P_q; [reflexivity | reflexivity | reflexivity | qs |].
  eapply P_q; [reflexivity | reflexivity | reflexivity | reflexivity |].
  eapply P_q; [reflexivity | reflexivity | reflexivity | reflexivity |].
  unfold node_extras. unfold attrs_safe in Hattr.
  destruct (dn_attrs n) as [a|]; [|rewrite append_nil_l; apply P_end; reflexivity].
  apply andb_prop in Hattr. destruct Hattr as [Hattr Hurl]. apply andb_prop in Hattr. destruct Hattr as [_ Hper].
  apply Z.leb_le in Hper.
  destruct (zs_digits _ Hper) as [Hpd Hpn].
  destruct (na_bold a); destruct (na_periph a =? 0); destruct (String.eqb (na_url a) "");
    rewrite ?append_assoc, ?append_nil_l;
    repeat first
      [ apply P_end; reflexivity
      | eapply P_num; [reflexivity | reflexivity | reflexivity | exact Hpd | exact Hpn | reflexivity |]
      | eapply P_q; [reflexivity | reflexivity | reflexivity | first [exact Hurl | reflexivity] |] ].
Qed.

(* ---------------- edge statement ---------------- *)
Lemma P_lit_end : forall e lit toks, lex_go LInit lit = (LInit, (toks ++ e)%list) -> attrs_bodyb toks = true -> ATailE e lit.
Proof. intros e lit toks Hl Hb. exists toks. split; [now apply attrs_bodyb_ok' | now apply LxC_lit]. Qed.

Lemma edge_scaled_pos : forall w t k c, (1 <? edge_scaled w t k c) = true -> 0 <= edge_scaled w t k c.
Proof. intros w t k c H. apply Z.ltb_lt in H. lia. Qed.

Lemma edge_stmt : forall g e hn, 0 <= de_from e -> 0 <= de_to e ->
  StmtText (emit_edge g e hn) [] [nid (de_from e); nid (de_to e)].
Proof.
  intros g e hn Hf Ht.
  pose proof (fmt_value_safe (dg_fv g) (de_w e)) as Hw.
  unfold emit_edge. cbv zeta.
  match goal with |- StmtText ("N" ++ zs ?f ++ " -> N" ++ zs ?t ++ ?S) _ _ =>
    change (StmtText (nid f ++ " -> " ++ nid t ++ S) [] [nid f; nid t]) end.
  apply Stmt_edgeO; [now apply nid_good | now apply nid_good | reflexivity |].
  eapply PO_q; [reflexivity | reflexivity | reflexivity | destruct (de_inline e); qs |].
  assert (Htip : qsafe (edge_tooltip g e) = true) by (unfold edge_tooltip; destruct (de_residual e); qs).
  unfold edge_mid. cbv zeta.
  destruct (dg_total g =? 0).
  - rewrite append_nil_l.
    eapply P_q; [reflexivity | reflexivity | reflexivity | exact Htip |].
    eapply P_q; [reflexivity | reflexivity | reflexivity | exact Htip |].
    destruct (de_residual e); destruct hn; rewrite ?append_assoc, ?append_nil_l;
      repeat first
        [ apply P_end; reflexivity
        | apply (P_lit_end _ _ [TId "minlen"; TEq; TNum "2"]); reflexivity
        | eapply P_q; [reflexivity | reflexivity | reflexivity | reflexivity |] ].
  - destruct (1 <? edge_scaled (de_w e) (dg_total g) 100 100) eqn:E1;
    destruct (1 <? edge_scaled (de_w e) (dg_total g) 5 5) eqn:E2;
    rewrite ?append_assoc, ?append_nil_l;
    try (destruct (zs_digits _ (edge_scaled_pos _ _ _ _ E1)) as [D1 N1]);
    try (destruct (zs_digits _ (edge_scaled_pos _ _ _ _ E2)) as [D2 N2]);
    repeat first
      [ eapply P_num; [reflexivity | reflexivity | reflexivity | first [exact D1 | exact D2] | first [exact N1 | exact N2] | reflexivity |] ];
    (eapply P_q; [reflexivity | reflexivity | reflexivity | reflexivity |]);
    (eapply P_q; [reflexivity | reflexivity | reflexivity | exact Htip |]);
    (eapply P_q; [reflexivity | reflexivity | reflexivity | exact Htip |]);
    destruct (de_residual e); destruct hn; rewrite ?append_assoc, ?append_nil_l;
      repeat first
        [ apply P_end; reflexivity
        | apply (P_lit_end _ _ [TId "minlen"; TEq; TNum "2"]); reflexivity
        | eapply P_q; [reflexivity | reflexivity | reflexivity | reflexivity |] ].
Qed.

(* ---------------- sequences ---------------- *)
Lemma nodes_stmt : forall g ns id,
  tab_safe (dg_pct g) = true ->
  forallb attrs_safe ns = true -> 0 <= id ->
  exists d e, StmtText (emit_nodes g ns id) d e /\ (forall x, In x e -> In x d) /\
              (forall k, id <= k < id + Z.of_nat (List.length ns) -> In (nid k) d).
Proof.
  intros g ns. induction ns as [|n r IH]; intros id Hpct Ha Hid.
  - exists [], []. split; [apply Stmt_nil|]. split; [intros x [] | simpl; intros k Hk; lia].
  - simpl in Ha. apply andb_prop in Ha. destruct Ha as [Ha1 Ha2].
    destruct (IH (id + 1) Hpct Ha2 ltac:(lia)) as [dr [er [Sr [Cr Nr]]]].
    destruct (nodelets_stmt g n id Hid) as [dl [el [Sl Cl]]].
    exists ([nid id] ++ dl ++ dr)%list, ([] ++ el ++ er)%list.
    change (emit_nodes g (n :: r) id) with (emit_node g n id ++ emit_nodelets g n id ++ emit_nodes g r (id + 1)).
    split; [|split].
    + stmt_app [nid id] (@nil string) (dl ++ dr)%list (el ++ er)%list; [now apply node_stmt|].
      stmt_app dl el dr er; assumption.
    + intros x Hx. simpl in Hx. apply in_app_or in Hx. apply in_or_app. destruct Hx as [Hx|Hx].
      * destruct (Cl x Hx) as [H|H].
        -- left. exact H.
        -- right. apply in_or_app. left. exact H.
      * right. apply in_or_app. right. apply Cr. exact Hx.
    + intros k Hk. change (List.length (n :: r)) with (S (List.length r)) in Hk. apply in_or_app.
      destruct (Z.eq_dec k id) as [E|E].
      * subst k. left. left. reflexivity.
      * right. apply in_or_app. right. apply Nr. lia.
Qed.

Lemma concat_cons : forall x r, String.concat "" (x :: r) = x ++ String.concat "" r.
Proof. intros x r. destruct r; simpl; [now rewrite append_nil_r | reflexivity]. Qed.

Definition edge_ids_nonneg (g : dgraph) : bool :=
  forallb (fun e => (0 <=? de_from e) && (0 <=? de_to e)) (dg_edges g).

Definition endpoints (es : list dedge) : list string :=
  flat_map (fun e => [nid (de_from e); nid (de_to e)]) es.

Lemma edges_stmt : forall g (f : dedge -> bool) es,
  forallb (fun e => (0 <=? de_from e) && (0 <=? de_to e)) es = true ->
  StmtText (String.concat "" (map (fun e => emit_edge g e (f e)) es)) [] (endpoints es).
Proof.
  intros g f es. induction es as [|e r IH]; intro H.
  - apply Stmt_nil.
  - simpl in H. apply andb_prop in H. destruct H as [He Hr]. apply andb_prop in He. destruct He as [H1 H2].
    apply Z.leb_le in H1. apply Z.leb_le in H2.
    change (map (fun e0 => emit_edge g e0 (f e0)) (e :: r)) with (emit_edge g e (f e) :: map (fun e0 => emit_edge g e0 (f e0)) r).
    rewrite concat_cons.
    change (endpoints (e :: r)) with ([nid (de_from e); nid (de_to e)] ++ endpoints r)%list.
    stmt_app (@nil string) [nid (de_from e); nid (de_to e)] (@nil string) (endpoints r).
    + now apply edge_stmt.
    + apply IH. exact Hr.
Qed.

(* ---------------- header, legend, end ---------------- *)
Lemma LxC_lex : forall s ts, LxC s ts -> lex s = ts.
Proof.
  intros s ts H. unfold lex. pose proof (H "") as E. rewrite append_nil_r in E. simpl in E. rewrite E.
  simpl. now rewrite !app_nil_r.
Qed.

Definition hdr_toks : list token :=
  [TLb; TKw KNode; TLs; TId "style"; TEq; TId "filled"; TId "fillcolor"; TEq; TStr "#f8f8f8"; TRs].

Lemma header_run : forall g, exists ts, LxC (emit_start g) ts /\
  ready (fold_left pstep ts p_init) /\ p_depth (fold_left pstep ts p_init) = 1%nat /\
  p_decl (fold_left pstep ts p_init) = [] /\ p_edges (fold_left pstep ts p_init) = [].
Proof.
  intro g. unfold emit_start.
  set (t := if String.eqb (dg_title g) "" then "unnamed" else dg_title g).
  exists ([TKw KDigraph] ++ [TStr (qview (escape_for_dot t))] ++ hdr_toks)%list. split.
  - apply LxC_app; [apply LxC_lit; reflexivity|].
    apply LxC_app; [rewrite q_quoted; apply LxC_quoted, escape_safe|].
    apply LxC_lit. reflexivity.
  - simpl. split; [split; [right; reflexivity | simpl; lia]|]. repeat split; reflexivity.
Qed.

Lemma map_escape_safe : forall l, forallb qsafe (map escape_for_dot l) = true.
Proof. induction l as [|x r IH]; simpl; [reflexivity | now rewrite escape_safe, IH]. Qed.

Lemma legend_stmt : forall g, exists d, StmtText (emit_legend g) d [].
Proof.
  intro g. unfold emit_legend. destruct (dg_labels g) as [|title rest] eqn:EL.
  - exists []. apply Stmt_nil.
  - set (v := qview (escape_for_dot title)). exists [v].
    assert (HA : ATailO [TRs; TRb]
      (" [shape=box fontsize=16 label=" ++
       q (concat_with s_bs_l (map escape_for_dot (title :: rest)) ++ s_bs_l) ++
       (if String.eqb (dg_url g) "" then "" else " URL=" ++ q (escape_for_dot (dg_url g)) ++ " target=" ++ q "_blank") ++
       (if String.eqb (dg_title g) "" then "" else " tooltip=" ++ q (escape_for_dot (dg_title g))) ++ "] }" ++ s_nl)).
    { eapply PO_q; [reflexivity | reflexivity | reflexivity | |].
      - apply qsafe_app; [|reflexivity]. apply qsafe_concat_with; [reflexivity | apply map_escape_safe].
      - destruct (String.eqb (dg_url g) ""); destruct (String.eqb (dg_title g) "");
          rewrite ?append_assoc, ?append_nil_l;
          repeat first
            [ apply P_end; reflexivity
            | eapply P_q; [reflexivity | reflexivity | reflexivity | first [apply escape_safe | reflexivity] |] ]. }
    destruct HA as [body [Hb Lb]].
    exists ([TKw KSubgraph; TId "cluster_L"; TLb] ++ [TStr v] ++ (TLs :: body ++ [TRs; TRb]))%list. split.
    + apply LxC_app; [apply LxC_lit; reflexivity|].
      apply LxC_app; [rewrite q_quoted; apply LxC_quoted, escape_safe | exact Lb].
    + intros st [Hst Hd]. simpl. rewrite fold_left_app. simpl.
      set (s1 := pstep st (TKw KSubgraph)).
      assert (E1 : p_st s1 = PSub /\ same_but_st s1 st).
      { unfold s1. destruct Hst as [H|H]; unfold pstep; rewrite H; simpl; split; try reflexivity; repeat split. }
      destruct E1 as [E1 [A1 [B1 C1]]].
      set (s2 := pstep s1 (TId "cluster_L")).
      assert (E2 : p_st s2 = PSubId /\ same_but_st s2 s1).
      { unfold s2, pstep. rewrite E1. simpl. split; [reflexivity | repeat split]. }
      destruct E2 as [E2 [A2 [B2 C2]]].
      set (s3 := pstep s2 TLb).
      assert (E3 : p_st s3 = PS /\ p_depth s3 = S (p_depth st) /\ p_decl s3 = p_decl st /\ p_edges s3 = p_edges st).
      { unfold s3, pstep. rewrite E2. simpl. repeat split; congruence. }
      destruct E3 as [E3 [A3 [B3 C3]]].
      set (s4 := pstep s3 (TStr v)).
      assert (E4 : p_st s4 = PId v /\ same_but_st s4 s3).
      { unfold s4, pstep. rewrite E3. simpl. split; [reflexivity | repeat split]. }
      destruct E4 as [E4 [A4 [B4 C4]]].
      set (s5 := pstep s4 TLs).
      assert (E5 : p_st s5 = PAttr /\ p_depth s5 = S (p_depth st) /\ p_decl s5 = v :: p_decl st /\ p_edges s5 = p_edges st).
      { unfold s5, pstep. rewrite E4. simpl. repeat split; congruence. }
      destruct E5 as [E5 [A5 [B5 C5]]].
      destruct (attrs_run body Hb s5 (or_introl E5)) as [I6 [A6 [B6 C6]]].
      set (s6 := fold_left pstep body s5) in *.
      destruct (attrs_close s6 I6) as [E7 [A7 [B7 C7]]].
      set (s7 := pstep s6 TRs) in *.
      assert (E8 : p_st (pstep s7 TRb) = PS /\ p_depth (pstep s7 TRb) = p_depth st /\
                   p_decl (pstep s7 TRb) = p_decl s7 /\ p_edges (pstep s7 TRb) = p_edges s7).
      { unfold pstep. rewrite E7. simpl.
        assert (Hdep : p_depth s7 = S (p_depth st)) by congruence.
        rewrite Hdep. destruct (p_depth st) as [|d']; [lia|]. simpl. repeat split. }
      destruct E8 as [E8 [A8 [B8 C8]]].
      repeat split.
      * left. exact E8.
      * rewrite A8. exact Hd.
      * exact A8.
      * simpl. congruence.
      * simpl. congruence.
Qed.

Lemma end_run : forall st, ready st -> p_depth st = 1%nat ->
  let st' := fold_left pstep [TRb] st in p_st st' = PEnd /\ p_decl st' = p_decl st /\ p_edges st' = p_edges st.
Proof.
  intros st [[H|H] _] Hd; simpl; unfold pstep; rewrite H; simpl; rewrite Hd; repeat split.
Qed.

(* ---------------- the document ---------------- *)
Lemma mem_str_In : forall x l, In x l -> mem_str x l = true.
Proof.
  intros x l H. unfold mem_str. apply existsb_exists. exists x. split; [exact H | apply String.eqb_refl].
Qed.

Lemma endpoints_in : forall es x, In x (endpoints es) ->
  exists e, In e es /\ (x = nid (de_from e) \/ x = nid (de_to e)).
Proof.
  intros es x H. unfold endpoints in H. apply in_flat_map in H. destruct H as [e [He Hx]].
  exists e. split; [exact He|]. simpl in Hx. destruct Hx as [Hx|[Hx|[]]]; [left | right]; now symmetry.
Qed.

Theorem compose_dot_valid : forall g, holes_safe g = true -> edge_ids_nonneg g = true ->
  dot_syntax_ok (compose_dot g) = true /\
  (edges_within_nodes g = true -> dot_edges_ok (compose_dot g) = true).
Proof.
  intros g Hh Hids. unfold holes_safe in Hh.
  apply andb_prop in Hh. destruct Hh as [Hpct Hattr].
  destruct (header_run g) as [th [Lh [Rh [Dh [Ch Eh]]]]].
  destruct (legend_stmt g) as [dl [tl [Ll Pl]]].
  set (B := match dg_nodes g with [] => "" | _ => emit_nodes g (dg_nodes g) 1 ++ emit_edges g end).
  assert (HB : exists d e, StmtText B d e /\ (edges_within_nodes g = true -> forall x, In x e -> In x d)).
  { unfold B. destruct (dg_nodes g) as [|n0 ns0] eqn:EN.
    - exists [], []. split; [apply Stmt_nil | intros _ x []].
    - rewrite <- EN in *.
      destruct (nodes_stmt g (dg_nodes g) 1 Hpct Hattr ltac:(lia)) as [dn [en [Sn [Cn Nn]]]].
      exists (dn ++ [])%list, (en ++ endpoints (dg_edges g))%list. split.
      + stmt_app dn en (@nil string) (endpoints (dg_edges g)); [exact Sn|].
        unfold emit_edges. apply edges_stmt. exact Hids.
      + intros Hw x Hx. apply in_or_app. left. apply in_app_or in Hx. destruct Hx as [Hx|Hx]; [now apply Cn|].
        destruct (endpoints_in _ _ Hx) as [e [He Hxe]].
        unfold edges_within_nodes in Hw. rewrite forallb_forall in Hw. specialize (Hw e He).
        apply andb_prop in Hw. destruct Hw as [Hw H4]. apply andb_prop in Hw. destruct Hw as [Hw H3].
        apply andb_prop in Hw. destruct Hw as [H1 H2].
        apply Z.leb_le in H1. apply Z.leb_le in H2. apply Z.leb_le in H3. apply Z.leb_le in H4.
        destruct Hxe as [E|E]; subst x; apply Nn; lia. }
  destruct HB as [db [eb [[tb [Lb Pb]] Cb]]].
  assert (LT : LxC (compose_dot g) (th ++ tl ++ tb ++ [TRb])%list).
  { unfold compose_dot. fold B.
    apply LxC_app; [exact Lh|]. apply LxC_app; [exact Ll|]. apply LxC_app; [exact Lb|].
    apply LxC_lit. reflexivity. }
  pose proof (LxC_lex _ _ LT) as EL.
  set (st1 := fold_left pstep th p_init) in *.
  destruct (Pl st1 Rh) as [R2 [D2 [C2 E2]]]. set (st2 := fold_left pstep tl st1) in *.
  destruct (Pb st2 R2) as [R3 [D3 [C3 E3]]]. set (st3 := fold_left pstep tb st2) in *.
  assert (Hd3 : p_depth st3 = 1%nat) by congruence.
  destruct (end_run st3 R3 Hd3) as [F1 [F2 F3]].
  assert (EP : parse (lex (compose_dot g)) = fold_left pstep [TRb] st3).
  { rewrite EL. unfold parse. rewrite !fold_left_app. reflexivity. }
  split.
  - unfold dot_syntax_ok. rewrite EP, F1. reflexivity.
  - intro Hw. unfold dot_edges_ok. rewrite EP. apply forallb_forall. intros x Hx.
    apply mem_str_In. rewrite F2, C3. rewrite F3, E3, E2, Eh in Hx. simpl in Hx. rewrite !app_nil_r in Hx.
    apply in_or_app. left. apply in_rev in Hx. apply -> in_rev. apply (Cb Hw). exact Hx.
Qed.
