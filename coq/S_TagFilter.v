(* Specification of the whole applyFocus pipeline (C06): the composition of the per-filter rules of
   S_Filter / S_Prune in the documented order, on frame samples.  The label predicates of
   tagfocus / tagignore are the ones compile_tag_filter builds (their grammar is not re-specified). *)
From PV Require Export M_TagFilter S_Filter S_Prune.
Open Scope Z_scope.

Section PipelineSpec.
  Variable M : string -> string -> bool.
  Variable V : string -> bool.
  Variable uts : list unit_type.

  Definition spec_apply_focus (p : profile) (units : list (string * string)) (c : af_cfg) : list fsample :=
    let s1 := spec_name M p (opt_rx (c_focus c)) (opt_rx (c_ignore c)) (opt_rx (c_hide c)) (opt_rx (c_show c)) (fsamples p) in
    let s2 := spec_show_from M p (opt_rx (c_showfrom c)) s1 in
    let s3 := spec_tag (tf_fun (compile_tag_filter M V uts units (c_tagfocus c)))
                       (tf_fun (compile_tag_filter M V uts units (c_tagignore c))) s2 in
    let s4 := spec_tags_by_name M (opt_rx (c_tagshow c)) (opt_rx (c_taghide c)) s3 in
    match opt_rx (c_prunefrom c) with
    | Some re => spec_prune_from M p re s4
    | None => s4
    end.

  (* the model's profile after the name filters and after tagshow/taghide: the inputs of the
     show_from and prune_from stages, on which their finding classes F25 / F15 are evaluated *)
  Definition af_stages (p : profile) (units : list (string * string)) (c : af_cfg) : profile * profile :=
    let p1 := fst (filter_samples_by_name M p (opt_rx (c_focus c)) (opt_rx (c_ignore c)) (opt_rx (c_hide c)) (opt_rx (c_show c))) in
    let p2 := fst (show_from M p1 (opt_rx (c_showfrom c))) in
    let p3 := fst (filter_samples_by_tag p2 (tf_fun (compile_tag_filter M V uts units (c_tagfocus c)))
                                            (tf_fun (compile_tag_filter M V uts units (c_tagignore c)))) in
    let p4 := fst (filter_tags_by_name M p3 (opt_rx (c_tagshow c)) (opt_rx (c_taghide c))) in
    (p1, p4).
End PipelineSpec.
