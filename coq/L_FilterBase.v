(* Lemmas shared by L_Filter (C06) and L_Prune (C11): the generic list cutters, lookups in a
   profile whose locations were rewritten in place, frames of rewritten locations. *)
From Coq Require Import Lia.
From PV Require Import M_Filter S_Filter.
Open Scope Z_scope.
Open Scope list_scope.

(* ------------------------------------------------------------ lists *)
Lemma flat_map_rev {A B} (f : A -> list B) (l : list A) :
  rev (flat_map f l) = flat_map (fun x => rev (f x)) (rev l).
Proof.
  induction l as [|x r IH]; [reflexivity|].
  cbn [flat_map rev]. rewrite rev_app_distr, IH, flat_map_app. cbn [flat_map].
  now rewrite app_nil_r.
Qed.

Lemma flat_map_ext_in {A B} (f g : A -> list B) (l : list A) :
  (forall x, In x l -> f x = g x) -> flat_map f l = flat_map g l.
Proof.
  induction l as [|x r IH]; intros H; [reflexivity|].
  cbn [flat_map]. rewrite (H x (or_introl eq_refl)), IH; [reflexivity|].
  intros y Hy. apply H. now right.
Qed.

Lemma existsb_map {A B} (f : B -> bool) (g : A -> B) (l : list A) :
  existsb f (map g l) = existsb (fun x => f (g x)) l.
Proof. induction l as [|x r IH]; [reflexivity|]. cbn. now rewrite IH. Qed.

Lemma existsb_ext_in {A} (f g : A -> bool) (l : list A) :
  (forall x, In x l -> f x = g x) -> existsb f l = existsb g l.
Proof.
  induction l as [|x r IH]; intros H; [reflexivity|].
  cbn. rewrite (H x (or_introl eq_refl)), IH; [reflexivity|]. intros y Hy. apply H. now right.
Qed.

Lemma existsb_false_forall {A} (f : A -> bool) (l : list A) :
  existsb f l = false -> forall x, In x l -> f x = false.
Proof.
  induction l as [|y r IH]; intros H x Hx; [destruct Hx|].
  cbn in H. apply orb_false_iff in H. destruct H as [H1 H2].
  destruct Hx as [->|Hx]; [exact H1|now apply IH].
Qed.

Lemma filter_map_spec {A B} (f : A -> option B) (keep : A -> bool) (g : A -> B) (l : list A) :
  (forall x, In x l -> f x = if keep x then Some (g x) else None) ->
  filter_map f l = map g (filter keep l).
Proof.
  induction l as [|x r IH]; intros H; [reflexivity|].
  cbn [filter_map filter]. rewrite (H x (or_introl eq_refl)).
  destruct (keep x); cbn [map]; rewrite IH; auto; intros y Hy; apply H; now right.
Qed.

(* from_first *)
Lemma from_first_none {A} (f : A -> bool) (l : list A) :
  from_first f l = None <-> existsb f l = false.
Proof.
  induction l as [|x r IH]; cbn; [tauto|].
  destruct (f x); cbn; [split; discriminate|exact IH].
Qed.

Lemma from_first_some {A} (f : A -> bool) (l r : list A) :
  from_first f l = Some r -> existsb f l = true.
Proof.
  intros H. destruct (existsb f l) eqn:E; [reflexivity|].
  apply from_first_none in E. congruence.
Qed.

(* keep_through_last *)
Lemma ktl_none {A} (f : A -> bool) (l : list A) :
  keep_through_last f l = None <-> existsb f l = false.
Proof.
  induction l as [|x r IH]; cbn; [tauto|].
  destruct (keep_through_last f r) as [r'|] eqn:E.
  - split; [discriminate|]. intros H. apply orb_false_iff in H. destruct H as [_ H].
    apply IH in H. discriminate.
  - assert (Hr : existsb f r = false) by now apply IH.
    rewrite Hr, orb_false_r. destruct (f x); split; congruence.
Qed.

Lemma ktl_upto_last {A} (f : A -> bool) (l : list A) :
  upto_last f l = match keep_through_last f l with Some r => r | None => [] end.
Proof.
  induction l as [|x r IH]; [reflexivity|].
  cbn [upto_last keep_through_last].
  destruct (keep_through_last f r) as [r'|] eqn:E.
  - assert (H : existsb f r = true).
    { destruct (existsb f r) eqn:E2; [reflexivity|]. apply ktl_none in E2. congruence. }
    rewrite H, IH. reflexivity.
  - assert (H : existsb f r = false) by now apply ktl_none.
    rewrite H. destruct (f x); reflexivity.
Qed.

Lemma ktl_some_nonempty {A} (f : A -> bool) (l r : list A) :
  keep_through_last f l = Some r -> r <> [].
Proof.
  destruct l as [|x t]; cbn; [discriminate|].
  destruct (keep_through_last f t); [intros [= <-]; discriminate|].
  destruct (f x); [intros [= <-]; discriminate|discriminate].
Qed.

(* upto_last over a concatenation *)
Lemma upto_last_app {A} (m : A -> bool) (a b : list A) :
  upto_last m (a ++ b) = if existsb m b then a ++ upto_last m b else upto_last m a.
Proof.
  induction a as [|x r IH]; cbn [app upto_last].
  - destruct (existsb m b) eqn:E; [reflexivity|].
    destruct b as [|y t]; [reflexivity|]. cbn [upto_last]. cbn in E.
    apply orb_false_iff in E. destruct E as [E1 E2]. now rewrite E2, E1.
  - rewrite existsb_app, IH. destruct (existsb m b) eqn:E.
    + now rewrite orb_true_r.
    + now rewrite orb_false_r.
Qed.

Lemma upto_last_nomatch {A} (m : A -> bool) (a : list A) :
  existsb m a = false -> upto_last m a = [].
Proof.
  induction a as [|x r IH]; [reflexivity|]. cbn. intros H.
  apply orb_false_iff in H. destruct H as [H1 H2]. now rewrite H2, H1.
Qed.

Lemma upto_last_full {A} (m : A -> bool) (a : list A) :
  match rev a with f :: _ => m f = true | [] => False end -> upto_last m a = a.
Proof.
  induction a as [|x r IH]; cbn [rev]; [tauto|]. intros H. cbn [upto_last].
  destruct (rev r) as [|y t] eqn:E.
  - assert (r = []) by (apply (f_equal (@rev A)) in E; rewrite rev_involutive in E; exact E).
    subst r. cbn in H. cbn. now rewrite H.
  - cbn in H. assert (Hr : existsb m r = true).
    { apply existsb_exists. exists y. split; [|exact H]. apply in_rev. rewrite E. now left. }
    rewrite Hr, IH; [reflexivity|exact H].
Qed.

(* ------------------------------------------------------------ lookups *)
Lemma find_map_id (g : location -> location) (L : list location) (id : Z) :
  (forall l, l_id (g l) = l_id l) ->
  find (fun l => l_id l =? id) (map g L) = option_map g (find (fun l => l_id l =? id) L).
Proof.
  intros Hg. induction L as [|l r IH]; [reflexivity|].
  cbn [map find]. rewrite Hg. destruct (l_id l =? id); [reflexivity|exact IH].
Qed.

Lemma find_location_id (p : profile) (id : Z) (l : location) :
  find_location p id = Some l -> l_id l = id.
Proof. intros H. apply find_some in H. destruct H as [_ H]. now apply Z.eqb_eq. Qed.

Lemma find_location_self (p : profile) (id : Z) (l : location) :
  find_location p id = Some l -> find_location p (l_id l) = Some l.
Proof. intros H. now rewrite (find_location_id _ _ _ H). Qed.

Lemma nodup_z_notin (x : Z) (r : list Z) : existsb (Z.eqb x) r = false -> ~ In x r.
Proof.
  intros H Hin. assert (existsb (Z.eqb x) r = true); [|congruence].
  apply existsb_exists. exists x. split; [exact Hin|apply Z.eqb_refl].
Qed.

(* the Go map keyed by location id agrees with the flag of the location the id resolves to *)
Lemma id_flag_find (flag : location -> bool) (L : list location) (id : Z) (l : location) :
  nodup_z (map l_id L) = true ->
  find (fun l => l_id l =? id) L = Some l ->
  id_flag flag L id = flag l.
Proof.
  unfold id_flag. induction L as [|x r IH]; intros Hnd Hf; [discriminate|].
  cbn [map nodup_z] in Hnd. apply andb_true_iff in Hnd. destruct Hnd as [Hx Hr].
  apply negb_true_iff in Hx. cbn [find] in Hf. cbn [existsb].
  destruct (l_id x =? id) eqn:E.
  - injection Hf as <-. cbn [andb].
    assert (Hno : existsb (fun l0 => (l_id l0 =? id) && flag l0) r = false).
    { apply Z.eqb_eq in E. subst id. clear -Hx.
      induction r as [|y t IH]; [reflexivity|]. cbn in Hx. apply orb_false_iff in Hx.
      destruct Hx as [H1 H2]. cbn. rewrite Z.eqb_sym, H1. cbn. now apply IH. }
    now rewrite Hno, orb_false_r.
  - cbn [andb orb]. now apply IH.
Qed.

Lemma id_flag_absent (flag : location -> bool) (L : list location) (id : Z) :
  find (fun l => l_id l =? id) L = None -> id_flag flag L id = false.
Proof.
  unfold id_flag. induction L as [|x r IH]; [reflexivity|].
  cbn [find existsb]. destruct (l_id x =? id); [discriminate|]. cbn. exact IH.
Qed.

(* ------------------------------------------------------------ wf_profile *)
Lemma wf_nodup (p : profile) : wf_profile p = true -> nodup_z (map l_id (p_location p)) = true.
Proof. unfold wf_profile. intros H. apply andb_true_iff in H. destruct H as [H _].
  apply andb_true_iff in H. now destruct H. Qed.

Lemma wf_present (p : profile) (s : sample) (id : Z) :
  wf_profile p = true -> In s (p_sample p) -> In id (s_loc s) -> exists l, find_location p id = Some l.
Proof.
  unfold wf_profile. intros H Hs Hid. apply andb_true_iff in H. destruct H as [H _].
  apply andb_true_iff in H. destruct H as [_ H].
  rewrite forallb_forall in H. specialize (H s Hs). unfold locs_present in H.
  rewrite forallb_forall in H. specialize (H id Hid).
  destruct (find_location p id) as [l|]; [now exists l|discriminate].
Qed.

Lemma wf_line_fn (p : profile) (id : Z) (l : location) (ln : line) :
  wf_profile p = true -> find_location p id = Some l -> In ln (l_lines l) ->
  exists f, find_function p (ln_fn ln) = Some f.
Proof.
  unfold wf_profile. intros H Hl Hln. apply andb_true_iff in H. destruct H as [_ H].
  rewrite forallb_forall in H. apply find_some in Hl. destruct Hl as [Hl _].
  specialize (H l Hl). rewrite forallb_forall in H. specialize (H ln Hln).
  destruct (find_function p (ln_fn ln)) as [f|]; [now exists f|discriminate].
Qed.

(* ------------------------------------------------------------ frames after in-place surgery *)
Definition mk_frame (l : location) (ln : line) : frame := {| fr_loc := l_id l; fr_line := Some ln |}.

Lemma loc_frames_lines (l : location) :
  l_lines l <> [] -> loc_frames l = map (mk_frame l) (l_lines l).
Proof. unfold loc_frames. destruct (l_lines l); [congruence|reflexivity]. Qed.

Lemma loc_frames_set_lines (l : location) (ls : list line) :
  ls <> [] -> loc_frames (set_loc_lines l ls) = map (mk_frame l) ls.
Proof. unfold loc_frames. cbn. destruct ls; [congruence|reflexivity]. Qed.

Lemma loc_frames_nonempty (l : location) : loc_frames l <> [].
Proof. unfold loc_frames. destruct (l_lines l); cbn; discriminate. Qed.

(* a profile whose locations were rewritten by an id-preserving [g] and whose samples were replaced *)
Lemma frames_of_rewritten (p : profile) (g : location -> location) (ss : list sample) (locs : list Z) :
  (forall l, l_id (g l) = l_id l) ->
  frames_of (set_samples (set_locations p (map g (p_location p))) ss) locs
  = flat_map (fun id => match find_location p id with Some l => loc_frames (g l) | None => [] end) locs.
Proof.
  intros Hg. unfold frames_of. apply flat_map_ext_in. intros id _.
  unfold find_location at 1. cbn [set_samples set_locations p_location].
  rewrite (find_map_id g _ id Hg). unfold find_location.
  destruct (find (fun l => l_id l =? id) (p_location p)); reflexivity.
Qed.

Lemma find_function_rewritten (p : profile) (ls : list location) (ss : list sample) (id : Z) :
  find_function (set_samples (set_locations p ls) ss) id = find_function p id.
Proof. reflexivity. Qed.
