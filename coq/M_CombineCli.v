(* Glue in front of the C07 pipeline: how pprof's command line becomes the (sources, bases,
   diff_base?, normalize?) that fetchProfiles works on -- internal/driver/cli.go parseFlags:103-112
   (first positional argument as executable override), :149 addBaseProfiles / dropEmpty, :153-157
   (-normalize needs a base) -- and how the named sources are resolved to profiles (a source that
   cannot be fetched is reported and skipped: concurrentGrab).  No proofs in this file. *)
From Coq Require Import QArith.
From PV Require Export M_Combine.
Open Scope Z_scope.

Record cli := {
  c_args : list string;      (* positional arguments, in order *)
  c_base : list string;      (* values of -base *)
  c_diffbase : list string;  (* values of -diff_base *)
  c_normalize : bool
}.

(* "Recognize first argument as an executable or buildid override": only when there are at least
   two positional arguments and the ObjTool opens the first one *)
Definition cli_sources (is_binary : string -> bool) (args : list string) : list string :=
  match args with
  | a0 :: (a1 :: r) => if is_binary a0 then a1 :: r else args
  | _ => args
  end.

Definition drop_empty (l : list string) : list string := filter (fun s => negb (String.eqb s "")) l.

Record plan := { pl_srcs : list string; pl_bases : list string; pl_diffbase : bool; pl_normalize : bool }.

Definition cli_plan (is_binary : string -> bool) (c : cli) : res plan :=
  match c_args c with
  | [] => Err "cli:no-source"
  | args =>
      let b := drop_empty (c_base c) in
      let d := drop_empty (c_diffbase c) in
      match b, d with
      | _ :: _, _ :: _ => Err "cli:base-and-diff_base"
      | _, _ =>
          let '(bases, db) := match d with [] => (b, false) | _ => (d, true) end in
          match bases, c_normalize c with
          | [], true => Err "cli:normalize-without-base"
          | _, nm => Ok {| pl_srcs := cli_sources is_binary args; pl_bases := bases; pl_diffbase := db; pl_normalize := nm |}
          end
      end
  end.

(* the files on disk: name -> profile; an unreadable source is skipped (with a message) *)
Fixpoint lookup_file (files : list (string * profile)) (n : string) : option profile :=
  match files with
  | [] => None
  | (k, p) :: r => if String.eqb k n then Some p else lookup_file r n
  end.
Definition resolve (files : list (string * profile)) (names : list string) : list profile :=
  flat_map (fun n => match lookup_file files n with Some p => [p] | None => [] end) names.

Section CliFetch.
  Variable keep : list Q -> list Z -> bool.
  Variable uts : list unit_type.
  (* driver.PProf up to the fetched profile *)
  Definition cli_fetch (is_binary : string -> bool) (files : list (string * profile)) (c : cli) : res profile :=
    match cli_plan is_binary c with
    | Err e => Err e
    | Ok pl =>
        match resolve files (pl_srcs pl) with
        | [] => Err "src:none-fetched"
        | srcs =>
            match pl_bases pl, resolve files (pl_bases pl) with
            | _ :: _, [] => Err "base:none-fetched"
            | _, bases => fetch keep uts (pl_diffbase pl) (pl_normalize pl) srcs bases
            end
        end
    end.
End CliFetch.
