(* Case runner for C19: decodes harness cases, runs M_Config / M_Settings / M_Fs, judges the
   implementation's observables with the S_Config checkers.  No proofs here. *)
From PV Require Import Base.Term M_Config M_Flags M_Settings M_Fs S_Config Gen.Gen_ConfigTable.
Open Scope string_scope.
Open Scope Z_scope.

Definition flds := config_fields.

(* ---- decoding *)
Fixpoint assoc_str (l : list term) (k : string) : option term :=
  match l with
  | [] => None
  | TL [TS k'; v] :: r => if String.eqb k' k then Some v else assoc_str r k
  | _ :: r => assoc_str r k
  end.

(* a config travels as its difference from the default: [field index; value] *)
Fixpoint assoc_pairs (l : list (string * string)) (k : string) : option string :=
  match l with
  | [] => None
  | (k', v) :: r => if String.eqb k' k then Some v else assoc_pairs r k
  end.
Definition no_field : field :=
  {| f_name := "?"; f_url := ""; f_saved := false; f_kind := KStr; f_choices := []; f_default := ""; f_transient := false |}.
Definition cfg_of (t : term) : config :=
  let l := map (fun p => (f_name (nth (Z.to_nat (gz (gn p 0))) flds no_field), gs (gn p 1))) (gl t) in
  fun n => match assoc_pairs l n with Some v => v | None => default_cfg flds n end.
Fixpoint of_cfg_go (c : config) (fs : list field) (i : Z) : list term :=
  match fs with
  | [] => []
  | f :: r =>
      let v := c (f_name f) in
      if String.eqb v (f_default f) then of_cfg_go c r (i + 1)
      else TL [TZ i; TS v] :: of_cfg_go c r (i + 1)
  end.
Definition of_cfg (c : config) : term := TL (of_cfg_go c flds 0).

Definition values_of (t : term) : values := map (fun kv => (gs (gn kv 0), gss (gn kv 1))) (gl t).

Fixpoint ins_kv (kv : string * list string) (l : values) : values :=
  match l with
  | [] => [kv]
  | x :: r => if str_ltb (fst x) (fst kv) then x :: ins_kv kv r else kv :: l
  end.
Definition sort_values (q : values) : values := fold_right ins_kv [] q.
Definition of_values (q : values) : term :=
  TL (map (fun kv => TL [TS (fst kv); of_ss (snd kv)]) (sort_values q)).

(* float oracle table: [s] = parses and prints as itself, [s; c] = prints as c, absent = error *)
Fixpoint pf_lookup (l : list term) (s : string) : option string :=
  match l with
  | [] => None
  | TL [TS k] :: r => if String.eqb k s then Some k else pf_lookup r s
  | TL [TS k; TS c] :: r => if String.eqb k s then Some c else pf_lookup r s
  | _ :: r => pf_lookup r s
  end.
Definition pf_of (t : term) : string -> option string := let l := gl t in fun s => pf_lookup l s.
Definition js_of (t : term) : string -> string :=
  let l := gl t in fun s => match assoc_str l s with Some (TS c) => c | _ => s end.

Definition of_apply (r : res config) : term :=
  match r with Ok c => TL [TS "ok"; of_cfg c] | Err e => TL [TS "err"; TS e] end.

Definition settings_of (t : term) : settings := map (fun nc => (gs (gn nc 0), cfg_of (gn nc 1))) (gl t).
Definition of_settings (ss : settings) : term := TL (map (fun nc => TL [TS (fst nc); of_cfg (snd nc)]) ss).

(* the state the harness observes = what readSettings returns *)
Definition of_state (cur : config) (st : fstate) : term :=
  match st with
  | FAbsent => TL [TS "absent"]
  | FCorrupt => TL [TS "corrupt"]
  | FGood _ => match read_settings flds cur st with
               | Some ss => TL [TS "good"; of_settings ss]
               | None => TL [TS "corrupt"]
               end
  end.

(* initial file: written by writeSettings from the listed configs *)
Definition init_state (pf : string -> option string) js (t : term) : fstate :=
  let k := gs (gn t 0) in
  if String.eqb k "absent" then FAbsent
  else if String.eqb k "corrupt" then FCorrupt
  else match write_settings js flds (settings_of (gn t 1)) with Some st => st | None => FCorrupt end.

(* "save" / "delete" and, with the write to disk failing, "save!" / "delete!" *)
Definition sop_of (t : term) : sop :=
  if has_prefix "save" (gs (gn t 0)) then OpSave (values_of (gn t 1)) else OpDelete (gs (gn t 1)).
Definition io_ok_of (t : term) : bool := negb (has_suffix "!" (gs (gn t 0))).
(* "save!" / "delete!": the write fails; "save?" / "delete?" / "menu?": the read of the file fails *)
Definition fault_of (t : term) : fault :=
  if has_suffix "!" (gs (gn t 0)) then WriteFault
  else if has_suffix "?" (gs (gn t 0)) then ReadFault else NoFault.
Definition faulted (t : term) : bool := match fault_of t with NoFault => false | _ => true end.

Definition of_menu (m : list (string * values * bool * bool)) : term :=
  TL (map (fun e => match e with (n, q, cur, user) => TL [TS n; of_values q; of_bool cur; of_bool user; of_bool true] end) m).

Fixpoint run_seq pf js (cur : config) (st : fstate) (ops : list term) : list term :=
  match ops with
  | [] => []
  | o :: r =>
      if has_prefix "menu" (gs (gn o 0)) then
        TL [TZ 0; of_menu (config_menu_f flds cur st (values_of (gn o 1)) (fault_of o))] :: run_seq pf js cur st r
      else
        let '(code, st') := run_sop_f pf js flds cur st (sop_of o) (fault_of o) in
        TL [TZ code; of_state cur st'; TZ 1] :: run_seq pf js cur st' r
  end.

(* all orders of a list *)
Fixpoint insert_all {A} (a : A) (l : list A) : list (list A) :=
  match l with
  | [] => [[a]]
  | x :: r => (a :: l) :: map (cons x) (insert_all a r)
  end.
Fixpoint perms {A} (l : list A) : list (list A) :=
  match l with
  | [] => [[]]
  | a :: r => flat_map (insert_all a) (perms r)
  end.

Definition conc_outcomes pf js (cur : config) (st : fstate) (ops : list sop) : list term :=
  map (fun p => of_state cur (run_sops pf js flds cur st p)) (perms ops).

(* ---- file-system cases (built by lib/c19_fs.py from strace logs) *)
Definition fop_of (t : term) : fop :=
  let k := gs (gn t 0) in
  if String.eqb k "mkdir" then FMkdir (gs (gn t 1))
  else if String.eqb k "open" then FOpen (gz (gn t 1)) (gs (gn t 2)) (gb (gn t 3)) (gb (gn t 4))
  else if String.eqb k "write" then FWrite (gz (gn t 1)) (gs (gn t 2))
  else if String.eqb k "close" then FClose (gz (gn t 1))
  else if String.eqb k "rename" then FRename (gs (gn t 1)) (gs (gn t 2))
  else if String.eqb k "unlink" then FUnlink (gs (gn t 1))
  else FMeta (gz (gn t 1)).

Definition opt_str (t : term) : option string := match gl t with [TS s] => Some s | _ => None end.
Definition of_opt_str (o : option string) : term := of_opt TS o.

Definition fs_init (i : term) : fsys :=
  {| files := match opt_str (gn i 2) with Some old => [(gs (gn i 1), old)] | None => [] end; fds := [] |}.

(* model observable: final contents of the target, and its contents after each listed prefix *)
Definition run_fs (i : term) : term :=
  let target := gs (gn i 1) in
  let ops := map fop_of (gl (gn i 3)) in
  let s0 := fs_init i in
  let states := prefix_states s0 ops in
  TL [of_opt_str (content (run s0 ops) target);
      TL (map (fun k => TL [TZ k; of_opt_str (content (nth (Z.to_nat k) states s0) target)]) (gzs (gn i 6)))].

(* observed contents identical to the old (TZ 0) / expected new (TZ 1) bytes of the input travel
   as references *)
Definition deref (i t : term) : term :=
  match t with TZ 0 => gn i 2 | TZ 1 => gn i 4 | _ => t end.
Definition deref_obs (i o : term) : term :=
  TL [deref i (gn o 0); TL (map (fun kc => TL [gn kc 0; deref i (gn kc 1)]) (gl (gn o 1)))].

(* spec: the op list is in the protocol class of theorem crash_atomic, every observed kill point
   left the old or the new contents, and the complete run (if it reported success) left the new *)
Definition spec_fs (i o0 : term) : bool :=
  let o := deref_obs i o0 in
  let target := gs (gn i 1) in
  let ops := map fop_of (gl (gn i 3)) in
  let old := gn i 2 in
  let new := gn i 4 in
  let failed := gb (gn i 5) in
  protocol_ok target false (fs_init i) ops
  && (if failed then term_eqb (gn o 0) old || term_eqb (gn o 0) new else term_eqb (gn o 0) new)
  && forallb (fun kc => term_eqb (gn kc 1) old || term_eqb (gn kc 1) new) (gl (gn o 1)).

(* "burst": requests with pairwise distinct names commute, so every serial order leaves the same
   configurations; states are compared with their entries sorted by name *)
Fixpoint ins_entry (e : term) (l : list term) : list term :=
  match l with
  | [] => [e]
  | x :: r => if str_ltb (gs (gn x 0)) (gs (gn e 0)) then x :: ins_entry e r else e :: l
  end.
Definition sort_state (t : term) : term :=
  if String.eqb (gs (gn t 0)) "good" then TL [TS "good"; TL (fold_right ins_entry [] (gl (gn t 1)))] else t.
Definition burst_names (i : term) : list string :=
  map (fun nc => gs (gn nc 0)) (gl (gn (gn i 4) 1)) ++
  flat_map (fun o => if has_prefix "save" (gs (gn o 0)) then [vget (values_of (gn o 1)) "config"] else []) (gl (gn i 5)).
Definition burst_outcome (i : term) : term :=
  let pf := pf_of (gn i 1) in
  let js := js_of (gn i 2) in
  let cur := cfg_of (gn i 3) in
  sort_state (of_state cur (run_sops pf js flds cur (init_state pf js (gn i 4)) (map sop_of (gl (gn i 5))))).

Definition flags_of (t : term) : flags := map (fun p => (gs (gn p 0), gs (gn p 1))) (gl t).

(* "e2eseq": pprof <flags> -http: the option state a save stores is what parseFlags made of the flags *)
Definition e2e_cur (i : term) : res config :=
  apply_flags (pf_of (gn i 1)) flds (default_cfg flds) (flags_of (gn i 3)) false.

Definition run_C19 (i : term) : term :=
  let op := gs (gn i 0) in
  let pf := pf_of (gn i 1) in
  if String.eqb op "url" then
    let c := cfg_of (gn i 2) in
    let '(q', ch) := make_url flds c (values_of (gn i 3)) in
    TL [of_values q'; of_bool ch; of_apply (apply_url_go pf flds (default_cfg flds) q')]
  else if String.eqb op "apply" then
    of_apply (apply_url_go pf flds (cfg_of (gn i 2)) (values_of (gn i 3)))
  else if String.eqb op "seq" then
    let js := js_of (gn i 2) in
    TL (run_seq pf js (cfg_of (gn i 3)) (init_state pf js (gn i 4)) (gl (gn i 5)))
  else if String.eqb op "conc" then
    let js := js_of (gn i 2) in
    TL (conc_outcomes pf js (cfg_of (gn i 3)) (init_state pf js (gn i 4)) (map sop_of (gl (gn i 5))))
  else if String.eqb op "e2eseq" then
    let pf := pf_of (gn i 1) in
    let js := js_of (gn i 2) in
    match e2e_cur i with
    | Err _ => TL [TS "refused"; TZ 1]
    | Ok cur => TL [of_cfg cur; TL (run_seq pf js cur (init_state pf js (gn i 4)) (gl (gn i 5)))]
    end
  else if String.eqb op "burst" then burst_outcome i
  else if String.eqb op "fs" then
    run_fs i
  else TL [TS "unknown-op"].

Definition eqv_C19 (i m o : term) : bool :=
  let op := gs (gn i 0) in
  if String.eqb op "conc" then existsb (fun x => term_eqb x o) (gl m)
  else if String.eqb op "burst" then negb (nodup_str (burst_names i)) || term_eqb m (sort_state o)
  else if String.eqb op "fs" then term_eqb m (deref_obs i o)
  else term_eqb m o.

(* ---- specification checkers evaluated on the IMPLEMENTATION's observable *)
Definition state_settings (t : term) : option settings :=
  let k := gs (gn t 0) in
  if String.eqb k "absent" then Some []
  else if String.eqb k "good" then Some (settings_of (gn t 1))
  else None.

Fixpoint spec_seq pf (cur : config) (prev : term) (ops obs : list term) : bool :=
  match ops, obs with
  | [], [] => true
  | o :: r, b :: rb =>
      let kind := gs (gn o 0) in
      if has_prefix "menu" kind then
        menu_ok flds (values_of (gn o 1)) (if has_suffix "?" kind then None else state_settings prev)
                (map (fun e => (gs (gn e 0), values_of (gn e 1), gb (gn e 2), gb (gn e 3))) (gl (gn b 1)))
        && spec_seq pf cur prev r rb
      else
        let code := gz (gn b 0) in
        let after := gn b 1 in
        gb (gn b 2)                                    (* what the process reports is what the file holds *)
        && (negb (faulted o) || negb (code =? 0))     (* a failed write / a failed read is reported *)
        && (if code =? 0 then
           match state_settings prev, state_settings after with
           | Some before, Some aft =>
               if has_prefix "save" kind then
                 let q := values_of (gn o 1) in
                 match apply_url_go pf flds cur q with
                 | Ok c => save_ok flds (vget q "config") c before aft
                 | Err _ => false
                 end
               else delete_ok flds (gs (gn o 1)) before aft
           | _, _ => false
           end
         else term_eqb prev after)   (* a failed operation leaves the file alone *)
        && spec_seq pf cur after r rb
  | _, _ => false
  end.

Definition spec_C19 (i o : term) : bool :=
  let op := gs (gn i 0) in
  let pf := pf_of (gn i 1) in
  if String.eqb op "url" then
    let c := cfg_of (gn i 2) in
    let q' := values_of (gn o 0) in
    negb (wf_cfgb pf flds c) ||
    elides_defaults flds c q' &&
    (if String.eqb (gs (gn (gn o 2) 0)) "ok"
     then roundtrip_ok flds c (cfg_of (gn (gn o 2) 1))
     else false)
  else if String.eqb op "apply" then
    if String.eqb (gs (gn o 0)) "ok"
    then untouched_ok flds (cfg_of (gn i 2)) (values_of (gn i 3)) (cfg_of (gn o 1))
    else true
  else if String.eqb op "seq" then
    let js := js_of (gn i 2) in
    spec_seq pf (cfg_of (gn i 3)) (of_state (cfg_of (gn i 3)) (init_state pf js (gn i 4))) (gl (gn i 5)) (gl o)
  else if String.eqb op "conc" then
    let js := js_of (gn i 2) in
    let cur := cfg_of (gn i 3) in
    existsb (fun x => term_eqb x o) (conc_outcomes pf js cur (init_state pf js (gn i 4)) (map sop_of (gl (gn i 5))))
  else if String.eqb op "e2eseq" then
    if String.eqb (gs (gn o 0)) "refused" then gb (gn o 1)
    else
      let js := js_of (gn i 2) in
      let cur := cfg_of (gn o 0) in     (* the option state the running pprof reports *)
      spec_seq pf cur (of_state cur (init_state pf js (gn i 4))) (gl (gn i 5)) (gl (gn o 1))
  else if String.eqb op "burst" then
    (* all names distinct: the requests commute, "as if one after another" = this set of entries *)
    negb (nodup_str (burst_names i)) || term_eqb (burst_outcome i) (sort_state o)
  else if String.eqb op "fs" then
    spec_fs i o
  else true.

(* classes: 25 = F25 (a string the JSON encoder cannot represent is involved);
            26 = F26 (a saved option without URL parameter differs from its default) *)
Definition cls_C19 (i : term) : list Z :=
  let op := gs (gn i 0) in
  if String.eqb op "url" then
    if in_F26 flds (cfg_of (gn i 2)) then [26] else []
  else if String.eqb op "seq" then
    match gl (gn i 2) with [] => [] | _ => [25] end
  else [].

Definition judge_C19 := judge_all run_C19 eqv_C19 spec_C19 cls_C19 0%Z.
