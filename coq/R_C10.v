(* Case runner for C10: decodes harness cases (scripted interactive sessions, web request mixes),
   runs M_Session, judges the implementation's observables.  No proofs here. *)
From PV Require Import Base.Term M_Config M_Flags M_Session S_Session R_C19 Gen.Gen_ConfigTable Gen.Gen_CommandTable.
Open Scope string_scope.
Open Scope Z_scope.

Definition env_of (i : term) : env :=
  {| e_fields := config_fields; e_pf := pf_of (gn i 1); e_commands := pprof_commands; e_help := config_help_keys;
     e_types := gss (gn i 2); e_default_type := gs (gn i 3) |}.

Definition of_event (ev : event) : term :=
  match ev with
  | EErr code => TL [TS "e"; TZ code]
  | EPrint => TL [TS "p"; TZ 1]
  | EReport cmd c => TL [TS "r"; of_ss cmd; of_cfg c; TZ 1; TZ 1]
  end.

Definition endpoint_of (p : string) : option endpoint :=
  if String.eqb p "/top" then Some WTop
  else if String.eqb p "/peek" then Some WPeek
  else if String.eqb p "/flamegraph" then Some WFlame
  else if String.eqb p "/" then Some WGraph
  else if String.eqb p "/source" then Some WSource
  else if String.eqb p "/disasm" then Some WDisasm
  else None.   (* /download does not generate a report *)

(* option assignments (configure on the process-wide state, as SetVariableDefault does) between
   web requests: the state moves only at "set" steps *)
Fixpoint run_websrc (e : env) (cur : config) (steps : list term) : list term :=
  match steps with
  | [] => []
  | st :: r =>
      if String.eqb (gs (gn st 0)) "set" then
        let c' := match configure (e_pf e) (e_fields e) cur (gs (gn st 1)) (gs (gn st 2)) with
                  | Ok c1 => c1
                  | Err _ => cur
                  end in
        TL [TS "s"; of_cfg c'] :: run_websrc e c' r
      else
        (match endpoint_of (gs (gn st 1)) with
         | Some ep => match web_request_cfg e cur ep (values_of (gn st 2)) with
                      | Some _ => TL [TZ 0; TZ 1]
                      | None => TL [TZ 400; TZ 1]
                      end
         | None => TL [TZ 200; TZ 1]
         end) :: run_websrc e cur r
  end.

Definition run_C10 (i : term) : term :=
  let op := gs (gn i 0) in
  if String.eqb op "sess" then
    let e := env_of i in
    let start := session_start e (cfg_of (gn i 4)) in
    TL [of_cfg start;
        TL (map (fun ce => TL [TL (map of_event (snd ce)); of_cfg (fst ce)]) (run_lines e start (gss (gn i 5))));
        TZ 1]
  else if String.eqb op "web" then
    let e := {| e_fields := config_fields; e_pf := pf_of (gn i 1); e_commands := pprof_commands; e_help := config_help_keys;
                e_types := []; e_default_type := "" |} in
    let cur := cfg_of (gn i 2) in
    TL [TL (map (fun r => match endpoint_of (gs (gn r 0)) with
                          | Some ep => match web_request_cfg e cur ep (values_of (gn r 1)) with
                                       | Some _ => TL [TZ 0; TZ 1]
                                       | None => TL [TZ 400; TZ 1]
                                       end
                          | None => TL [TZ 200; TZ 1]
                          end) (gl (gn i 3)));
        TZ 1; TZ 1]
  else if String.eqb op "websrc" then
    let e := {| e_fields := config_fields; e_pf := pf_of (gn i 1); e_commands := pprof_commands; e_help := config_help_keys;
                e_types := []; e_default_type := "" |} in
    TL [TL (run_websrc e (cfg_of (gn i 2)) (gl (gn i 3))); TZ 1]
  else if String.eqb op "e2e" then
    (* pprof <flags> p: the session starts from the option state the flags describe *)
    let e := env_of i in
    match apply_flags (e_pf e) config_fields (default_cfg config_fields) (flags_of (gn i 4)) false with
    | Err _ => TL [TS "refused"; TZ 1; TZ 0]
    | Ok c0 =>
        let start := session_start e c0 in
        TL [of_cfg start;
            TL (map (fun ce => TL [TL (map of_event (snd ce)); of_cfg (fst ce)]) (run_lines e start (gss (gn i 5))));
            TZ 1]
    end
  else if String.eqb op "e2eweb" then
    (* pprof <flags> -http=... p *)
    let e := {| e_fields := config_fields; e_pf := pf_of (gn i 1); e_commands := pprof_commands; e_help := config_help_keys;
                e_types := []; e_default_type := "" |} in
    match apply_flags (e_pf e) config_fields (default_cfg config_fields) (flags_of (gn i 2)) false with
    | Err _ => TL [TS "refused"; TZ 1; TZ 0]
    | Ok cur =>
        TL [of_cfg cur;
            TL (map (fun r => match endpoint_of (gs (gn r 0)) with
                              | Some ep => match web_request_cfg e cur ep (values_of (gn r 1)) with
                                           | Some _ => TL [TZ 0; TZ 1]
                                           | None => TL [TZ 400; TZ 1]
                                           end
                              | None => TL [TZ 200; TZ 1]
                              end) (gl (gn i 3)));
            TZ 1]
    end
  else TL [TS "unknown-op"].

(* web: status 0 in the model = "a report is generated" (its own errors, e.g. a bad regexp, are
   not modelled): only the flag is compared then *)
Fixpoint web_eqv (m o : list term) : bool :=
  match m, o with
  | [], [] => true
  | a :: m', b :: o' =>
      (if gz (gn a 0) =? 0 then negb (gz (gn b 0) =? 599) else gz (gn a 0) =? gz (gn b 0))
      && (gz (gn a 1) =? gz (gn b 1)) && web_eqv m' o'
  | _, _ => false
  end.

(* websrc: "s" steps (option state after an assignment) are compared exactly, requests as for web *)
Fixpoint websrc_eqv (m o : list term) : bool :=
  match m, o with
  | [], [] => true
  | a :: m', b :: o' =>
      (if String.eqb (gs (gn a 0)) "s" then term_eqb a b
       else (if gz (gn a 0) =? 0 then negb (gz (gn b 0) =? 599) else gz (gn a 0) =? gz (gn b 0))
            && (gz (gn a 1) =? gz (gn b 1)))
      && websrc_eqv m' o'
  | _, _ => false
  end.

Definition eqv_C10 (i m o : term) : bool :=
  if String.eqb (gs (gn i 0)) "web"
  then web_eqv (gl (gn m 0)) (gl (gn o 0)) && term_eqb (gn m 1) (gn o 1) && term_eqb (gn m 2) (gn o 2)
  else if String.eqb (gs (gn i 0)) "websrc"
  then websrc_eqv (gl (gn m 0)) (gl (gn o 0)) && term_eqb (gn m 1) (gn o 1)
  else if String.eqb (gs (gn i 0)) "e2eweb" && negb (String.eqb (gs (gn m 0)) "refused")
  then term_eqb (gn m 0) (gn o 0) && web_eqv (gl (gn m 1)) (gl (gn o 1)) && term_eqb (gn m 2) (gn o 2)
  else term_eqb m o.

(* ---- the specification, evaluated on the implementation's observable *)
Definition ev_is_report (t : term) : bool := String.eqb (gs (gn t 0)) "r".

Fixpoint spec_lines (before : term) (ls : list term) : bool :=
  match ls with
  | [] => true
  | l :: r =>
      let evs := gl (gn l 0) in
      let after := gn l 1 in
      reports_clean (map (fun ev => (ev_is_report ev, gb (gn ev 3), gb (gn ev 4))) evs)
      (* what help / o / options print is the same as in a fresh process with the same options *)
      && forallb (fun ev => negb (String.eqb (gs (gn ev 0)) "p") || gb (gn ev 1)) evs
      && (if existsb ev_is_report evs then term_eqb before after else true)   (* a command leaves the options alone *)
      && spec_lines after r
  end.

Definition spec_C10 (i o : term) : bool :=
  let op := gs (gn i 0) in
  if String.eqb op "sess" then spec_lines (gn o 0) (gl (gn o 1)) && gb (gn o 2)
  else if String.eqb op "web" then
    forallb (fun r => gb (gn r 1)) (gl (gn o 0)) && gb (gn o 1) && gb (gn o 2)
  else if String.eqb op "websrc" then
    (* every request answered as in a fresh process with the same options; profile untouched *)
    forallb (fun r => String.eqb (gs (gn r 0)) "s" || gb (gn r 1)) (gl (gn o 0)) && gb (gn o 1)
  else if String.eqb op "e2e" then
    if String.eqb (gs (gn o 0)) "refused" then gb (gn o 1) && (gz (gn o 2) =? 0)   (* refused: said so, ran nothing *)
    else spec_lines (gn o 0) (gl (gn o 1)) && gb (gn o 2)
  else if String.eqb op "e2eweb" then
    if String.eqb (gs (gn o 0)) "refused" then gb (gn o 1) && negb (gb (gn o 2))
    else forallb (fun r => gb (gn r 1)) (gl (gn o 1)) && gb (gn o 2)
  else true.

Definition cls_C10 (i : term) : list Z := [].

Definition judge_C10 := judge_all run_C10 eqv_C10 spec_C10 cls_C10 0%Z.
