(* Model of the JSON hand-off of internal/driver/stacks.go (stackView): the stack set is marshalled
   with json.Marshal -- i.e. with HTML escaping ON -- and the bytes are copied verbatim
   (template.JS) into an inline <script> element of the /flamegraph page.
   [json_string_html] is encoding/json's string encoding in that mode (encodeState.string with
   escapeHTML = true, go1.23): quote and backslash are backslash-escaped, \b \f \n \r \t have short
   escapes, other bytes below 0x20 and the three characters < > & become \u00XX, every other byte
   is copied.  Not modelled: invalid UTF-8 (replaced by U+FFFD) and U+2028/U+2029 (escaped); the
   web generators keep away from both.  No proofs in this file. *)
From PV Require Export Base.Term Base.Str.
Open Scope string_scope.
Open Scope Z_scope.

Definition hex_digit (n : N) : ascii :=
  ascii_of_N (if (n <? 10)%N then 48 + n else 87 + n)%N.   (* 0-9, a-f *)

Definition bs : string := String (ascii_of_N 92) "".          (* one backslash *)

Definition u00 (n : N) : string :=
  bs ++ "u00" ++ String (hex_digit (n / 16)) (String (hex_digit (n mod 16)) "").

Definition json_esc_char (html : bool) (a : ascii) : string :=
  let n := N_of_ascii a in
  if (n =? 34)%N then bs ++ String a ""            (* quote *)
  else if (n =? 92)%N then bs ++ bs                (* backslash *)
  else if (n =? 8)%N then bs ++ "b"
  else if (n =? 12)%N then bs ++ "f"
  else if (n =? 10)%N then bs ++ "n"
  else if (n =? 13)%N then bs ++ "r"
  else if (n =? 9)%N then bs ++ "t"
  else if (n <? 32)%N then u00 n
  else if html && ((n =? 60) || (n =? 62) || (n =? 38))%N then u00 n   (* < > & *)
  else String a "".

Fixpoint json_esc (html : bool) (s : string) : string :=
  match s with
  | EmptyString => EmptyString
  | String a r => json_esc_char html a ++ json_esc html r
  end.

Definition dq : string := String (ascii_of_N 34) "".
Definition json_string (html : bool) (s : string) : string := dq ++ json_esc html s ++ dq.

(* what stackView uses: json.Marshal = HTML escaping on *)
Definition json_string_html (s : string) : string := json_string true s.
