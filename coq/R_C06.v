(* Case runner for C06. *)
From Coq Require Import QArith.
From PV Require Import M_Driver M_Filter M_Prune M_TagFilter S_Filter S_Prune S_TagFilter R_Filter R_Driver Gen.Gen_UnitTable.
Open Scope Z_scope.
Open Scope string_scope.

Definition uts := unit_types.

Definition cfg_of (t : term) : af_cfg :=
  {| c_focus := gs (gn t 0); c_ignore := gs (gn t 1); c_hide := gs (gn t 2); c_show := gs (gn t 3);
     c_showfrom := gs (gn t 4); c_tagfocus := gs (gn t 5); c_tagignore := gs (gn t 6);
     c_tagshow := gs (gn t 7); c_taghide := gs (gn t 8); c_prunefrom := gs (gn t 9) |}.
Definition units_of (t : term) : list (string * string) := map (fun e => (gs (gn e 0), gs (gn e 1))) (gl t).

Definition run_C06 (i : term) : term :=
  let op := gs (gn i 0) in
  if String.eqb op "e2e" then run_e2e i else
  if String.eqb op "numunits" then TL (map (fun ku => TL [TS (fst ku); TS (snd ku)]) (M_Driver.num_label_units (profile_of (gn i 1)))) else
  let p := profile_of (gn i 1) in
  if String.eqb op "names" then
    let '(p', (fm, im, hm, hnm)) :=
      filter_samples_by_name (tbl_M (gn i 6)) p (opt_s (gn i 2)) (opt_s (gn i 3)) (opt_s (gn i 4)) (opt_s (gn i 5)) in
    TL (TS "ok" :: obs_profile p' ++ [TL [of_bool fm; of_bool im; of_bool hm; of_bool hnm]])
  else if String.eqb op "showfrom" then
    let '(p', m) := show_from (tbl_M (gn i 3)) p (opt_s (gn i 2)) in
    TL (TS "ok" :: obs_profile p' ++ [TL [of_bool m]])
  else if String.eqb op "tagsbyname" then
    let '(p', (sm, hm)) := filter_tags_by_name (tbl_M (gn i 4)) p (opt_s (gn i 2)) (opt_s (gn i 3)) in
    TL (TS "ok" :: obs_profile p' ++ [TL [of_bool sm; of_bool hm]])
  else if String.eqb op "applyfocus" then
    let tbl := gn i 4 in
    let '(err, p', msgs) := apply_focus (tbl_M tbl) (tbl_V tbl) uts p (units_of (gn i 3)) (cfg_of (gn i 2)) in
    TL (TS err :: obs_profile p' ++ [of_ss msgs])
  else if String.eqb op "rawreport" then
    (* generateRawReport applies the filters exactly once, with and without relative_percentages *)
    let tbl := gn i 4 in
    let '(err, p', msgs) := apply_focus (tbl_M tbl) (tbl_V tbl) uts p (units_of (gn i 3)) (cfg_of (gn i 2)) in
    TL (TS err :: obs_profile p')
  else TL [TS "bad-op"].

Definition eqv_C06 (i m o : term) : bool :=
  if String.eqb (gs (gn i 0)) "e2e" then eqv_e2e i m o else term_eqb m o.

Definition stages (tbl : term) := af_stages (tbl_M tbl) (tbl_V tbl) uts.
Definition spec_pipeline (tbl : term) := spec_apply_focus (tbl_M tbl) (tbl_V tbl) uts.

Definition all_rx_ok (tbl : term) (c : af_cfg) : bool :=
  let V := tbl_V tbl in
  (* a tag filter is in error only when it is NOT a numeric range and one of its comma pieces does not
     compile ("+10", "5kb:" are ranges and are never handed to the regexp compiler) *)
  let tag_ok := fun v => String.eqb v "" ||
    (let x := match cut_first "=" v with Some (_, x) => x | None => v end in
     match parse_tag_filter_range uts x with
     | Some _ => true
     | None => forallb V (split_on "," x)
     end) in
  rx_ok V (c_focus c) && rx_ok V (c_ignore c) && rx_ok V (c_hide c) && rx_ok V (c_show c) && rx_ok V (c_showfrom c)
  && rx_ok V (c_tagshow c) && rx_ok V (c_taghide c) && rx_ok V (c_prunefrom c)
  && tag_ok (c_tagfocus c) && tag_ok (c_tagignore c).

Definition spec_C06 (i o : term) : bool :=
  let op := gs (gn i 0) in
  if String.eqb op "e2e" then existsb (Z.eqb 900) (cls_e2e i) || spec_e2e i o else
  if String.eqb op "numunits" then term_eqb o (run_C06 i) else
  let p := profile_of (gn i 1) in
  let p' := with_obs p o 1 in
  if String.eqb op "names" then
    String.eqb (gs (gn o 0)) "ok" &&
    fsamples_eqb (fsamples p')
      (spec_name (tbl_M (gn i 6)) p (opt_s (gn i 2)) (opt_s (gn i 3)) (opt_s (gn i 4)) (opt_s (gn i 5)) (fsamples p))
  else if String.eqb op "showfrom" then
    String.eqb (gs (gn o 0)) "ok" &&
    fsamples_eqb (fsamples p') (spec_show_from (tbl_M (gn i 3)) p (opt_s (gn i 2)) (fsamples p))
  else if String.eqb op "tagsbyname" then
    String.eqb (gs (gn o 0)) "ok" &&
    fsamples_eqb (fsamples p') (spec_tags_by_name (tbl_M (gn i 4)) (opt_s (gn i 2)) (opt_s (gn i 3)) (fsamples p))
  else if String.eqb op "applyfocus" || String.eqb op "rawreport" then
    let c := cfg_of (gn i 2) in
    if String.eqb (gs (gn o 0)) "" then
      fsamples_eqb (fsamples p') (spec_pipeline (gn i 4) p (units_of (gn i 3)) c)
    else negb (all_rx_ok (gn i 4) c)   (* an error is reported only for an expression that does not compile *)
  else false.

Definition cls_C06 (i : term) : list Z :=
  let op := gs (gn i 0) in
  if String.eqb op "e2e" then cls_e2e i else
  let p := profile_of (gn i 1) in
  if String.eqb op "names" then
    let M := tbl_M (gn i 6) in
    (if in_F16 p (opt_s (gn i 2)) (opt_s (gn i 3)) (opt_s (gn i 4)) (opt_s (gn i 5)) then [16] else [])
    ++ (if in_F24 M p (opt_s (gn i 5)) then [24] else [])
  else if String.eqb op "showfrom" then
    if in_F25 (tbl_M (gn i 3)) p (opt_s (gn i 2)) then [25] else []
  else if String.eqb op "applyfocus" || String.eqb op "rawreport" then
    let tbl := gn i 4 in let M := tbl_M tbl in
    let c := cfg_of (gn i 2) in
    if negb (all_rx_ok tbl c) then [] else
    let '(p1, p4) := stages tbl p (units_of (gn i 3)) c in
    (if in_F16 p (opt_rx (c_focus c)) (opt_rx (c_ignore c)) (opt_rx (c_hide c)) (opt_rx (c_show c)) then [16] else [])
    ++ (if in_F24 M p (opt_rx (c_show c)) then [24] else [])
    ++ (if in_F25 M p1 (opt_rx (c_showfrom c)) then [25] else [])
    ++ (match opt_rx (c_prunefrom c) with Some re => if in_F15 M p4 re then [15] else [] | None => [] end)
  else [].

Definition judge_C06 := judge_all run_C06 eqv_C06 spec_C06 cls_C06 0%Z.
