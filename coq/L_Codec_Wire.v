(* Wire-level lemmas for C01/C02: varint and field round trips, decoding a concatenation of
   encoded fields applies the per-field decoders left to right, fuel always suffices. *)
From Coq Require Import Lia ZifyBool.
From PV Require Import M_Codec.
Open Scope string_scope.
Open Scope list_scope.
Open Scope Z_scope.

Ltac Zify.zify_post_hook ::= Z.div_mod_to_equations.

Lemma two64_val : two64 = 2 ^ 64. Proof. reflexivity. Qed.

(* ---------- varint ---------- *)
Lemma decode_varint_go_encode :
  forall f x shift acc rest fuel,
    0 <= x < 2 ^ (7 * (Z.of_nat f + 1)) -> (f < fuel)%nat ->
    0 <= shift -> 0 <= acc -> acc + x * 2 ^ shift < two64 ->
    decode_varint_go fuel shift acc (encode_varint_fuel f x ++ rest) = Ok (acc + x * 2 ^ shift, rest).
Proof.
  induction f as [|f IH]; intros x shift acc rest fuel Hx Hf Hs Ha Hb;
    (destruct fuel as [|fuel]; [lia|]); cbn [encode_varint_fuel].
  - assert (X : x < 128) by (change (2 ^ (7 * (Z.of_nat 0 + 1))) with 128 in Hx; lia).
    assert (P : 0 < 2 ^ shift) by (apply Z.pow_pos_nonneg; lia).
    replace (x mod 256) with x by lia.
    cbn [app decode_varint_go].
    replace (x mod 128) with x by lia.
    rewrite Z.mod_small by nia.
    replace (x <? 128) with true by lia. reflexivity.
  - assert (P : 0 < 2 ^ shift) by (apply Z.pow_pos_nonneg; lia).
    destruct (Z.ltb_spec x 128) as [X|X].
    + cbn [app decode_varint_go].
      replace (x mod 128) with x by lia.
      rewrite Z.mod_small by nia.
      replace (x <? 128) with true by lia. reflexivity.
    + cbn [app decode_varint_go].
      replace ((x mod 128 + 128) mod 128) with (x mod 128) by lia.
      replace (x mod 128 + 128 <? 128) with false by lia.
      assert (E : 2 ^ (shift + 7) = 2 ^ shift * 128) by (rewrite Z.pow_add_r by lia; reflexivity).
      assert (D : x = 128 * (x / 128) + x mod 128) by lia.
      assert (Q : x mod 128 * 2 ^ shift + (x / 128) * 2 ^ (shift + 7) = x * 2 ^ shift) by (rewrite E; nia).
      rewrite Z.mod_small by nia.
      rewrite IH.
      * f_equal. f_equal. lia.
      * split; [lia|].
        replace (7 * (Z.of_nat (S f) + 1)) with (7 * (Z.of_nat f + 1) + 7) in Hx by lia.
        rewrite Z.pow_add_r in Hx by lia. change (2 ^ 7) with 128 in Hx. lia.
      * lia.
      * lia.
      * nia.
      * rewrite <- Z.add_assoc, Q. exact Hb.
Qed.

Lemma varint_roundtrip_lemma x rest :
  0 <= x < two64 -> decode_varint (encode_varint x ++ rest) = Ok (x, rest).
Proof.
  intros H. unfold decode_varint, encode_varint.
  rewrite (decode_varint_go_encode 9 x 0 0 rest 10).
  - f_equal. f_equal. change (2 ^ 0) with 1. lia.
  - change (2 ^ (7 * (Z.of_nat 9 + 1))) with (2 ^ 70). rewrite two64_val in H.
    assert (2 ^ 64 < 2 ^ 70) by reflexivity. lia.
  - lia.
  - lia.
  - lia.
  - change (2 ^ 0) with 1. lia.
Qed.

Lemma encode_varint_fuel_length f x : (1 <= List.length (encode_varint_fuel f x) <= S f)%nat.
Proof.
  revert x. induction f as [|f IH]; intros x; cbn [encode_varint_fuel].
  - simpl. lia.
  - destruct (x <? 128); simpl; [lia|]. specialize (IH (x / 128)). lia.
Qed.

Lemma encode_varint_length x : (1 <= List.length (encode_varint x) <= 10)%nat.
Proof. apply encode_varint_fuel_length. Qed.

Lemma encode_varint_nonempty x : encode_varint x <> [].
Proof. pose proof (encode_varint_length x). destruct (encode_varint x); [simpl in *; lia|discriminate]. Qed.

(* every byte an encoder emits is a byte *)
Definition is_byte (b : Z) : Prop := 0 <= b < 256.
Lemma encode_varint_fuel_bytes f x : 0 <= x -> Forall is_byte (encode_varint_fuel f x).
Proof.
  revert x. induction f as [|f IH]; intros x Hx; cbn [encode_varint_fuel].
  - constructor; [unfold is_byte; lia|constructor].
  - destruct (Z.ltb_spec x 128).
    + constructor; [unfold is_byte; lia|constructor].
    + constructor; [unfold is_byte; lia|]. apply IH. lia.
Qed.

(* ---------- fields ---------- *)
Definition enc_field (fd : field) : bytes :=
  match fd with
  | (t, WVarint u) => encode_uint64 t u
  | (t, WBytes b) => encode_bytes t b
  | (_, _) => []
  end.

Definition two61 : Z := 2305843009213693952.

Definition wf_field (fd : field) : Prop :=
  0 <= fst fd < two61 /\
  match snd fd with
  | WVarint u => 0 <= u < two64
  | WBytes b => len b < two64
  | _ => False
  end.

Lemma len_nonneg {A} (l : list A) : 0 <= len l. Proof. unfold len. lia. Qed.
Lemma len_app {A} (a b : list A) : len (a ++ b) = len a + len b.
Proof. unfold len. rewrite app_length. lia. Qed.

Lemma slice_to_app site (b rest : bytes) : slice_to site (len b) (b ++ rest) = Ok b.
Proof.
  unfold slice_to. rewrite len_app. pose proof (len_nonneg b). pose proof (len_nonneg rest).
  replace ((0 <=? len b) && (len b <=? len b + len rest)) with true by lia.
  unfold len. rewrite Nat2Z.id, firstn_app, Nat.sub_diag, firstn_all. simpl. rewrite app_nil_r. reflexivity.
Qed.

Lemma slice_from_app site (b rest : bytes) : slice_from site (len b) (b ++ rest) = Ok rest.
Proof.
  unfold slice_from. rewrite len_app. pose proof (len_nonneg b). pose proof (len_nonneg rest).
  replace ((0 <=? len b) && (len b <=? len b + len rest)) with true by lia.
  unfold len. rewrite Nat2Z.id, skipn_app, Nat.sub_diag, skipn_all. reflexivity.
Qed.

Lemma decode_field_enc fd rest : wf_field fd -> decode_field (enc_field fd ++ rest) = Ok (fd, rest).
Proof.
  destruct fd as [t w]. intros [Ht Hw]. cbn [fst snd] in *. unfold two61 in Ht.
  destruct w as [u| |b|]; try contradiction; cbn [enc_field].
  - unfold encode_uint64, enc_key, decode_field. rewrite <- !app_assoc.
    rewrite varint_roundtrip_lemma by (rewrite two64_val; change (2 ^ 64) with 18446744073709551616; lia).
    cbn [bind]. replace ((t * 8 + 0) mod 8 =? 0) with true by lia.
    rewrite varint_roundtrip_lemma by exact Hw. cbn [bind].
    replace ((t * 8 + 0) / 8) with t by lia. reflexivity.
  - unfold encode_bytes, encode_length, enc_key, decode_field. rewrite <- !app_assoc.
    rewrite varint_roundtrip_lemma by (rewrite two64_val; change (2 ^ 64) with 18446744073709551616; lia).
    cbn [bind].
    replace ((t * 8 + 2) mod 8 =? 0) with false by lia.
    replace ((t * 8 + 2) mod 8 =? 1) with false by lia.
    replace ((t * 8 + 2) mod 8 =? 2) with true by lia.
    pose proof (len_nonneg b).
    rewrite varint_roundtrip_lemma by lia. cbn [bind].
    rewrite len_app. pose proof (len_nonneg rest).
    replace (len b + len rest <? len b) with false by lia.
    rewrite slice_to_app, slice_from_app. cbn [bind].
    replace ((t * 8 + 2) / 8) with t by lia. reflexivity.
Qed.

Lemma enc_field_nonempty fd : wf_field fd -> enc_field fd <> [].
Proof.
  destruct fd as [t w]. intros [_ Hw]. cbn [snd] in Hw.
  destruct w as [u| |b|]; try contradiction; cbn [enc_field];
    unfold encode_uint64, encode_bytes, encode_length, enc_key;
    pose proof (encode_varint_nonempty (t * 8 + 0)); pose proof (encode_varint_nonempty (t * 8 + 2));
    destruct (encode_varint (t * 8 + 0)); destruct (encode_varint (t * 8 + 2)); try congruence; discriminate.
Qed.

(* decoding the concatenation of encoded fields = folding the field decoder over the fields *)
Lemma decode_loop_fields {S} (app_ : S -> field -> res S) :
  forall fs s fuel,
    Forall wf_field fs -> (List.length (flat_map enc_field fs) <= fuel)%nat ->
    decode_loop fuel app_ (flat_map enc_field fs) s = fold_res app_ fs s.
Proof.
  induction fs as [|fd fs IH]; intros s fuel Hwf Hfuel.
  - destruct fuel; reflexivity.
  - inversion Hwf as [|? ? Hfd Hfs]; subst.
    cbn [flat_map fold_res] in *.
    pose proof (enc_field_nonempty fd Hfd) as NE.
    destruct (enc_field fd) as [|b0 bs] eqn:E; [congruence|].
    rewrite app_length in Hfuel. cbn [List.length] in Hfuel.
    destruct fuel as [|fuel]; [lia|].
    cbn [app decode_loop]. change (b0 :: bs ++ flat_map enc_field fs) with ((b0 :: bs) ++ flat_map enc_field fs).
    rewrite <- E, decode_field_enc by exact Hfd. cbn [bind].
    destruct (app_ s fd) as [s'|c|c]; cbn [bind]; try reflexivity.
    apply IH; [exact Hfs|lia].
Qed.

Lemma decode_message_fields {S} (app_ : S -> field -> res S) fs s :
  Forall wf_field fs -> decode_message app_ (flat_map enc_field fs) s = fold_res app_ fs s.
Proof. intros H. unfold decode_message. apply decode_loop_fields; [exact H|lia]. Qed.

(* ---------- packed lists ---------- *)
Lemma decode_varints_encode xs : forall fuel,
  Forall (fun x => 0 <= x < two64) xs -> (List.length (flat_map encode_varint xs) <= fuel)%nat ->
  decode_varints fuel (flat_map encode_varint xs) = Ok xs.
Proof.
  induction xs as [|x xs IH]; intros fuel Hx Hf.
  - destruct fuel; reflexivity.
  - inversion Hx as [|? ? H1 H2]; subst. cbn [flat_map] in *.
    pose proof (encode_varint_nonempty x) as NE.
    destruct (encode_varint x) as [|b0 bs] eqn:E; [congruence|].
    rewrite app_length in Hf. cbn [List.length] in Hf.
    destruct fuel as [|fuel]; [lia|].
    cbn [app decode_varints]. change (b0 :: bs ++ flat_map encode_varint xs) with ((b0 :: bs) ++ flat_map encode_varint xs).
    rewrite <- E, varint_roundtrip_lemma by exact H1. cbn [bind].
    rewrite IH; [reflexivity|exact H2|lia].
Qed.
