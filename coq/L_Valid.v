(* C02 lemmas: CheckValid establishes the validity contract on anything whose references resolve
   through the tables; postDecode only produces such profiles; ParseData gates every path. *)
From Coq Require Import Lia ZifyBool.
From PV Require Import M_Codec M_Valid S_Valid L_Codec_Total.
Open Scope string_scope.
Open Scope list_scope.
Open Scope Z_scope.

Lemma first_dup_or_zero_spec : forall ids seen,
  first_dup_or_zero ids seen = false ->
  NoDup ids /\ ~ In 0 ids /\ forall x, In x ids -> ~ In x seen.
Proof.
  induction ids as [|id r IH]; intros seen H; cbn [first_dup_or_zero] in H.
  - split; [constructor|]. split; [intros []|intros x []].
  - apply orb_false_iff in H as [H H3]. apply orb_false_iff in H as [H1 H2].
    destruct (IH _ H3) as (ND & NZ & NS).
    assert (NI : ~ In id seen).
    { intros I. assert (existsb (Z.eqb id) seen = true) by (apply existsb_exists; exists id; split; [exact I|apply Z.eqb_refl]). congruence. }
    split; [constructor; [|exact ND]|split].
    + intros I. apply (NS id I). now left.
    + intros [E|I]; [lia|exact (NZ I)].
    + intros x [<-|I]; [exact NI|]. intros IS. apply (NS x I). now right.
Qed.

Lemma once_of_nodup id ids : NoDup ids -> In id ids -> once id ids.
Proof. intros ND I. unfold once. exact (proj1 (NoDup_count_occ' Z.eq_dec ids) ND id I). Qed.

Lemma check_valid_contract p : check_valid p = true -> refs_listed p -> contract p.
Proof.
  unfold check_valid. cbn zeta. intros H (RL1 & RL2).
  apply andb_true_iff in H as [H V6]. apply andb_true_iff in H as [H V5]. apply andb_true_iff in H as [H V4].
  apply andb_true_iff in H as [H V3]. apply andb_true_iff in H as [V1 V2].
  apply negb_true_iff in V3, V4, V5.
  destruct (first_dup_or_zero_spec _ _ V3) as (NDm & NZm & _).
  destruct (first_dup_or_zero_spec _ _ V4) as (NDf & NZf & _).
  destruct (first_dup_or_zero_spec _ _ V5) as (NDl & NZl & _).
  split.
  - intros s Hs. rewrite forallb_forall in V2. specialize (V2 s Hs). apply andb_true_iff in V2 as [A B].
    split; [apply Nat.eqb_eq, A|]. intros id Hid.
    destruct (RL1 s id Hs Hid) as [E|I].
    + exfalso. subst id. apply negb_true_iff in B.
      assert (existsb (Z.eqb (-1)) (s_loc s) = true) by (apply existsb_exists; exists (-1); split; [exact Hid|reflexivity]). congruence.
    + split; [intros ->; exact (NZl I)|apply once_of_nodup; assumption].
  - intros l Hl. destruct (RL2 l Hl) as [M F]. split.
    + destruct M as [M|M]; [left; exact M|right; apply once_of_nodup; assumption].
    + intros x Hx. rewrite forallb_forall in V6. specialize (V6 l Hl). rewrite forallb_forall in V6. specialize (V6 x Hx).
      destruct (F x Hx) as [E|I]; [rewrite E in V6; discriminate|].
      split; [intros E; rewrite E in V6; discriminate|apply once_of_nodup; assumption].
Qed.

(* ---------- postDecode resolves every reference through the tables ---------- *)
Lemma map_res_ok {A B} (f : A -> res B) : forall l r, map_res f l = Ok r -> Forall2 (fun a b => f a = Ok b) l r.
Proof.
  induction l as [|a l IH]; intros r H; cbn [map_res] in H.
  - inversion H. constructor.
  - destruct (f a) as [b|c|c] eqn:E; cbn [bind] in H; try discriminate.
    destruct (map_res f l) as [bs|c|c] eqn:E2; cbn [bind] in H; try discriminate.
    inversion H; subst. constructor; [exact E|apply IH; reflexivity].
Qed.

Lemma Forall2_map_eq {A B C} (R : A -> B -> Prop) (f : A -> C) (g : B -> C) l r :
  Forall2 R l r -> (forall a b, R a b -> f a = g b) -> map f l = map g r.
Proof. induction 1; intros H'; cbn [map]; [reflexivity|]. f_equal; auto. Qed.

Lemma defined_id_cases ids id : defined_id ids id = 0 \/ In (defined_id ids id) ids.
Proof.
  unfold defined_id. destruct (existsb (Z.eqb id) ids) eqn:E; [right|left; reflexivity].
  apply existsb_exists in E as (x & Hx & Ex). apply Z.eqb_eq in Ex. subst x. exact Hx.
Qed.

Lemma post_decode_refs_listed r p : post_decode r = Ok p -> refs_listed p.
Proof.
  unfold post_decode. intros H.
  destruct (map_res (post_mapping (rp_strings r)) (rp_mapping r)) as [ms|c|c] eqn:EM; cbn [bind] in H; try discriminate.
  destruct (map_res (post_function (rp_strings r)) (rp_function r)) as [fs|c|c] eqn:EF; cbn [bind] in H; try discriminate.
  destruct (map_res (post_valuetype (rp_strings r)) (rp_sampletype r)) as [sts|c|c] eqn:ES; cbn [bind] in H; try discriminate.
  destruct (map_res (post_sample (rp_strings r) (map rloc_id (rp_location r))) (rp_sample r)) as [ss|c|c] eqn:ESS; cbn [bind] in H; try discriminate.
  destruct (get_string (rp_strings r) (rp_dropframes r)) as [df|c|c]; cbn [bind] in H; try discriminate.
  destruct (get_string (rp_strings r) (rp_keepframes r)) as [kf|c|c]; cbn [bind] in H; try discriminate.
  destruct (post_valuetype (rp_strings r) _) as [pt|c|c]; cbn [bind] in H; try discriminate.
  destruct (map_res (get_string (rp_strings r)) (rp_comment r)) as [cs|c|c]; cbn [bind] in H; try discriminate.
  destruct (get_string (rp_strings r) (rp_defaultst r)) as [dst|c|c]; cbn [bind] in H; try discriminate.
  destruct (get_string (rp_strings r) (rp_docurl r)) as [du|c|c]; cbn [bind] in H; try discriminate.
  inversion H; subst p. clear H.
  assert (MID : map rm_id (rp_mapping r) = map m_id ms).
  { apply (Forall2_map_eq _ _ _ _ _ (map_res_ok _ _ _ EM)). intros a b Hab. unfold post_mapping in Hab.
    destruct (get_string _ (rm_file a)); cbn [bind] in Hab; try discriminate.
    destruct (get_string _ (rm_buildid a)); cbn [bind] in Hab; try discriminate. inversion Hab. reflexivity. }
  assert (FID : map rf_id (rp_function r) = map f_id fs).
  { apply (Forall2_map_eq _ _ _ _ _ (map_res_ok _ _ _ EF)). intros a b Hab. unfold post_function in Hab.
    destruct (get_string _ (rf_name a)); cbn [bind] in Hab; try discriminate.
    destruct (get_string _ (rf_sysname a)); cbn [bind] in Hab; try discriminate.
    destruct (get_string _ (rf_file a)); cbn [bind] in Hab; try discriminate. inversion Hab. reflexivity. }
  unfold refs_listed. cbn [p_sample p_location p_mapping p_function].
  rewrite map_map. cbn [l_id post_location].
  split.
  - intros s id Hs Hid.
    pose proof (map_res_ok _ _ _ ESS) as F2.
    assert (X : exists rs, post_sample (rp_strings r) (map rloc_id (rp_location r)) rs = Ok s).
    { clear - F2 Hs. induction F2 as [|a b l l' Hab _ IH]; [destruct Hs|]. destruct Hs as [<-|Hs]; eauto. }
    destruct X as (rs & Hrs). unfold post_sample in Hrs.
    destruct (fold_res _ _ _) as [g|c|c]; cbn [bind] in Hrs; try discriminate. inversion Hrs; subst s. cbn [s_loc] in Hid.
    apply in_map_iff in Hid as (x & <- & _).
    destruct (existsb (Z.eqb x) (map rloc_id (rp_location r))) eqn:E; [right|left; reflexivity].
    apply existsb_exists in E as (y & Hy & Ey). apply Z.eqb_eq in Ey. subst y. exact Hy.
  - intros l Hl. apply in_map_iff in Hl as (rl & <- & _). cbn [l_mapping l_lines post_location].
    rewrite <- MID, <- FID. split; [apply defined_id_cases|].
    intros x Hx. apply in_map_iff in Hx as (y & <- & _). cbn [ln_fn].
    destruct (rln_fn y =? 0); [left; reflexivity|apply defined_id_cases].
Qed.

(* ---------- ParseData ---------- *)
Section PD.
  Variable gunzip : bytes -> res bytes.
  Variable legacy : bytes -> res profile.

  Lemma parse_data_gated data p : parse_data gunzip legacy data = Ok p -> check_valid p = true.
  Proof.
    unfold parse_data. intros H.
    destruct (if is_gzip data then _ else Ok data) as [d|c|c]; cbn [bind] in H; try discriminate.
    destruct (match parse_uncompressed d with Ok p0 => Ok p0 | Err c => _ | Panic s => Panic s end) as [q|c|c];
      cbn [bind] in H; try discriminate.
    destruct (check_valid q) eqn:E; [|discriminate]. inversion H; subst. exact E.
  Qed.

  Lemma parse_data_contract data p :
    (forall d q, legacy d = Ok q -> refs_listed q) ->
    parse_data gunzip legacy data = Ok p -> contract p.
  Proof.
    intros HL H. pose proof (parse_data_gated _ _ H) as CV. apply check_valid_contract; [exact CV|].
    unfold parse_data in H.
    destruct (if is_gzip data then _ else Ok data) as [d|c|c]; cbn [bind] in H; try discriminate.
    destruct (parse_uncompressed d) as [q|c|c] eqn:EP; cbn [bind] in H.
    - destruct (check_valid q); [|discriminate]. inversion H; subst q.
      unfold parse_uncompressed in EP. destruct d; [discriminate|].
      destruct (unmarshal _) as [r|c|c]; cbn [bind] in EP; try discriminate.
      eapply post_decode_refs_listed; eauto.
    - destruct ((c =? e_nodata) || (c =? e_concat)); cbn [bind] in H; [discriminate|].
      destruct (legacy d) as [q|c'|c'] eqn:EL; cbn [bind] in H; try discriminate.
      destruct (check_valid q); [|discriminate]. inversion H; subst q. eapply HL; eauto.
    - discriminate.
  Qed.

  Lemma parse_data_total data : (forall d, no_panic (legacy d)) -> no_panic (parse_data gunzip legacy data).
  Proof.
    intros HL. unfold parse_data.
    assert (N1 : no_panic (if is_gzip data then match gunzip data with Ok d => Ok d | _ => Err e_generic end else Ok data)).
    { destruct (is_gzip data); [destruct (gunzip data)|]; exact I. }
    destruct (if is_gzip data then _ else Ok data) as [d|c|c]; cbn [bind]; try exact I; try exact N1.
    pose proof (parse_uncompressed_total d) as N2.
    destruct (parse_uncompressed d) as [q|c|c]; cbn [bind]; try exact N2.
    - destruct (check_valid q); exact I.
    - destruct ((c =? e_nodata) || (c =? e_concat)); cbn [bind]; [exact I|].
      pose proof (HL d) as N3. destruct (legacy d); cbn [bind]; try exact I; try exact N3.
      destruct (check_valid a); exact I.
  Qed.
End PD.
