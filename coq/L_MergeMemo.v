(* The per-source memo tables of profileMerger are pure memoisation: the model with them
   (M_MergeMemo) and the model without them (M_Merge) compute the same result for every input.
   Two facts about the un-memoised functions carry the proof: recomputing after the state has grown
   returns the same answer without changing the state (stability), and recomputing right after the
   first computation does too (idempotence). *)
From Coq Require Import List ZArith Lia Bool String.
From PV Require Import M_Merge S_Merge L_Assoc L_Merge M_MergeMemo.
Import ListNotations.
Open Scope Z_scope.
Open Scope list_scope.

(* ------------------------------------------------------------------ the tables never shrink *)
Definition size (st : profile) : nat :=
  (List.length (p_function st) + List.length (p_mapping st) + List.length (p_location st))%nat.

Lemma fn_rec_step : forall st f st' g, map_function_rec st f = (st', g) -> st' = st \/ (size st < size st')%nat.
Proof.
  intros st f st' g H. unfold map_function_rec in H. destruct (find _ _); inversion H; subst; [left; reflexivity|].
  right. unfold size. cbn. rewrite app_length. cbn. lia.
Qed.
Lemma mp_rec_step : forall st m st' r, map_mapping_rec st m = (st', r) -> st' = st \/ (size st < size st')%nat.
Proof.
  intros st m st' r H. unfold map_mapping_rec in H. destruct (find _ _); inversion H; subst; [left; reflexivity|].
  right. unfold size. cbn. rewrite app_length. cbn. lia.
Qed.
Lemma fn_step : forall st src fid st' g, map_function st src fid = (st', g) -> st' = st \/ (size st < size st')%nat.
Proof.
  intros st src fid st' g H. unfold map_function in H.
  destruct (lookup_fn src fid); [eapply fn_rec_step; eauto | inversion H; auto].
Qed.
Lemma mp_step : forall st src mid st' r, map_mapping st src mid = (st', r) -> st' = st \/ (size st < size st')%nat.
Proof.
  intros st src mid st' r H. unfold map_mapping in H.
  destruct (lookup_map src mid); [eapply mp_rec_step; eauto | inversion H; auto].
Qed.
Lemma lines_step : forall src lns st st' r, map_lines st src lns = (st', r) -> st' = st \/ (size st < size st')%nat.
Proof.
  intros src. induction lns as [|ln lns IH]; intros st st' r H; cbn [map_lines] in H.
  - inversion H; auto.
  - destruct (map_function st src (ln_fn ln)) as [st1 fid] eqn:E1.
    destruct (map_lines st1 src lns) as [st2 r'] eqn:E2. inversion H; subst.
    destruct (fn_step _ _ _ _ _ E1) as [->|L1]; destruct (IH _ _ _ E2) as [->|L2]; auto; right; lia.
Qed.
Lemma loc_rec_step : forall st src l st' g, map_location_rec st src l = (st', g) -> st' = st \/ (size st < size st')%nat.
Proof.
  intros st src l st' g H. unfold map_location_rec in H.
  destruct (map_mapping st src (l_mapping l)) as [st1 [mid off]] eqn:E1.
  destruct (map_lines st1 src (l_lines l)) as [st2 lines] eqn:E2.
  assert (X : st2 = st \/ (size st < size st2)%nat).
  { destruct (mp_step _ _ _ _ _ E1) as [->|L1]; destruct (lines_step _ _ _ _ _ E2) as [->|L2]; auto; right; lia. }
  match type of H with context [find ?f ?l] => destruct (find f l) end; inversion H; subst; [exact X|].
  right. unfold size in *. cbn. rewrite app_length. cbn. destruct X as [->|X]; lia.
Qed.
Lemma loc_step : forall st src lid st' g, map_location st src lid = (st', g) -> st' = st \/ (size st < size st')%nat.
Proof.
  intros st src lid st' g H. unfold map_location in H.
  destruct (lookup_loc src lid); [eapply loc_rec_step; eauto | inversion H; auto].
Qed.
Lemma locs_step : forall src ids st st' r, map_locs st src ids = (st', r) -> st' = st \/ (size st < size st')%nat.
Proof.
  intros src. induction ids as [|id ids IH]; intros st st' r H; cbn [map_locs] in H.
  - inversion H; auto.
  - destruct (map_location st src id) as [st1 id'] eqn:E1.
    destruct (map_locs st1 src ids) as [st2 r'] eqn:E2. inversion H; subst.
    destruct (loc_step _ _ _ _ _ E1) as [->|L1]; destruct (IH _ _ _ E2) as [->|L2]; auto; right; lia.
Qed.

(* ------------------------------------------------------------------ functions and mappings *)
Lemma fn_rec_same_found : forall st f g, map_function_rec st f = (st, g) ->
  exists g0, find (fun x => fkey_eqb (fkey_of x) (fkey_of f)) (p_function st) = Some g0 /\ g = f_id g0.
Proof.
  intros st f g H. unfold map_function_rec in H.
  destruct (find _ _) as [g0|] eqn:E.
  - exists g0. split; [reflexivity|]. congruence.
  - exfalso. assert (H1 : p_function (fst (with_function st (p_function st ++ [new_function (next_id (p_function st)) f]), g)) = p_function (fst (st, g))) by (rewrite <- H; reflexivity).
    cbn in H1. apply (f_equal (@List.length _)) in H1. rewrite app_length in H1. cbn in H1. lia.
Qed.

Lemma fn_rec_stable : forall st st' f g,
  ext st st' -> map_function_rec st f = (st, g) -> map_function_rec st' f = (st', g).
Proof.
  intros st st' f g [[a Ha] _ _] H. destruct (fn_rec_same_found _ _ _ H) as [g0 [F ->]].
  unfold map_function_rec. rewrite Ha, (find_app_some _ _ a _ F). reflexivity.
Qed.

Lemma fn_rec_idem : forall st f st' g, map_function_rec st f = (st', g) -> map_function_rec st' f = (st', g).
Proof.
  intros st f st' g H. unfold map_function_rec in H.
  destruct (find (fun x => fkey_eqb (fkey_of x) (fkey_of f)) (p_function st)) as [g0|] eqn:E; inversion H; subst.
  - unfold map_function_rec. rewrite E. reflexivity.
  - unfold map_function_rec. cbn [p_function with_function]. rewrite (find_app_none _ _ _ E). cbn [find].
    replace (fkey_eqb (fkey_of (new_function (next_id (p_function st)) f)) (fkey_of f)) with true
      by (symmetry; apply fkey_eqb_spec; reflexivity).
    reflexivity.
Qed.

Lemma mp_rec_same_found : forall st m r, map_mapping_rec st m = (st, r) ->
  exists g0, find (fun x => mkey_eqb (mkey_of x) (mkey_of m)) (p_mapping st) = Some g0 /\
             r = (m_id g0, wrap_i64 (m_start g0 - m_start m)).
Proof.
  intros st m r H. unfold map_mapping_rec in H.
  destruct (find _ _) as [g0|] eqn:E.
  - exists g0. split; [reflexivity|]. congruence.
  - exfalso. assert (H1 : p_mapping (fst (with_mapping st (p_mapping st ++ [new_mapping (next_id (p_mapping st)) m]), r)) = p_mapping (fst (st, r))) by (rewrite <- H; reflexivity).
    cbn in H1. apply (f_equal (@List.length _)) in H1. rewrite app_length in H1. cbn in H1. lia.
Qed.

Lemma mp_rec_stable : forall st st' m r,
  ext st st' -> map_mapping_rec st m = (st, r) -> map_mapping_rec st' m = (st', r).
Proof.
  intros st st' m r [_ [a Ha] _] H. destruct (mp_rec_same_found _ _ _ H) as [g0 [F ->]].
  unfold map_mapping_rec. rewrite Ha, (find_app_some _ _ a _ F). reflexivity.
Qed.

Lemma mp_rec_idem : forall st m st' r, map_mapping_rec st m = (st', r) -> map_mapping_rec st' m = (st', r).
Proof.
  intros st m st' r H. unfold map_mapping_rec in H.
  destruct (find (fun x => mkey_eqb (mkey_of x) (mkey_of m)) (p_mapping st)) as [g0|] eqn:E; inversion H; subst.
  - unfold map_mapping_rec. rewrite E. reflexivity.
  - unfold map_mapping_rec. cbn [p_mapping with_mapping]. rewrite (find_app_none _ _ _ E). cbn [find].
    replace (mkey_eqb (mkey_of (new_mapping (next_id (p_mapping st)) m)) (mkey_of m)) with true
      by (symmetry; apply mkey_eqb_spec; reflexivity).
    cbn [m_id m_start new_mapping]. rewrite Z.sub_diag. reflexivity.
Qed.

Lemma fn_stable : forall st st' src fid g,
  ext st st' -> map_function st src fid = (st, g) -> map_function st' src fid = (st', g).
Proof.
  intros st st' src fid g He H. unfold map_function in *.
  destruct (lookup_fn src fid); [eapply fn_rec_stable; eauto | inversion H; reflexivity].
Qed.
Lemma fn_idem : forall st src fid st' g, map_function st src fid = (st', g) -> map_function st' src fid = (st', g).
Proof.
  intros st src fid st' g H. unfold map_function in *.
  destruct (lookup_fn src fid); [eapply fn_rec_idem; eauto | inversion H; reflexivity].
Qed.
Lemma mp_stable : forall st st' src mid r,
  ext st st' -> map_mapping st src mid = (st, r) -> map_mapping st' src mid = (st', r).
Proof.
  intros st st' src mid r He H. unfold map_mapping in *.
  destruct (lookup_map src mid); [eapply mp_rec_stable; eauto | inversion H; reflexivity].
Qed.
Lemma mp_idem : forall st src mid st' r, map_mapping st src mid = (st', r) -> map_mapping st' src mid = (st', r).
Proof.
  intros st src mid st' r H. unfold map_mapping in *.
  destruct (lookup_map src mid); [eapply mp_rec_idem; eauto | inversion H; reflexivity].
Qed.

(* ------------------------------------------------------------------ lines *)
Lemma lines_stable : forall src lns st st' r,
  ext st st' -> map_lines st src lns = (st, r) -> map_lines st' src lns = (st', r).
Proof.
  intros src. induction lns as [|ln lns IH]; intros st st' r He H; cbn [map_lines] in *.
  - inversion H; reflexivity.
  - destruct (map_function st src (ln_fn ln)) as [st1 fid] eqn:E1.
    destruct (map_lines st1 src lns) as [st2 r'] eqn:E2. inversion H; subst.
    assert (st1 = st).
    { destruct (fn_step _ _ _ _ _ E1) as [->|L1]; [reflexivity|].
      destruct (lines_step _ _ _ _ _ E2) as [Q|L2]; [rewrite Q in L1; lia | lia]. }
    subst st1. rewrite (fn_stable _ _ _ _ _ He E1), (IH _ _ _ He E2). reflexivity.
Qed.

Lemma lines_idem : forall src lns st st' r,
  ok st -> map_lines st src lns = (st', r) -> map_lines st' src lns = (st', r).
Proof.
  intros src. induction lns as [|ln lns IH]; intros st st' r Hok H; cbn [map_lines] in *.
  - inversion H; reflexivity.
  - destruct (map_function st src (ln_fn ln)) as [st1 fid] eqn:E1.
    destruct (map_lines st1 src lns) as [st2 r'] eqn:E2. inversion H; subst.
    destruct (map_function_spec _ _ _ _ _ Hok E1) as (O1 & _).
    destruct (map_lines_spec _ _ _ _ _ O1 E2) as (_ & X2 & _).
    rewrite (fn_stable _ _ _ _ _ X2 (fn_idem _ _ _ _ _ E1)), (IH _ _ _ O1 E2). reflexivity.
Qed.

(* ------------------------------------------------------------------ locations *)
Lemma find_prefix_agree : forall {A} (p q : A -> bool) l a x,
  find q l = Some x -> (forall y, In y l -> p y = q y) -> find p (l ++ a) = Some x.
Proof.
  intros A p q l a x F H. apply find_app_some. rewrite (find_ext_pred p q l H). exact F.
Qed.

Lemma loc_rec_stable : forall st st' src l g,
  ok st -> ok st' -> ext st st' -> map_location_rec st src l = (st, g) -> map_location_rec st' src l = (st', g).
Proof.
  intros st st' src l g Hok Hok' He H. unfold map_location_rec in H.
  destruct (map_mapping st src (l_mapping l)) as [st1 [mid off]] eqn:E1.
  destruct (map_lines st1 src (l_lines l)) as [st2 lines] eqn:E2.
  destruct (map_mapping_spec _ _ _ _ _ _ Hok E1) as (O1 & _ & _ & _ & _ & I1 & _).
  destruct (map_lines_spec _ _ _ _ _ O1 E2) as (O2 & _ & _ & L2 & M2 & I2 & _).
  match type of H with context [find ?f ?l] => destruct (find f l) as [g0|] eqn:E end.
  - inversion H as [[H1 H2]]. subst st2.
    assert (st1 = st).
    { destruct (mp_step _ _ _ _ _ E1) as [->|L1]; [reflexivity|].
      destruct (lines_step _ _ _ _ _ E2) as [Q|L2']; [rewrite Q in L1; lia | lia]. }
    subst st1. unfold map_location_rec.
    rewrite (mp_stable _ _ _ _ _ He E1), (lines_stable _ _ _ _ _ He E2).
    set (l1 := {| l_id := next_id (p_location st); l_mapping := mid; l_addr := wrap_u64 (l_addr l + off);
                  l_lines := lines; l_folded := l_folded l |}) in *.
    set (l2 := {| l_id := next_id (p_location st'); l_mapping := mid; l_addr := wrap_u64 (l_addr l + off);
                  l_lines := lines; l_folded := l_folded l |}).
    assert (R1 : loc_refs_ok st l1) by (split; assumption).
    assert (K : lkey_of st' l2 = lkey_of st l1).
    { change (lkey_of st' l2) with (lkey_of st' l1). apply lkey_ext; assumption. }
    pose proof He as [_ _ [a Ha]]. rewrite Ha.
    rewrite (find_prefix_agree _ (fun g1 => lkey_eqb (lkey_of st g1) (lkey_of st l1)) _ a g0 E).
    + reflexivity.
    + intros y Hy. rewrite K. rewrite (lkey_ext st st' y Hok He); [reflexivity|].
      pose proof (ok_refs _ Hok) as R. rewrite Forall_forall in R. exact (R y Hy).
  - exfalso. inversion H as [[H1 H2]].
    assert (X : p_location (with_location st2 (p_location st2 ++ [{| l_id := next_id (p_location st1); l_mapping := mid;
                 l_addr := wrap_u64 (l_addr l + off); l_lines := lines; l_folded := l_folded l |}])) = p_location st)
      by (rewrite H1; reflexivity).
    cbn in X. destruct (map_mapping_spec _ _ _ _ _ _ Hok E1) as (_ & _ & _ & A4 & _).
    rewrite L2, A4 in X. apply (f_equal (@List.length _)) in X. rewrite app_length in X. cbn in X. lia.
Qed.

Lemma loc_rec_idem : forall st src l st' g,
  ok st -> map_location_rec st src l = (st', g) -> map_location_rec st' src l = (st', g).
Proof.
  intros st src l st' g Hok H. unfold map_location_rec in H.
  destruct (map_mapping st src (l_mapping l)) as [st1 [mid off]] eqn:E1.
  destruct (map_lines st1 src (l_lines l)) as [st2 lines] eqn:E2.
  destruct (map_mapping_spec _ _ _ _ _ _ Hok E1) as (O1 & _).
  destruct (map_lines_spec _ _ _ _ _ O1 E2) as (O2 & X2 & _).
  match type of H with context [find ?f ?l] => destruct (find f l) as [g0|] eqn:E end; inversion H; subst; clear H.
  - unfold map_location_rec.
    rewrite (mp_stable _ _ _ _ _ X2 (mp_idem _ _ _ _ _ E1)), (lines_idem _ _ _ _ _ O1 E2).
    match goal with |- context [find ?ff ?ll] => change (find ff ll) with
      (find (fun g1 => lkey_eqb (lkey_of st' g1) (lkey_of st' {| l_id := next_id (p_location st1); l_mapping := mid;
         l_addr := wrap_u64 (l_addr l + off); l_lines := lines; l_folded := l_folded l |})) (p_location st')) end.
    rewrite E. reflexivity.
  - set (l1 := {| l_id := next_id (p_location st1); l_mapping := mid; l_addr := wrap_u64 (l_addr l + off);
                  l_lines := lines; l_folded := l_folded l |}) in *.
    set (st3 := with_location st2 (p_location st2 ++ [l1])).
    assert (X3 : ext st2 st3) by apply ext_with_location.
    unfold map_location_rec.
    rewrite (mp_stable _ _ _ _ _ (ext_trans _ _ _ X2 X3) (mp_idem _ _ _ _ _ E1)).
    rewrite (lines_stable _ _ _ _ _ X3 (lines_idem _ _ _ _ _ O1 E2)).
    match goal with |- context [find ?ff ?ll] => change (find ff ll) with
      (find (fun g1 => lkey_eqb (lkey_of st2 g1) (lkey_of st2 l1)) (p_location st2 ++ [l1])) end.
    rewrite (find_app_none _ _ _ E). cbn [find].
    replace (lkey_eqb (lkey_of st2 l1) (lkey_of st2 l1)) with true by (symmetry; apply lkey_eqb_spec; reflexivity).
    reflexivity.
Qed.

Lemma loc_stable : forall st st' src lid g,
  ok st -> ok st' -> ext st st' -> map_location st src lid = (st, g) -> map_location st' src lid = (st', g).
Proof.
  intros st st' src lid g O O' He H. unfold map_location in *.
  destruct (lookup_loc src lid) as [l|]; [exact (loc_rec_stable _ _ _ _ _ O O' He H) | inversion H; reflexivity].
Qed.
Lemma loc_idem : forall st src lid st' g,
  ok st -> map_location st src lid = (st', g) -> map_location st' src lid = (st', g).
Proof.
  intros st src lid st' g O H. unfold map_location in *.
  destruct (lookup_loc src lid) as [l|]; [exact (loc_rec_idem _ _ _ _ _ O H) | inversion H; reflexivity].
Qed.

Lemma locs_stable : forall src ids st st' r,
  ok st -> ok st' -> ext st st' -> map_locs st src ids = (st, r) -> map_locs st' src ids = (st', r).
Proof.
  intros src. induction ids as [|id ids IH]; intros st st' r O O' He H; cbn [map_locs] in *.
  - inversion H; reflexivity.
  - destruct (map_location st src id) as [st1 id'] eqn:E1.
    destruct (map_locs st1 src ids) as [st2 r'] eqn:E2. inversion H; subst.
    assert (st1 = st).
    { destruct (loc_step _ _ _ _ _ E1) as [->|L1]; [reflexivity|].
      destruct (locs_step _ _ _ _ _ E2) as [Q|L2]; [rewrite Q in L1; lia | lia]. }
    subst st1. rewrite (loc_stable _ _ _ _ _ O O' He E1), (IH _ _ _ O O' He E2). reflexivity.
Qed.

Lemma locs_idem : forall src ids st st' r,
  ok st -> map_locs st src ids = (st', r) -> map_locs st' src ids = (st', r).
Proof.
  intros src. induction ids as [|id ids IH]; intros st st' r O H; cbn [map_locs] in *.
  - inversion H; reflexivity.
  - destruct (map_location st src id) as [st1 id'] eqn:E1.
    destruct (map_locs st1 src ids) as [st2 r'] eqn:E2. inversion H; subst.
    destruct (map_location_spec _ _ _ _ _ O E1) as (O1 & _).
    destruct (map_locs_spec _ _ _ _ _ O1 E2) as (O2 & X2 & _).
    rewrite (loc_stable _ _ _ _ _ O1 O2 X2 (loc_idem _ _ _ _ _ O E1)), (IH _ _ _ O1 E2). reflexivity.
Qed.

(* ------------------------------------------------------------------ what a memo table promises *)
Record memo_ok (st : profile) (mm : memos) (src : profile) : Prop := {
  mo_fn : forall fid g f, zassoc fid (mm_fn mm) = Some g -> lookup_fn src fid = Some f ->
                          map_function_rec st f = (st, g);
  mo_mp : forall mid r m, zassoc mid (mm_mp mm) = Some r -> lookup_map src mid = Some m ->
                          map_mapping_rec st m = (st, r);
  mo_lc : forall lid g l, zassoc lid (mm_lc mm) = Some g -> lookup_loc src lid = Some l ->
                          map_location_rec st src l = (st, g)
}.

Lemma memo_ok_empty : forall st src, memo_ok st no_memos src.
Proof. intros. split; cbn; intros; discriminate. Qed.

Lemma memo_ok_ext : forall st st' mm src,
  ok st -> ok st' -> ext st st' -> memo_ok st mm src -> memo_ok st' mm src.
Proof.
  intros st st' mm src O O' He [M1 M2 M3]. split.
  - intros fid g f Z L. exact (fn_rec_stable _ _ _ _ He (M1 _ _ _ Z L)).
  - intros mid r m Z L. exact (mp_rec_stable _ _ _ _ He (M2 _ _ _ Z L)).
  - intros lid g l Z L. exact (loc_rec_stable _ _ _ _ _ O O' He (M3 _ _ _ Z L)).
Qed.

Lemma eq_function_m : forall st mm src fid st' mm' g,
  ok st -> memo_ok st mm src -> map_function_m st mm src fid = (st', mm', g) ->
  map_function st src fid = (st', g) /\ memo_ok st' mm' src.
Proof.
  intros st mm src fid st' mm' g O M H. unfold map_function_m in H. unfold map_function.
  destruct (lookup_fn src fid) as [f|] eqn:L; [|inversion H; subst; auto].
  destruct (zassoc fid (mm_fn mm)) as [g0|] eqn:Z.
  - inversion H; subst. split; [exact (mo_fn _ _ _ M _ _ _ Z L) | exact M].
  - destruct (map_function_rec st f) as [st1 g1] eqn:E. inversion H; subst. split; [reflexivity|].
    destruct (map_function_rec_spec _ _ _ _ O E) as (O1 & X1 & _).
    pose proof (memo_ok_ext _ _ _ _ O O1 X1 M) as [M1 M2 M3]. split; cbn [mm_fn mm_mp mm_lc add_fn]; auto.
    intros fid' g' f' Z' L'. cbn [zassoc] in Z'. destruct (fid' =? fid) eqn:Q.
    + apply Z.eqb_eq in Q. subst fid'. inversion Z'; subst. rewrite L in L'. inversion L'; subst.
      exact (fn_rec_idem _ _ _ _ E).
    + exact (M1 _ _ _ Z' L').
Qed.

Lemma eq_mapping_m : forall st mm src mid st' mm' r,
  ok st -> memo_ok st mm src -> map_mapping_m st mm src mid = (st', mm', r) ->
  map_mapping st src mid = (st', r) /\ memo_ok st' mm' src.
Proof.
  intros st mm src mid st' mm' r O M H. unfold map_mapping_m in H. unfold map_mapping.
  destruct (lookup_map src mid) as [m|] eqn:L; [|inversion H; subst; auto].
  destruct (zassoc mid (mm_mp mm)) as [r0|] eqn:Z.
  - inversion H; subst. split; [exact (mo_mp _ _ _ M _ _ _ Z L) | exact M].
  - destruct (map_mapping_rec st m) as [st1 r1] eqn:E. inversion H; subst. split; [reflexivity|].
    destruct r as [g off]. destruct (map_mapping_rec_spec _ _ _ _ _ O E) as (O1 & X1 & _).
    pose proof (memo_ok_ext _ _ _ _ O O1 X1 M) as [M1 M2 M3]. split; cbn [mm_fn mm_mp mm_lc add_mp]; auto.
    intros mid' r' m' Z' L'. cbn [zassoc] in Z'. destruct (mid' =? mid) eqn:Q.
    + apply Z.eqb_eq in Q. subst mid'. inversion Z'; subst. rewrite L in L'. inversion L'; subst.
      exact (mp_rec_idem _ _ _ _ E).
    + exact (M2 _ _ _ Z' L').
Qed.

Lemma eq_lines_m : forall src lns st mm st' mm' r,
  ok st -> memo_ok st mm src -> map_lines_m st mm src lns = (st', mm', r) ->
  map_lines st src lns = (st', r) /\ memo_ok st' mm' src.
Proof.
  intros src. induction lns as [|ln lns IH]; intros st mm st' mm' r O M H; cbn [map_lines_m map_lines] in *.
  - inversion H; subst. auto.
  - destruct (map_function_m st mm src (ln_fn ln)) as [[st1 mm1] fid] eqn:E1.
    destruct (map_lines_m st1 mm1 src lns) as [[st2 mm2] r'] eqn:E2. inversion H; subst.
    destruct (eq_function_m _ _ _ _ _ _ _ O M E1) as [Q1 M1]. rewrite Q1.
    destruct (map_function_spec _ _ _ _ _ O Q1) as (O1 & _).
    destruct (IH _ _ _ _ _ O1 M1 E2) as [Q2 M2]. rewrite Q2. auto.
Qed.

Lemma eq_location_m : forall st mm src lid st' mm' g,
  ok st -> memo_ok st mm src -> map_location_m st mm src lid = (st', mm', g) ->
  map_location st src lid = (st', g) /\ memo_ok st' mm' src.
Proof.
  intros st mm src lid st' mm' g O M H. unfold map_location_m in H. unfold map_location.
  destruct (lookup_loc src lid) as [l|] eqn:L; [|inversion H; subst; auto].
  destruct (zassoc lid (mm_lc mm)) as [g0|] eqn:Z.
  - inversion H; subst. split; [exact (mo_lc _ _ _ M _ _ _ Z L) | exact M].
  - destruct (map_mapping_m st mm src (l_mapping l)) as [[st1 mm1] [mid off]] eqn:E1.
    destruct (map_lines_m st1 mm1 src (l_lines l)) as [[st2 mm2] lines] eqn:E2.
    destruct (eq_mapping_m _ _ _ _ _ _ _ O M E1) as [Q1 M1].
    destruct (map_mapping_spec _ _ _ _ _ _ O Q1) as (O1 & _).
    destruct (eq_lines_m _ _ _ _ _ _ _ O1 M1 E2) as [Q2 M2].
    destruct (map_lines_spec _ _ _ _ _ O1 Q2) as (O2 & _).
    assert (R : map_location_rec st src l = (st', g)).
    { unfold map_location_rec. rewrite Q1, Q2.
      match type of H with context [find ?ff ?ll] => destruct (find ff ll) end; inversion H; subst; reflexivity. }
    split; [exact R|].
    destruct (map_location_rec_spec _ _ _ _ _ O R) as (O' & _).
    assert (X2 : ext st2 st').
    { match type of H with context [find ?ff ?ll] => destruct (find ff ll) end; inversion H; subst;
        [apply ext_refl | apply ext_with_location]. }
    pose proof (memo_ok_ext _ _ _ _ O2 O' X2 M2) as [N1 N2 N3].
    assert (MM : mm' = add_lc mm2 lid g).
    { match type of H with context [find ?ff ?ll] => destruct (find ff ll) end; inversion H; subst; reflexivity. }
    subst mm'. split; cbn [mm_fn mm_mp mm_lc add_lc]; auto.
    intros lid' g' l' Z' L'. cbn [zassoc] in Z'. destruct (lid' =? lid) eqn:Q.
    + apply Z.eqb_eq in Q. subst lid'. inversion Z'; subst. rewrite L in L'. inversion L'; subst.
      exact (loc_rec_idem _ _ _ _ _ O R).
    + exact (N3 _ _ _ Z' L').
Qed.

Lemma eq_locs_m : forall src ids st mm st' mm' r,
  ok st -> memo_ok st mm src -> map_locs_m st mm src ids = (st', mm', r) ->
  map_locs st src ids = (st', r) /\ memo_ok st' mm' src.
Proof.
  intros src. induction ids as [|id ids IH]; intros st mm st' mm' r O M H; cbn [map_locs_m map_locs] in *.
  - inversion H; subst. auto.
  - destruct (map_location_m st mm src id) as [[st1 mm1] id'] eqn:E1.
    destruct (map_locs_m st1 mm1 src ids) as [[st2 mm2] r'] eqn:E2. inversion H; subst.
    destruct (eq_location_m _ _ _ _ _ _ _ O M E1) as [Q1 M1]. rewrite Q1.
    destruct (map_location_spec _ _ _ _ _ O Q1) as (O1 & _).
    destruct (IH _ _ _ _ _ O1 M1 E2) as [Q2 M2]. rewrite Q2. auto.
Qed.

Lemma eq_sample_m : forall st mm src s st' mm',
  ok st -> memo_ok st mm src -> map_sample_m st mm src s = (st', mm') ->
  map_sample st src s = st' /\ memo_ok st' mm' src.
Proof.
  intros st mm src s st' mm' O M H. unfold map_sample_m in H. unfold map_sample.
  destruct (map_locs_m st mm src (s_loc s)) as [[st1 mm1] locs] eqn:E1.
  destruct (eq_locs_m _ _ _ _ _ _ _ O M E1) as [Q1 M1]. rewrite Q1.
  destruct (map_locs_spec _ _ _ _ _ O Q1) as (O1 & _).
  destruct (map_sample_spec st src s O) as (O' & _). unfold map_sample in O'. rewrite Q1 in O'.
  destruct (existsb _ (p_sample st1)) eqn:Ex.
  - inversion H; subst. split; [reflexivity|].
    exact (memo_ok_ext _ _ _ _ O1 O' (ext_with_sample _ _) M1).
  - destruct (map_locs_m st1 mm1 src (s_loc s)) as [[st2 mm2] locs2] eqn:E2.
    destruct (eq_locs_m _ _ _ _ _ _ _ O1 M1 E2) as [Q2 M2].
    rewrite (locs_idem _ _ _ _ _ O Q1) in Q2. inversion Q2; subst st2 locs2.
    inversion H; subst. split; [reflexivity|].
    exact (memo_ok_ext _ _ _ _ O1 O' (ext_with_sample _ _) M2).
Qed.

Lemma eq_samples_m : forall src l st mm,
  ok st -> memo_ok st mm src ->
  fst (fold_left (merge_sample_m src) l (st, mm)) = fold_left (merge_sample src) l st.
Proof.
  intros src. induction l as [|s l IH]; intros st mm O M; cbn [fold_left]; [reflexivity|].
  unfold merge_sample_m at 2, merge_sample at 2. cbn [fst snd].
  destruct (is_zero_sample s); [apply IH; assumption|].
  destruct (map_sample_m st mm src s) as [st1 mm1] eqn:E.
  destruct (eq_sample_m _ _ _ _ _ _ O M E) as [Q M1]. rewrite Q.
  destruct (map_sample_spec st src s O) as (O1 & _). rewrite Q in O1. apply IH; assumption.
Qed.

Lemma eq_src_m : forall st src, ok st -> merge_src_m st src = merge_src st src.
Proof.
  intros st src O. unfold merge_src_m, merge_src, eager_first_mapping.
  destruct (p_mapping st) eqn:Em.
  - destruct (p_mapping src) as [|m ms] eqn:Es.
    + apply eq_samples_m; [exact O | apply memo_ok_empty].
    + destruct (map_mapping_rec st m) as [st1 r] eqn:E. cbn [fst].
      destruct r as [g off]. destruct (map_mapping_rec_spec _ _ _ _ _ O E) as (O1 & _).
      apply eq_samples_m; [exact O1|]. split; cbn [mm_fn mm_mp mm_lc add_mp no_memos]; try (intros; discriminate).
      intros mid r' m' Z L. cbn [zassoc] in Z. destruct (mid =? m_id m) eqn:Q; [|discriminate].
      apply Z.eqb_eq in Q. subst mid. inversion Z; subst.
      assert (m' = m).
      { unfold lookup_map, find_mapping in L. destruct (m_id m =? 0); [discriminate|].
        rewrite Es in L. cbn [find] in L. rewrite Z.eqb_refl in L. inversion L. reflexivity. }
      subst m'. exact (mp_rec_idem _ _ _ _ E).
  - apply eq_samples_m; [exact O | apply memo_ok_empty].
Qed.

Lemma eq_srcs_m : forall l st, ok st -> fold_left merge_src_m l st = fold_left merge_src l st.
Proof.
  induction l as [|p l IH]; intros st O; cbn [fold_left]; [reflexivity|].
  rewrite (eq_src_m st p O). destruct (merge_src_spec st p O) as (O1 & _). apply IH. exact O1.
Qed.

Lemma eq_pass_m : forall ps, merge_pass_m ps = merge_pass ps.
Proof.
  intros ps. unfold merge_pass_m, merge_pass. destruct ps as [|p0 rest]; [reflexivity|].
  destruct (compat_all p0 rest); try reflexivity. f_equal. apply eq_srcs_m. apply ok_combine_headers.
Qed.

(* the memo tables do not change what Merge computes *)
Theorem merge_memo_equiv_lemma : forall ps, merge_m ps = merge ps.
Proof.
  assert (G : forall n ps, merge_fuel_m n ps = merge_fuel n ps).
  { induction n as [|n IH]; intros ps; cbn [merge_fuel_m merge_fuel]; rewrite eq_pass_m;
      destruct (merge_pass ps); try reflexivity; destruct (existsb _ _); try reflexivity. apply IH. }
  intros ps. apply G.
Qed.
