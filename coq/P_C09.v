From PV Require Import M_Crash.
