(* C09 -- No profile content, option value or typed command crashes pprof.
   Property theorems only: each is closed by [exact] of a lemma from L_Crash / L_Crash_Tables and
   followed by Print Assumptions.  [config_fields], [commands], [help_keys] are REGENERATED from
   /repo on every run (Gen/Gen_C09Tables.v), the unit table likewise (Gen/Gen_UnitTable.v).
   A Go panic is the explicit outcome [Panic] / [SPanic] of the model (M_Crash.v).
   Scope: the decision cores named in the property's mechanisms; report generation, templates,
   symbolization and the Go runtime are covered by exploration only (level: partial). *)
From PV Require Import M_Crash S_Crash L_Crash L_Crash_Tables M_Measure Gen.Gen_UnitTable Gen.Gen_C09Tables Gen.Gen_C09CallTree.
Open Scope string_scope.
Open Scope Z_scope.

(* -- facts about the tables the code has now (re-proved whenever the tables change) -- *)
Theorem config_field_kinds_supported : forallb supported config_fields = true.
Proof. exact fields_supported_fact. Qed.
Print Assumptions config_field_kinds_supported.

Theorem config_names_distinct :
  nodupb (flat_map (fun f => cf_name f :: cf_choices f) config_fields) = true.
Proof. exact config_names_distinct_fact. Qed.
Print Assumptions config_names_distinct.

Theorem directly_assigned_fields_exist :
  has_field "nodecount" KInt && has_field "output" KString && has_field "sort" KString &&
  has_field "focus" KString && has_field "ignore" KString && has_field "tagfocus" KString &&
  has_field "tagignore" KString && has_field "sample_index" KString && has_field "compact_labels" KBool = true.
Proof. exact direct_fields_fact. Qed.
Print Assumptions directly_assigned_fields_exist.

(* -- tag range parsing (driver_focus.go:169) -- *)
(* for every unit-scaling function and every filter text: the submatch accesses are in range *)
Theorem tag_range_never_panics : forall scale_unit filter,
  is_panic (parse_tag_filter_range scale_unit filter) = false.
Proof. exact tag_range_never_panics_lemma. Qed.
Print Assumptions tag_range_never_panics.

(* a number beyond int64 (first or second bound) makes the text "not a range" -- no panic (F5 repaired) *)
Theorem tag_range_overflow_is_not_a_range : forall scale_unit filter whole num unit rest,
  rx_find filter = Some ([whole; num; unit], rest) -> parse_int64 num = None ->
  parse_tag_filter_range scale_unit filter = Ok TFNil.
Proof. exact tag_range_overflow_nil_lemma. Qed.
Print Assumptions tag_range_overflow_is_not_a_range.

Theorem tag_range_overflow_second_bound_is_not_a_range :
  forall scale_unit filter w1 n1 u1 rest w2 n2 u2 rest2,
  rx_find filter = Some ([w1; n1; u1], rest) -> rx_find rest = Some ([w2; n2; u2], rest2) ->
  parse_int64 n2 = None -> parse_tag_filter_range scale_unit filter = Ok TFNil.
Proof. exact tag_range_overflow2_nil_lemma. Qed.
Print Assumptions tag_range_overflow_second_bound_is_not_a_range.

(* -- binary search-path construction (fetch.go:402) -- *)
Theorem locate_binaries_never_panics : forall path_base path_dir path file buildid globbed,
  is_panic (locate_candidates path_base path_dir path file buildid globbed) = false.
Proof. exact locate_never_panics_lemma. Qed.
Print Assumptions locate_binaries_never_panics.

(* the guard is what makes it so: BuildID[:2] on a shorter id is a slice-bounds panic (what F6 was) *)
Theorem short_build_id_slice_panics : forall s, (String.length s < 2)%nat -> is_panic (slice_to s 2) = true.
Proof. exact slice_short_panics. Qed.
Print Assumptions short_build_id_slice_panics.

(* the slices are pieces of the very string the guard measured: they recompose it (no normalised copy) ... *)
Theorem slices_recompose_the_measured_string : forall id n a b,
  slice_to id n = Ok a -> slice_from id n = Ok b -> (a ++ b)%string = id.
Proof. exact slices_recompose_lemma. Qed.
Print Assumptions slices_recompose_the_measured_string.

(* ... and for every build id longer than two bytes the LLVM candidate is path / id[:2] / id[2:].debug of the RAW id *)
Theorem locate_llvm_candidate_uses_raw_id : forall path_base path_dir path file id globbed l,
  (2 < String.length id)%nat ->
  locate_candidates path_base path_dir path file id globbed = Ok l ->
  In [path; take 2 id; (drop 2 id ++ ".debug")%string] l.
Proof. exact locate_llvm_candidate_lemma. Qed.
Print Assumptions locate_llvm_candidate_uses_raw_id.

(* -- typed option setting (config.go:224 set, :297 configure, :332 applyURL) -- *)
Theorem set_never_panics : forall pf f value, supported f = true -> is_panic (set_value pf f value) = false.
Proof. exact set_value_no_panic. Qed.
Print Assumptions set_never_panics.

Theorem set_error_iff : forall pf f value, supported f = true ->
  (set_value pf f value = Err <-> valid_for pf f value = false).
Proof. exact set_error_iff_lemma. Qed.
Print Assumptions set_error_iff.

Theorem configure_never_panics : forall flds pf cfg name value,
  forallb supported flds = true -> is_panic (configure flds pf cfg name value) = false.
Proof. exact configure_no_panic. Qed.
Print Assumptions configure_never_panics.

Theorem apply_url_never_panics : forall flds pf params cfg,
  forallb supported flds = true -> is_panic (apply_url flds pf params cfg) = false.
Proof. exact apply_url_no_panic. Qed.
Print Assumptions apply_url_never_panics.

(* -- interactive line parsing (interactive.go:223 parseCommandLine) -- *)
Theorem fields_tokens_nonempty : forall s, Forall (fun t => t <> "") (fields s).
Proof. exact fields_nonempty_lemma. Qed.
Print Assumptions fields_tokens_nonempty.

Theorem parse_command_line_never_panics : forall flds cmds input cfg,
  input <> [] -> Forall (fun t => t <> "") input ->
  is_panic (parse_command_line flds cmds input cfg) = false.
Proof. exact parse_command_line_no_panic. Qed.
Print Assumptions parse_command_line_never_panics.

(* -- the interactive loop (interactive.go:34) --
   for every field table whose kinds are supported, every ParseFloat behaviour, command table, help table,
   every profile with at least one sample type (what fetchProfiles guarantees), every configuration and
   every input line: one pass of the loop never panics ... *)
Theorem interactive_step_never_panics : forall flds pf cmds helpkeys stypes dst,
  forallb supported flds = true -> stypes <> [] ->
  forall cfg input, step_panics (process_input flds pf cmds helpkeys stypes dst cfg input) = false.
Proof. exact process_input_no_panic. Qed.
Print Assumptions interactive_step_never_panics.

(* ... nor does any sequence of lines *)
Theorem session_never_panics : forall flds pf cmds helpkeys stypes dst,
  forallb supported flds = true -> stypes <> [] ->
  forall lines cfg acc, step_panics (session flds pf cmds helpkeys stypes dst cfg lines acc) = false.
Proof. exact session_no_panic. Qed.
Print Assumptions session_never_panics.

(* an error leaves a configuration of the same shape behind (errors do not corrupt the session) *)
Theorem session_state_shape : forall flds pf cmds helpkeys stypes dst lines cfg acc,
  step_cfg_length (List.length cfg) (session flds pf cmds helpkeys stypes dst cfg lines acc).
Proof. exact session_shape. Qed.
Print Assumptions session_state_shape.

(* and the session stays usable: whatever the lines did to the configuration, [top 3] is answered *)
Theorem session_usable_afterwards : forall pf stypes dst cfg lines cfg' evs,
  session config_fields pf commands help_keys stypes dst cfg lines [] = SCont cfg' evs ->
  answers_top (process_input config_fields pf commands help_keys stypes dst cfg' "top 3") = true.
Proof. exact session_then_top_lemma. Qed.
Print Assumptions session_usable_afterwards.

(* -- annotated source listing (internal/report/source.go:716 functions, :663 generateFile) --
   merging a line into the preceding function extends it by fewer than 20 line numbers, for ALL int64 line
   numbers (the unsigned distance cannot wrap; F25 was the signed subtraction wrapping for lines 2^63 or more
   apart, after which generateFile walked ~2^63 line numbers) *)
Theorem weblist_merge_extends_by_less_than_limit : forall e l,
  min_i64 <= e <= max_i64 -> min_i64 <= l <= max_i64 -> e <= l ->
  (merges e l = true <-> l - e < merge_limit).
Proof. exact merges_near_lemma. Qed.
Print Assumptions weblist_merge_extends_by_less_than_limit.

(* the former F25 witness (lines -20 and MaxInt64-10 of one function) is no longer merged *)
Example weblist_former_f25_witness :
  merge_lines None [-20; 9223372036854775797] = [(-20, -19); (9223372036854775797, 9223372036854775798)].
Proof. vm_compute. reflexivity. Qed.

(* -- symbolization mode (internal/symbolizer/symbolizer.go:50 Symbolize, :276 demanglerModeToOptions) --
   whatever the -symbolize text, the demangler mode that reaches demanglerModeToOptions is one of the four
   it knows: its final panic("unknown demanglerMode") is unreachable; unknown options only add a message *)
Theorem symbolize_mode_never_panics : forall mode, is_panic (symbolize_mode mode) = false.
Proof. exact symbolize_mode_no_panic. Qed.
Print Assumptions symbolize_mode_never_panics.

Theorem symbolize_mode_parser_keeps_known_demangler : forall opts st,
  known_demangle (ss_demangle st) = true -> known_demangle (ss_demangle (snd (sym_opts opts st))) = true.
Proof. exact sym_opts_known. Qed.
Print Assumptions symbolize_mode_parser_keeps_known_demangler.

(* the whitelist is what makes it so: any other mode does hit the panic *)
Theorem unknown_demangler_mode_panics : forall m, known_demangle m = false -> is_panic (demangler_mode_to_options m) = true.
Proof. exact demangler_unknown_panics. Qed.
Print Assumptions unknown_demangler_mode_panics.

(* -- graph.TrimTree's precondition (graph.go:469 "TrimTree only works on trees"; report.go newTrimmedGraph / newGraph) --
   the two places that decide whether call_tree is honoured for an output format are read from the source on
   every run: each g.TrimTree call is guarded by formats for which the graph was built as a call tree *)
Theorem trim_tree_sites_guarded_by_tree_formats :
  calltree_scan_ok && forallb (fun site => incl_b (snd site) build_tree_formats) trim_tree_sites = true.
Proof. exact trim_tree_sites_fact. Qed.
Print Assumptions trim_tree_sites_guarded_by_tree_formats.

(* for ANY two format sets related like that, no option value, format, trimming result or profile shape makes a
   TrimTree site panic ... *)
Theorem trim_tree_never_panics : forall buildf sitef, incl_b sitef buildf = true ->
  forall call_tree fmt dropped two_callers,
  is_panic (trim_site_outcome buildf sitef call_tree fmt dropped two_callers) = false.
Proof. exact trim_site_no_panic. Qed.
Print Assumptions trim_tree_never_panics.

(* ... in particular the sites the code has now *)
Theorem trim_tree_sites_never_panic : forall site, In site trim_tree_sites ->
  forall call_tree fmt dropped two_callers,
  is_panic (trim_site_outcome build_tree_formats (snd site) call_tree fmt dropped two_callers) = false.
Proof. exact trim_tree_sites_no_panic. Qed.
Print Assumptions trim_tree_sites_never_panic.

(* the relation is necessary: a format honoured by the trimming guard alone panics as soon as trimming drops a
   node of a profile in which some function has two callers *)
Theorem trim_tree_panics_outside_tree_formats : forall buildf sitef fmt,
  in_formats fmt sitef = true -> in_formats fmt buildf = false ->
  is_panic (trim_site_outcome buildf sitef true fmt true true) = true.
Proof. exact trim_site_panics_outside. Qed.
Print Assumptions trim_tree_panics_outside_tree_formats.

(* -- F38 (known finding): the web handlers do NOT turn every report error into a 400 -- the smallest positive
   float64 is a divisor whose reciprocal overflows; /flamegraph then answers 500 (class predicate of the finding) *)
Theorem web_errors_are_400_refuted : reciprocal_overflows 1 (2 ^ 1074) = true /\ reciprocal_overflows 1 2 = false.
Proof. vm_compute. split; reflexivity. Qed.
Print Assumptions web_errors_are_400_refuted.

(* -- the "Active filters" legend (report.go legendActiveFilters; glue between option values and every text report) --
   whatever the filter texts (any bytes, any length): the 80-byte cut is taken behind a guard in the same unit *)
Theorem legend_active_filters_never_panics : forall active, is_panic (legend_active_filters active) = false.
Proof. exact legend_active_filters_no_panic. Qed.
Print Assumptions legend_active_filters_never_panics.

(* a filter of at most 80 bytes is printed as it is; a longer one as its first 80 bytes and an ellipsis:
   a legend line never exceeds 3 + 80 + 3 bytes *)
Theorem legend_line_short_is_verbatim : forall s, (String.length s <= 80)%nat -> legend_line s = Ok ("   " ++ s)%string.
Proof. exact legend_line_short_identity. Qed.
Print Assumptions legend_line_short_is_verbatim.

Theorem legend_line_is_bounded : forall s x, legend_line s = Ok x -> (String.length x <= 86)%nat.
Proof. exact legend_line_bounded. Qed.
Print Assumptions legend_line_is_bounded.

(* -- limiting the number of nodes (report.go newTrimmedGraph -> graph.go selectTopNodes: g.Nodes[:maxNodes]) --
   for EVERY node count an option, an integer argument or a URL parameter can carry (negative, huge) and every graph size:
   the slice bound is in range, the result is the graph size or at most the positive count asked for *)
Theorem limit_nodes_never_panics : forall node_count len, 0 <= len ->
  is_panic (limit_nodes node_count_guard node_count len) = false.
Proof. exact limit_nodes_no_panic. Qed.
Print Assumptions limit_nodes_never_panics.

Theorem limit_nodes_result_in_bounds : forall node_count len m, 0 <= len ->
  limit_nodes node_count_guard node_count len = Ok m -> 0 <= m <= len /\ (0 < node_count -> m <= node_count).
Proof. exact limit_nodes_bounds. Qed.
Print Assumptions limit_nodes_result_in_bounds.

(* that guard, read from the source on every run, is [nodeCount > 0] *)
Theorem node_limit_guard_is_positive_test : node_limit_guard = "> 0".
Proof. exact node_limit_guard_fact. Qed.
Print Assumptions node_limit_guard_is_positive_test.

(* the callee relies on that guard: with "not zero" in its place every negative count panics *)
Theorem limit_nodes_needs_positive_guard : forall len n, 0 <= len -> n < 0 ->
  is_panic (limit_nodes (fun k => negb (k =? 0)) n len) = true.
Proof. exact limit_nodes_weak_guard_panics. Qed.
Print Assumptions limit_nodes_needs_positive_guard.

(* -- non-vacuity and the necessity of the hypotheses -- *)
Example legend_examples :
  legend_active_filters [] = Ok [] /\
  legend_active_filters ["focus=a|b"; "hide=x"] = Ok ["Active filters:"; "   focus=a|b"; "   hide=x"] /\
  cli_active_filters ["-top"; "-focus=a"; "--hide=h"; "-focus=b"; "-tagfocus="; "p"] = ["focus=b"; "hide=h"].
Proof. vm_compute. repeat split; reflexivity. Qed.

Example trim_tree_sites_exist : trim_tree_sites <> [] /\ build_tree_formats <> [].
Proof. split; discriminate. Qed.

Example symbolize_mode_examples :
  symbolize_mode "demangle=gnu" = Ok (1, "default") /\
  symbolize_mode "local:demangle=simple" = Ok (1, "default") /\
  symbolize_mode "force:Demangle=FULL" = Ok (0, "full") /\
  symbolize_mode "demangle=full,templates:templates" = Ok (1, "templates") /\
  symbolize_mode "bogus:none:demangle=full" = Ok (1, "none") /\
  symbolize_mode "::remote:demangle=default" = Ok (0, "default").
Proof. vm_compute. repeat split; reflexivity. Qed.

Definition su (v : Z) (f t : string) : string := snd (scale unit_types v f t).
Definition no_pf (s : string) : option term := None.

Example tag_range_examples :
  parse_tag_filter_range su "99999999999999999999" = Ok TFNil /\
  parse_tag_filter_range su "1:99999999999999999999" = Ok TFNil /\
  parse_tag_filter_range su "12kb:64mb" = Ok (TFRange 12 64 "kB") /\
  parse_tag_filter_range su "4mb:" = Ok (TFGe 4 "MB") /\
  parse_tag_filter_range su "1kb:2s" = Ok TFNil.
Proof. vm_compute. repeat split; reflexivity. Qed.

Example weblist_merge_examples :
  merge_lines None [10; 12; 40; 41] = [(10, 13); (40, 42)].
Proof. vm_compute. reflexivity. Qed.

Example path_examples :
  map path_clean [""; "//"; "a//b/"; "a/../../b"; "/../a"; " / "] = ["."; "/"; "a/b"; "../b"; "/a"; " / "] /\
  map path_base [""; "//"; "/a/b//"] = ["."; "/"; "b"] /\ map path_dir ["a"; "/a/b//"; "a/b/../c"] = ["."; "/a/b"; "a"] /\
  path_join ["/p"; " a "; ""; "x"] = "/p/ a /x" /\ path_join [""; ""] = "".
Proof. vm_compute. repeat split; reflexivity. Qed.

Example locate_example :
  locate_candidates (fun s => s) (fun s => s) "P" "" "ab" [] = Ok [["P"; "ab"; ""]; ["P"; ""; "ab"]] /\
  locate_candidates (fun s => s) (fun s => s) "P" "" "abc" [] = Ok [["P"; "abc"; ""]; ["P"; ""; "abc"]; ["P"; "ab"; "c.debug"]].
Proof. vm_compute. split; reflexivity. Qed.

(* sample types are needed: on a profile without any, the [o] command indexes st[len(st)-1].
   fetchProfiles never lets such a profile through (explored: op "cli"/"web" with no sample types) *)
Example options_needs_sample_types :
  step_panics (process_input config_fields no_pf commands help_keys [] "" (default_config config_fields) "o") = true /\
  step_panics (process_input config_fields no_pf commands help_keys ["cpu"] "" (default_config config_fields) "o") = false.
Proof. vm_compute. split; reflexivity. Qed.

Example session_example :
  match session config_fields no_pf commands help_keys ["samples"; "cpu"] "" (default_config config_fields)
          ["nodecount=99999999999999999999"; "top10 main -foo >out"; "cpu"; "quit"; "never read"] [] with
  | SQuit c [ELine; EErr; ELine; EReport ["top"] v; ELine; ELine] =>
      term_eqb (field_value config_fields v "nodecount") (TZ 10) &&
      term_eqb (field_value config_fields v "focus") (TS "main") &&
      term_eqb (field_value config_fields v "ignore") (TS "foo") &&
      term_eqb (field_value config_fields v "output") (TS "out") &&
      term_eqb (field_value config_fields c "sample_index") (TS "cpu") &&
      term_eqb (field_value config_fields c "focus") (TS "")
  | _ => false
  end = true.
Proof. vm_compute. reflexivity. Qed.
