(* The toy profile instance used by the case runner (M_Fetch.toy_combine, S_Fetch.toy_eqv) satisfies
   the laws that L_Fetch assumes of combineProfiles, so for the instance the runner executes the C16
   theorems hold without any assumption; and the boolean checker S_Fetch.toy_eqvb decides toy_eqv. *)
From Coq Require Import Lia ZArith.
From PV Require Import M_Profile M_Fetch S_Fetch L_Fetch.
Open Scope Z_scope.

(* ---------------- arithmetic modulo 2^64 ---------------- *)
Definition cong (x y : Z) : Prop := x mod two64 = y mod two64.

Lemma cong_refl x : cong x x. Proof. reflexivity. Qed.
Lemma cong_sym x y : cong x y -> cong y x. Proof. unfold cong. congruence. Qed.
Lemma cong_trans x y z : cong x y -> cong y z -> cong x z. Proof. unfold cong. congruence. Qed.
Lemma cong_add a a' b b' : cong a a' -> cong b b' -> cong (a + b) (a' + b').
Proof. unfold cong. intros H1 H2. rewrite (Zplus_mod a b), (Zplus_mod a' b'), H1, H2. reflexivity. Qed.

Lemma wrap_cong x : cong (wrap_i64 x) x.
Proof.
  unfold cong, wrap_i64.
  replace ((x + two63) mod two64 - two63) with ((x + two63) mod two64 + (- two63)) by ring.
  rewrite Zplus_mod_idemp_l. f_equal. ring.
Qed.

Lemma wrap_eq_iff x y : wrap_i64 x = wrap_i64 y <-> cong x y.
Proof.
  split.
  - intros H. eapply cong_trans; [apply cong_sym, wrap_cong|]. rewrite H. apply wrap_cong.
  - unfold cong, wrap_i64. intros H. f_equal.
    rewrite (Zplus_mod x), (Zplus_mod y), H. reflexivity.
Qed.

(* ---------------- raw weights ---------------- *)
Fixpoint rw (l : list (string * Z)) (k : string) : Z :=
  match l with
  | [] => 0
  | (k', v) :: r => (if String.eqb k' k then v else 0) + rw r k
  end.

Lemma rw_app a b k : rw (a ++ b) k = rw a k + rw b k.
Proof. induction a as [|[k' v] a IH]; simpl; [reflexivity|]. rewrite IH. ring. Qed.

Lemma tp_weight_rw l k : tp_weight l k = wrap_i64 (rw l k).
Proof.
  induction l as [|[k' v] l IH]; simpl; [reflexivity|].
  destruct (String.eqb k' k).
  - rewrite IH. apply wrap_eq_iff. apply cong_add; [apply cong_refl|apply wrap_cong].
  - rewrite IH. reflexivity.
Qed.

Lemma toy_eqv_cong a b :
  toy_eqv a b <-> (tp_type a = tp_type b /\ tp_comments a = tp_comments b)
                  /\ forall k, cong (rw (tp_samples a) k) (rw (tp_samples b) k).
Proof.
  unfold toy_eqv. split; intros [T W]; (split; [exact T|]); intros k; specialize (W k);
    rewrite !tp_weight_rw in *; apply wrap_eq_iff; exact W.
Qed.

Lemma rw_tp_add acc k0 v k : cong (rw (tp_add acc k0 v) k) (rw acc k + (if String.eqb k0 k then v else 0)).
Proof.
  induction acc as [|[k' v'] acc IH]; simpl.
  - rewrite Z.add_0_r. apply cong_refl.
  - destruct (String.eqb k' k0) eqn:E.
    + apply String.eqb_eq in E. subst k0. simpl. destruct (String.eqb k' k).
      * replace (v' + rw acc k + v) with ((v' + v) + rw acc k) by ring.
        apply cong_add; [apply wrap_cong|apply cong_refl].
      * rewrite Z.add_0_r. apply cong_refl.
    + simpl. replace ((if String.eqb k' k then v' else 0) + rw acc k + (if String.eqb k0 k then v else 0))
        with ((if String.eqb k' k then v' else 0) + (rw acc k + (if String.eqb k0 k then v else 0))) by ring.
      apply cong_add; [apply cong_refl|exact IH].
Qed.

Lemma rw_fold xs : forall acc k, cong (rw (fold_left tp_step xs acc) k) (rw acc k + rw xs k).
Proof.
  induction xs as [|[k0 v] xs IH]; intros acc k; simpl.
  - rewrite Z.add_0_r. apply cong_refl.
  - eapply cong_trans; [apply IH|].
    replace (rw acc k + ((if String.eqb k0 k then v else 0) + rw xs k))
      with ((rw acc k + (if String.eqb k0 k then v else 0)) + rw xs k) by ring.
    apply cong_add; [|apply cong_refl].
    unfold tp_step. simpl. destruct (v =? 0) eqn:Z0.
    + apply Z.eqb_eq in Z0. subst v. destruct (String.eqb k0 k); rewrite Z.add_0_r; apply cong_refl.
    + apply rw_tp_add.
Qed.

Lemma rw_filter_nz l k : rw (filter (fun kv : string * Z => negb (snd kv =? 0)) l) k = rw l k.
Proof.
  induction l as [|[k' v] l IH]; simpl; [reflexivity|].
  destruct (v =? 0) eqn:Z0; simpl.
  - apply Z.eqb_eq in Z0. subst v. rewrite IH. destruct (String.eqb k' k); reflexivity.
  - rewrite IH. reflexivity.
Qed.

Definition all_samples (ps : list tprof) : list (string * Z) := List.concat (map tp_samples ps).

Lemma rw_merge ps k : cong (rw (toy_merge_samples ps) k) (rw (all_samples ps) k).
Proof.
  unfold toy_merge_samples. rewrite rw_filter_nz.
  eapply cong_trans; [apply rw_fold|]. simpl. apply cong_refl.
Qed.

Lemma all_samples_app a b : all_samples (a ++ b) = (all_samples a ++ all_samples b)%list.
Proof. unfold all_samples. rewrite map_app, concat_app. reflexivity. Qed.

(* ---------------- toy_combine ---------------- *)
Definition head_type (ps : list tprof) : string := match ps with [] => "" | p :: _ => tp_type p end.

Lemma toy_combine_none ps : toy_combine ps = None <-> toy_compat ps = false.
Proof.
  unfold toy_combine. destruct (toy_compat ps) eqn:C.
  - split; [|discriminate]. destruct ps as [|p [|q r]]; try discriminate.
  - tauto.
Qed.

Definition all_comments (ps : list tprof) : list string := List.concat (map tp_comments ps).
Lemma all_comments_app a b : all_comments (a ++ b) = (all_comments a ++ all_comments b)%list.
Proof. unfold all_comments. rewrite map_app, concat_app. reflexivity. Qed.

Lemma toy_combine_some ps m : toy_combine ps = Some m ->
  toy_compat ps = true /\ (tp_type m = head_type ps /\ tp_comments m = all_comments ps)
  /\ forall k, cong (rw (tp_samples m) k) (rw (all_samples ps) k).
Proof.
  unfold toy_combine. destruct (toy_compat ps) eqn:C; [|discriminate].
  destruct ps as [|p [|q r]]; intros H; inversion H; subst; clear H.
  - split; [reflexivity|]. split; [split; [reflexivity|unfold all_comments; simpl; rewrite app_nil_r; reflexivity]|].
    intros k. unfold all_samples. simpl. rewrite app_nil_r. apply cong_refl.
  - split; [reflexivity|]. split; [split; reflexivity|]. intros k. simpl. apply rw_merge.
Qed.

Lemma toy_compat_spec ps : toy_compat ps = true <->
  ps <> [] /\ head_type ps <> ""%string /\ forall q, In q ps -> tp_type q = head_type ps.
Proof.
  destruct ps as [|p r]; simpl.
  - split; [discriminate|intros (H & _); congruence].
  - rewrite andb_true_iff, negb_true_iff, forallb_forall. split.
    + intros (N & F). split; [discriminate|]. split.
      * intros E. rewrite E in N. discriminate.
      * intros q [<-|I]; [reflexivity|]. apply String.eqb_eq. apply F. exact I.
    + intros (_ & N & F). split.
      * destruct (String.eqb (tp_type p) "") eqn:E; [apply String.eqb_eq in E; contradiction|reflexivity].
      * intros q I. apply String.eqb_eq. apply F. now right.
Qed.

Lemma head_type_app a b : a <> [] -> head_type (a ++ b) = head_type a.
Proof. destruct a; [congruence|reflexivity]. Qed.

Lemma head_in (a : list tprof) : a <> [] -> exists p, In p a /\ tp_type p = head_type a.
Proof. destruct a as [|p r]; [congruence|]. intros _. exists p. split; [now left|reflexivity]. Qed.

Lemma toy_compat_app a b : a <> [] -> b <> [] ->
  (toy_compat (a ++ b) = true <-> toy_compat a = true /\ toy_compat b = true /\ head_type b = head_type a).
Proof.
  intros NA NB. rewrite !toy_compat_spec. rewrite (head_type_app a b NA). split.
  - intros (_ & N & F). destruct (head_in b NB) as (pb & Ib & Tb).
    assert (HB : head_type b = head_type a) by (rewrite <- Tb; apply F; apply in_or_app; now right).
    split; [split; [exact NA|split; [exact N|intros q I; apply F; apply in_or_app; now left]]|].
    split; [|exact HB].
    split; [exact NB|]. split; [rewrite HB; exact N|]. intros q I. rewrite HB. apply F. apply in_or_app; now right.
  - intros ((_ & N & FA) & (_ & _ & FB) & HB).
    split; [intros X; apply app_eq_nil in X; tauto|]. split; [exact N|].
    intros q I. apply in_app_or in I as [I|I]; [apply FA; exact I|rewrite <- HB; apply FB; exact I].
Qed.

(* ---------------- the laws ---------------- *)
Lemma toy_eqv_refl a : toy_eqv a a.
Proof. split; [split|]; reflexivity. Qed.
Lemma toy_eqv_sym a b : toy_eqv a b -> toy_eqv b a.
Proof. intros [[T C] W]. split; [split; congruence|]. intros k. symmetry. apply W. Qed.
Lemma toy_eqv_trans a b c : toy_eqv a b -> toy_eqv b c -> toy_eqv a c.
Proof. intros [[T C] W] [[T' C'] W']. split; [split; congruence|]. intros k. rewrite W. apply W'. Qed.

Lemma toy_pair_proper a a' b : toy_eqv a a' -> opt_eqv tprof toy_eqv (toy_combine [a; b]) (toy_combine [a'; b]).
Proof.
  intros E. apply toy_eqv_cong in E as [[T C] W].
  unfold toy_combine, toy_compat. rewrite <- T.
  destruct (negb (String.eqb (tp_type a) "") && forallb (fun q => String.eqb (tp_type q) (tp_type a)) [b]); [|exact I].
  simpl. apply toy_eqv_cong. simpl. split; [split; [reflexivity|rewrite C; reflexivity]|]. intros k.
  eapply cong_trans; [apply rw_merge|]. eapply cong_trans; [|apply cong_sym, rw_merge].
  unfold all_samples. simpl. rewrite !app_nil_r, !rw_app. apply cong_add; [apply W|apply cong_refl].
Qed.

Lemma toy_flat A B : A <> [] -> B <> [] ->
  opt_eqv tprof toy_eqv
    (match toy_combine A, toy_combine B with Some a, Some b => toy_combine [a; b] | _, _ => None end)
    (toy_combine (A ++ B)).
Proof.
  intros NA NB. pose proof (toy_compat_app A B NA NB) as CA.
  destruct (toy_combine A) as [a|] eqn:EA.
  - destruct (toy_combine B) as [b|] eqn:EB.
    + apply toy_combine_some in EA as (CmA & (TA & KA) & WA). apply toy_combine_some in EB as (CmB & (TB & KB) & WB).
      destruct (toy_combine [a; b]) as [m|] eqn:EM.
      * apply toy_combine_some in EM as (CmM & (TM & KM) & WM).
        assert (HT : head_type B = head_type A).
        { apply toy_compat_spec in CmM as (_ & _ & F). rewrite <- TA, <- TB. simpl in F. apply F. right. now left. }
        destruct (toy_combine (A ++ B)) as [m'|] eqn:EAB.
        -- apply toy_combine_some in EAB as (_ & (TAB & KAB) & WAB). apply toy_eqv_cong. split.
           ++ split; [rewrite TM, TAB, (head_type_app A B NA); simpl; exact TA|].
              rewrite KM, KAB, all_comments_app. unfold all_comments at 1. simpl. rewrite app_nil_r, KA, KB. reflexivity.
           ++ intros k. eapply cong_trans; [apply WM|]. eapply cong_trans; [|apply cong_sym, WAB].
              rewrite all_samples_app, rw_app. unfold all_samples at 1. simpl. rewrite app_nil_r, rw_app.
              apply cong_add; [apply WA|apply WB].
        -- apply toy_combine_none in EAB. exfalso.
           assert (X : toy_compat (A ++ B) = true) by (apply CA; repeat split; assumption). congruence.
      * apply toy_combine_none in EM.
        destruct (toy_combine (A ++ B)) as [m'|] eqn:EAB; [|exact I].
        apply toy_combine_some in EAB as (CAB & _ & _). apply CA in CAB as (_ & _ & HT).
        exfalso. assert (X : toy_compat [a; b] = true).
        { apply toy_compat_spec. split; [discriminate|]. simpl. split.
          - rewrite TA. apply toy_compat_spec in CmA. tauto.
          - intros q [<-|[<-|[]]]; [reflexivity|]. rewrite TA, TB. exact HT. }
        congruence.
    + apply toy_combine_none in EB.
      destruct (toy_combine (A ++ B)) as [m'|] eqn:EAB; [|exact I].
      apply toy_combine_some in EAB as (CAB & _ & _). apply CA in CAB as (_ & X & _). congruence.
  - apply toy_combine_none in EA.
    destruct (toy_combine (A ++ B)) as [m'|] eqn:EAB; [|exact I].
    apply toy_combine_some in EAB as (CAB & _ & _). apply CA in CAB as (X & _ & _). congruence.
Qed.

(* ---------------- the boolean checker decides toy_eqv ---------------- *)
Lemma rw_absent l k : ~ In k (map fst l) -> rw l k = 0.
Proof.
  induction l as [|[k' v] l IH]; simpl; [reflexivity|]. intros H.
  destruct (String.eqb k' k) eqn:E; [apply String.eqb_eq in E; subst; exfalso; apply H; now left|].
  rewrite IH; [reflexivity|]. intros X. apply H. now right.
Qed.

Lemma list_eqb_eq a b : list_eqb String.eqb a b = true -> a = b.
Proof.
  revert b. induction a as [|x a IH]; intros [|y b]; simpl; try discriminate; [reflexivity|].
  intros H. apply andb_true_iff in H as [E H]. apply String.eqb_eq in E. subst. f_equal. apply IH. exact H.
Qed.
Lemma list_eqb_refl a : list_eqb String.eqb a a = true.
Proof. induction a as [|x a IH]; simpl; [reflexivity|]. rewrite String.eqb_refl. exact IH. Qed.

Lemma toy_eqvb_spec a b : toy_eqvb a b = true <-> toy_eqv a b.
Proof.
  unfold toy_eqvb, toy_eqv. rewrite !andb_true_iff, String.eqb_eq, forallb_forall. split.
  - intros [[T C] W]. apply list_eqb_eq in C. split; [split; assumption|]. intros k.
    destruct (in_dec string_dec k (map fst (tp_samples a) ++ map fst (tp_samples b))) as [I|N].
    + apply Z.eqb_eq. apply W. exact I.
    + rewrite !tp_weight_rw, !rw_absent; [reflexivity| |]; intros X; apply N; apply in_or_app; tauto.
  - intros [[T C] W]. split; [split; [exact T|rewrite C; apply list_eqb_refl]|]. intros k _. apply Z.eqb_eq. apply W.
Qed.

(* ---------------- the boolean specification checker is sound ---------------- *)
Lemma status_eqb_eq a b : status_eqb a b = true -> a = b.
Proof. destruct a, b; simpl; try discriminate; reflexivity. Qed.

Lemma toy_opt_eqvb_sound a b : toy_opt_eqvb a b = true -> opt_eqv tprof toy_eqv a b.
Proof. destruct a, b; simpl; try discriminate; [apply toy_eqvb_spec|intros _; exact I]. Qed.

Lemma mergeable_bool (l : list (source tprof)) : mergeable tprof toy_combine l ->
  is_nil (successes l) || match toy_combine (successes l) with Some _ => true | None => false end = true.
Proof.
  intros [E|N]; [rewrite E; reflexivity|].
  destruct (toy_combine (successes l)); [apply orb_true_r|congruence].
Qed.

(* whatever observable the checker accepts satisfies the declarative specification *)
Lemma spec_check_sound srcs bases (o : gsb_out tprof) :
  mergeable tprof toy_combine srcs -> mergeable tprof toy_combine bases ->
  spec_check srcs bases (g_status o) (g_src o) (g_base o) (g_err_src o) (g_err_base o) = true ->
  spec_holds tprof toy_combine toy_eqv srcs bases o.
Proof.
  intros M1 M2. unfold spec_check.
  rewrite (mergeable_bool srcs M1), (mergeable_bool bases M2). cbn [andb negb].
  intros H. apply andb_true_iff in H as [H H4]. apply andb_true_iff in H as [H H3].
  apply andb_true_iff in H as [H1 H2].
  apply list_eqb_eq in H3, H4. apply status_eqb_eq in H1.
  destruct (successes srcs) as [|s0 sr] eqn:S1.
  - (* no source *)
    simpl in H1. constructor; rewrite ?H1, ?S1; try assumption; try discriminate.
    + split; [discriminate|intros (X & _); congruence].
    + split; reflexivity.
    + split; [discriminate|intros (X & _); congruence].
  - cbn [is_nil] in H1, H2.
    destruct bases as [|b0 bs] eqn:B.
    + simpl in H1. simpl in H2. apply andb_true_iff in H2 as [H2 H2'].
      apply toy_opt_eqvb_sound in H2, H2'.
      constructor; rewrite ?H1, ?S1; try assumption.
      * split; [intros _; split; [discriminate|left; reflexivity]|reflexivity].
      * split; discriminate.
      * split; [discriminate|intros (_ & X & _); congruence].
      * intros _. unfold merged in H2 |- *. rewrite ?S1 in H2. rewrite ?S1. exact H2.
      * intros _. exact H2'.
    + rewrite <- B in *. assert (NB : bases <> []) by (rewrite B; discriminate).
      assert (INB : is_nil bases = false) by (rewrite B; reflexivity). rewrite INB in H1, H2. cbn [negb andb] in H1, H2.
      destruct (successes bases) as [|sb0 sbr] eqn:S2.
      * simpl in H1. constructor; rewrite ?H1, ?S1, ?S2; try assumption; try discriminate.
        -- split; [discriminate|]. intros (_ & [X|X]); congruence.
        -- split; discriminate.
        -- split; [intros _; repeat split; [discriminate|exact NB]|reflexivity].
      * simpl in H1. simpl in H2. apply andb_true_iff in H2 as [H2 H2'].
        apply toy_opt_eqvb_sound in H2, H2'.
        constructor; rewrite ?H1, ?S1, ?S2; try assumption.
        -- split; [intros _; split; [discriminate|right; discriminate]|reflexivity].
        -- split; discriminate.
        -- split; [discriminate|intros (_ & _ & X); congruence].
        -- intros _. unfold merged in H2 |- *. rewrite ?S1 in H2. rewrite ?S1. exact H2.
        -- intros _. unfold merged in H2' |- *. rewrite ?S2 in H2'. rewrite ?S2. exact H2'.
Qed.
