(* Byte-string helpers mirroring the Go [strings] functions the modelled code uses.
   Strings are Coq [string]s read bytewise (Go strings are byte sequences). *)
From Coq Require Export List ZArith String Ascii Bool.
From Coq Require Import DecimalString Decimal.
Export ListNotations.
Open Scope string_scope.
Open Scope Z_scope.

Definition lower_ascii (a : ascii) : ascii :=
  let n := N_of_ascii a in
  if (N.leb 65 n && N.leb n 90)%N then ascii_of_N (n + 32) else a.

(* strings.ToLower restricted to what the model needs: ASCII letters are folded, every other
   byte is left alone (Go additionally folds non-ASCII capitals and replaces invalid UTF-8;
   harness generators keep away from those, see DESIGN C15). *)
Fixpoint to_lower (s : string) : string :=
  match s with
  | EmptyString => EmptyString
  | String a r => String (lower_ascii a) (to_lower r)
  end.

Fixpoint rev_string_acc (s acc : string) : string :=
  match s with
  | EmptyString => acc
  | String a r => rev_string_acc r (String a acc)
  end.
Definition rev_string (s : string) : string := rev_string_acc s EmptyString.

Fixpoint has_prefix (p s : string) : bool :=
  match p, s with
  | EmptyString, _ => true
  | String a p', String b s' => Ascii.eqb a b && has_prefix p' s'
  | _, _ => false
  end.

Fixpoint drop (n : nat) (s : string) : string :=
  match n, s with
  | O, _ => s
  | S n', String _ r => drop n' r
  | _, EmptyString => EmptyString
  end.

Fixpoint take (n : nat) (s : string) : string :=
  match n, s with
  | O, _ => EmptyString
  | S n', String a r => String a (take n' r)
  | _, EmptyString => EmptyString
  end.

Definition has_suffix (suf s : string) : bool :=
  has_prefix (rev_string suf) (rev_string s).

(* strings.TrimSuffix: removes ONE occurrence *)
Definition trim_suffix (suf s : string) : string :=
  if has_suffix suf s then take (String.length s - String.length suf) s else s.

Definition trim_prefix (p s : string) : string :=
  if has_prefix p s then drop (String.length p) s else s.

Definition string_of_Z (z : Z) : string := NilZero.string_of_int (Z.to_int z).

Fixpoint concat_with (sep : string) (l : list string) : string :=
  match l with
  | [] => ""
  | [x] => x
  | x :: r => x ++ sep ++ concat_with sep r
  end.

(* byte-wise lexicographic order = Go's string < *)
Definition str_ltb (a b : string) : bool :=
  match String.compare a b with Lt => true | _ => false end.
Definition str_leb (a b : string) : bool :=
  match String.compare a b with Gt => false | _ => true end.

Fixpoint index_of_char (c : ascii) (s : string) (i : nat) : option nat :=
  match s with
  | EmptyString => None
  | String a r => if Ascii.eqb a c then Some i else index_of_char c r (S i)
  end.

Fixpoint contains_char (c : ascii) (s : string) : bool :=
  match s with
  | EmptyString => false
  | String a r => Ascii.eqb a c || contains_char c r
  end.
