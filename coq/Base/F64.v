(* IEEE-754 binary64 as pure Gallina (Coq's SpecFloat: the specification the kernel's primitive floats
   are axiomatised against; no primitive float is used here, so everything is computed by plain
   reduction on Z).  Go's float64 arithmetic (+ - * / and int64->float64 conversion, all round to
   nearest even) is these operations; Go's strconv/fmt "%.Nf" is the correctly rounded decimal of the
   float's exact value, which [to_Q] exposes. *)
From Coq Require Import ZArith QArith Qround Qabs Bool SpecFloat.
Open Scope Z_scope.

Definition f64 := spec_float.
Definition prec64 := 53.
Definition emax64 := 1024.

Definition fmul : f64 -> f64 -> f64 := SFmul prec64 emax64.
Definition fdiv : f64 -> f64 -> f64 := SFdiv prec64 emax64.
Definition fadd : f64 -> f64 -> f64 := SFadd prec64 emax64.
Definition fsub : f64 -> f64 -> f64 := SFsub prec64 emax64.
Definition fopp : f64 -> f64 := SFopp.
Definition fabs : f64 -> f64 := SFabs.

(* the float nearest (ties to even) to m * 2^e: float64(int64) is [of_Z z] *)
Definition of_dyadic (m e : Z) : f64 := binary_normalize prec64 emax64 m e false.
Definition of_Z (z : Z) : f64 := of_dyadic z 0.

(* exact value of a finite float; infinities and NaN (unreachable where this is used) map to 0 and
   are told apart by [is_finite] *)
Definition to_Q (f : f64) : Q :=
  match f with
  | S754_finite s m e =>
      let v := match e with
               | Zneg k => Qmake (Zpos m) (2 ^ k)%positive
               | _ => inject_Z (Zpos m * 2 ^ e)
               end in
      if s then Qopp v else v
  | _ => 0%Q
  end.

Definition is_finite (f : f64) : bool :=
  match f with S754_finite _ _ _ | S754_zero _ => true | _ => false end.

(* a rational that is exactly representable (a unit factor) as a float: n / 2^k or an integer *)
Fixpoint log2_pow2 (p : positive) : Z :=
  match p with xO q => 1 + log2_pow2 q | _ => 0 end.
Definition of_Q_dyadic (q : Q) : f64 := of_dyadic (Qnum q) (- log2_pow2 (Qden q)).

(* the 64 bits of a float, as Go's math.Float64bits (NaN: the canonical quiet NaN) *)
Definition bits (f : f64) : Z :=
  match f with
  | S754_zero s => if s then 2 ^ 63 else 0
  | S754_infinity s => (if s then 2 ^ 63 else 0) + 2047 * 2 ^ 52
  | S754_nan => 2047 * 2 ^ 52 + 2 ^ 51
  | S754_finite s m e =>
      (if s then 2 ^ 63 else 0) +
      (if Zpos m <? 2 ^ 52 then Zpos m else (e + 1075) * 2 ^ 52 + (Zpos m - 2 ^ 52))
  end.

Definition of_bits (b : Z) : f64 :=
  let s := 2 ^ 63 <=? b in
  let r := b mod 2 ^ 63 in
  let ex := r / 2 ^ 52 in
  let mant := r mod 2 ^ 52 in
  if ex =? 2047 then (if mant =? 0 then S754_infinity s else S754_nan)
  else if ex =? 0 then match mant with Zpos m => S754_finite s m (-1074) | _ => S754_zero s end
  else match mant + 2 ^ 52 with Zpos m => S754_finite s m (ex - 1075) | _ => S754_nan end.

Definition fcompare (a b : f64) : option comparison := SFcompare a b.
Definition fleb (a b : f64) : bool := SFleb a b.
Definition fltb (a b : f64) : bool := SFltb a b.
Definition feqb (a b : f64) : bool := SFeqb a b.

(* Go's int64(f) for a finite f within range: truncation toward zero *)
Definition trunc_Z (f : f64) : Z :=
  let q := to_Q f in
  if Qle_bool 0 q then Qfloor q else Qceiling q.
