(* Generic case format shared by every correspondence check.
   A case is a pair (input, observed) of [term]s written by the Go harness; the model's
   runner maps input to the model's observable, the spec checker judges the implementation's
   observable. No proofs in this file: it must keep evaluating when a proof breaks. *)
From Coq Require Export List ZArith String Ascii Bool.
Export ListNotations.
Open Scope Z_scope.

Inductive term :=
| TZ (z : Z)
| TS (s : string)
| TL (l : list term).

(* Strings containing bytes outside 0x20..0x7e are shipped as [TS (B [..])]. *)
Fixpoint B (l : list Z) : string :=
  match l with
  | [] => EmptyString
  | z :: r => String (ascii_of_N (Z.to_N z)) (B r)
  end.

Fixpoint bytes_of_string (s : string) : list Z :=
  match s with
  | EmptyString => []
  | String a r => Z.of_N (N_of_ascii a) :: bytes_of_string r
  end.

Fixpoint term_eqb (a b : term) {struct a} : bool :=
  match a, b with
  | TZ x, TZ y => Z.eqb x y
  | TS x, TS y => String.eqb x y
  | TL x, TL y =>
      (fix go (x y : list term) : bool :=
         match x, y with
         | [], [] => true
         | a :: x', b :: y' => term_eqb a b && go x' y'
         | _, _ => false
         end) x y
  | _, _ => false
  end.

(* Decoders: total, with defaults; [wf] style validation is done by the runner where needed. *)
Definition gz (t : term) : Z := match t with TZ z => z | _ => 0 end.
Definition gs (t : term) : string := match t with TS s => s | _ => EmptyString end.
Definition gl (t : term) : list term := match t with TL l => l | _ => [] end.
Definition gb (t : term) : bool := negb (Z.eqb (gz t) 0).
Definition gn (t : term) (n : nat) : term := nth n (gl t) (TL []).
Definition gzs (t : term) : list Z := map gz (gl t).
Definition gss (t : term) : list string := map gs (gl t).

Definition of_bool (b : bool) : term := TZ (if b then 1 else 0).
Definition of_zs (l : list Z) : term := TL (map TZ l).
Definition of_ss (l : list string) : term := TL (map TS l).
Definition of_opt {A} (f : A -> term) (o : option A) : term :=
  match o with Some a => TL [f a] | None => TL [] end.

(* Result of judging one case.
   corr  : the model's observable equals the implementation's (correspondence)
   spec  : the specification accepts the implementation's observable
   cls   : ids of the known-finding classes the input belongs to (decidable class predicates
           defined next to the _refuted theorems) *)
Record verdict := { v_corr : bool; v_spec : bool; v_cls : list Z }.

Section Judge.
  Variable run : term -> term.                 (* input |-> model observable *)
  Variable eqv : term -> term -> term -> bool. (* input, model observable, implementation observable *)
  Variable spec : term -> term -> bool.        (* input, implementation observable |-> spec accepts *)
  Variable cls : term -> list Z.               (* input |-> known-finding / skip classes *)

  (* only the interesting cases are reported: (index, (corr, spec), classes) *)
  Fixpoint judge_all (n : Z) (cs : list (term * term)) : list (Z * (Z * Z) * list Z) :=
    match cs with
    | [] => []
    | (i, o) :: r =>
        let c := eqv i (run i) o in
        let s := spec i o in
        let k := cls i in
        let rest := judge_all (n + 1) r in
        if c && s && match k with [] => true | _ => false end
        then rest
        else (n, ((if c then 1 else 0), (if s then 1 else 0)), k) :: rest
    end.
End Judge.

Definition eqv_exact (i m o : term) : bool := term_eqb m o.
