(* C18 lemmas for DOT, part 1: quoted-string bodies, escapeForDot, the lexer on quoted tokens. *)
From Coq Require Import Lia.
From PV Require Import M_Dot S_Dot S_DotClass.
Open Scope string_scope.
Open Scope Z_scope.

(* ---------------- strings ---------------- *)
Lemma append_nil_r : forall s : string, s ++ "" = s.
Proof. induction s as [|c r IH]; simpl; [reflexivity | now rewrite IH]. Qed.

Lemma append_assoc : forall a b c : string, (a ++ b) ++ c = a ++ (b ++ c).
Proof. induction a as [|x r IH]; simpl; intros; [reflexivity | now rewrite IH]. Qed.

Lemma rev_acc_app : forall a b acc, rev_string_acc (a ++ b) acc = rev_string_acc b (rev_string_acc a acc).
Proof. induction a as [|x r IH]; simpl; intros; [reflexivity | apply IH]. Qed.

Lemma rev_acc_spec : forall a acc, rev_string_acc a acc = rev_string_acc a "" ++ acc.
Proof.
  induction a as [|x r IH]; simpl; intros; [reflexivity|].
  rewrite IH. rewrite (IH (String x "")). rewrite append_assoc. reflexivity.
Qed.

Lemma rev_rev_acc : forall a acc, rev_string_acc (rev_string_acc a acc) "" = rev_string_acc acc "" ++ a.
Proof.
  induction a as [|x r IH]; simpl; intros; [now rewrite append_nil_r|].
  rewrite IH. simpl. rewrite (rev_acc_spec acc (String x "")). rewrite append_assoc. reflexivity.
Qed.

Lemma rev_string_involutive : forall a, rev_string (rev_string a) = a.
Proof. intro a. unfold rev_string. rewrite rev_rev_acc. reflexivity. Qed.

(* ---------------- character classes, by exhaustion over the 256 bytes ---------------- *)
Ltac all_bytes c :=
  destruct c as [b0 b1 b2 b3 b4 b5 b6 b7];
  destruct b0, b1, b2, b3, b4, b5, b6, b7.

Lemma cclass_quo : forall c, cclass c = CQuo -> c = c_quote.
Proof. intros c; all_bytes c; vm_compute; intro H; first [reflexivity | discriminate H]. Qed.
Lemma cclass_bsl : forall c, cclass c = CBsl -> c = c_bslash.
Proof. intros c; all_bytes c; vm_compute; intro H; first [reflexivity | discriminate H]. Qed.
Lemma cclass_nl : forall c, cclass c = CNl -> c = c_nl.
Proof. intros c; all_bytes c; vm_compute; intro H; first [reflexivity | discriminate H]. Qed.

(* ---------------- the quoted-string automaton ---------------- *)
Lemma qscan_app : forall a b e,
  qscan e (a ++ b) = match qscan e a with Some e' => qscan e' b | None => None end.
Proof.
  induction a as [|c r IH]; simpl; intros b e; [reflexivity|].
  destruct (cclass c); try apply IH. destruct e; [apply IH | reflexivity].
Qed.

Lemma qsafe_app : forall a b, qsafe a = true -> qsafe b = true -> qsafe (a ++ b) = true.
Proof.
  unfold qsafe. intros a b Ha Hb. rewrite qscan_app.
  destruct (qscan false a) as [[|]|]; try discriminate Ha. exact Hb.
Qed.

Lemma qsafe_nil : qsafe "" = true.
Proof. reflexivity. Qed.

Lemma qsafe_concat_with : forall sep l, qsafe sep = true -> forallb qsafe l = true -> qsafe (concat_with sep l) = true.
Proof.
  intros sep l Hs. induction l as [|x r IH]; simpl; intro H; [reflexivity|].
  apply andb_prop in H. destruct H as [Hx Hr]. destruct r as [|y r']; [exact Hx|].
  apply qsafe_app; [exact Hx|]. apply qsafe_app; [exact Hs | apply IH; exact Hr].
Qed.

(* a text in which neither a quote nor a backslash occurs *)
Definition plain_char (c : ascii) : bool := match cclass c with CQuo | CBsl => false | _ => true end.
Lemma qscan_plain : forall s e, str_forallb plain_char s = true -> s <> "" -> qscan e s = Some false.
Proof.
  induction s as [|c r IH]; intros e H Hne; [congruence|].
  simpl in H. apply andb_prop in H. destruct H as [Hc Hr]. simpl.
  unfold plain_char in Hc.
  destruct r as [|d r'].
  - destruct (cclass c); try discriminate Hc; reflexivity.
  - assert (IH' : forall e', qscan e' (String d r') = Some false) by (intro; apply IH; [exact Hr | discriminate]).
    destruct (cclass c); try discriminate Hc; apply IH'.
Qed.
Lemma qsafe_plain : forall s, str_forallb plain_char s = true -> qsafe s = true.
Proof.
  intros s H. destruct s as [|c r]; [reflexivity|]. unfold qsafe. rewrite qscan_plain; [reflexivity | exact H | discriminate].
Qed.

(* ---------------- escapeForDot ---------------- *)
Definition esc_char (c : ascii) : string :=
  if Ascii.eqb c (ascii_of_N 92) then s_bs_bs
  else if Ascii.eqb c (ascii_of_N 34) then s_bs_q
  else if Ascii.eqb c (ascii_of_N 10) then s_bs_l
  else String c "".

Lemma replace1_app : forall o n a b, replace1 o n (a ++ b) = replace1 o n a ++ replace1 o n b.
Proof.
  induction a as [|c r IH]; simpl; intros; [reflexivity|].
  destruct (Ascii.eqb c o); rewrite IH; [now rewrite append_assoc | reflexivity].
Qed.

Lemma replace1_cons_eq : forall o n r, replace1 o n (String o r) = n ++ replace1 o n r.
Proof. intros. simpl. now rewrite Ascii.eqb_refl. Qed.
Lemma replace1_cons_neq : forall o n c r, c <> o -> replace1 o n (String c r) = String c (replace1 o n r).
Proof. intros o n c r H. simpl. apply Ascii.eqb_neq in H. now rewrite H. Qed.

(* the three ReplaceAll passes amount to one simultaneous substitution *)
Lemma escape_cons : forall c r, escape_for_dot (String c r) = esc_char c ++ escape_for_dot r.
Proof.
  intros c r. unfold escape_for_dot, esc_char.
  destruct (Ascii.eqb_spec c (ascii_of_N 92)) as [E1|N1].
  - subst c. rewrite replace1_cons_eq, !replace1_app. reflexivity.
  - rewrite (replace1_cons_neq _ _ _ _ N1).
    destruct (Ascii.eqb_spec c (ascii_of_N 34)) as [E2|N2].
    + subst c. rewrite replace1_cons_eq, !replace1_app. reflexivity.
    + rewrite (replace1_cons_neq _ _ _ _ N2).
      destruct (Ascii.eqb_spec c (ascii_of_N 10)) as [E3|N3].
      * subst c. rewrite replace1_cons_eq. reflexivity.
      * rewrite (replace1_cons_neq _ _ _ _ N3). reflexivity.
Qed.

Lemma escape_nil : escape_for_dot "" = "".
Proof. reflexivity. Qed.

Lemma qscan_esc_char : forall c, qscan false (esc_char c) = Some false.
Proof.
  intro c. unfold esc_char.
  destruct (Ascii.eqb_spec c (ascii_of_N 92)); [reflexivity|].
  destruct (Ascii.eqb_spec c (ascii_of_N 34)); [reflexivity|].
  destruct (Ascii.eqb_spec c (ascii_of_N 10)); [reflexivity|].
  simpl. destruct (cclass c) eqn:E; try reflexivity.
  - apply cclass_quo in E. contradiction.
  - apply cclass_bsl in E. contradiction.
Qed.

Lemma escape_qscan : forall s, qscan false (escape_for_dot s) = Some false.
Proof.
  induction s as [|c r IH]; [reflexivity|].
  rewrite escape_cons, qscan_app, qscan_esc_char. exact IH.
Qed.

Lemma escape_safe : forall s, qsafe (escape_for_dot s) = true.
Proof. intro s. unfold qsafe. now rewrite escape_qscan. Qed.

(* escapeTagForDot: whatever Split returns, the pieces are escaped and joined by backslash-n *)
Lemma escape_tag_safe : forall s, qsafe (escape_tag_for_dot s) = true.
Proof.
  intro s. unfold escape_tag_for_dot. apply qsafe_concat_with; [reflexivity|].
  induction (split2 (ascii_of_N 92) "n"%char s "") as [|x r IH]; simpl; [reflexivity|].
  now rewrite escape_safe, IH.
Qed.

(* ---------------- lexer ---------------- *)
Lemma lex_go_app : forall a b m,
  lex_go m (a ++ b) =
  let '(m1, t1) := lex_go m a in let '(m2, t2) := lex_go m1 b in (m2, (t1 ++ t2)%list).
Proof.
  induction a as [|c r IH]; simpl; intros b m.
  - destruct (lex_go m b); reflexivity.
  - destruct (lstep m c) as [m1 t1]. rewrite IH.
    destruct (lex_go m1 r) as [m2 t2]. destruct (lex_go m2 b) as [m3 t3].
    now rewrite app_assoc.
Qed.

Lemma lex_str_body : forall body racc e e',
  qscan e body = Some e' -> lex_go (LStr racc e) body = (LStr (qacc racc e body) e', []).
Proof.
  induction body as [|c r IH]; simpl; intros racc e e' H.
  - now inversion H.
  - unfold qstep. destruct (cclass c); destruct e; simpl in *; try discriminate H;
      rewrite (IH _ _ _ H); reflexivity.
Qed.

(* [LxC s ts]: wherever the lexer is between tokens, the text s yields exactly ts and leaves it
   between tokens again, whatever follows *)
Definition LxC (s : string) (ts : list token) : Prop :=
  forall rest, lex_go LInit (s ++ rest) = let '(m, t) := lex_go LInit rest in (m, (ts ++ t)%list).

Lemma LxC_nil : LxC "" [].
Proof. intro rest. simpl. destruct (lex_go LInit rest); reflexivity. Qed.

Lemma LxC_app : forall a b ta tb, LxC a ta -> LxC b tb -> LxC (a ++ b) (ta ++ tb)%list.
Proof.
  intros a b ta tb Ha Hb rest. rewrite append_assoc, Ha, Hb.
  destruct (lex_go LInit rest). now rewrite app_assoc.
Qed.

Lemma LxC_lit : forall s ts, lex_go LInit s = (LInit, ts) -> LxC s ts.
Proof. intros s ts H rest. rewrite lex_go_app, H. destruct (lex_go LInit rest); reflexivity. Qed.

Lemma LxC_quoted : forall body, qsafe body = true -> LxC (quoted body) [TStr (qview body)].
Proof.
  intros body H rest. unfold quoted. unfold qsafe in H.
  destruct (qscan false body) as [[|]|] eqn:E; try discriminate H.
  change (String c_quote (body ++ String c_quote "") ++ rest)
    with (String c_quote ((body ++ String c_quote "") ++ rest)).
  rewrite append_assoc.
  change (lex_go LInit (String c_quote (body ++ String c_quote "" ++ rest)))
    with (let '(m2, t2) := lex_go (LStr "" false) (body ++ String c_quote "" ++ rest) in (m2, ([] ++ t2)%list)).
  rewrite lex_go_app, (lex_str_body _ _ _ _ E).
  change (lex_go (LStr (qacc "" false body) false) (String c_quote "" ++ rest))
    with (let '(m2, t2) := lex_go LInit rest in (m2, ([TStr (rev_string (qacc "" false body))] ++ t2)%list)).
  destruct (lex_go LInit rest). reflexivity.
Qed.

(* escape_quoted_is_one_token, for ALL strings *)
Lemma escape_quoted_one_token : forall s rest,
  lex_go LInit (quoted (escape_for_dot s) ++ rest) =
  let '(m, t) := lex_go LInit rest in (m, TStr (qview (escape_for_dot s)) :: t).
Proof. intros s rest. apply (LxC_quoted _ (escape_safe s)). Qed.

Lemma escape_tag_quoted_one_token : forall s rest,
  lex_go LInit (quoted (escape_tag_for_dot s) ++ rest) =
  let '(m, t) := lex_go LInit rest in (m, TStr (qview (escape_tag_for_dot s)) :: t).
Proof. intros s rest. apply (LxC_quoted _ (escape_tag_safe s)). Qed.

(* the token reads back as the string (escString level) *)
Lemma qacc_esc_char : forall c r racc,
  qacc racc false (esc_char c ++ r) = qacc (rev_string_acc (esc_view (String c "")) racc) false r.
Proof.
  intros c r racc. unfold esc_char.
  destruct (Ascii.eqb_spec c (ascii_of_N 92)); [subst c; reflexivity|].
  destruct (Ascii.eqb_spec c (ascii_of_N 34)); [subst c; reflexivity|].
  destruct (Ascii.eqb_spec c (ascii_of_N 10)); [subst c; reflexivity|].
  simpl. unfold qstep, is_quote, is_bslash, is_nl.
  destruct (cclass c) eqn:E; try reflexivity.
  - apply cclass_nl in E. contradiction.
  - apply cclass_quo in E. contradiction.
  - apply cclass_bsl in E. contradiction.
Qed.

Lemma esc_view_cons : forall c r, esc_view (String c r) = esc_view (String c "") ++ esc_view r.
Proof.
  intros c r. simpl. destruct (is_quote c); [reflexivity|]. destruct (is_bslash c); [reflexivity|].
  destruct (is_nl c); reflexivity.
Qed.

Lemma qacc_escape : forall s racc,
  qacc racc false (escape_for_dot s) = rev_string_acc (esc_view s) racc.
Proof.
  induction s as [|c r IH]; intro racc; [reflexivity|].
  rewrite escape_cons, qacc_esc_char, IH, (esc_view_cons c r), rev_acc_app. reflexivity.
Qed.

Lemma qview_escape : forall s, qview (escape_for_dot s) = esc_view s.
Proof.
  intro s. unfold qview. rewrite qacc_escape. apply (rev_string_involutive (esc_view s)).
Qed.

Lemma escape_reads_back : forall s, escapes_to s (escape_for_dot s) = true.
Proof.
  intro s. unfold escapes_to, lex.
  assert (H : lex_go LInit (quoted (escape_for_dot s)) = (LInit, [TStr (qview (escape_for_dot s))])).
  { rewrite <- (append_nil_r (quoted (escape_for_dot s))). rewrite escape_quoted_one_token. reflexivity. }
  rewrite H. simpl. rewrite qview_escape. apply String.eqb_refl.
Qed.
