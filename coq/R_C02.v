(* Case runner for C02 (parsing is total: an error or a valid profile). *)
From PV Require Import M_Codec M_Valid S_Valid S_Codec.
Open Scope string_scope.
Open Scope list_scope.
Open Scope Z_scope.

(* oracles shipped in the case: what the gzip reader and the legacy-parser chain answered *)
Definition gunzip_of (g : term) (_ : bytes) : res bytes :=
  if String.eqb (gs (gn g 0)) "ok" then Ok (bytes_of_string (gs (gn g 1))) else Err e_generic.
Definition legacy_of (l : term) (_ : bytes) : res profile :=
  if String.eqb (gs (gn l 0)) "ok" then Ok (profile_of (gn l 1)) else Err e_generic.

Definition run_C02 (i : term) : term :=
  match parse_data (gunzip_of (gn i 2)) (legacy_of (gn i 3)) (bytes_of_string (gs (gn i 1))) with
  | Ok p => TL [TS "ok"; of_profile p]
  | Err _ => TL [TS "err"]
  | Panic s => TL [TS "panic"; TZ s]
  end.

(* the model predicts ok(dump)/err; the outcome of the follow-up operations is judged by the spec *)
Definition eqv_C02 (i m o : term) : bool :=
  match m, o with
  | TL [TS "ok"; d], TL (TS "ok" :: d' :: _) => term_eqb d d'
  | TL [TS "err"], TL [TS "err"] => true
  | _, _ => false
  end.

Definition spec_C02 (i o : term) : bool :=
  let k := gs (gn o 0) in
  if String.eqb k "err" then true
  else if String.eqb k "ok" then
    (* validity contract on what was returned + every follow-up operation ran without a crash *)
    contract_b (profile_of (gn o 1)) && String.eqb (gs (gn o 2)) "ok"
  else false.   (* panic / slow *)

Definition cls_C02 (i : term) : list Z := [].
Definition judge_C02 := judge_all run_C02 eqv_C02 spec_C02 cls_C02 0.
