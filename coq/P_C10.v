(* C10 -- Each interactive command or web request sees the pristine profile.
   Property theorems only (each closed by [exact] of a lemma of L_Session, or by computation on
   the tables regenerated from /repo on every run), followed by Print Assumptions. *)
From Coq Require Import QArith.
From PV Require Import M_Config M_Flags L_Flags M_Session S_Session L_Session M_Measure Gen.Gen_UnitTable Gen.Gen_ConfigTable Gen.Gen_CommandTable.
Open Scope string_scope.
Open Scope Z_scope.

(* ---------- facts about the tables the code has now ---------- *)
Theorem command_names_unique : nodup_str (map fst pprof_commands) = true.
Proof. vm_compute. reflexivity. Qed.
Print Assumptions command_names_unique.

(* the options a command line's arguments can override all exist *)
Theorem arg_fields_exist :
  forallb (fun n => existsb (fun f => String.eqb (f_name f) n) config_fields) arg_fields = true.
Proof. vm_compute. reflexivity. Qed.
Print Assumptions arg_fields_exist.

(* no command is spelled like an option or an option value (so the loop's "assignment first"
   rule never swallows a command) *)
Theorem no_command_is_an_option :
  forallb (fun c => match cfm_lookup config_fields (fst c) None with None => true | Some _ => false end) pprof_commands = true.
Proof. vm_compute. reflexivity. Qed.
Print Assumptions no_command_is_an_option.

(* ---------- the interactive loop ---------- *)
(* anything that is not an option assignment leaves the option state exactly as it was *)
Theorem commands_do_not_change_state : forall e c input,
  is_assignment e input = false -> state_of (step_input e c input) = c.
Proof. exact commands_do_not_change_state_lemma. Qed.
Print Assumptions commands_do_not_change_state.

(* whenever a report is generated: the option state is unchanged, and the configuration handed
   to the report differs from it at most in nodecount, output, sort, focus, ignore, tagfocus,
   tagignore -- the things a command line can spell *)
Theorem args_are_local : forall e c input cmd rc,
  In (EReport cmd rc) (events_of (step_input e c input)) ->
  state_of (step_input e c input) = c /\ (forall n, ~ In n arg_fields -> rc n = c n).
Proof. exact args_are_local_lemma. Qed.
Print Assumptions args_are_local.

(* assignments generate no report and do not end the session *)
Theorem assignments_do_not_report : forall e c input,
  is_assignment e input = true ->
  no_report (events_of (step_input e c input)) /\ exited (step_input e c input) = false.
Proof. exact step_input_assignment. Qed.
Print Assumptions assignments_do_not_report.

(* the option state after ANY history is the state after its assignments alone *)
Theorem state_is_fold_of_assignments : forall e h c,
  state_of (run_inputs e c h) = state_of (run_inputs e c (filter (keeps e) h)) /\
  exited (run_inputs e c h) = exited (run_inputs e c (filter (keeps e) h)).
Proof. exact state_is_fold_of_assignments_lemma. Qed.
Print Assumptions state_is_fold_of_assignments.

(* what an input does (which report, with which configuration, which error) does not depend on
   the commands that ran before: histories with the same assignments are indistinguishable *)
Theorem output_depends_only_on_options : forall e c h1 h2 input,
  filter (keeps e) h1 = filter (keeps e) h2 ->
  events_of (step_input e (state_of (run_inputs e c h1)) input) =
  events_of (step_input e (state_of (run_inputs e c h2)) input).
Proof. exact history_independence_lemma. Qed.
Print Assumptions output_depends_only_on_options.

(* every report is generated from a fresh decode of the immutable serialized profile, whatever
   the earlier reports did to theirs (for every report function, mutating or not) *)
Theorem copy_is_pristine : forall (P O : Type) (parse : string -> P) (report : P -> list string -> config -> O * P) bytes evs obj,
  run_reports P O parse report true bytes obj evs =
  map (fun ev => fst (report (parse bytes) (fst ev) (snd ev))) evs.
Proof. exact copy_is_pristine_lemma. Qed.
Print Assumptions copy_is_pristine.

(* ... which is needed: handing the same object on leaks a mutation into the next report *)
Theorem shared_profile_leaks :
  exists (report : list nat -> list string -> config -> nat * list nat) evs,
    run_reports (list nat) nat (fun _ => [1; 2; 3]%nat) report false "" [1; 2; 3]%nat evs <>
    map (fun ev => fst (report [1; 2; 3]%nat (fst ev) (snd ev))) evs.
Proof. exact shared_profile_leaks_lemma. Qed.
Print Assumptions shared_profile_leaks.

(* ---------- web requests ---------- *)
(* any interleaving of any number of request handlers: every request is answered with the
   configuration it would get alone, and the option state is left alone *)
Theorem requests_commute : forall e cur reqs sched,
  let s := wrun e reqs sched (winit cur) in
  w_cur s = cur /\ forall i r, w_resp s i = Some r -> r = answer e cur reqs i.
Proof. exact requests_commute_lemma. Qed.
Print Assumptions requests_commute.

(* ---------- end to end: the option state a run starts from ---------- *)
(* `pprof <option flags> profile`: a flag touches only the option it names (a choice flag the
   option it is a value of); without option flags the session / web UI starts from the defaults *)
Theorem option_flags_touch_only_named_options : forall pf fs c fl c' f,
  nodup_str (map f_name fs) = true -> config_flags pf fs c fl = Ok c' -> In f fs ->
  flag_get fl (f_name f) = None -> (forall ch, In ch (f_choices f) -> flag_true fl ch = false) ->
  c' (f_name f) = c (f_name f).
Proof. exact config_flags_untouched. Qed.
Print Assumptions option_flags_touch_only_named_options.

Theorem no_option_flags_no_change : forall pf fs c, config_flags pf fs c [] = Ok c.
Proof. exact config_flags_nil. Qed.
Print Assumptions no_option_flags_no_change.

(* ---------- shared helpers on the report path ---------- *)
(* every value a report prints goes through the unit lookup of internal/measurement; the output
   unit a report chose travels there by its CANONICAL name.  On the unit table the code has now,
   each canonical name resolves to its own unit -- in particular names that differ only in case
   (m*GCU / M*GCU) are different units with different factors, so the lookup cannot be keyed
   case-insensitively *)
Definition canonical_names_resolve (uts : list unit_type) : bool :=
  forallb (fun ut => forallb (fun u => match sniff_unit ut (u_name u) with
                                       | Some v => String.eqb (u_name v) (u_name u) && Qeq_bool (u_factor v) (u_factor u)
                                       | None => false
                                       end) (ut_units ut)) uts.
Theorem canonical_unit_names_resolve_to_themselves : canonical_names_resolve unit_types = true.
Proof. vm_compute. reflexivity. Qed.
Print Assumptions canonical_unit_names_resolve_to_themselves.

(* ... and there ARE canonical names that coincide once lower-cased, with different factors *)
Theorem some_canonical_names_differ_only_in_case :
  existsb (fun ut => existsb (fun u => existsb (fun v => String.eqb (to_lower (u_name u)) (to_lower (u_name v))
                                                        && negb (Qeq_bool (u_factor u) (u_factor v)))
                                               (ut_units ut)) (ut_units ut)) unit_types = true.
Proof. vm_compute. reflexivity. Qed.
Print Assumptions some_canonical_names_differ_only_in_case.

(* ---------- the hypotheses are satisfiable / the model does what one expects ---------- *)
Definition env0 : env :=
  {| e_fields := config_fields; e_pf := fun s => Some s; e_commands := pprof_commands; e_help := config_help_keys;
     e_types := ["samples"; "cpu"]; e_default_type := "" |}.
Example top_args_local :
  let c := default_cfg config_fields in
  match step_input env0 c "top5 main -runtime -cum >out" with
  | (c', [EReport cmd rc], false) =>
      (cmd, rc "nodecount", rc "focus", rc "ignore", rc "sort", rc "output", c' "nodecount", c' "focus", c' "sort")
      = (["top"], "5", "main", "runtime", "cum", "out", "-1", "", "flat")
  | _ => False
  end.
Proof. vm_compute. reflexivity. Qed.
Example assignment_persists :
  state_of (run_inputs env0 (default_cfg config_fields) ["focus=main"; "top"; "tree foo"; "cum=1"]) "focus" = "main" /\
  state_of (run_inputs env0 (default_cfg config_fields) ["focus=main"; "top"; "tree foo"; "cum=1"]) "sort" = "cum".
Proof. vm_compute. split; reflexivity. Qed.
