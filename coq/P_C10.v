(* C10 -- Each interactive command or web request sees the pristine profile. *)
From PV Require Import M_Config M_Session S_Session Gen.Gen_ConfigTable Gen.Gen_CommandTable.
Open Scope Z_scope.

Theorem command_names_unique : nodup_str (map fst pprof_commands) = true.
Proof. vm_compute. reflexivity. Qed.
Print Assumptions command_names_unique.
