(* Case runner for C20: decodes the concurrent stress cases of harness/cmd/c20.go, predicts the
   observable from the model (M_Conc Part D and the sequential semantics the theorems of P_C20
   reduce every interleaving to) and evaluates the property's checkers (S_Conc) on what the
   implementation did. *)
From PV Require Import M_Conc S_Conc.
Open Scope string_scope.
Open Scope Z_scope.

Definition dec_cop (t : term) : cop :=
  let k := gs (gn t 0) in
  if String.eqb k "set" then CSet (gz (gn t 1))
  else if String.eqb k "cfg" then CConf (gz (gn t 1))
  else CGet.
Definition dec_threads (t : term) : list (list cop) := map (fun th => map dec_cop (gl th)) (gl t).
Definition dec_cfg (t : term) : cfgv := (gz (gn t 0), gs (gn t 1)).
Definition enc_cfg (c : cfgv) : term := TL [TZ (fst c); TS (snd c)].
Definition nops (todo : list (list cop)) : nat := List.length (List.concat todo).

Definition enc_outcome (o : list (list cfgv) * cfgv) : term :=
  TL [TL (map (fun l => TL (map enc_cfg l)) (fst o)); enc_cfg (snd o)].

Fixpoint sumZ (l : list Z) : Z := match l with [] => 0 | a :: r => a + sumZ r end.

(* for "options" the model has a SET of outcomes; run_C20 returns them all and eqv checks membership *)
Definition run_C20 (i : term) : term :=
  let op := gs (gn i 0) in
  if String.eqb op "tempfile" then
    let k := Z.to_nat (gz (gn i 2)) in
    (* a taken name is taken whatever the file behind it looks like: the kinds (gn i 3) play no role *)
    TL [of_zs (smallest_free (S (List.length (gl (gn i 1)) + k)) 1 (gzs (gn i 1)) k); TZ 1; TZ 1]
  else if String.eqb op "options" then
    let init := gz (gn i 1) in
    let todo := dec_threads (gn i 2) in
    TL (map enc_outcome (outcomes (S (nops todo)) (init, out_of init) todo (map (fun _ => []) todo)))
  else if String.eqb op "serialize" then
    TL [of_zs (repeat 1 (Z.to_nat (gz (gn i 1)))); TZ 1]
  else if String.eqb op "pipe" then
    TL (map (fun a => let hex := gs (gn a 1) in
                      TL [TS ("fn_" ++ hex); TS ("file_" ++ hex); TZ (gz (gn a 0) mod 1000 + 1)]) (gl (gn i 2)))
  else if String.eqb op "once" then
    (* once_computes_once: the body ran once -- on a failed first use its value is the error -- and
       every later caller reads that one outcome *)
    TL (map (fun _ => TZ (if gb (gn i 3) then -1 else gz (gn i 1))) (gl (gn i 2)))
  else if String.eqb op "settings" then
    let names := gss (gn i 1) in
    let keep := skipn (Z.to_nat (gz (gn i 2))) names in
    TL [of_ss keep; TZ 1; TZ 1]
  else if String.eqb op "fetch" then
    let ok := filter (fun v => 0 <=? v) (gzs (gn i 1)) in
    TL [TZ (Z.of_nat (List.length ok)); TZ (sumZ ok); TZ 1]
  else if String.eqb op "web" then
    TL [of_zs (repeat 1 (Z.to_nat (gz (gn i 1))))]
  else if String.eqb op "fields" then
    (* configure is one critical section (option_ops_are_atomic) that changes only its own field, and
       every interleaving equals a sequential order of whole operations (atomic_ops_linearizable):
       whatever that order, no other thread's operation touches field i, so each read-back and the
       final value of field i are thread i's last written value *)
    let r := Z.to_nat (gz (gn i 2)) in
    TL [TL (map (fun _ => of_zs (repeat 1 r)) (gl (gn i 1))); of_zs (map (fun _ => 1) (gl (gn i 1)))]
  else if String.eqb op "errpaths" then
    (* whether configure rejects an assignment depends on (name, value) only; once an operation has
       returned no lock is held (end condition of [wl]) and nobody is ever blocked (no_deadlock) *)
    TL [TL (map (fun th => TL (map (fun o => TL [of_bool (conf_rejects (gs (gn o 0)) (gs (gn o 1))); TL []]) (gl th)))
                (gl (gn i 1))); TZ 0; TL []]
  else if String.eqb op "registry" then
    (* registry_never_loses_a_file: after the final cleanup (registry empty) no registered file is on
       disk; each file is registered once and removed once, so no os.Remove fails; no lock left held *)
    TL [TZ 0; TZ 0; TL []]
  else if String.eqb op "e2e-fetch" then
    (* glue: which sources of an invocation are fetched (M_Conc Part G) and that the result is their merge *)
    let srcs := map (fun t => (gz (gn t 0), gz (gn t 1))) (gl (gn i 1)) in
    TL [TZ (e2e_total srcs); of_bool (e2e_any srcs); TZ 0; TL []]
  else if String.eqb op "e2e-perf" then
    let vals := gzs (gn i 1) in
    TL [TZ (sumZ vals); TZ 1; TZ 0; TZ (Z.of_nat (List.length vals)); TZ 0]
  else if String.eqb op "e2e-session" then
    TL [TZ 0; TL []; TZ (Z.of_nat (List.length (filter (fun l => contains_char ">" l) (gss (gn i 1)))))]
  else if String.eqb op "e2e-webfirst" then
    (* ... and every download, first or later, is the profile (serialize_concurrent_equals_sequential) *)
    TL [TZ 1; of_zs (repeat 200 (Z.to_nat (gz (gn i 2)))); TZ 0]
  else if String.eqb op "ui-lines" then
    (* ui_print_whole_lines: each Print is ONE write of message+newline, so any interleaving of the
       writers is a sequence of whole lines: k*m lines, none empty, none torn *)
    TL [TZ (gz (gn i 1) * gz (gn i 2)); TZ 0; TZ 0]
  else if String.eqb op "ui-fetch" then
    let good := gz (gn i 1) in TL [TZ (good * (good + 1) / 2); TZ 0; TZ 0]
  else if String.eqb op "settings-read" then
    (* a reader sees the file before or after a save (atomic replace), whatever the file is; re-saving
       never removes a config, so every read lists all configs saved before *)
    TL [TZ 1; TZ 0; TZ 0; of_ss (gss (gn i 2)); TL []]
  else if String.eqb op "web-errors" then
    (* per-request state only: every page, in every round, shows exactly its own request's messages *)
    let page := TL (map (fun r => of_ss (web_errors (gz (gn r 1)))) (gl (gn i 2))) in
    TL (repeat page (Z.to_nat (gz (gn i 1))))
  else if String.eqb op "cow1" then TZ 0   (* lost settings: get's lazy initialisation and update are single sections on one store *)
  else if String.eqb op "cow" then TZ 1
  else TL [TS "unknown-op"].

Definition eqv_C20 (i m o : term) : bool :=
  if String.eqb (gs (gn i 0)) "options" then existsb (term_eqb o) (gl m) else term_eqb m o.

(* the property's own checkers on the implementation's observable *)
Definition spec_C20 (i o : term) : bool :=
  let op := gs (gn i 0) in
  if String.eqb op "tempfile" then
    tempfile_spec (gzs (gn i 1)) (gzs (gn o 0)) (gb (gn o 1)) (gz (gn i 2)) && gb (gn o 2)
  else if String.eqb op "options" then
    let init := gz (gn i 1) in
    let todo := dec_threads (gn i 2) in
    lin_search (S (nops todo)) (init, out_of init) todo
               (map (fun l => map dec_cfg (gl l)) (gl (gn o 0))) (dec_cfg (gn o 1))
  else if String.eqb op "serialize" then
    all_equal_seq (gzs (gn o 0)) (gz (gn i 1)) && gb (gn o 1)
  else if String.eqb op "pipe" then term_eqb (run_C20 i) o      (* = the answers of the tool, one at a time *)
  else if String.eqb op "once" then term_eqb (run_C20 i) o      (* every caller sees the one base *)
  else if String.eqb op "settings" then term_eqb (run_C20 i) o  (* no lost update, no stray temp file *)
  else if String.eqb op "fetch" then term_eqb (run_C20 i) o
  else if String.eqb op "e2e-fetch" then term_eqb (run_C20 i) o    (* each source decided as it is alone; nothing blocked or leaked *)
  else if String.eqb op "e2e-perf" then term_eqb (run_C20 i) o     (* every conversion its own output name, all sources merged, nothing left behind *)
  else if String.eqb op "e2e-session" then term_eqb (run_C20 i) o  (* the session finishes, every redirected command wrote its file, no lock held *)
  else if String.eqb op "e2e-webfirst" then term_eqb (run_C20 i) o (* the process survives its first concurrent requests, all answered 200 *)
  else if String.eqb op "ui-lines" then term_eqb (run_C20 i) o      (* every message a line of its own *)
  else if String.eqb op "ui-fetch" then term_eqb (run_C20 i) o      (* parallel run prints the lines of the one-at-a-time runs *)
  else if String.eqb op "settings-read" then term_eqb (run_C20 i) o (* no page ever loses the saved configs *)
  else if String.eqb op "web-errors" then term_eqb (run_C20 i) o   (* no page shows another request's messages or misses its own *)
  else if String.eqb op "cow1" then term_eqb (run_C20 i) o       (* a setting made during the first use is never lost *)
  else if String.eqb op "errpaths" then term_eqb (run_C20 i) o   (* rejected like one at a time, nothing blocked, no lock leaked *)
  else if String.eqb op "registry" then term_eqb (run_C20 i) o   (* no registered file leaked, no cleanup failed *)
  else if String.eqb op "fields" then term_eqb (run_C20 i) o     (* no lost update: every field holds what its owner wrote *)
  else if String.eqb op "web" then all_equal_seq (gzs (gn o 0)) (gz (gn i 1))
  else true.

Definition cls_C20 (i : term) : list Z := [].

Definition judge_C20 := judge_all run_C20 eqv_C20 spec_C20 cls_C20 0%Z.
