(* Executable model of internal/driver/settings.go at the level of named configurations.
   The settings file is [fstate]: absent, unparsable, or the list of named configs that
   readSettings would decode.  encoding/json is abstracted: saved fields survive, strings go
   through the oracle [js] (json.Marshal replaces invalid UTF-8 by U+FFFD), non-finite floats make
   json.Marshal fail, fields without a JSON tag are not stored.  No proofs in this file. *)
From PV Require Export M_Config.
Open Scope string_scope.
Open Scope Z_scope.

Definition settings := list (string * config).
Inductive fstate := FAbsent | FCorrupt | FGood (ss : settings).

Definition nonfinite (s : string) : bool :=
  String.eqb s "NaN" || String.eqb s "+Inf" || String.eqb s "-Inf".

Section Settings.
  Variable pf : string -> option string.   (* ParseFloat;Sprint oracle *)
  Variable js : string -> string.          (* encoding/json string round trip oracle *)
  Variable flds : list field.

  Definition json_ok_cfg (c : config) : bool :=
    forallb (fun f => negb (f_saved f && match f_kind f with KFloat => nonfinite (c (f_name f)) | _ => false end)) flds.

  (* what a config looks like after Marshal;Unmarshal into a zero config *)
  Definition stored_cfg (c : config) : config :=
    fun n => match find_field flds n with
             | Some f => if f_saved f
                         then match f_kind f with
                              | KStr => js (c n)
                              | KFloat => if String.eqb (c n) "-0" then "0" else c n  (* omitempty drops -0 *)
                              | _ => c n
                              end
                         else zero_of (f_kind f)
             | None => c n
             end.

  Definition write_settings (ss : settings) : option fstate :=
    if forallb (fun nc => json_ok_cfg (snd nc)) ss
    then Some (FGood (map (fun nc => (js (fst nc), stored_cfg (snd nc))) ss))
    else None.

  (* readSettings: a missing file is the empty list; every config gets resetTransient *)
  Definition read_settings (cur : config) (st : fstate) : option settings :=
    match st with
    | FAbsent => Some []
    | FCorrupt => None
    | FGood ss => Some (map (fun nc => (fst nc, reset_transient flds (snd nc) cur)) ss)
    end.

  (* editSettings (under settingsMu): read, apply fn, write; any failure leaves the file alone.
     result code: 0 ok, 3 read error, 5 encode error, other = fn's error *)
  Definition edit_settings (cur : config) (st : fstate) (fn : settings -> Z * settings) : Z * fstate :=
    match read_settings cur st with
    | None => (3, st)
    | Some ss =>
        let '(code, ss') := fn ss in
        if code =? 0 then
          match write_settings ss' with
          | Some st' => (0, st')
          | None => (5, st)
          end
        else (code, st)
    end.

  Fixpoint replace_first (ss : settings) (name : string) (c : config) : option settings :=
    match ss with
    | [] => None
    | (n, c0) :: r =>
        if String.eqb n name then Some ((n, c) :: r)
        else match replace_first r name c with Some r' => Some ((n, c0) :: r') | None => None end
    end.
  Definition set_fn (name : string) (c : config) (ss : settings) : Z * settings :=
    match replace_first ss name c with
    | Some ss' => (0, ss')
    | None => (0, (ss ++ [(name, c)])%list)
    end.

  Fixpoint remove_first (ss : settings) (name : string) : option settings :=
    match ss with
    | [] => None
    | (n, c0) :: r =>
        if String.eqb n name then Some r
        else match remove_first r name with Some r' => Some ((n, c0) :: r') | None => None end
    end.
  Definition remove_fn (name : string) (ss : settings) : Z * settings :=
    match remove_first ss name with
    | Some ss' => (0, ss')
    | None => (4, ss)
    end.

  (* setConfig: 1 = invalid name, 2 = applyURL error *)
  Definition set_config (cur : config) (st : fstate) (q : values) : Z * fstate :=
    let name := vget q "config" in
    if String.eqb name "" then (1, st)
    else match apply_url_go pf flds cur q with
         | Err _ => (2, st)
         | Ok c => edit_settings cur st (set_fn name c)
         end.

  Definition remove_config (cur : config) (st : fstate) (name : string) : Z * fstate :=
    edit_settings cur st (remove_fn name).

  (* configMenu: Default plus the user configs; entry = (name, query of the link, current?, user?) *)
  Fixpoint last_unchanged (l : list (string * (values * bool))) (i : nat) (acc : option nat) : option nat :=
    match l with
    | [] => acc
    | (_, (_, changed)) :: r => last_unchanged r (S i) (if changed then acc else Some i)
    end.
  Definition config_menu (cur : config) (st : fstate) (u : values) : list (string * values * bool * bool) :=
    let configs := ("Default", default_cfg flds) ::
                   match read_settings cur st with Some ss => ss | None => [] end in
    let made := map (fun nc => (fst nc, make_url flds (snd nc) u)) configs in
    let lm := last_unchanged made O None in
    let fix go (l : list (string * (values * bool))) (i : nat) :=
      match l with
      | [] => []
      | (n, (q, _)) :: r =>
          (n, q, match lm with Some k => Nat.eqb k i | None => false end, negb (Nat.eqb i 0)) :: go r (S i)
      end in
    go made O.
End Settings.

(* ---- operations of a history *)
Inductive sop := OpSave (q : values) | OpDelete (name : string).

Definition run_sop pf js flds (cur : config) (st : fstate) (o : sop) : Z * fstate :=
  match o with
  | OpSave q => set_config pf js flds cur st q
  | OpDelete n => remove_config js flds cur st n
  end.

(* a request whose write to disk fails (ENOSPC, EFBIG, EIO, ... anywhere in writeSettings after the
   JSON encoding): everything before the write happens as usual, then the request reports error 6
   and the file is what it was.  [io_ok = true] is the ordinary request. *)
Definition run_sop_io pf js flds (cur : config) (st : fstate) (o : sop) (io_ok : bool) : Z * fstate :=
  let '(code, st') := run_sop pf js flds cur st o in
  if io_ok then (code, st') else if code =? 0 then (6, st) else (code, st).

(* a history of requests of one process, each with its disk outcome *)
Definition run_hist pf js flds (cur : config) (st : fstate) (h : list (sop * bool)) : fstate :=
  fold_left (fun s ob => snd (run_sop_io pf js flds cur s (fst ob) (snd ob))) h st.

(* the requests of a history that succeeded *)
Fixpoint successes pf js flds (cur : config) (st : fstate) (h : list (sop * bool)) : list (sop * bool) :=
  match h with
  | [] => []
  | ob :: r =>
      let '(code, st') := run_sop_io pf js flds cur st (fst ob) (snd ob) in
      if code =? 0 then ob :: successes pf js flds cur st' r else successes pf js flds cur st r
  end.

(* what can go wrong between a request and the disk: nothing, the write fails (any system call of
   writeSettings after the JSON encoding), or the READ of the settings file fails (EACCES, EPERM, EIO
   on open/read: "could not read settings", code 3).  A save checks its name and URL before it reads,
   so codes 1 and 2 win over a read fault.  Only a file that does not exist reads as "no configs". *)
Inductive fault := NoFault | WriteFault | ReadFault.

Definition run_sop_f pf js flds (cur : config) (st : fstate) (o : sop) (f : fault) : Z * fstate :=
  match f with
  | NoFault => run_sop_io pf js flds cur st o true
  | WriteFault => run_sop_io pf js flds cur st o false
  | ReadFault =>
      let code := fst (run_sop pf js flds cur st o) in
      if (code =? 1) || (code =? 2) then (code, st) else (3, st)
  end.

Definition run_hist_f pf js flds (cur : config) (st : fstate) (h : list (sop * fault)) : fstate :=
  fold_left (fun s ob => snd (run_sop_f pf js flds cur s (fst ob) (snd ob))) h st.

Fixpoint successes_f pf js flds (cur : config) (st : fstate) (h : list (sop * fault)) : list (sop * fault) :=
  match h with
  | [] => []
  | ob :: r =>
      let '(code, st') := run_sop_f pf js flds cur st (fst ob) (snd ob) in
      if code =? 0 then ob :: successes_f pf js flds cur st' r else successes_f pf js flds cur st r
  end.

(* configMenu ignores a read error: only Default is listed *)
Definition config_menu_f flds (cur : config) (st : fstate) (u : values) (f : fault) :=
  match f with ReadFault => config_menu flds cur FCorrupt u | _ => config_menu flds cur st u end.

Definition run_sops pf js flds (cur : config) (st : fstate) (os : list sop) : fstate :=
  fold_left (fun s o => snd (run_sop pf js flds cur s o)) os st.
