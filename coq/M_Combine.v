(* Executable model of combining / subtracting profiles (property C07):
     internal/driver/fetch.go:63-78 (base labelling, -normalize, negation, merge), combineProfiles,
     profile/merge.go CompatibilizeSampleTypes + Normalize + (a simple, keyed) Merge,
     profile/profile.go Scale / ScaleN / SetLabel / DiffBaseSample,
     internal/measurement ScaleProfiles (CommonValueType and Scale come from M_Measure),
     internal/report computeTotal and the flat/cum numbers of a -top report.
   float64 arithmetic is modelled by exact rationals (math.Round = half away from zero).
   No proofs in this file. *)
From Coq Require Import QArith Qround Qabs.
From PV Require Export M_Profile M_Measure.
Open Scope Z_scope.

Inductive res (A : Type) : Type := Ok (a : A) | Err (e : string).
Arguments Ok {A} a.
Arguments Err {A} e.

Fixpoint map_res {A B} (f : A -> res B) (l : list A) : res (list B) :=
  match l with
  | [] => Ok []
  | a :: r => match f a with
              | Err e => Err e
              | Ok b => match map_res f r with Err e => Err e | Ok bs => Ok (b :: bs) end
              end
  end.

(* record updates *)
Definition set_samples (p : profile) (ss : list sample) : profile :=
  {| p_sampletype := p_sampletype p; p_defaultsampletype := p_defaultsampletype p; p_sample := ss;
     p_mapping := p_mapping p; p_location := p_location p; p_function := p_function p;
     p_comments := p_comments p; p_docurl := p_docurl p; p_dropframes := p_dropframes p;
     p_keepframes := p_keepframes p; p_timenanos := p_timenanos p; p_durationnanos := p_durationnanos p;
     p_periodtype := p_periodtype p; p_period := p_period p |}.

Definition set_types (p : profile) (sts : list valuetype) (dflt : string) (pt : option valuetype) (period : Z) : profile :=
  {| p_sampletype := sts; p_defaultsampletype := dflt; p_sample := p_sample p;
     p_mapping := p_mapping p; p_location := p_location p; p_function := p_function p;
     p_comments := p_comments p; p_docurl := p_docurl p; p_dropframes := p_dropframes p;
     p_keepframes := p_keepframes p; p_timenanos := p_timenanos p; p_durationnanos := p_durationnanos p;
     p_periodtype := pt; p_period := period |}.

Definition set_tables (p : profile) (ls : list location) (fs : list function) : profile :=
  {| p_sampletype := p_sampletype p; p_defaultsampletype := p_defaultsampletype p; p_sample := p_sample p;
     p_mapping := p_mapping p; p_location := ls; p_function := fs;
     p_comments := p_comments p; p_docurl := p_docurl p; p_dropframes := p_dropframes p;
     p_keepframes := p_keepframes p; p_timenanos := p_timenanos p; p_durationnanos := p_durationnanos p;
     p_periodtype := p_periodtype p; p_period := p_period p |}.

(* first occurrence of every id, in order *)
Fixpoint union_by {A} (id : A -> Z) (seen : list Z) (l : list A) : list A :=
  match l with
  | [] => []
  | a :: r => if existsb (Z.eqb (id a)) seen then union_by id seen r else a :: union_by id (id a :: seen) r
  end.

Definition set_val (s : sample) (v : list Z) : sample :=
  {| s_loc := s_loc s; s_val := v; s_label := s_label s; s_numlabel := s_numlabel s; s_numunit := s_numunit s |}.

Definition set_label_of (s : sample) (l : list (string * list string)) : sample :=
  {| s_loc := s_loc s; s_val := s_val s; s_label := l; s_numlabel := s_numlabel s; s_numunit := s_numunit s |}.

Definition is_zero_sample (s : sample) : bool := forallb (fun v => v =? 0) (s_val s).

(* ---------------------------------------------------------------- CompatibilizeSampleTypes *)
Definition type_names (p : profile) : list string := map vt_type (p_sampletype p).

Definition count_in (t : string) (l : list string) : Z :=
  Z.of_nat (List.length (filter (String.eqb t) l)).

(* commonSampleTypes: sTypes[st.Type]++ over every sample type of every profile (duplicates inside
   one profile are counted too), then the first profile's types whose count is len(ps) *)
Definition count_type (ps : list profile) (t : string) : Z :=
  fold_left (fun acc p => acc + count_in t (type_names p)) ps 0.

Definition common_sample_types (ps : list profile) : list string :=
  match ps with
  | [] => []
  | p0 :: _ => filter (fun t => count_type ps t =? Z.of_nat (List.length ps)) (type_names p0)
  end.

Fixpoint index_of (t : string) (l : list string) (i : nat) : option nat :=
  match l with
  | [] => None
  | a :: r => if String.eqb a t then Some i else index_of t r (S i)
  end.

Fixpoint remap_of (names : list string) (stypes : list string) : option (list nat) :=
  match stypes with
  | [] => Some []
  | t :: r => match index_of t names 0%nat with
              | None => None
              | Some i => match remap_of names r with None => None | Some l => Some (i :: l) end
              end
  end.

Fixpoint is_identity_from (k : nat) (l : list nat) : bool :=
  match l with
  | [] => true
  | i :: r => Nat.eqb i k && is_identity_from (S k) r
  end.

Definition dummy_vt : valuetype := {| vt_type := ""; vt_unit := "" |}.

Definition remap_sample (rm : list nat) (s : sample) : sample :=
  set_val s (map (fun i => nth i (s_val s) 0) rm).

(* compatibilizeSampleTypes *)
Definition compat_one (stypes : list string) (p : profile) : res profile :=
  match remap_of (type_names p) stypes with
  | None => Err "type-not-found"
  | Some rm =>
      if is_identity_from 0%nat rm && Nat.eqb (List.length stypes) (List.length (p_sampletype p)) then Ok p
      else
        let dflt := if existsb (String.eqb (p_defaultsampletype p)) stypes
                    then p_defaultsampletype p else hd ""%string stypes in
        let p1 := set_types p (map (fun i => nth i (p_sampletype p) dummy_vt) rm) dflt (p_periodtype p) (p_period p) in
        Ok (set_samples p1 (map (remap_sample rm) (p_sample p)))
  end.

Definition compatibilize (ps : list profile) : res (list profile) :=
  match common_sample_types ps with
  | [] => Err "no-common-types"
  | st => map_res (compat_one st) ps
  end.

(* ---------------------------------------------------------------- ScaleN / Scale *)
(* math.Round: nearest integer, halves away from zero *)
Definition round_away (q : Q) : Z :=
  if Qle_bool 0 q then Qfloor (q + (1 # 2)) else - Qfloor (- q + (1 # 2)).

Definition is_one (r : Q) : bool := Qeq_bool r 1.

Fixpoint scale_vals (ratios : list Q) (vals : list Z) : list Z :=
  match vals, ratios with
  | v :: vr, r :: rr => (if is_one r then v else round_away (inject_Z v * r)) :: scale_vals rr vr
  | vs, [] => vs
  | [], _ => []
  end.

(* F4 lives here.  ScaleN (profile.go:810-823): keepSample is set only inside `if ratios[i] != 1`,
   so only the SCALED columns decide whether the sample survives. *)
Fixpoint keep_written (ratios : list Q) (newvals : list Z) : bool :=
  match newvals, ratios with
  | v :: vr, r :: rr => (negb (is_one r) && negb (v =? 0)) || keep_written rr vr
  | _, _ => false
  end.

(* the documented rule ("keeps only samples that have at least one non-zero value") *)
Definition keep_documented (ratios : list Q) (newvals : list Z) : bool :=
  existsb (fun v => negb (v =? 0)) newvals.

Section Pipeline.
  Variable keep : list Q -> list Z -> bool.
  Variable uts : list unit_type.

  Definition scale_sample (ratios : list Q) (s : sample) : sample := set_val s (scale_vals ratios (s_val s)).

  Definition scale_n (ratios : list Q) (p : profile) : profile :=
    if forallb is_one ratios then p
    else set_samples p (filter (fun s => keep ratios (s_val s)) (map (scale_sample ratios) (p_sample p))).

  (* Profile.Scale *)
  Definition scale_all (ratio : Q) (p : profile) : profile :=
    if is_one ratio then p else scale_n (map (fun _ => ratio) (p_sampletype p)) p.

  (* -------------------------------------------------------------- measurement.ScaleProfiles *)
  Definition vt_pair (v : valuetype) : vt := (vt_type v, vt_unit v).

  Definition is_cvt_err (c : cvt_result) : bool := match c with CvtErr => true | _ => false end.

  (* int64(float64): truncation toward zero *)
  Definition trunc_q (q : Q) : Z := if Qle_bool 0 q then Qfloor q else - Qfloor (- q).

  Definition with_unit (v : valuetype) (u : string) : valuetype := {| vt_type := vt_type v; vt_unit := u |}.

  Fixpoint scale_types (sts : list valuetype) (cols : list cvt_result) : list valuetype * list Q :=
    match sts, cols with
    | st :: sr, c :: cr =>
        let '(ts, rs) := scale_types sr cr in
        match c with
        | CvtOk (_, u) => (with_unit st u :: ts, fst (scale uts 1 (vt_unit st) u) :: rs)
        | _ => (st :: ts, 1%Q :: rs)
        end
    | sts, [] => (sts, map (fun _ => 1%Q) sts)
    | [], _ => ([], [])
    end.

  Definition scale_one (cpt : cvt_result) (cols : list cvt_result) (p : profile) : profile :=
    let '(pt, period) :=
      match p_periodtype p, cpt with
      | Some pt, CvtOk (_, u) => (Some (with_unit pt u), trunc_q (fst (scale uts (p_period p) (vt_unit pt) u)))
      | o, _ => (o, p_period p)
      end in
    let '(ts, rs) := scale_types (p_sampletype p) cols in
    scale_n rs (set_types p ts (p_defaultsampletype p) pt period).

  Definition scale_profiles (ps : list profile) : res (list profile) :=
    match ps with
    | [] => Ok []
    | p0 :: rest =>
        let pts := flat_map (fun p => match p_periodtype p with Some v => [vt_pair v] | None => [] end) ps in
        let cpt := common_value_type uts pts in
        if is_cvt_err cpt then Err "period-type" else
        let n := List.length (p_sampletype p0) in
        if existsb (fun p => negb (Nat.eqb (List.length (p_sampletype p)) n)) rest then Err "count-mismatch" else
        let cols := map (fun i => common_value_type uts (map (fun p => vt_pair (nth i (p_sampletype p) dummy_vt)) ps)) (seq 0 n) in
        if existsb is_cvt_err cols then Err "sample-types" else
        Ok (map (scale_one cpt cols) ps)
    end.

  (* -------------------------------------------------------------- profile.Merge (simple, keyed) *)
  (* Stack identity of a sample when all inputs share their location/function tables: the
     location-id list plus the label sets.  profile.Merge itself (re-interning of mappings,
     functions, locations by content) is the subject of C03. *)
  Definition list_eqb {A} (eqb : A -> A -> bool) : list A -> list A -> bool :=
    fix go (a b : list A) : bool :=
      match a, b with
      | [], [] => true
      | x :: a', y :: b' => eqb x y && go a' b'
      | _, _ => false
      end.

  Definition kss_eqb := list_eqb (fun (a b : string * list string) => String.eqb (fst a) (fst b) && list_eqb String.eqb (snd a) (snd b)).
  Definition kzs_eqb := list_eqb (fun (a b : string * list Z) => String.eqb (fst a) (fst b) && list_eqb Z.eqb (snd a) (snd b)).

  Definition key_eqb (a b : sample) : bool :=
    list_eqb Z.eqb (s_loc a) (s_loc b) && kss_eqb (s_label a) (s_label b)
    && kzs_eqb (s_numlabel a) (s_numlabel b) && kss_eqb (s_numunit a) (s_numunit b).

  Fixpoint vadd (a b : list Z) : list Z :=
    match a, b with
    | x :: a', y :: b' => wrap_i64 (x + y) :: vadd a' b'
    | a, [] => a
    | [], _ => []
    end.

  (* mapSample: add into the sample with the same key, else append *)
  Fixpoint add_sample (acc : list sample) (s : sample) : list sample :=
    match acc with
    | [] => [s]
    | a :: r => if key_eqb a s then set_val a (vadd (s_val a) (s_val s)) :: r else a :: add_sample r s
    end.

  Definition merge_samples (ss : list sample) : list sample :=
    filter (fun s => negb (is_zero_sample s))
           (fold_left add_sample (filter (fun s => negb (is_zero_sample s)) ss) []).

  Definition vt_eqb (a b : valuetype) : bool := String.eqb (vt_type a) (vt_type b) && String.eqb (vt_unit a) (vt_unit b).
  Definition ovt_eqb (a b : option valuetype) : bool :=
    match a, b with Some x, Some y => vt_eqb x y | None, None => true | _, _ => false end.

  (* Profile.compatible *)
  Definition compatible (p pb : profile) : res bool :=
    if negb (ovt_eqb (p_periodtype p) (p_periodtype pb)) then Err "incompatible-period"
    else if negb (list_eqb vt_eqb (p_sampletype p) (p_sampletype pb)) then Err "incompatible-sample"
    else Ok true.

  Fixpoint first_err (l : list (res bool)) : res bool :=
    match l with [] => Ok true | Err e :: _ => Err e | Ok _ :: r => first_err r end.

  Definition merge (ps : list profile) : res profile :=
    match ps with
    | [] => Err "no-profiles"
    | p0 :: rest =>
        match first_err (map (compatible p0) rest) with
        | Err e => Err e
        | Ok _ =>
            let period := fold_left (fun acc p => if (acc =? 0) || (acc <? p_period p) then p_period p else acc) ps 0 in
            let dflt := fold_left (fun acc p => if String.eqb acc "" then p_defaultsampletype p else acc) ps ""%string in
            (* symbol tables: the inputs of a tuple use TUPLE-WIDE ids (equal id <-> equal content: the
               function key name/system name/file/start line, the location key mapping/address/lines),
               which is what profile.Merge's interning by content (C03) establishes; the merged
               tables are then the union, first occurrence first *)
            Ok (set_samples (set_tables (set_types p0 (p_sampletype p0) dflt (p_periodtype p0) period)
                                        (union_by l_id [] (flat_map p_location ps))
                                        (union_by f_id [] (flat_map p_function ps)))
                            (merge_samples (flat_map p_sample ps)))
        end
    end.

  (* -------------------------------------------------------------- combineProfiles *)
  Definition combine_profiles (ps : list profile) : res profile :=
    match compatibilize ps with
    | Err e => Err e
    | Ok ps1 =>
        match scale_profiles ps1 with
        | Err e => Err e
        | Ok ps2 => match ps2 with [p] => Ok p | _ => merge ps2 end
        end
    end.

  (* -------------------------------------------------------------- Normalize, SetLabel *)
  Fixpoint vsum (acc : list Z) (v : list Z) : list Z :=
    match acc, v with
    | a :: ar, x :: vr => wrap_i64 (a + x) :: vsum ar vr
    | acc, [] => acc
    | [], _ => []
    end.

  Definition col_sums (n : nat) (ss : list sample) : list Z :=
    fold_left (fun acc s => vsum acc (s_val s)) ss (repeat 0 n).

  Definition norm_ratios (base src : list Z) : list Q :=
    map (fun bs => if snd bs =? 0 then 0%Q else (inject_Z (fst bs) / inject_Z (snd bs))%Q) (combine base src).

  Definition normalize (p pb : profile) : res profile :=
    match compatible p pb with
    | Err e => Err e
    | Ok _ =>
        let n := List.length (p_sampletype p) in
        Ok (scale_n (norm_ratios (col_sums n (p_sample pb)) (col_sums n (p_sample p))) p)
    end.

  (* insertion of a key into a key-sorted association list (Go map assignment, dumped sorted) *)
  Fixpoint assoc_set (k : string) (v : list string) (l : list (string * list string)) : list (string * list string) :=
    match l with
    | [] => [(k, v)]
    | (k', v') :: r =>
        if String.eqb k k' then (k, v) :: r
        else if str_ltb k k' then (k, v) :: l
        else (k', v') :: assoc_set k v r
    end.

  Definition base_key : string := "pprof::base".
  Definition set_base_label (p : profile) : profile :=
    set_samples p (map (fun s => set_label_of s (assoc_set base_key ["true"%string] (s_label s))) (p_sample p)).

  (* -------------------------------------------------------------- chunkedGrab (fetch.go:165-200) *)
  (* the sources of one side are fetched and combined 128 at a time; the combination of every
     further chunk is combined with what has been accumulated so far *)
  Definition chunk_size : nat := 128.

  Fixpoint chunks_fuel {A} (fuel n : nat) (l : list A) : list (list A) :=
    match fuel with
    | O => []
    | S f => match l with
             | [] => []
             | _ => firstn n l :: chunks_fuel f n (skipn n l)
             end
    end.
  Definition chunks {A} (n : nat) (l : list A) : list (list A) := chunks_fuel (S (List.length l)) n l.

  Fixpoint grab_rest (acc : profile) (cs : list (list profile)) : res profile :=
    match cs with
    | [] => Ok acc
    | c :: r => match combine_profiles c with
                | Err e => Err e
                | Ok q => match combine_profiles [acc; q] with
                          | Err e => Err e
                          | Ok acc' => grab_rest acc' r
                          end
                end
    end.

  Definition chunked_grab (ps : list profile) : res profile :=
    match chunks chunk_size ps with
    | [] => combine_profiles ps
    | c0 :: r => match combine_profiles c0 with
                 | Err e => Err e
                 | Ok p => grab_rest p r
                 end
    end.

  (* -------------------------------------------------------------- fetchProfiles *)
  (* grabSourcesAndBases + base labelling: the combined source and the combined (labelled) base *)
  Definition fetch_pre (diffbase : bool) (srcs bases : list profile) : res (profile * option profile) :=
    match chunked_grab srcs with
    | Err e => Err ("src:" ++ e)
    | Ok p =>
        match bases with
        | [] => Ok (p, None)
        | _ =>
            match chunked_grab bases with
            | Err e => Err ("base:" ++ e)
            | Ok pb => Ok (p, Some (if diffbase then set_base_label pb else pb))
            end
        end
    end.

  (* fetch.go:63-78: Normalize, Scale(-1), combineProfiles([p, pbase]) *)
  Definition fetch_post (norm : bool) (p : profile) (pb1 : profile) : res profile :=
    match (if norm then normalize p pb1 else Ok p) with
    | Err e => Err ("norm:" ++ e)
    | Ok p1 =>
        match combine_profiles [p1; scale_all (-1) pb1] with
        | Err e => Err ("diff:" ++ e)
        | Ok r => Ok r
        end
    end.

  Definition fetch (diffbase norm : bool) (srcs bases : list profile) : res profile :=
    match fetch_pre diffbase srcs bases with
    | Err e => Err e
    | Ok (p, None) => Ok p
    | Ok (p, Some pb1) => fetch_post norm p pb1
    end.
End Pipeline.

(* ---------------------------------------------------------------- the report's numbers *)
(* Sample.DiffBaseSample *)
Definition is_base_sample (s : sample) : bool :=
  existsb (fun kv => String.eqb (fst kv) base_key && existsb (String.eqb "true") (snd kv)) (s_label s).

Definition abs_i64 (v : Z) : Z := if v <? 0 then wrap_i64 (- v) else v.

Definition val_at (i : nat) (s : sample) : Z := nth i (s_val s) 0.

(* report.computeTotal without a mean divisor *)
Definition compute_total (i : nat) (ss : list sample) : Z :=
  let '(total, difft) :=
    fold_left (fun acc s =>
                 let v := abs_i64 (val_at i s) in
                 (wrap_i64 (fst acc + v), if is_base_sample s then wrap_i64 (snd acc + v) else snd acc))
              ss (0, 0) in
  if 0 <? difft then difft else total.

Definition fn_name (p : profile) (id : Z) : string :=
  match find_function p id with Some f => f_name f | None => ""%string end.

(* frames of a sample, leaf first: every line of every location *)
Definition loc_names (p : profile) (id : Z) : list string :=
  match find_location p id with
  | Some l => map (fun ln => fn_name p (ln_fn ln)) (l_lines l)
  | None => []
  end.
Definition frames_of (p : profile) (s : sample) : list string := flat_map (loc_names p) (s_loc s).
(* the source file every line of a location is attributed to (Function.Filename): what the
   file-showing granularities (-files, -lines, -filefunctions, -addresses) print *)
Definition fn_file (p : profile) (id : Z) : string :=
  match find_function p id with Some f => f_file f | None => ""%string end.
Definition loc_files (p : profile) (id : Z) : list string :=
  match find_location p id with
  | Some l => map (fun ln => fn_file p (ln_fn ln)) (l_lines l)
  | None => []
  end.

Definition has_name (e : string) (l : list string) : bool := existsb (String.eqb e) l.
Definition leaf_is (e : string) (l : list string) : bool :=
  match l with [] => false | a :: _ => String.eqb a e end.

(* graph.newGraph: a sample with value 0 is skipped; cum once per distinct entry; flat to the leaf *)
Definition flat_of (p : profile) (i : nat) (e : string) : Z :=
  fold_left (fun acc s => if leaf_is e (frames_of p s) then wrap_i64 (acc + val_at i s) else acc) (p_sample p) 0.
Definition cum_of (p : profile) (i : nat) (e : string) : Z :=
  fold_left (fun acc s => if has_name e (frames_of p s) then wrap_i64 (acc + val_at i s) else acc) (p_sample p) 0.

Fixpoint nodup_acc (seen l : list string) : list string :=
  match l with
  | [] => []
  | a :: r => if existsb (String.eqb a) seen then nodup_acc seen r else a :: nodup_acc (a :: seen) r
  end.
Definition nodup_str (l : list string) : list string := nodup_acc [] l.

(* entries of the -top report for sample index i, in function-table order; entries whose flat
   and cum are both 0 are not shown (graph.selectNodesForGraph) *)
Definition report_entries (p : profile) (i : nat) : list (string * Z * Z) :=
  filter (fun e => negb ((snd (fst e) =? 0) && (snd e =? 0)))
         (map (fun n => (n, flat_of p i n, cum_of p i n)) (nodup_str (map f_name (p_function p)))).

(* Profile.SampleIndexByName("") *)
Definition default_index (p : profile) : Z :=
  let last := Z.of_nat (List.length (p_sampletype p)) - 1 in
  if String.eqb (p_defaultsampletype p) "" then last
  else match index_of (p_defaultsampletype p) (type_names p) 0%nat with
       | Some i => Z.of_nat i
       | None => last
       end.

(* ---------------------------------------------------------------- -proto of a report and reopening
   report.New computes the total and keeps the profile as it is; printProto (report.Generate with the
   Proto format, Ratio 1) writes the report's own profile; the "pprof::base" label is removed only
   by newGraph, which -proto never runs.  Serialization itself is C01's subject (identity here). *)
Definition report_new (p : profile) (i : nat) : profile * Z := (p, compute_total i (p_sample p)).
Definition print_proto (rpt : profile * Z) : profile := fst rpt.
Definition remove_base_label (p : profile) : profile :=
  set_samples p (map (fun s => set_label_of s (filter (fun kv => negb (String.eqb (fst kv) base_key)) (s_label s))) (p_sample p)).
