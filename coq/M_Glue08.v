(* C08, end-to-end layer -- executable model of the GLUE between a user's input and the report
   functions, as far as the property "same input, same bytes" depends on it:
     * command line: which multi-choice flags (sort, granularity; table regenerated from
       config.go) and which output-format flags (table regenerated from commands.go) are set, and
       whether the command line is accepted (internal/driver/cli.go installConfigFlags, outputFormat);
     * interactive session: the request a report command issues = (command, options assigned so far);
       the profile is always the pristine one (interactive.go hands every command a fresh copy);
     * web requests: the request = (path, query).
   No proofs in this file. *)
From PV Require Import Base.Term Base.Str M_Config Gen.Gen_ConfigTable Gen.Gen_CommandTable.
Open Scope string_scope.
Open Scope Z_scope.

(* ---- command line ---- *)
Definition eq_char : ascii := "="%char.
Definition undash (tok : string) : string := trim_prefix "-" (trim_prefix "-" tok).
Definition flag_name (tok : string) : string :=
  let t := undash tok in match index_of_char eq_char t 0 with Some i => take i t | None => t end.
Definition flag_value (tok : string) : option string :=
  let t := undash tok in match index_of_char eq_char t 0 with Some i => Some (drop (S i) t) | None => None end.
(* package flag: a boolean flag is set by its bare name or by a true value *)
Definition bool_flag_set (tok : string) : bool :=
  match flag_value tok with
  | None => true
  | Some v => existsb (String.eqb v) ["1"; "t"; "T"; "true"; "TRUE"; "True"]
  end.
Definition is_flag (tok : string) : bool := has_prefix "-" tok.

(* the flags of one multi-choice group that are set: a SET (each flag is one variable), listed here in
   table order; the Go code collects it by ranging over a map, i.e. in any order *)
Definition choices_set (choices : list string) (args : list string) : list string :=
  filter (fun c => existsb (fun tok => is_flag tok && String.eqb (flag_name tok) c && bool_flag_set tok) args) choices.

Inductive resolved := RDefault | RValue (v : string) | RConflict.
(* installConfigFlags: none set -> default; one -> that value; more -> "conflicting options set" *)
Definition resolve_choice (set : list string) : resolved :=
  match set with [] => RDefault | [v] => RValue v | _ => RConflict end.

(* output formats: boolean command flags (-top) and commands with a parameter (-peek=regexp) *)
Definition command_flags_set (args : list string) : list string :=
  filter (fun c => existsb (fun tok => is_flag tok && String.eqb (flag_name tok) c &&
                                        match flag_value tok with
                                        | None => true
                                        | Some v => if existsb (fun e => String.eqb (fst e) c && snd e) pprof_commands
                                                    then negb (String.eqb v "") else bool_flag_set tok
                                        end) args)
         (map fst pprof_commands).

Definition is_conflict (r : resolved) : bool := match r with RConflict => true | _ => false end.
(* the command line is accepted: no group with two flags, exactly one output format *)
Definition cli_accepts (args : list string) : bool :=
  forallb (fun f => negb (is_conflict (resolve_choice (choices_set (f_choices f) args)))) config_fields
  && Nat.eqb (List.length (command_flags_set args)) 1.

(* the "lenient" resolution of a multi-choice group that is NOT what the code does: the last flag
   that departs from the default wins (kept for the refutation in P_C08) *)
Definition resolve_lenient (default : string) (set : list string) : string :=
  fold_left (fun acc c => if String.eqb c default then acc else c) set default.

(* ---- interactive session ---- *)
Definition gt_char : ascii := ">"%char.
Definition sp_char : ascii := " "%char.
Fixpoint rtrim_rev (s : string) : string :=
  match s with String a r => if Ascii.eqb a sp_char then rtrim_rev r else s | EmptyString => EmptyString end.
Definition rtrim (s : string) : string := rev_string (rtrim_rev (rev_string s)).
(* "cmd args >file": the redirection names where the bytes go, not what they are *)
Definition strip_redirect (l : string) : string :=
  rtrim (match index_of_char gt_char l 0 with Some i => take i l | None => l end).
Definition is_assignment (l : string) : bool := contains_char eq_char l.

(* request issued by every line: None for an option assignment, Some (command, option history) *)
Fixpoint session_requests (lines hist : list string) : list (option (string * list string)) :=
  match lines with
  | [] => []
  | l :: r => if is_assignment l then None :: session_requests r (l :: hist)
              else Some (strip_redirect l, hist) :: session_requests r hist
  end.

Definition req_eqb (a b : string * list string) : bool :=
  String.eqb (fst a) (fst b) &&
  (fix go (x y : list string) : bool :=
     match x, y with [], [] => true | p :: x', q :: y' => String.eqb p q && go x' y' | _, _ => false end) (snd a) (snd b).

(* ---- classes of equal requests: for element j, the index of the first element equal to it ---- *)
Section Classes.
  Context {A : Type}.
  Variable eqb : A -> A -> bool.
  Fixpoint first_index (x : A) (l : list (option A)) (i : nat) : option nat :=
    match l with
    | [] => None
    | Some y :: r => if eqb x y then Some i else first_index x r (S i)
    | None :: r => first_index x r (S i)
    end.
  Definition classes (l : list (option A)) : list (option nat) :=
    map (fun o => match o with Some x => first_index x l 0 | None => None end) l.
End Classes.

(* the implementation's observations respect the classes: equal requests, equal observation *)
Definition classes_respected (cls : list (option nat)) (obs : list term) : bool :=
  forallb (fun p => match fst p with
                    | Some k => term_eqb (snd p) (nth k obs (TL []))
                    | None => true end) (combine cls obs).

(* ---- legacy CPU profiles: the signal-handler-frame heuristic of cpuProfile (legacy_profile.go) ----
   an address is stripped when it is the second frame of at least n - n/32 of the n samples; the code
   finds it by ranging over a map of counts and stops at the first address that qualifies *)
Definition handler_frame_qualifies (n count : Z) : bool := n - n / 32 <=? count.
