(* The merge model WITH the per-source memo tables of profileMerger (functionsByID, mappingsByID,
   locationsByID; merge.go:60-64, :294, :356, :435), transcribed next to M_Merge's memo-less
   functions.  L_MergeMemo proves that both compute the same result for every input: the memo tables
   are pure memoisation.  No proofs here. *)
From Coq Require Import List ZArith String Bool.
From PV Require Export M_Merge.
Import ListNotations.
Open Scope Z_scope.
Open Scope list_scope.

Record memos := {
  mm_fn : list (Z * Z);          (* source function id |-> result function id *)
  mm_mp : list (Z * (Z * Z));    (* source mapping id  |-> mapInfo (result mapping id, offset) *)
  mm_lc : list (Z * Z)           (* source location id |-> result location id *)
}.
Definition no_memos : memos := {| mm_fn := []; mm_mp := []; mm_lc := [] |}.

Fixpoint zassoc {V} (k : Z) (l : list (Z * V)) : option V :=
  match l with
  | [] => None
  | (k', v) :: r => if k =? k' then Some v else zassoc k r
  end.

Definition add_fn (mm : memos) (k g : Z) : memos :=
  {| mm_fn := (k, g) :: mm_fn mm; mm_mp := mm_mp mm; mm_lc := mm_lc mm |}.
Definition add_mp (mm : memos) (k : Z) (r : Z * Z) : memos :=
  {| mm_fn := mm_fn mm; mm_mp := (k, r) :: mm_mp mm; mm_lc := mm_lc mm |}.
Definition add_lc (mm : memos) (k g : Z) : memos :=
  {| mm_fn := mm_fn mm; mm_mp := mm_mp mm; mm_lc := (k, g) :: mm_lc mm |}.

Definition map_function_m (st : profile) (mm : memos) (src : profile) (fid : Z) : profile * memos * Z :=
  match lookup_fn src fid with
  | None => (st, mm, 0)
  | Some f =>
      match zassoc fid (mm_fn mm) with
      | Some g => (st, mm, g)
      | None => let '(st', g) := map_function_rec st f in (st', add_fn mm fid g, g)
      end
  end.

Definition map_mapping_m (st : profile) (mm : memos) (src : profile) (mid : Z) : profile * memos * (Z * Z) :=
  match lookup_map src mid with
  | None => (st, mm, (0, 0))
  | Some m =>
      match zassoc mid (mm_mp mm) with
      | Some r => (st, mm, r)
      | None => let '(st', r) := map_mapping_rec st m in (st', add_mp mm mid r, r)
      end
  end.

Fixpoint map_lines_m (st : profile) (mm : memos) (src : profile) (lns : list line) : profile * memos * list line :=
  match lns with
  | [] => (st, mm, [])
  | ln :: r =>
      let '(st1, mm1, fid) := map_function_m st mm src (ln_fn ln) in
      let '(st2, mm2, r') := map_lines_m st1 mm1 src r in
      (st2, mm2, {| ln_fn := fid; ln_line := ln_line ln; ln_col := ln_col ln |} :: r')
  end.

Definition map_location_m (st : profile) (mm : memos) (src : profile) (lid : Z) : profile * memos * Z :=
  match lookup_loc src lid with
  | None => (st, mm, 0)
  | Some l =>
      match zassoc lid (mm_lc mm) with
      | Some g => (st, mm, g)
      | None =>
          let '(st1, mm1, (mid, off)) := map_mapping_m st mm src (l_mapping l) in
          let id := next_id (p_location st1) in
          let '(st2, mm2, lines) := map_lines_m st1 mm1 src (l_lines l) in
          let l' := {| l_id := id; l_mapping := mid; l_addr := wrap_u64 (l_addr l + off); l_lines := lines;
                       l_folded := l_folded l |} in
          let k := lkey_of st2 l' in
          match find (fun g => lkey_eqb (lkey_of st2 g) k) (p_location st2) with
          | Some g => (st2, add_lc mm2 lid (l_id g), l_id g)
          | None => (with_location st2 (p_location st2 ++ [l']), add_lc mm2 lid id, id)
          end
      end
  end.

Fixpoint map_locs_m (st : profile) (mm : memos) (src : profile) (ids : list Z) : profile * memos * list Z :=
  match ids with
  | [] => (st, mm, [])
  | id :: r =>
      let '(st1, mm1, id') := map_location_m st mm src id in
      let '(st2, mm2, r') := map_locs_m st1 mm1 src r in
      (st2, mm2, id' :: r')
  end.

(* mapSample: sampleKey maps the locations once; on a miss they are mapped again for the new sample
   (all memo hits) *)
Definition map_sample_m (st : profile) (mm : memos) (src : profile) (s : sample) : profile * memos :=
  let '(st1, mm1, locs) := map_locs_m st mm src (s_loc s) in
  let k := skey_of locs s in
  let hit := fun ss => skey_eqb (skey_of_sample ss) k in
  if existsb hit (p_sample st1)
  then (with_sample st1 (upd_first hit (add_to_sample (s_val s)) (p_sample st1)), mm1)
  else
    let '(st2, mm2, locs2) := map_locs_m st1 mm1 src (s_loc s) in
    (with_sample st2 (p_sample st2 ++ [new_sample locs2 s]), mm2).

Definition merge_sample_m (src : profile) (x : profile * memos) (s : sample) : profile * memos :=
  if is_zero_sample s then x else map_sample_m (fst x) (snd x) src s.

Definition merge_src_m (st src : profile) : profile :=
  let start :=
    match p_mapping st, p_mapping src with
    | [], m :: _ =>
        (* pm.mapMapping(src.Mapping[0]) on fresh per-source tables *)
        let '(st', r) := map_mapping_rec st m in (st', add_mp no_memos (m_id m) r)
    | _, _ => (st, no_memos)
    end in
  fst (fold_left (merge_sample_m src) (p_sample src) start).

Definition merge_pass_m (srcs : list profile) : mres :=
  match srcs with
  | [] => MErr
  | p0 :: rest =>
      match compat_all p0 rest with
      | CompatOk => MOk (fold_left merge_src_m srcs (combine_headers p0 srcs))
      | CompatErr => MErr
      | CompatPanic => MPanic
      end
  end.

Fixpoint merge_fuel_m (n : nat) (srcs : list profile) : mres :=
  match merge_pass_m srcs with
  | MOk p =>
      if existsb is_zero_sample (p_sample p)
      then match n with O => MFuel | S n' => merge_fuel_m n' [p] end
      else MOk p
  | r => r
  end.

Definition merge_m (srcs : list profile) : mres := merge_fuel_m 2 srcs.
