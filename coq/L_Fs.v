(* Crash atomicity of the protocol class recognised by M_Fs.protocol_ok. *)
From Coq Require Import Lia.
From PV Require Import M_Fs M_Config M_Settings S_Config.
Open Scope string_scope.
Open Scope Z_scope.

Lemma seqb_refl : forall s, String.eqb s s = true.
Proof. intro s. apply String.eqb_eq. reflexivity. Qed.

Lemma fget_fdel_other : forall l p q, p <> q -> fget (fdel l p) q = fget l q.
Proof.
  induction l as [|[k v] l IH]; intros p q N; simpl; [reflexivity|].
  destruct (String.eqb k p) eqn:E; simpl.
  - apply String.eqb_eq in E. subst k.
    destruct (String.eqb p q) eqn:E2; [apply String.eqb_eq in E2; contradiction|]. apply IH; exact N.
  - destruct (String.eqb k q); [reflexivity|]. apply IH; exact N.
Qed.

Lemma fget_fput_other : forall l p v q, p <> q -> fget (fput l p v) q = fget l q.
Proof.
  intros l p v q N. unfold fput. simpl.
  destruct (String.eqb p q) eqn:E; [apply String.eqb_eq in E; contradiction|].
  apply fget_fdel_other; exact N.
Qed.

Lemma fget_fput_same : forall l p v, fget (fput l p v) p = Some v.
Proof. intros l p v. unfold fput. simpl. rewrite seqb_refl. reflexivity. Qed.

Lemma neq_of_negb_eqb : forall a b, negb (String.eqb a b) = true -> a <> b.
Proof. intros a b H. apply negb_true_iff in H. apply String.eqb_neq. exact H. Qed.

(* an operation the recogniser accepts, other than the rename onto the target, does not change
   what the target path holds *)
Lemma safe_step_content : forall t b s o,
  safe_op t b s o = true -> renames_onto t o = false -> content (step s o) t = content s t.
Proof.
  intros t b s o S R. unfold content. destruct o as [p|fd p creat trunc|fd d|fd|fd|src dst|p]; cbn [step files].
  - reflexivity.
  - cbn [safe_op] in S. destruct (String.eqb p t) eqn:E.
    + cbn [negb andb orb] in S. apply andb_true_iff in S. destruct S as [S1 S2].
      apply negb_true_iff in S1. apply negb_true_iff in S2. subst creat trunc.
      destruct (fget (files s) p); reflexivity.
    + apply String.eqb_neq in E.
      destruct (fget (files s) p); [destruct trunc|destruct creat]; try reflexivity; apply fget_fput_other; exact E.
  - cbn [safe_op] in S. destruct (fd_path (fds s) fd) as [p|]; [|reflexivity].
    apply neq_of_negb_eqb in S. destruct (fget (files s) p); [|reflexivity].
    cbn [files]. apply fget_fput_other; exact S.
  - reflexivity.
  - reflexivity.
  - cbn [safe_op] in S. cbn [renames_onto] in R. rewrite R in S.
    apply andb_true_iff in S. destruct S as [S1 _]. apply neq_of_negb_eqb in S1.
    apply String.eqb_neq in R.
    destruct (fget (files s) src); [|reflexivity]. cbn [files].
    rewrite fget_fput_other by exact R. apply fget_fdel_other; exact S1.
  - cbn [safe_op] in S. apply neq_of_negb_eqb in S. apply fget_fdel_other; exact S.
Qed.

Lemma safe_write_any_data : forall t b s fd d d',
  safe_op t b s (FWrite fd d) = true -> safe_op t b s (FWrite fd d') = true.
Proof. intros t b s fd d d' H. exact H. Qed.

(* the ways a crash can hit (o :: ops) *)
Lemma crashed_cons : forall s o ops s', crashed s (o :: ops) s' ->
  s' = s \/
  (exists fd d d', o = FWrite fd d /\ has_prefix d' d = true /\ s' = step s (FWrite fd d')) \/
  crashed (step s o) ops s'.
Proof.
  intros s o ops s' [pre [rest [E H]]]. destruct pre as [|o' pre].
  - simpl in E. subst rest. destruct H as [H|[fd [d [d' [r [E2 [P H]]]]]]].
    + left. exact H.
    + right. left. inversion E2; subst. exists fd, d, d'. repeat split; assumption.
  - simpl in E. inversion E; subst o' ops. right. right. exists pre, rest. split; [reflexivity|].
    exact H.
Qed.

Lemma crashed_run : forall s ops, crashed s ops (run s ops).
Proof. intros s ops. exists ops, []. split; [rewrite app_nil_r; reflexivity|left; reflexivity]. Qed.

(* once the rename has happened nothing changes the target any more *)
Lemma post_rename : forall t ops s, protocol_ok t true s ops = true ->
  forall s', crashed s ops s' -> content s' t = content s t.
Proof.
  intros t. induction ops as [|o ops IH]; intros s P s' C.
  - destruct C as [pre [rest [E H]]]. destruct pre; [|discriminate]. simpl in E. subst rest.
    destruct H as [H|[fd [d [d' [r [E2 _]]]]]]; [subst s'; reflexivity|discriminate].
  - cbn [protocol_ok] in P. apply andb_true_iff in P. destruct P as [S P]. cbn [orb] in P.
    assert (R : renames_onto t o = false).
    { destruct o as [p|fd p creat trunc|fd d|fd|fd|src dst|p]; try reflexivity.
      cbn [renames_onto]. cbn [safe_op] in S. destruct (String.eqb dst t); [|reflexivity].
      cbn [negb andb] in S. rewrite andb_false_r in S. discriminate. }
    destruct (crashed_cons _ _ _ _ C) as [H|[[fd [d [d' [Eo [Pd H]]]]]|H]].
    + subst s'. reflexivity.
    + subst o s'. apply (safe_step_content t true); [exact S|reflexivity].
    + rewrite (IH _ P _ H). apply (safe_step_content t true); assumption.
Qed.

(* MAIN: whatever point the process is killed at, the target holds its old contents or the
   contents the complete run gives it *)
Lemma crash_atomic_lemma : forall t ops s, protocol_ok t false s ops = true -> atomic_at t s ops.
Proof.
  intros t. induction ops as [|o ops IH]; intros s P s' C.
  - destruct C as [pre [rest [E H]]]. destruct pre; [|discriminate]. simpl in E. subst rest.
    destruct H as [H|[fd [d [d' [r [E2 _]]]]]]; [subst s'; left; reflexivity|discriminate].
  - cbn [protocol_ok] in P. apply andb_true_iff in P. destruct P as [S P]. cbn [orb] in P.
    destruct (crashed_cons _ _ _ _ C) as [H|[[fd [d [d' [Eo [Pd H]]]]]|H]].
    + subst s'. left. reflexivity.
    + subst o s'. left. apply (safe_step_content t false); [exact S|reflexivity].
    + change (run s (o :: ops)) with (run (step s o) ops).
      destruct (renames_onto t o) eqn:R.
      * right. rewrite (post_rename t ops _ P _ H).
        symmetry. apply (post_rename t ops _ P). apply crashed_run.
      * destruct (IH _ P _ H) as [A|A].
        -- left. rewrite A. apply (safe_step_content t false); assumption.
        -- right. exact A.
Qed.

(* a save that never reaches its rename (a failing system call, ENOSPC ...) leaves the old file *)
Lemma failed_save_keeps_old_lemma : forall t ops s,
  protocol_ok t false s ops = true -> existsb (renames_onto t) ops = false ->
  content (run s ops) t = content s t.
Proof.
  intros t. induction ops as [|o ops IH]; intros s P N; [reflexivity|].
  cbn [protocol_ok] in P. apply andb_true_iff in P. destruct P as [S P].
  cbn [existsb] in N. apply orb_false_iff in N. destruct N as [R N]. rewrite R in P. cbn [orb] in P.
  change (run s (o :: ops)) with (run (step s o) ops). rewrite (IH _ P N).
  apply (safe_step_content t false); assumption.
Qed.

(* the canonical shape: create a fresh temporary, write all the data, close, rename: the complete
   run leaves exactly the written data *)
Lemma sapp_nil_r : forall x : string, x ++ "" = x.
Proof. induction x as [|c x IH]; [reflexivity|]. simpl. rewrite IH. reflexivity. Qed.
Lemma sapp_assoc : forall x y z : string, (x ++ y) ++ z = x ++ (y ++ z).
Proof. induction x as [|c x IHx]; intros y z; [reflexivity|]. simpl. rewrite IHx. reflexivity. Qed.

Lemma run_writes : forall fd tmp ds s acc,
  fd_path (fds s) fd = Some tmp -> fget (files s) tmp = Some acc ->
  let s' := run s (map (FWrite fd) ds) in
  fd_path (fds s') fd = Some tmp /\ fget (files s') tmp = Some (acc ++ String.concat "" ds) /\ fds s' = fds s.
Proof.
  intros fd tmp. induction ds as [|d ds IH]; intros s acc F G; cbn zeta.
  - simpl. split; [exact F|]. split; [|reflexivity]. rewrite G. rewrite sapp_nil_r. reflexivity.
  - change (run s (map (FWrite fd) (d :: ds))) with (run (step s (FWrite fd d)) (map (FWrite fd) ds)).
    assert (St : step s (FWrite fd d) = {| files := fput (files s) tmp (acc ++ d); fds := fds s |}).
    { cbn [step]. rewrite F, G. reflexivity. }
    rewrite St.
    destruct (IH {| files := fput (files s) tmp (acc ++ d); fds := fds s |} (acc ++ d)) as [A [B C]].
    + exact F.
    + cbn [files]. apply fget_fput_same.
    + cbn zeta in A, B, C. split; [exact A|]. split; [|exact C]. rewrite B. f_equal.
      rewrite sapp_assoc. f_equal.
      destruct ds as [|d2 ds]; [simpl; apply sapp_nil_r|reflexivity].
Qed.

Lemma canonical_save_final_lemma : forall fd tmp target ds s,
  tmp <> target -> fget (files s) tmp = None ->
  content (run s (FOpen fd tmp true true :: map (FWrite fd) ds ++ [FMeta fd; FMeta fd; FClose fd; FRename tmp target])) target
  = Some (String.concat "" ds).
Proof.
  intros fd tmp target ds s N G.
  change (run s (FOpen fd tmp true true :: ?x)) with (run (step s (FOpen fd tmp true true)) x).
  unfold run at 1. rewrite fold_left_app. fold (run (step s (FOpen fd tmp true true)) (map (FWrite fd) ds)).
  set (s1 := step s (FOpen fd tmp true true)).
  assert (F1 : fd_path (fds s1) fd = Some tmp).
  { unfold s1. cbn [step]. rewrite G. cbn [fds fd_path]. rewrite Z.eqb_refl. reflexivity. }
  assert (G1 : fget (files s1) tmp = Some "").
  { unfold s1. cbn [step]. rewrite G. cbn [files]. apply fget_fput_same. }
  destruct (run_writes fd tmp ds s1 "" F1 G1) as [A [B C]]. cbn zeta in A, B, C.
  set (s2 := run s1 (map (FWrite fd) ds)) in *.
  cbn [fold_left step]. unfold content. cbn [files].
  rewrite B. cbn [files]. apply fget_fput_same.
Qed.

(* whatever a killed earlier save left under the temporary name: a temporary that is opened
   truncating (or exclusively) and renamed in after all writes gives exactly the written data *)
Lemma save_final_ignores_leftovers_lemma : forall fd tmp target ds s,
  tmp <> target ->
  content (run s (FOpen fd tmp true true :: map (FWrite fd) ds ++ [FMeta fd; FMeta fd; FClose fd; FRename tmp target])) target
  = Some (String.concat "" ds).
Proof.
  intros fd tmp target ds s N.
  change (run s (FOpen fd tmp true true :: ?x)) with (run (step s (FOpen fd tmp true true)) x).
  unfold run at 1. rewrite fold_left_app. fold (run (step s (FOpen fd tmp true true)) (map (FWrite fd) ds)).
  set (s1 := step s (FOpen fd tmp true true)).
  assert (F1 : fd_path (fds s1) fd = Some tmp).
  { unfold s1. cbn [step]. destruct (fget (files s) tmp); cbn [fds fd_path]; rewrite Z.eqb_refl; reflexivity. }
  assert (G1 : fget (files s1) tmp = Some "").
  { unfold s1. cbn [step]. destruct (fget (files s) tmp); cbn [files]; apply fget_fput_same. }
  destruct (run_writes fd tmp ds s1 "" F1 G1) as [A [B C]]. cbn zeta in A, B, C.
  set (s2 := run s1 (map (FWrite fd) ds)) in *.
  cbn [fold_left step]. unfold content. cbn [files].
  rewrite B. cbn [files]. apply fget_fput_same.
Qed.
