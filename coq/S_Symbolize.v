(* Specification of C12 ("symbolization only adds names; measurements are untouched"), written
   from the property text as relations between the profile before ([p]) and after ([p'])
   Symbolizer.Symbolize, plus decidable checkers of them that are evaluated on the
   implementation's output.  Shares with the model only the data types, the transcription of
   Profile.CheckValid ([check_valid]) and [max_fid]. *)
From PV Require Import M_Symbolize.
Open Scope Z_scope.

(* what symbolization must not touch *)
Definition map_key (m : mapping) := (m_id m, m_start m, m_limit m, m_offset m, m_file m, m_buildid m).
Definition loc_key (l : location) := (l_id l, l_mapping l, l_addr l).
Definition fun_key (f : function) := (f_id f, f_sysname f, f_file f, f_startline f).
Definition header_of (p : profile) :=
  (p_sampletype p, p_defaultsampletype p, p_comments p, p_docurl p, p_dropframes p, p_keepframes p,
   p_timenanos p, p_durationnanos p, p_periodtype p, p_period p).

(* [new] is [old] rewritten element-wise within relation R, followed by appended elements *)
Definition extended {A} (R : A -> A -> Prop) (old new : list A) : Prop :=
  exists upd ext, new = (upd ++ ext)%list /\ Forall2 R old upd.

(* the frame condition: samples (number, order, values, labels, stacks), the header, location
   ids / addresses / mapping references (in order) and mapping ids / ranges / files / build ids (in
   order) are the same; existing functions keep id, system name, file and start line (in order),
   functions are only appended.  What may differ: Location.Line, Location.IsFolded, the four
   Has* flags, Function.Name of existing functions, and the appended functions. *)
Record frame_ok (p p' : profile) : Prop := {
  fo_samples : p_sample p' = p_sample p;
  fo_header : header_of p' = header_of p;
  fo_locs : map loc_key (p_location p') = map loc_key (p_location p);
  fo_maps : map map_key (p_mapping p') = map map_key (p_mapping p);
  fo_funs : extended (fun f f' => fun_key f' = fun_key f) (p_function p) (p_function p')
}.

(* "force is requested": the option force, or an explicit demangle=full|none|templates, which
   Symbolize treats as a request to redo the names (symbolizer.go:70 sets force); the property text
   does not say more, so the reading that favours the code is taken (see DESIGN-notes/C12.md);
   options are spelled in any letter case and separated by colons *)
Definition force_word (o : string) : bool :=
  String.eqb o "force" ||
  (let d := trim_prefix "demangle=" o in String.eqb d "full" || String.eqb d "none" || String.eqb d "templates").
Definition force_requested (mode : string) : bool :=
  existsb force_word (split_on ":"%char (to_lower mode)).

(* a mapping "already carries symbols" when it has function names *)
Definition loc_protected (p : profile) (l : location) : Prop :=
  forall m, In m (p_mapping p) -> m_id m = l_mapping l -> m_hasfn m = true.
Definition left_alone (p p' : profile) : Prop :=
  Forall2 (fun m m' => m_hasfn m = true -> m' = m) (p_mapping p) (p_mapping p') /\
  Forall2 (fun l l' => loc_protected p l -> l' = l) (p_location p) (p_location p').

(* line information is only attached: a location is untouched or ends up with at least one line *)
Definition lines_attached (p p' : profile) : Prop :=
  Forall2 (fun l l' => l' = l \/ l_lines l' <> []) (p_location p) (p_location p').

(* the has-symbols flags are only ever raised *)
Definition flags_le (m m' : mapping) : Prop :=
  (m_hasfn m = true -> m_hasfn m' = true) /\ (m_hasfile m = true -> m_hasfile m' = true) /\
  (m_hasline m = true -> m_hasline m' = true) /\ (m_hasinline m = true -> m_hasinline m' = true).
Definition flags_raised (p p' : profile) : Prop := Forall2 flags_le (p_mapping p) (p_mapping p').

(* demangling never replaces a non-empty name by an empty one *)
Definition names_kept (p p' : profile) : Prop :=
  extended (fun f f' => f_name f <> EmptyString -> f_name f' <> EmptyString) (p_function p) (p_function p').

(* oracle assumption on demangle.Filter: a non-empty name is never answered by the empty one *)
Definition filter_nonempty (filt : string -> string -> string) : Prop :=
  forall d s, s <> EmptyString -> filt d s <> EmptyString.

(* room for the new function ids below 2^64 (ids are uint64; max+1 wraps to the reserved id 0) *)
Definition id_headroom (p p' : profile) : Prop :=
  max_fid (p_function p) + Z.of_nat (List.length (p_function p') - List.length (p_function p)) < two64.

(* ------------------------------------------------------------------ decidable checkers *)
Fixpoint list_eqb {A} (e : A -> A -> bool) (a b : list A) : bool :=
  match a, b with
  | [], [] => true
  | x :: a', y :: b' => e x y && list_eqb e a' b'
  | _, _ => false
  end.
Definition pair_eqb {A B} (ea : A -> A -> bool) (eb : B -> B -> bool) (x y : A * B) : bool :=
  ea (fst x) (fst y) && eb (snd x) (snd y).
Definition vt_eqb (a b : valuetype) : bool := String.eqb (vt_type a) (vt_type b) && String.eqb (vt_unit a) (vt_unit b).
Definition opt_eqb {A} (e : A -> A -> bool) (a b : option A) : bool :=
  match a, b with Some x, Some y => e x y | None, None => true | _, _ => false end.

Definition sample_eqb (a b : sample) : bool :=
  list_eqb Z.eqb (s_loc a) (s_loc b) && list_eqb Z.eqb (s_val a) (s_val b) &&
  list_eqb (pair_eqb String.eqb (list_eqb String.eqb)) (s_label a) (s_label b) &&
  list_eqb (pair_eqb String.eqb (list_eqb Z.eqb)) (s_numlabel a) (s_numlabel b) &&
  list_eqb (pair_eqb String.eqb (list_eqb String.eqb)) (s_numunit a) (s_numunit b).

Definition header_eqb (p q : profile) : bool :=
  list_eqb vt_eqb (p_sampletype p) (p_sampletype q) && String.eqb (p_defaultsampletype p) (p_defaultsampletype q) &&
  list_eqb String.eqb (p_comments p) (p_comments q) && String.eqb (p_docurl p) (p_docurl q) &&
  String.eqb (p_dropframes p) (p_dropframes q) && String.eqb (p_keepframes p) (p_keepframes q) &&
  (p_timenanos p =? p_timenanos q) && (p_durationnanos p =? p_durationnanos q) &&
  opt_eqb vt_eqb (p_periodtype p) (p_periodtype q) && (p_period p =? p_period q).

Definition map_key_eqb (a b : mapping) : bool :=
  (m_id a =? m_id b) && (m_start a =? m_start b) && (m_limit a =? m_limit b) && (m_offset a =? m_offset b) &&
  String.eqb (m_file a) (m_file b) && String.eqb (m_buildid a) (m_buildid b).
Definition loc_key_eqb (a b : location) : bool :=
  (l_id a =? l_id b) && (l_mapping a =? l_mapping b) && (l_addr a =? l_addr b).
Definition fun_key_eqb (a b : function) : bool :=
  (f_id a =? f_id b) && String.eqb (f_sysname a) (f_sysname b) && String.eqb (f_file a) (f_file b) &&
  (f_startline a =? f_startline b).

(* old is matched element-wise by a prefix of new *)
Fixpoint prefix_rel {A} (r : A -> A -> bool) (old new : list A) : bool :=
  match old, new with
  | [], _ => true
  | x :: o', y :: n' => r x y && prefix_rel r o' n'
  | _ :: _, [] => false
  end.

Definition frame_okb (p p' : profile) : bool :=
  list_eqb sample_eqb (p_sample p') (p_sample p) && header_eqb p' p &&
  list_eqb loc_key_eqb (p_location p') (p_location p) &&
  list_eqb map_key_eqb (p_mapping p') (p_mapping p) &&
  prefix_rel fun_key_eqb (p_function p) (p_function p').

Definition mapping_eqb (a b : mapping) : bool :=
  map_key_eqb a b && Bool.eqb (m_hasfn a) (m_hasfn b) && Bool.eqb (m_hasfile a) (m_hasfile b) &&
  Bool.eqb (m_hasline a) (m_hasline b) && Bool.eqb (m_hasinline a) (m_hasinline b).
Definition line_eqb (a b : line) : bool := (ln_fn a =? ln_fn b) && (ln_line a =? ln_line b) && (ln_col a =? ln_col b).
Definition location_eqb (a b : location) : bool :=
  loc_key_eqb a b && list_eqb line_eqb (l_lines a) (l_lines b) && Bool.eqb (l_folded a) (l_folded b).

Definition lines_attachedb (p p' : profile) : bool :=
  list_eqb (fun l l' => location_eqb l' l || negb (is_nil (l_lines l'))) (p_location p) (p_location p').

Definition flags_leb (m m' : mapping) : bool :=
  implb (m_hasfn m) (m_hasfn m') && implb (m_hasfile m) (m_hasfile m') &&
  implb (m_hasline m) (m_hasline m') && implb (m_hasinline m) (m_hasinline m').
Definition flags_raisedb (p p' : profile) : bool := list_eqb flags_leb (p_mapping p) (p_mapping p').

Definition loc_protectedb (p : profile) (l : location) : bool :=
  forallb (fun m => negb (m_id m =? l_mapping l) || m_hasfn m) (p_mapping p).
Definition left_aloneb (p p' : profile) : bool :=
  list_eqb (fun m m' => negb (m_hasfn m) || mapping_eqb m' m) (p_mapping p) (p_mapping p') &&
  list_eqb (fun l l' => negb (loc_protectedb p l) || location_eqb l' l) (p_location p) (p_location p').

Definition names_keptb (p p' : profile) : bool :=
  prefix_rel (fun f f' => str_empty (f_name f) || negb (str_empty (f_name f'))) (p_function p) (p_function p').

Definition id_headroomb (p p' : profile) : bool :=
  max_fid (p_function p) + Z.of_nat (List.length (p_function p') - List.length (p_function p)) <? two64.

(* ------------------------------------------------------------------ the driver's pipeline (fetchProfiles)
   The same relations are demanded between the fetched profile (with the documented fake mapping
   when it has no mapping at all) and the profile fetchProfiles returns.
   F34 (class 34): unsourceMappings erases the file name of EVERY build-id-less mapping whose file
   parses as an absolute URL, not only of the ones collectMappingSources rewrote. *)
Definition sourced_like (absurl : string -> bool) (m : mapping) : bool :=
  str_empty (m_buildid m) && negb (str_empty (m_file m)) && absurl (m_file m).
Definition in_F34 (absurl : string -> bool) (p : profile) : bool := existsb (sourced_like absurl) (p_mapping p).
