(* Lemmas about M_Symbolize (C12): the result of Symbolize is a valid profile with unique ids,
   provided the new function ids fit below 2^64. *)
From Coq Require Import Lia ZifyBool.
From PV Require Import M_Symbolize S_Symbolize L_Symbolize.
Open Scope Z_scope.

(* ------------------------------------------------------------------ generic *)
Lemma Forall2_Forall_r {A B} (R : A -> B -> Prop) (Q : B -> Prop) l l' :
  (forall a b, R a b -> Q b) -> Forall2 R l l' -> Forall Q l'.
Proof. intros H. induction 1; constructor; eauto. Qed.

Lemma Forall2_Forall_lr {A B} (R : A -> B -> Prop) (P : A -> Prop) (Q : B -> Prop) l l' :
  (forall a b, P a -> R a b -> Q b) -> Forall P l -> Forall2 R l l' -> Forall Q l'.
Proof.
  intros H FP F. induction F as [|a b l l' Hab F IH]; constructor.
  - inversion FP; subst. eauto.
  - apply IH. inversion FP; assumption.
Qed.

Lemma NoDup_snoc {A} (l : list A) a : NoDup l -> ~ In a l -> NoDup (l ++ [a]).
Proof.
  induction l as [|x r IH]; simpl; intros ND Hn; [constructor; [tauto | constructor]|].
  inversion ND as [|x' r' Hx Hr]; subst. constructor.
  - rewrite in_app_iff. simpl. intros [H|[H|[]]]; [tauto | subst; tauto].
  - apply IH; tauto.
Qed.

Section MapAccGen.
  Context {St A B : Type} (f : St -> A -> St * B).
  Variables (I : St -> Prop) (T : St -> St -> Prop) (R : St -> A -> B -> Prop) (H : St -> Prop).
  Hypothesis Trefl : forall s, T s s.
  Hypothesis Ttrans : forall a b c, T a b -> T b c -> T a c.
  Hypothesis Rmono : forall s s' a b, T s s' -> R s a b -> R s' a b.
  Hypothesis Hanti : forall s s', T s s' -> H s' -> H s.
  Hypothesis Tstep : forall s a, T s (fst (f s a)).

  Lemma mapacc_T l : forall s, T s (fst (mapacc f s l)).
  Proof. induction l as [|a r IH]; intros s; cbn [mapacc fst]; [apply Trefl | eapply Ttrans; [apply Tstep | apply IH]]. Qed.

  Lemma mapacc_gen l :
    (forall s a, In a l -> I s -> H (fst (f s a)) -> I (fst (f s a)) /\ R (fst (f s a)) a (snd (f s a))) ->
    forall s, I s -> H (fst (mapacc f s l)) ->
              I (fst (mapacc f s l)) /\ Forall2 (R (fst (mapacc f s l))) l (snd (mapacc f s l)).
  Proof.
    induction l as [|a r IH]; intros Hstep s Is Hfin; cbn [mapacc fst snd] in *; [split; [exact Is | constructor]|].
    pose proof (mapacc_T r (fst (f s a))) as T1.
    destruct (Hstep s a (or_introl eq_refl) Is (Hanti _ _ T1 Hfin)) as [I1 R1].
    destruct (IH (fun s0 a0 Hin => Hstep s0 a0 (or_intror Hin)) (fst (f s a)) I1 Hfin) as [I2 R2].
    split; [exact I2 | constructor; [eapply Rmono; eauto | exact R2]].
  Qed.
End MapAccGen.

(* ------------------------------------------------------------------ id lists *)
Lemma existsb_eqb_in x l : existsb (Z.eqb x) l = true <-> In x l.
Proof.
  rewrite existsb_exists. split; [intros [y [Hy E]]; apply Z.eqb_eq in E; now subst | intros Hx; exists x; split; [exact Hx | apply Z.eqb_refl]].
Qed.

Lemma nodup_z_spec l : nodup_z l = true <-> NoDup l.
Proof.
  induction l as [|a r IH]; simpl; [split; [constructor | reflexivity]|].
  rewrite andb_true_iff, negb_true_iff, IH. split.
  - intros [E ND]. constructor; [|exact ND]. intros Hin. apply existsb_eqb_in in Hin. congruence.
  - intros ND. inversion ND as [|a' r' Hn Hr]; subst. split; [|exact Hr].
    destruct (existsb (Z.eqb a) r) eqn:E; [|reflexivity]. apply existsb_eqb_in in E. tauto.
Qed.

Lemma ids_ok_spec ids : ids_ok ids = true <-> NoDup ids /\ ~ In 0 ids.
Proof.
  unfold ids_ok. rewrite andb_true_iff, nodup_z_spec, forallb_forall. split.
  - intros [Hz ND]. split; [exact ND|]. intros Hin. specialize (Hz 0 Hin). discriminate.
  - intros [ND Hz]. split; [|exact ND]. intros x Hx. apply negb_true_iff. apply Z.eqb_neq. intros ->. tauto.
Qed.

Lemma max_fid_acc fs : forall a,
  a <= fold_left (fun a f => Z.max a (f_id f)) fs a /\
  (forall f, In f fs -> f_id f <= fold_left (fun a f => Z.max a (f_id f)) fs a) /\
  (forall Bd, a <= Bd -> (forall f, In f fs -> f_id f <= Bd) -> fold_left (fun a f => Z.max a (f_id f)) fs a <= Bd).
Proof.
  induction fs as [|g r IH]; intros a; cbn [fold_left]; [repeat split; [lia | intros f [] | intros; assumption]|].
  destruct (IH (Z.max a (f_id g))) as [H1 [H2 H3]]. repeat split.
  - lia.
  - intros f [->|Hin]; [lia | apply H2; exact Hin].
  - intros Bd Ha Hall. apply H3; [|intros f Hf; apply Hall; now right].
    specialize (Hall g (or_introl eq_refl)). lia.
Qed.

Lemma max_fid_nonneg fs : 0 <= max_fid fs.
Proof. apply (max_fid_acc fs 0). Qed.
Lemma max_fid_ge fs x : In x (map f_id fs) -> x <= max_fid fs.
Proof. intros Hin. apply in_map_iff in Hin. destruct Hin as [f [<- Hf]]. apply (max_fid_acc fs 0). exact Hf. Qed.
Lemma max_fid_le fs Bd : 0 <= Bd -> (forall x, In x (map f_id fs) -> x <= Bd) -> max_fid fs <= Bd.
Proof. intros HB Hall. apply (max_fid_acc fs 0); [exact HB|]. intros f Hf. apply Hall. now apply in_map. Qed.

(* ------------------------------------------------------------------ the id invariant *)
Section Ids.
  Variables (max0 : Z) (len0 : nat).
  Hypothesis max0_nonneg : 0 <= max0.

  (* the largest id the functions present may have: one more per function added *)
  Definition bound (ids : list Z) : Z := max0 + (Z.of_nat (List.length ids) - Z.of_nat len0).
  Definition U (ids : list Z) : Prop :=
    NoDup ids /\ ~ In 0 ids /\ Forall (fun x => x <= bound ids) ids /\ (len0 <= List.length ids)%nat.
  (* [M] is the maxID variable of the code *)
  Definition FI (ids : list Z) (M : Z) : Prop :=
    U ids /\ (forall x, In x ids -> x <= M) /\ 0 <= M <= bound ids.
  Definition Hd (ids : list Z) : Prop := bound ids < two64.

  Lemma bound_snoc ids x : bound (ids ++ [x]) = bound ids + 1.
  Proof. unfold bound. rewrite app_length. simpl. lia. Qed.

  Lemma FI_snoc ids M :
    FI ids M -> Hd (ids ++ [wrap_u64 (M + 1)]) -> wrap_u64 (M + 1) = M + 1 /\ FI (ids ++ [M + 1]) (M + 1).
  Proof.
    intros [[ND [Hz [Hb Hl]]] [HM [HM0 HMb]]] Hh. unfold Hd in Hh. rewrite bound_snoc in Hh.
    assert (W : wrap_u64 (M + 1) = M + 1). { unfold wrap_u64. apply Z.mod_small. lia. }
    split; [exact W|].
    assert (Hn : ~ In (M + 1) ids). { intros Hin. specialize (HM _ Hin). lia. }
    repeat split.
    - apply NoDup_snoc; assumption.
    - rewrite in_app_iff. simpl. intros [Hin|[Hin|[]]]; [tauto | lia].
    - rewrite bound_snoc. apply Forall_app. split.
      + eapply Forall_impl; [|exact Hb]. cbn beta. intros; lia.
      + constructor; [lia | constructor].
    - rewrite app_length. simpl. lia.
    - intros x Hin. apply in_app_iff in Hin. simpl in Hin. destruct Hin as [Hin|[<-|[]]]; [specialize (HM _ Hin); lia | lia].
    - lia.
    - rewrite bound_snoc. lia.
  Qed.

  Lemma U_bound_nonneg ids : U ids -> 0 <= bound ids.
  Proof. intros [_ [_ [_ Hl]]]. unfold bound. lia. Qed.

  Lemma FI_of_U funs : U (map f_id funs) -> FI (map f_id funs) (max_fid funs).
  Proof.
    intros HU. split; [exact HU|]. split; [intros x Hx; now apply max_fid_ge|].
    split; [apply max_fid_nonneg|]. apply max_fid_le; [now apply U_bound_nonneg|].
    destruct HU as [_ [_ [Hb _]]]. rewrite Forall_forall in Hb. exact Hb.
  Qed.

  Lemma Hd_anti (a b : list Z) : (List.length a <= List.length b)%nat -> Hd b -> Hd a.
  Proof. unfold Hd, bound. lia. Qed.

  (* every line of the location refers to one of the ids *)
  Definition lines_ok (ids : list Z) (l : location) : Prop := Forall (fun ln => In (ln_fn ln) ids) (l_lines l).

  Lemma lines_ok_mono ids ids' l : (forall x, In x ids -> In x ids') -> lines_ok ids l -> lines_ok ids' l.
  Proof. intros Hs. unfold lines_ok. apply Forall_impl. intros ln. apply Hs. Qed.

  (* ---------------------------------------------------------------- local *)
  Variable ids0 : list Z.
  Definition idsn (new : list function) : list Z := (ids0 ++ map f_id new)%list.

  Lemma idsn_grows a b : grows a b -> (forall x, In x (idsn a) -> In x (idsn b)) /\ (List.length (idsn a) <= List.length (idsn b))%nat.
  Proof.
    intros [ext ->]. unfold idsn. rewrite map_app. split.
    - intros x. rewrite !in_app_iff. tauto.
    - rewrite !app_length. lia.
  Qed.

  Lemma add_function_V new maxid f :
    let r := add_function new maxid f in
    FI (idsn new) maxid -> Hd (idsn (fst (fst r))) ->
    FI (idsn (fst (fst r))) (snd (fst r)) /\ In (snd r) (idsn (fst (fst r))).
  Proof.
    cbn zeta. unfold add_function. destruct (find (fn_same f) new) as [g|] eqn:E; cbn [fst snd].
    - intros HF _. split; [exact HF|]. apply find_some in E. destruct E as [Hin _].
      unfold idsn. apply in_app_iff. right. now apply in_map.
    - unfold idsn. rewrite map_app. cbn [map mk_function f_id]. rewrite app_assoc. intros HF Hh.
      destruct (FI_snoc _ _ HF Hh) as [W HF']. rewrite W. split; [exact HF'|].
      apply in_app_iff. right. now left.
  Qed.

  Definition FIq (s : lst) : Prop := FI (idsn (q_new s)) (q_max s).
  Definition Hq (s : lst) : Prop := Hd (idsn (q_new s)).
  Definition Tq (a b : lst) : Prop := grows (q_new a) (q_new b).

  Lemma Tq_refl s : Tq s s. Proof. apply grows_refl. Qed.
  Lemma Tq_trans a b c : Tq a b -> Tq b c -> Tq a c. Proof. apply grows_trans. Qed.
  Lemma Hq_anti s s' : Tq s s' -> Hq s' -> Hq s.
  Proof. intros HT. apply Hd_anti. apply idsn_grows. exact HT. Qed.

  Lemma sym_frame_V s fr :
    FIq s -> Hq (fst (sym_frame s fr)) ->
    FIq (fst (sym_frame s fr)) /\ In (ln_fn (snd (sym_frame s fr))) (idsn (q_new (fst (sym_frame s fr)))).
  Proof.
    unfold FIq, Hq, sym_frame. cbn [fst snd q_new q_max ln_fn]. intros HF Hh.
    apply add_function_V; assumption.
  Qed.

  Lemma sym_frames_V frs s :
    FIq s -> Hq (fst (mapacc sym_frame s frs)) ->
    FIq (fst (mapacc sym_frame s frs)) /\
    Forall (fun ln => In (ln_fn ln) (idsn (q_new (fst (mapacc sym_frame s frs))))) (snd (mapacc sym_frame s frs)).
  Proof.
    intros HF Hh.
    destruct (mapacc_gen sym_frame FIq Tq (fun s' (_ : frame) ln => In (ln_fn ln) (idsn (q_new s'))) Hq
                Tq_refl Tq_trans) with (l := frs) (s := s) as [I2 R2]; auto.
    - intros s0 s' _ ln HT. apply idsn_grows. exact HT.
    - apply Hq_anti.
    - intros s0 fr. apply sym_frame_facts.
    - intros s0 fr _. apply sym_frame_V.
    - split; [exact I2|]. eapply Forall2_Forall_r; [|exact R2]. auto.
  Qed.

  Lemma sym_loc_V s l :
    FIq s -> Hq (fst (sym_loc s l)) ->
    FIq (fst (sym_loc s l)) /\ (snd (sym_loc s l) = l \/ lines_ok (idsn (q_new (fst (sym_loc s l)))) (snd (sym_loc s l))).
  Proof.
    unfold sym_loc. destruct (negb (l_mapping l =? m_id (q_m s))); [cbn [fst snd]; auto|].
    destruct (a_err _ || is_nil _); [cbn [fst snd]; unfold FIq; cbn [q_new q_max]; auto|].
    cbn [fst snd]. unfold FIq at 2, Hq. cbn [q_new q_max]. intros HF Hh.
    match goal with |- context [mapacc sym_frame ?s0 ?frs] => destruct (sym_frames_V frs s0) as [I2 R2] end.
    - exact HF.
    - exact Hh.
    - split; [exact I2 | right]. unfold lines_ok. cbn [set_lines l_lines]. exact R2.
  Qed.

  Lemma sym_locs_V locs s :
    FIq s -> Hq (fst (mapacc sym_loc s locs)) ->
    FIq (fst (mapacc sym_loc s locs)) /\
    Forall2 (fun l l' => l' = l \/ lines_ok (idsn (q_new (fst (mapacc sym_loc s locs)))) l') locs (snd (mapacc sym_loc s locs)).
  Proof.
    intros HF Hh.
    destruct (mapacc_gen sym_loc FIq Tq (fun s' l l' => l' = l \/ lines_ok (idsn (q_new s')) l') Hq
                Tq_refl Tq_trans) with (l := locs) (s := s) as [I2 R2]; auto.
    - intros s0 s' l l' HT [E|L]; [now left | right]. eapply lines_ok_mono; [|exact L]. apply idsn_grows. exact HT.
    - apply Hq_anti.
    - intros s0 l. apply sym_loc_facts.
    - intros s0 l _. apply sym_loc_V.
  Qed.

  Definition FIg (g : gst) : Prop := FI (idsn (g_new g)) (g_max g) /\ Forall (lines_ok (idsn (g_new g))) (g_locs g).
  Definition Hg (g : gst) : Prop := Hd (idsn (g_new g)).
  Definition Tg (a b : gst) : Prop := grows (g_new a) (g_new b).

  Lemma local_mapping_V force http g m :
    FIg g -> Hg (fst (local_mapping force http g m)) -> FIg (fst (local_mapping force http g m)).
  Proof.
    unfold local_mapping.
    destruct (negb (existsb _ (g_locs g))); [cbn [fst]; auto|].
    destruct (negb force && _); [cbn [fst]; auto|].
    destruct (str_empty (m_file m)); [cbn [fst]; auto|].
    destruct (unsymbolizable m); [cbn [fst]; auto|].
    destruct (str_empty (m_buildid m) && http (m_file m)); [cbn [fst]; auto|].
    destruct (a_err (fst (ask (g_orc g) _))); [cbn [fst]; unfold FIg; cbn [g_new g_max g_locs]; auto|].
    match goal with |- context [if ?c then _ else _] => destruct c end; [cbn [fst]; unfold FIg; cbn [g_new g_max g_locs]; auto|].
    cbn [fst]. unfold FIg at 2, Hg. cbn [g_new g_max g_locs]. intros [HF HL] Hh.
    match goal with |- context [mapacc sym_loc ?s0 ?locs] =>
      destruct (sym_locs_V locs s0) as [I2 R2]; [exact HF | exact Hh |];
      pose proof (mapacc_T sym_loc Tq Tq_refl Tq_trans (fun s l => proj1 (proj2 (sym_loc_facts s l))) locs s0) as TT
    end.
    unfold Tq in TT. cbn [q_new] in TT.
    split; [exact I2|].
    eapply Forall2_Forall_lr; [|exact HL|exact R2]. cbn beta.
    intros l l' Hl [->|Hl']; [|exact Hl']. eapply lines_ok_mono; [|exact Hl]. apply idsn_grows. exact TT.
  Qed.

  Lemma local_mappings_V force http maps g :
    FIg g -> Hg (fst (mapacc (local_mapping force http) g maps)) -> FIg (fst (mapacc (local_mapping force http) g maps)).
  Proof.
    intros HF Hh.
    destruct (mapacc_gen (local_mapping force http) FIg Tg (fun _ _ _ => True) Hg) with (l := maps) (s := g) as [I2 _]; auto.
    - intros s. apply grows_refl.
    - intros a b c. apply grows_trans.
    - intros s s' HT. apply Hd_anti. apply idsn_grows. exact HT.
    - intros s m. apply (local_mapping_facts force http s m).
    - intros s m _ Is Hs. split; [|exact I]. apply local_mapping_V; assumption.
  Qed.
End Ids.

(* ------------------------------------------------------------------ symbolz *)
Section Remote.
  Variables (max0 : Z) (len0 : nat).
  Hypothesis max0_nonneg : 0 <= max0.
  Notation FI := (FI max0 len0).
  Notation U := (U max0 len0).
  Notation Hd := (Hd max0 len0).

  Definition fids (fs : list function) : list Z := map f_id fs.

  Lemma fids_grows a b : grows a b -> (forall x, In x (fids a) -> In x (fids b)) /\ (List.length (fids a) <= List.length (fids b))%nat.
  Proof.
    intros [ext ->]. unfold fids. rewrite map_app. split.
    - intros x. rewrite in_app_iff. tauto.
    - rewrite app_length. lia.
  Qed.

  Definition PI (s : pst) : Prop :=
    FI (fids (ps_funs s)) (ps_max s) /\
    (forall e, In e (ps_names s) -> In (snd e) (fids (ps_funs s))) /\
    (forall e, In e (ps_lines s) -> In (snd e) (fids (ps_funs s))).

  Lemma parse_line_V off s l s' :
    parse_line off s l = Some s' -> PI s -> Hd (fids (ps_funs s')) -> PI s'.
  Proof.
    unfold parse_line. destruct (match_symbolz l) as [[digs name]|]; [|intros E; inversion E; subst; auto].
    destruct (two64 <=? hex_val digs 0); [discriminate|].
    destruct (adjust _ _) as [addr|]; [|discriminate].
    destruct (find _ (ps_names s)) as [e|] eqn:EF; intros E; inversion E; subst; clear E;
      intros [HF [HN HL]]; unfold PI; cbn [ps_funs ps_max ps_names ps_lines].
    - intros _. split; [exact HF | split; [exact HN|]].
      intros e' [<-|Hin]; [|apply HL; exact Hin]. cbn [snd]. apply HN. apply find_some in EF. tauto.
    - unfold fids. rewrite map_app. cbn [map mk_function f_id]. intros Hh.
      destruct (FI_snoc _ _ _ _ HF Hh) as [W HF']. rewrite W.
      split; [exact HF'|].
      split; intros e' [<-|Hin]; cbn [snd]; apply in_app_iff; try (right; now left); left.
      + apply HN; exact Hin.
      + apply HL; exact Hin.
  Qed.

  Lemma parse_lines_V off ls : forall s,
    PI s -> Hd (fids (ps_funs (fst (parse_lines off s ls)))) -> PI (fst (parse_lines off s ls)).
  Proof.
    induction ls as [|l r IH]; intros s HP Hh; cbn [parse_lines] in *; [exact HP|].
    destruct (parse_line off s l) as [s'|] eqn:E; cbn [fst] in *; [|exact HP].
    apply IH; [|exact Hh]. eapply parse_line_V; [exact E | exact HP|].
    eapply Hd_anti; [|exact Hh]. apply fids_grows. apply parse_lines_grows.
  Qed.

  Definition RI (s : rst) : Prop := U (fids (r_funs s)) /\ Forall (lines_ok (fids (r_funs s))) (r_locs s).
  Definition Hr (s : rst) : Prop := Hd (fids (r_funs s)).

  Lemma lines_ok_grows a b locs : grows a b -> Forall (lines_ok (fids a)) locs -> Forall (lines_ok (fids b)) locs.
  Proof. intros G. apply Forall_impl. intros l. apply lines_ok_mono. apply fids_grows. exact G. Qed.

  Lemma symbolize_mapping_V source off m s :
    RI s -> Hr (symbolize_mapping source off m s) -> RI (symbolize_mapping source off m s).
  Proof.
    unfold symbolize_mapping.
    destruct (query_addrs (m_id m) off (r_locs s)) as [[|q0 q]|]; [auto | | unfold RI, Hr; cbn [r_funs r_locs]; auto].
    destruct (a_err _); [unfold RI, Hr; cbn [r_funs r_locs]; auto|].
    intros [HU HL].
    match goal with |- context [parse_lines off ?s0 ?ls] =>
      pose proof (parse_lines_V off ls s0) as PV; pose proof (parse_lines_grows off ls s0) as PG;
      set (pr := parse_lines off s0 ls) in *
    end.
    cbn [ps_funs] in PG.
    assert (PV' : Hd (fids (ps_funs (fst pr))) -> PI (fst pr)).
    { apply PV. split; [apply FI_of_U; assumption|]. cbn [ps_names ps_lines]. split; intros e []. }
    clear PV.
    destruct (snd pr); unfold RI, Hr; cbn [r_funs r_locs]; intros Hh; destruct (PV' Hh) as [[HU' _] [_ HLn]];
      (split; [exact HU'|]).
    - eapply lines_ok_grows; eauto.
    - apply Forall_forall. intros l' Hin. apply in_map_iff in Hin. destruct Hin as [l [<- Hl]].
      rewrite Forall_forall in HL. specialize (HL l Hl).
      unfold apply_line. destruct (l_mapping l =? m_id m); [|eapply lines_ok_mono; [apply fids_grows; exact PG | exact HL]].
      destruct (find _ (ps_lines (fst pr))) as [e|] eqn:EF; [|eapply lines_ok_mono; [apply fids_grows; exact PG | exact HL]].
      unfold lines_ok. cbn [set_lines l_lines]. constructor; [|constructor]. cbn [ln_fn].
      apply HLn. apply find_some in EF. tauto.
  Qed.

  Lemma remote_mapping_V force srcs symz s m :
    RI s -> Hr (fst (remote_mapping force srcs symz s m)) -> RI (fst (remote_mapping force srcs symz s m)).
  Proof.
    unfold remote_mapping.
    destruct (r_err s); [auto|]. destruct (negb force && m_hasfn m); [auto|].
    destruct (find _ _) as [e|]; [|auto].
    destruct (r_err (symbolize_mapping _ _ _ _)); cbn [fst]; apply symbolize_mapping_V.
  Qed.

  Lemma remote_mappings_V force srcs symz maps s :
    RI s -> Hr (fst (mapacc (remote_mapping force srcs symz) s maps)) -> RI (fst (mapacc (remote_mapping force srcs symz) s maps)).
  Proof.
    intros HR Hh.
    destruct (mapacc_gen (remote_mapping force srcs symz) RI (fun a b => grows (r_funs a) (r_funs b)) (fun _ _ _ => True) Hr)
      with (l := maps) (s := s) as [I2 _]; auto.
    - intros s0. apply grows_refl.
    - intros a b c. apply grows_trans.
    - intros s0 s' HT. apply Hd_anti. apply fids_grows. exact HT.
    - intros s0 m. apply (remote_mapping_facts force srcs symz s0 m).
    - intros s0 m _ Is Hs. split; [|exact I]. apply remote_mapping_V; assumption.
  Qed.
End Remote.

(* ------------------------------------------------------------------ Symbolize *)
Definition WV (max0 : Z) (len0 : nat) (w : wst) : Prop :=
  U max0 len0 (fids (w_funs w)) /\ Forall (lines_ok (fids (w_funs w))) (w_locs w).

Lemma local_symbolize_WV force http w :
  WV (max_fid (w_funs w)) (List.length (w_funs w)) w ->
  Hd (max_fid (w_funs w)) (List.length (w_funs w)) (fids (w_funs (local_symbolize force http w))) ->
  WV (max_fid (w_funs w)) (List.length (w_funs w)) (local_symbolize force http w).
Proof.
  intros [HU HL]. unfold local_symbolize, WV. cbn [w_funs w_locs]. unfold fids. rewrite map_app. intros Hh.
  match goal with |- context [mapacc ?f ?g0 ?maps] =>
    destruct (local_mappings_V (max_fid (w_funs w)) (List.length (w_funs w)) (map f_id (w_funs w)) force http maps g0) as [HF HL2]
  end.
  - split; cbn [g_new g_max g_locs]; unfold idsn; cbn [map]; rewrite app_nil_r; [|exact HL].
    split; [exact HU|]. split; [intros x; apply max_fid_ge|]. split; [apply max_fid_nonneg|].
    unfold bound. rewrite map_length. lia.
  - exact Hh.
  - destruct HF as [HU' _]. split; [exact HU' | exact HL2].
Qed.

Lemma remote_symbolize_WV max0 len0 force srcs symz w :
  0 <= max0 -> WV max0 len0 w -> Hd max0 len0 (fids (w_funs (fst (remote_symbolize force srcs symz w)))) ->
  WV max0 len0 (fst (remote_symbolize force srcs symz w)).
Proof.
  intros H0 HW Hh. unfold remote_symbolize in *. cbn [fst w_funs w_locs] in *. unfold WV. cbn [w_funs w_locs].
  apply (remote_mappings_V max0 len0 H0 force srcs symz (w_maps w)); [exact HW | exact Hh].
Qed.

Lemma name_map_fids filt g fs : name_map_ok filt g -> fids (map g fs) = fids fs.
Proof.
  intros [K _]. unfold fids. rewrite map_map. apply map_ext. intros f. specialize (K f). unfold fun_key in K. congruence.
Qed.

Lemma symbolize_w_WV mode e w w' err :
  symbolize_w mode e w = Res w' err ->
  WV (max_fid (w_funs w)) (List.length (w_funs w)) w ->
  Hd (max_fid (w_funs w)) (List.length (w_funs w)) (fids (w_funs w')) ->
  WV (max_fid (w_funs w)) (List.length (w_funs w)) w'.
Proof.
  set (max0 := max_fid (w_funs w)). set (len0 := List.length (w_funs w)).
  unfold symbolize_w. set (mo := parse_mode mode). set (force := mo_force mo).
  destruct (mo_none mo); [intros E; inversion E; subst; auto|].
  set (w1 := if mo_local mo then local_symbolize force (e_http e) w else w).
  set (re := if mo_remote mo then remote_symbolize force (e_srcs e) (e_symz e) w1 else (w1, false)).
  intros E HW Hfin.
  assert (G1 : grows (w_funs w1) (w_funs (fst re))).
  { subst re. destruct (mo_remote mo); [apply remote_symbolize_facts | apply grows_refl]. }
  assert (Hre : fids (w_funs w') = fids (w_funs (fst re)) /\ w_locs w' = w_locs (fst re)).
  { destruct (snd re); [inversion E; subst; auto|].
    destruct (demangle (e_filt e) force (mo_dmode mo) (w_funs (fst re))) as [fs|] eqn:ED; [|discriminate].
    inversion E; subst. cbn [w_funs w_locs].
    destruct (demangle_shape _ _ _ _ _ ED) as [g [-> G]]. split; [eapply name_map_fids; eauto | reflexivity]. }
  destruct Hre as [Ef El]. unfold WV. rewrite Ef, El. rewrite Ef in Hfin.
  assert (H1 : WV max0 len0 w1).
  { subst w1. destruct (mo_local mo); [|exact HW]. apply local_symbolize_WV; [exact HW|].
    eapply Hd_anti; [|exact Hfin]. apply fids_grows. exact G1. }
  subst re. destruct (mo_remote mo); [|exact H1].
  apply remote_symbolize_WV; [apply max_fid_nonneg | exact H1 | exact Hfin].
Qed.

(* ------------------------------------------------------------------ CheckValid *)
Lemma mem_z_in x l : mem_z x l = true <-> In x l.
Proof. apply existsb_eqb_in. Qed.

Lemma check_valid_WV p : check_valid p = true -> WV (max_fid (p_function p)) (List.length (p_function p)) (w_of p []).
Proof.
  unfold check_valid. rewrite !andb_true_iff. intros [[[[_ _] HF] _] HL].
  apply ids_ok_spec in HF. destruct HF as [ND HZ].
  split; cbn [w_of w_funs w_locs]; unfold fids.
  - repeat split; [exact ND | exact HZ | | rewrite map_length; lia].
    apply Forall_forall. intros x Hx. unfold bound. rewrite map_length. pose proof (max_fid_ge _ _ Hx). lia.
  - apply Forall_forall. intros l Hl. rewrite forallb_forall in HL. specialize (HL l Hl).
    unfold loc_ok in HL. apply andb_true_iff in HL. destruct HL as [_ HL].
    apply Forall_forall. intros ln Hln. rewrite forallb_forall in HL. specialize (HL ln Hln).
    apply andb_true_iff in HL. destruct HL as [_ HL]. now apply mem_z_in.
Qed.

Lemma symbolize_valid_lemma mode e script p p' err calls :
  check_valid p = true -> symbolize mode e script p = Out p' err calls -> id_headroom p p' ->
  check_valid p' = true.
Proof.
  intros HV. unfold symbolize. destruct (symbolize_w mode e (w_of p script)) as [w' err'|] eqn:E; [|discriminate].
  intros H; inversion H; subst. clear H. intros Hh.
  pose proof (symbolize_w_shape _ _ _ _ _ E) as [M [L _]]. cbn [w_of w_maps w_locs] in M, L.
  pose proof (symbolize_w_WV _ _ _ _ _ E) as WVf. cbn [w_of w_funs] in WVf.
  destruct WVf as [[ND [HZ _]] HL].
  { destruct (check_valid_WV p HV) as [A B]. split; assumption. }
  { unfold id_headroom in Hh. cbn [with_w p_function] in Hh. unfold Hd, bound, fids. rewrite map_length.
    destruct (symbolize_w_shape _ _ _ _ _ E) as [_ [_ [g [ext [F _]]]]]. cbn [w_of w_funs] in F.
    assert (List.length (p_function p) <= List.length (w_funs w'))%nat by (rewrite F, map_length, app_length; lia).
    lia. }
  revert HV. unfold check_valid. rewrite !andb_true_iff. intros [[[[HS HM] HF] HLo] HLk].
  cbn [with_w p_mapping p_location p_function p_sample p_sampletype].
  assert (Em : map m_id (w_maps w') = map m_id (p_mapping p)).
  { apply Forall2_map_eq. eapply Forall2_impl; [|exact M]. intros a b [K _]. unfold map_key in K. congruence. }
  assert (El : map l_id (w_locs w') = map l_id (p_location p)).
  { apply Forall2_map_eq. eapply Forall2_impl; [|exact L]. intros a b [K _]. unfold loc_key in K. congruence. }
  rewrite Em, El. repeat split; try assumption.
  - apply ids_ok_spec. split; assumption.
  - apply forallb_forall. intros l' Hl'.
    destruct (Forall2_in_r _ _ _ _ L Hl') as [l [Hl [K _]]].
    rewrite forallb_forall in HLk. specialize (HLk l Hl). unfold loc_ok in *.
    apply andb_true_iff in HLk. destruct HLk as [HMp _].
    assert (l_mapping l' = l_mapping l) by (unfold loc_key in K; congruence).
    apply andb_true_iff. split; [congruence|].
    rewrite Forall_forall in HL. specialize (HL l' Hl'). unfold lines_ok in HL. rewrite Forall_forall in HL.
    apply forallb_forall. intros ln Hln. specialize (HL ln Hln). apply andb_true_iff. split.
    + apply negb_true_iff. apply Z.eqb_neq. intros E0. unfold fids in HL. rewrite E0 in HL. tauto.
    + apply mem_z_in. exact HL.
Qed.

Lemma symbolize_frame_projections mode e script p p' err calls :
  symbolize mode e script p = Out p' err calls ->
  p_sample p' = p_sample p /\ map l_addr (p_location p') = map l_addr (p_location p) /\
  map (fun m => (m_start m, m_limit m, m_offset m)) (p_mapping p') = map (fun m => (m_start m, m_limit m, m_offset m)) (p_mapping p).
Proof.
  intros H. destruct (symbolize_frame_lemma _ _ _ _ _ _ _ H) as [S _ L M _]. split; [exact S|]. split.
  - assert (E : forall ls, map l_addr ls = map (fun k => snd k) (map loc_key ls)).
    { intros ls. rewrite map_map. reflexivity. }
    rewrite !E, L. reflexivity.
  - assert (E : forall ms, map (fun m => (m_start m, m_limit m, m_offset m)) ms
                           = map (fun k => (snd (fst (fst (fst (fst k)))), snd (fst (fst (fst k))), snd (fst (fst k)))) (map map_key ms)).
    { intros ms. rewrite map_map. reflexivity. }
    rewrite !E, M. reflexivity.
Qed.
