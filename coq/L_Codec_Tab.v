(* String-table lemmas for preEncode/postDecode (C01). *)
From Coq Require Import Lia ZifyBool.
From PV Require Import M_Codec L_Codec_Wire L_Codec_Msg.
Open Scope string_scope.
Open Scope list_scope.
Open Scope Z_scope.

Definition prefix (a b : list string) : Prop := exists ext, b = a ++ ext.
Lemma prefix_refl a : prefix a a. Proof. exists []. rewrite app_nil_r. reflexivity. Qed.
Lemma prefix_trans a b c : prefix a b -> prefix b c -> prefix a c.
Proof. intros [x ->] [y ->]. exists (x ++ y). rewrite app_assoc. reflexivity. Qed.

(* table invariant: starts with "", no duplicates *)
Definition tab_inv (tab : list string) : Prop := (exists r, tab = "" :: r) /\ NoDup tab.

Lemma index_of_spec s : forall tab i k,
  index_of s tab i = Some k -> i <= k < i + len tab /\ nth_error tab (Z.to_nat (k - i)) = Some s.
Proof.
  induction tab as [|x r IH]; intros i k H; cbn [index_of] in H; [discriminate|].
  destruct (String.eqb_spec x s) as [->|N].
  - inversion H; subst. unfold len. cbn [List.length]. split; [lia|]. rewrite Z.sub_diag. reflexivity.
  - apply IH in H as [H1 H2]. unfold len in *. cbn [List.length]. split; [lia|].
    replace (Z.to_nat (k - i)) with (S (Z.to_nat (k - (i + 1)))) by lia. exact H2.
Qed.

Lemma index_of_none s : forall tab i, index_of s tab i = None -> ~ In s tab.
Proof.
  induction tab as [|x r IH]; intros i H; cbn [index_of] in H; [intros []|].
  destruct (String.eqb_spec x s) as [->|N]; [discriminate|].
  intros [E|I]; [congruence|]. exact (IH _ H I).
Qed.

Lemma index_of_first s : forall tab i, NoDup tab -> forall n, nth_error tab n = Some s ->
  index_of s tab i = Some (i + Z.of_nat n).
Proof.
  induction tab as [|x r IH]; intros i ND n H; [destruct n; discriminate|].
  cbn [index_of]. inversion ND as [|? ? NI ND']; subst.
  destruct n as [|n]; cbn [nth_error] in H.
  - inversion H; subst. rewrite String.eqb_refl. f_equal. lia.
  - destruct (String.eqb_spec x s) as [->|N].
    + exfalso. apply NI. eapply nth_error_In; eauto.
    + rewrite (IH (i + 1) ND' n H). f_equal. lia.
Qed.

Lemma nth_error_prefix a b n (s : string) : prefix a b -> nth_error a n = Some s -> nth_error b n = Some s.
Proof. intros [ext ->] H. rewrite nth_error_app1; [exact H|]. apply nth_error_Some. congruence. Qed.

Lemma NoDup_snoc {A} (l : list A) x : NoDup l -> ~ In x l -> NoDup (l ++ [x]).
Proof.
  intros ND NI. pose proof (Add_app x l []) as AD. rewrite app_nil_r in AD.
  apply (NoDup_Add AD). split; assumption.
Qed.

(* what add_string guarantees *)
Lemma add_string_spec tab s tab' i :
  tab_inv tab -> add_string tab s = (tab', i) ->
  tab_inv tab' /\ prefix tab tab' /\ 0 <= i < len tab' /\ nth_error tab' (Z.to_nat i) = Some s /\
  (i = 0 <-> s = "").
Proof.
  intros [[r ->] ND] H. unfold add_string in H.
  destruct (index_of s ("" :: r) 0) as [k|] eqn:E.
  - inversion H; subst tab' i. destruct (index_of_spec _ _ _ _ E) as [R N].
    split; [split; [eauto|exact ND]|]. split; [apply prefix_refl|]. split; [lia|].
    rewrite Z.sub_0_r in N. split; [exact N|].
    split.
    + intros ->. cbn in N. congruence.
    + intros ->. cbn [index_of] in E. rewrite String.eqb_refl in E. congruence.
  - inversion H; subst tab' i. apply index_of_none in E.
    split; [split; [exists (r ++ [s]); reflexivity|apply (NoDup_snoc ("" :: r)); assumption]|].
    split; [exists [s]; reflexivity|].
    change ("" :: r ++ [s]) with (("" :: r) ++ [s]).
    pose proof (len_nonneg ("" :: r)) as LN.
    split; [unfold len; rewrite app_length; cbn [List.length]; lia|].
    split.
    + unfold len. rewrite Nat2Z.id, nth_error_app2, Nat.sub_diag by lia. reflexivity.
    + split.
      * intros Z0. unfold len in Z0. cbn [List.length] in Z0. lia.
      * intros ->. exfalso. apply E. now left.
Qed.

(* lookup through the final table *)
Lemma get_string_prefix tab tabF i s :
  prefix tab tabF -> 0 <= i -> nth_error tab (Z.to_nat i) = Some s -> get_string tabF i = Ok s.
Proof.
  intros P Hi Hn. pose proof (nth_error_prefix _ _ _ _ P Hn) as NF.
  unfold get_string.
  assert (L : (Z.to_nat i < List.length tabF)%nat) by (apply nth_error_Some; congruence).
  unfold len. replace ((i <? 0) || (Z.of_nat (List.length tabF) <=? i)) with false by lia.
  rewrite NF. reflexivity.
Qed.

(* the combined fact used everywhere below *)
Lemma add_string_get tab s tab' i tabF :
  tab_inv tab -> add_string tab s = (tab', i) -> prefix tab' tabF -> get_string tabF i = Ok s.
Proof.
  intros I H P. destruct (add_string_spec _ _ _ _ I H) as (_ & _ & R & Hn & _).
  eapply get_string_prefix; eauto. lia.
Qed.
