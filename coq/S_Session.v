(* Specification of C10 (each interactive command / web request sees the pristine profile and
   the option values in effect), against the property text. *)
From PV Require Import M_Config M_Session.
Open Scope string_scope.
Open Scope Z_scope.

(* an input of the loop is an option assignment iff its left-hand side names an option *)
Definition is_assignment (e : env) (input : string) : bool :=
  is_configurable e (trim_space (fst (split_eq input ""))).

Definition is_exit (e : env) (input : string) : bool :=
  negb (is_assignment e input) &&
  match fields input with
  | t0 :: _ => String.eqb t0 "exit" || String.eqb t0 "quit" || String.eqb t0 "q"
  | [] => false
  end.

(* the option names a command line's own arguments may override for that command only *)
Definition arg_fields : list string :=
  ["nodecount"; "output"; "sort"; "focus"; "ignore"; "tagfocus"; "tagignore"].

(* checker for one line's report events: (is a report?, got the pristine profile?, same output as
   the same command in a fresh session with the same options?) *)
Definition reports_clean (evs : list (bool * bool * bool)) : bool :=
  forallb (fun e => match e with (is_r, pristine, same) => negb is_r || (pristine && same) end) evs.

Definition state_of (r : config * list event * bool) : config := fst (fst r).
Definition events_of (r : config * list event * bool) : list event := snd (fst r).
Definition exited (r : config * list event * bool) : bool := snd r.

Definition no_report (evs : list event) : Prop :=
  forall ev, In ev evs -> match ev with EReport _ _ => False | _ => True end.
