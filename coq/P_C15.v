(* C15 -- Unit conversion and value formatting preserve magnitude.
   Property theorems only: each is closed by [exact] of a lemma from L_Measure and followed by
   Print Assumptions.  [unit_types] is REGENERATED from /repo on every run (Gen/Gen_UnitTable.v). *)
From Coq Require Import QArith Qabs Qreals.
From Flocq Require Import Core BinarySingleNaN.
From PV Require Import M_Measure M_MeasureF S_Measure L_Measure L_MeasureF_Round Gen.Gen_UnitTable.
Open Scope Z_scope.

(* -- facts about the table the code has now (re-proved whenever the table changes) -- *)
Fixpoint nodupb (l : list string) : bool :=
  match l with [] => true | a :: r => negb (existsb (String.eqb a) r) && nodupb r end.
Definition all_aliases (uts : list unit_type) : list string :=
  flat_map (fun ut => flat_map u_aliases (ut_units ut)) uts.

Theorem table_factors_positive : table_ok unit_types = true.
Proof. vm_compute. reflexivity. Qed.
Print Assumptions table_factors_positive.

(* no spelling is an alias of two units (in particular: of units of two families) *)
(* every canonical unit name (what Scale reports, and what report.selectOutputUnit feeds back as the
   target unit) is itself an accepted spelling of that unit -- also where two names differ only in
   case ("m*GCU" / "M*GCU") *)
Theorem canonical_names_accepted :
  forallb (fun ut => forallb (fun u =>
    match sniff_unit ut (u_name u) with
    | Some w => String.eqb (u_name w) (u_name u) && Qeq_bool (u_factor w) (u_factor u)
    | None => false
    end) (ut_units ut)) unit_types = true.
Proof. vm_compute. reflexivity. Qed.
Print Assumptions canonical_names_accepted.

Theorem aliases_unique : nodupb (all_aliases unit_types) = true.
Proof. vm_compute. reflexivity. Qed.
Print Assumptions aliases_unique.

(* the memory and time families have unit ratios that are whole at two decimals (needed by
   label_monotone); the GCU family's float64 factors (1e-9 ...) do not, and is excluded there *)
Theorem memory_time_centi_integral :
  forallb (fun ut => centi_integral ut || negb (existsb (String.eqb (u_name (ut_default ut))) ["B"; "s"]%string))
          unit_types = true.
Proof. vm_compute. reflexivity. Qed.
Print Assumptions memory_time_centi_integral.

(* -- conversion -- *)
Theorem convert_exact : forall uts x f t ut u v,
  family_of uts f = Some (ut, u) -> is_auto t = false -> sniff_unit ut t = Some v ->
  (fst (scale uts x f t) == inject_Z x * u_factor u / u_factor v)%Q /\ snd (scale uts x f t) = u_name v.
Proof. exact convert_exact_lemma. Qed.
Print Assumptions convert_exact.

Theorem convert_identity : forall uts x f ut u,
  table_ok uts = true -> family_of uts f = Some (ut, u) -> is_auto f = false ->
  (fst (scale uts x f f) == inject_Z x)%Q /\ snd (scale uts x f f) = u_name u.
Proof. exact convert_identity_lemma. Qed.
Print Assumptions convert_identity.

Theorem convert_negation : forall uts x f t,
  table_ok uts = true -> x <> min_int64 -> x <= max_int64 ->
  (fst (scale uts (- x) f t) == - fst (scale uts x f t))%Q /\ snd (scale uts (- x) f t) = snd (scale uts x f t).
Proof. exact convert_negation_lemma. Qed.
Print Assumptions convert_negation.

Theorem never_crosses_families : forall uts x f t ut u,
  table_ok uts = true -> family_of uts f = Some (ut, u) -> In (snd (scale uts x f t)) (names_of ut).
Proof. exact never_crosses_lemma. Qed.
Print Assumptions never_crosses_families.

Theorem unknown_unit_not_known : forall uts x f t,
  family_of uts f = None ->
  (fst (scale uts x f t) == inject_Z x)%Q /\ snd (scale uts x f t) = (if uninteresting t then "" else t)%string.
Proof. exact unknown_unit_lemma. Qed.
Print Assumptions unknown_unit_not_known.

(* -- automatic unit selection -- *)
Theorem auto_picks_largest_ge_one : forall uts x f t ut u,
  table_ok uts = true -> family_of uts f = Some (ut, u) -> is_auto t = true -> 0 <= x ->
  let phys := (inject_Z x * u_factor u)%Q in
  let '(q, name) := scale uts x f t in
  (exists w, In w (ut_units ut) /\ name = u_name w /\ q = (phys / u_factor w)%Q /\ (1 <= q)%Q /\
             forall w', In w' (ut_units ut) -> (1 <= phys / u_factor w')%Q -> (u_factor w' <= u_factor w)%Q)
  \/ ((forall w', In w' (ut_units ut) -> ~ (1 <= phys / u_factor w')%Q) /\
      name = u_name (ut_default ut) /\ q = (phys / u_factor (ut_default ut))%Q).
Proof. exact auto_target_lemma. Qed.
Print Assumptions auto_picks_largest_ge_one.

(* F17: the statement above cannot be extended to MinInt64 via negation on the unchanged tree *)
Theorem auto_min_int64_refuted :
  snd (scale unit_types min_int64 "bytes" "auto") = "B"%string /\
  snd (scale unit_types (min_int64 + 1) "bytes" "auto") = "PB"%string.
Proof. vm_compute. split; reflexivity. Qed.
Print Assumptions auto_min_int64_refuted.

(* -- labels -- *)
Theorem label_readback : forall w p,
  (0 < u_factor w)%Q -> (Qabs (lab w p - Qabs p) <= (1 # 200) * u_factor w)%Q.
Proof. exact lab_close. Qed.
Print Assumptions label_readback.

Theorem label_monotone : forall uts f ut u x y,
  table_ok uts = true -> centi_integral ut = true -> family_of uts f = Some (ut, u) ->
  1 <= x -> x <= y ->
  exists wx wy, In wx (ut_units ut) /\ In wy (ut_units ut) /\
    scale uts x f "auto" = ((inject_Z x * u_factor u / u_factor wx)%Q, u_name wx) /\
    scale uts y f "auto" = ((inject_Z y * u_factor u / u_factor wy)%Q, u_name wy) /\
    (lab wx (inject_Z x * u_factor u) <= lab wy (inject_Z y * u_factor u))%Q.
Proof. exact label_monotone_lemma. Qed.
Print Assumptions label_monotone.

(* -- percentages -- *)
Theorem percentage_abs_ratio : forall v t, t <> 0 ->
  (pct_ratio v t == Qabs (inject_Z v) / Qabs (inject_Z t) * 100)%Q.
Proof. exact pct_ratio_abs. Qed.
Print Assumptions percentage_abs_ratio.

Theorem percentage_sign_blind : forall v t,
  (pct_ratio (- v) t == pct_ratio v t)%Q /\ (pct_ratio v (- t) == pct_ratio v t)%Q.
Proof. exact pct_ratio_sign. Qed.
Print Assumptions percentage_sign_blind.

(* -- the float computation the code performs vs the exact ratio (link M_MeasureF -> M_Measure) -- *)
(* the memory and time families of the current table have whole-number factors below 2^53 *)
Theorem memory_time_factors_whole :
  forallb whole_family_b (firstn 2 unit_types) = true /\ List.length unit_types = 3%nat.
Proof. vm_compute. split; reflexivity. Qed.
Print Assumptions memory_time_factors_whole.

(* in such a family, whatever the target mode (explicit unit, auto, minimum, unknown -> default unit),
   float64(value)*from.Factor/target.Factor is finite and is THE float nearest (ties to even) to the
   exact quotient of the rational model, as long as |value|*from.Factor < 2^53.  Uses the standard
   library's real numbers (axioms listed below; named in the trusted base). *)
Theorem whole_factor_conversion_correctly_rounded : forall ut x from to fu kf,
  whole_family ut -> sniff_unit ut from = Some fu -> u_factor fu = inject_Z kf ->
  (0 < kf < 2 ^ 53) -> (Z.abs x * kf < 2 ^ 53) ->
  exists v w, convert_unit_f ut x from to = Some (v, u_name w) /\
              (In w (ut_units ut) \/ w = ut_default ut) /\
              SF2R radix2 v =
                round radix2 (SpecFloat.fexp 53 1024) ZnearestE
                  (Rdefinitions.Q2R (inject_Z x * u_factor fu / u_factor w)) /\
              F64.is_finite v = true.
Proof. exact convert_unit_f_correctly_rounded. Qed.
Print Assumptions whole_factor_conversion_correctly_rounded.

(* -- non-vacuity: the hypotheses are met by the real table -- *)
Example family_of_kb : exists ut u, family_of unit_types "KiloBytes" = Some (ut, u) /\ u_name u = "kB"%string
                                   /\ centi_integral ut = true.
Proof. vm_compute. eexists. eexists. repeat split. Qed.
Example scale_example : (fst (scale unit_types 2048 "kb" "mb") == 2)%Q /\ snd (scale unit_types 2048 "kb" "mb") = "MB"%string.
Proof. vm_compute. split; reflexivity. Qed.
Example label_example : scaled_label unit_types 1536 "bytes" "auto" = "1.50kB"%string.
Proof. vm_compute. reflexivity. Qed.
Example rounding_hypotheses_met :
  match nth_error unit_types 1 with
  | Some ut => whole_family_b ut &&
               match sniff_unit ut "milliseconds" with
               | Some fu => Qeq_bool (u_factor fu) (inject_Z 1000000) && Pos.eqb (Qden (u_factor fu)) 1
               | None => false
               end
  | None => false
  end = true /\ (Z.abs 3600000 * 1000000 <? 2 ^ 53) = true.
Proof. split; vm_compute; reflexivity. Qed.
