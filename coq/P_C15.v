From PV Require Import M_Measure.
